#!/usr/bin/env python3
"""Regenerate MANIFEST.json from the table below (kept in one place so it stays valid)."""
import json

TECH = "Lean 4 theorems on an executable model + differential correspondence check against the implementation"
CLAIMED = {
 "C02": dict(
   text="Lean 4 theorems on the executable model of Frame/Command text handling: print∘parse = id for every accepted text, parse∘print = id for every well-formed frame (all verbs, seqn, the three address shapes over all ids, any code, 1-48 payload bytes; unbounded strings, symbolic), length field = byte count, the fixed-column re-validation never disagrees, Command._from_attrs rebuilds the frame. Tied to /repo by running model and implementation on ~26k generated frames, single-edit mutants and CLI short forms per run (shape recogniser vs COMMAND_REGEX vs the regenerated regex AST) and by writing packets through the real packet logger and replaying the file through the real FileTransport.",
   note="Trusted: Lean kernel; hand-written isFrameShape recogniser (equality with the generated COMMAND_REGEX AST and with CPython's re is a per-run correspondence obligation, not a theorem); CLI tokenisation (split/upper) and the packet-log line format are covered by the correspondence check and the direct oracle, not by a theorem (partial); datetime.timestamp/fromtimestamp identity is a monitored assumption.",
   ref="DESIGN.md §3 C02"),
 "C04": dict(
   text="Machine-checked proof (Lean 4) on an exact executable model of the codecs incl. IEEE-754 binary64 rounding: temperature words (all 65 536, via complete kernel-evaluated sweeps of round((k/100)*100)=k), percentages/flags (all 256 bytes x 2), counters, booleans, date-times (all valid dates, symbolic), packed timestamps (2000-2099, symbolic), device ids (all 2^24, symbolic), out-of-range refusal. The model is tied to /repo by running model and implementation on the same ~350k operations per run (exhaustive for temps/percent/flags) and diffing; the property oracle is also evaluated directly on the implementation.",
   note="Trusted: Lean kernel; axioms of each theorem are audited per run (subset of propext, Classical.choice, Quot.sound); the hand-written model Model/Codec.lean+Dbl.lean (validated differentially, exhaustively for the 16-bit and 8-bit domains); hexToTemp models the float comparison `temp < -273.15` as `k < -27315` (checked exhaustively against the code). Not modelled: str inputs to hex_from_dtm/hex_from_dts (fromisoformat/strptime), friendly ids, non-ASCII text.",
   ref="DESIGN.md §3 C04"),
}
REASON_TODO = "not yet claimed: model/check under construction (DESIGN.md §6 order of work); the technique is unchanged"

def main():
    props = [json.loads(l) for l in open('/verif/properties.jsonl')]
    checks = []
    for pid, c in sorted(CLAIMED.items()):
        checks.append({"property_id": pid, "quick_cmd": f"./check {pid} --tier quick", "thorough_cmd": f"./check {pid} --tier thorough",
          "evidence_file": f"/verif/evidence/{pid}.json", "replay_cmd_template": f"./check {pid} --replay {{path}}", "engine": "lean-model+corr-harness",
          "level_claimed": {"category": "proof", "text": c["text"], "design_ref": c["ref"]}, "level_note": c["note"],
          "technique": c.get("technique", TECH)})
    na = [{"property_id": p["id"], "reason": REASON_TODO} for p in props if p["id"] not in CLAIMED]
    m = {"version": 1, "setup_cmd": "./setup.sh",
      "hooks": {"guard": "RAMSES_RF_VERIF", "enable": "none needed: all substitutions (virtual clock, mock transport, datetime shim) are made harness-side before import",
                "baseline_off_cmd": "cd /repo && /venv/bin/python -m pytest -ra -q -p no:cacheprovider --timeout=900 --continue-on-collection-errors",
                "source_commits": [], "add_only": True},
      "engines": [{"name": "lean-model+corr-harness", "path": "lean/ + harness/", "serves_properties": sorted(CLAIMED),
                   "kind_free_text": "Lean 4 library (models, theorems) + compiled line-protocol model driver + Python correspondence harness calling the real code"}],
      "checks": checks, "not_applicable": na,
      "notes": "Exit codes: 0 held, 1 VIOLATION, 2 internal error/timeout. VERIF_SEED seeds every random choice."}
    json.dump(m, open('/verif/MANIFEST.json', 'w'), indent=1)
    print("claimed:", sorted(CLAIMED))

main()
