#!/usr/bin/env python3
"""Regenerate MANIFEST.json from the table below (kept in one place so it stays valid)."""
import json

TECH = "Lean 4 theorems on an executable model + differential correspondence check against the implementation"
CLAIMED = {
 "C01": dict(
   text="Lean 4 theorems on the executable model of the receive path (serial CR LF splitting with carry buffer, _str, _normalise, _frame_read, Packet._partition/from_file/__init__ incl. pkt_lifespan and _has_array's asserts, Message._validate's schema lookup + regenerated payload regexes + exception fence, the reader loops): (recv_total) for every text line and either stamp validity the outcome is a packet, PacketInvalid, ValueError or 'not a frame line' - nothing else; (recv_valueError_only_if) ValueError only for an empty frame or undatable stamp; (chunking_irrelevant / serial_stream) for every partition of a byte stream into reads - cuts inside CR LF, 1-byte and empty reads - the lines and final buffer equal those of one read; (stream_independent / file_stream_total) a rejected/blank/chatter line never changes what the following lines deliver; (fence_range, msg_total) at the message stage whatever escapes is exactly what Message._validate never fenced, so the only assumption about unmodelled parsers is ParserClosed, which the check monitors on every generated payload. Tied to /repo by diffing model and implementation on ~34k lines per run (repo logs, every verb/code regex, field-aware mutants, junk, annotations, bad stamps), by replaying generated log files through the real FileTransport and byte streams through the real PortTransport._read_ready (pty) under ~10 partitions each.",
   note="Trusted: Lean kernel; hand-written models (validated differentially incl. outcome classes, lifespans, normalised text); dt.fromisoformat is a parameter (stampOk) supplied per line by the harness; parser bodies are a parameter (ParserClosed monitored, not proved: partial); non-ASCII text is covered by the differential run and the oracle, theorems are stated over List Char with `\\d` = Unicode digit blocks listed in Model/Re.lean; MQTT transport not exercised (same _frame_read).",
   ref="DESIGN.md §3 C01"),
 "C02": dict(
   text="Lean 4 theorems on the executable model of Frame/Command text handling: print∘parse = id for every accepted text, parse∘print = id for every well-formed frame (all verbs, seqn, the three address shapes over all ids, any code, 1-48 payload bytes; unbounded strings, symbolic), length field = byte count, the fixed-column re-validation never disagrees, Command._from_attrs rebuilds the frame. Tied to /repo by running model and implementation on ~26k generated frames, single-edit mutants and CLI short forms per run (shape recogniser vs COMMAND_REGEX vs the regenerated regex AST) and by writing packets through the real packet logger and replaying the file through the real FileTransport.",
   note="Trusted: Lean kernel; hand-written isFrameShape recogniser (equality with the generated COMMAND_REGEX AST and with CPython's re is a per-run correspondence obligation, not a theorem); CLI tokenisation (split/upper) and the packet-log line format are covered by the correspondence check and the direct oracle, not by a theorem (partial); datetime.timestamp/fromtimestamp identity is a monitored assumption.",
   ref="DESIGN.md §3 C02"),
 "C05": dict(
   text="Lean 4 theorems on an executable, history-free decode function (Model/Parsers.lean: the seven array-capable parsers 0009/000A/2309/30C9/2249/22C9/3150 and a heat core 0004/0008/1060/10A0/1260/12B0/1F09/2349, parse_payload, the Message._idx merge, over the regenerated tables and regexes): (array_elementwise) for every array-capable code and ANY number of elements the decode is the in-order list of the element decodes; (elem_idx_consistent) every element reports the index carried in its first byte; (valve_demand_in_unit, temp_in_wire_range) ratios lie in 0..1 and temperatures are k/100 with -27315<=k<=32767. Values are of a Json type, so JSON-ability and determinism of the model are by construction; that the implementation computes this same function under every decoding history is the per-run correspondence check: ~14k frames (every verb/code regex, repo logs, arrays of 1-8 elements) decoded fresh, again in a shuffled order, again after clearing the library's lru caches, and compared with the model for the modelled codes; json.dumps/loads, index consistency, ranges and element-wise decode are also scored directly on the implementation for all codes.",
   note="partial: theorems cover the modelled parsers only (15 codes); for the other ~90 codes only the direct oracle on the implementation applies (determinism under histories, JSON-ability, index = payload[:2], no exception outside PacketInvalid). Clock-dependent text fields (_next_setpoint, _next_sync) are checked to equal packet-time + payload value and then excluded. Trusted: Lean kernel, the hand-written parser models (differentially validated), translator.",
   ref="DESIGN.md §3 C05"),
 "C06": dict(
   text="Lean 4 theorems on the executable model of pkt_header/_ctx/_pkt_idx/_has_array/_has_ctl (over the regenerated code tables) and of the three match predicates of the QoS states: headers are injective in (code, verb, device, context) so packets differing in any of them are never confused; a packet whose header equals a request's expected-reply header has the request's code, the answering verb, the addressed device as source and the same context (soundness), and conversely (completeness); the transmit header of a request is invariant under the gateway substituting its real id for the 18:000730 placeholder (echo recognition). Tied to /repo per run by comparing tx/rx headers of the real Command/Packet on ~10k schema-regex-generated and repo-log frames, and by driving real WantEcho/WantRply state objects on ~2.5k request/echo/reply/near-miss tuples (also scored directly by the property oracle).",
   note="Trusted: Lean kernel; Model/Header.lean + Model/Match.lean (hand-written, validated differentially incl. exception classes); the tables (regenerated by the translator). 1FC9 (binding) headers are modelled but excluded from the soundness/completeness theorems; three 1FC9 defects are recorded as known findings. `context` positions used by the oracle (payload[:2]; 0005/000C [:4]; 0404 [:4]+[10:12]; 0418/3220 [4:6]) are spec-level knowledge in the harness.",
   ref="DESIGN.md §3 C06"),
 "C04": dict(
   text="Machine-checked proof (Lean 4) on an exact executable model of the codecs incl. IEEE-754 binary64 rounding: temperature words (all 65 536, via complete kernel-evaluated sweeps of round((k/100)*100)=k), percentages/flags (all 256 bytes x 2), counters, booleans, date-times (all valid dates, symbolic), packed timestamps (2000-2099, symbolic), device ids (all 2^24, symbolic), out-of-range refusal. The model is tied to /repo by running model and implementation on the same ~350k operations per run (exhaustive for temps/percent/flags) and diffing; the property oracle is also evaluated directly on the implementation.",
   note="Trusted: Lean kernel; axioms of each theorem are audited per run (subset of propext, Classical.choice, Quot.sound); the hand-written model Model/Codec.lean+Dbl.lean (validated differentially, exhaustively for the 16-bit and 8-bit domains); hexToTemp models the float comparison `temp < -273.15` as `k < -27315` (checked exhaustively against the code). Not modelled: str inputs to hex_from_dtm/hex_from_dts (fromisoformat/strptime), friendly ids, non-ASCII text.",
   ref="DESIGN.md §3 C04"),
}
REASON_TODO = "not yet claimed: model/check under construction (DESIGN.md §6 order of work); the technique is unchanged"

def main():
    props = [json.loads(l) for l in open('/verif/properties.jsonl')]
    checks = []
    for pid, c in sorted(CLAIMED.items()):
        checks.append({"property_id": pid, "quick_cmd": f"./check {pid} --tier quick", "thorough_cmd": f"./check {pid} --tier thorough",
          "evidence_file": f"/verif/evidence/{pid}.json", "replay_cmd_template": f"./check {pid} --replay {{path}}", "engine": "lean-model+corr-harness",
          "level_claimed": {"category": "proof", "text": c["text"], "design_ref": c["ref"]}, "level_note": c["note"],
          "technique": c.get("technique", TECH)})
    na = [{"property_id": p["id"], "reason": REASON_TODO} for p in props if p["id"] not in CLAIMED]
    m = {"version": 1, "setup_cmd": "./setup.sh",
      "hooks": {"guard": "RAMSES_RF_VERIF", "enable": "none needed: all substitutions (virtual clock, mock transport, datetime shim) are made harness-side before import",
                "baseline_off_cmd": "cd /repo && /venv/bin/python -m pytest -ra -q -p no:cacheprovider --timeout=900 --continue-on-collection-errors",
                "source_commits": [], "add_only": True},
      "engines": [{"name": "lean-model+corr-harness", "path": "lean/ + harness/", "serves_properties": sorted(CLAIMED),
                   "kind_free_text": "Lean 4 library (models, theorems) + compiled line-protocol model driver + Python correspondence harness calling the real code"}],
      "checks": checks, "not_applicable": na,
      "notes": "Exit codes: 0 held, 1 VIOLATION, 2 internal error/timeout. VERIF_SEED seeds every random choice."}
    json.dump(m, open('/verif/MANIFEST.json', 'w'), indent=1)
    print("claimed:", sorted(CLAIMED))

main()
