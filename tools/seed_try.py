#!/usr/bin/env python3
"""Confirm a seeded change and run the property's check against it.

usage: tools/seed_try.py seeded/<name> [--suite]
  - demo.py must exit 0 on the clean /repo tree and non-zero with patch.diff applied
  - ./check <property> must exit 0 on the clean tree (not re-run here) and 1 with the patch
The patch is applied to /repo's working tree and ALWAYS reverted (git checkout -- .) afterwards.
"""
import json, subprocess, sys, time
from pathlib import Path

VERIF = Path(__file__).resolve().parent.parent
import os
REPO = os.environ.get("SEED_REPO", "/repo")     # (a scratch worktree of /repo, so that seeds can be tried while /repo is busy)
PY = "/venv/bin/python"

def sh(cmd, **kw):
    return subprocess.run(cmd, shell=True, capture_output=True, text=True, **kw)

def main():
    d = Path(sys.argv[1]).resolve()
    meta_p = d / "meta.json"
    meta = json.loads(meta_p.read_text())
    prop = meta["property"]
    assert sh(f"git -C {REPO} status --porcelain --untracked-files=no").stdout.strip() == "", "/repo not clean"
    res = {}
    r = sh(f"cd {d} && PYTHONPATH={REPO}/src timeout 300 {PY} -B demo.py")
    res["demo_clean_exit"] = r.returncode
    a = sh(f"git -C {REPO} apply {d/'patch.diff'}")
    if a.returncode != 0:
        print("patch does not apply:", a.stderr); sys.exit(2)
    try:
        r = sh(f"cd {d} && PYTHONPATH={REPO}/src timeout 300 {PY} -B demo.py")
        res["demo_patched_exit"] = r.returncode
        res["demo_patched_tail"] = (r.stdout + r.stderr)[-600:]
        if "--suite" in sys.argv:
            r = sh(f"cd {REPO} && {PY} -m pytest -q -p no:cacheprovider --timeout=900 -q tests 2>&1 | tail -4")
            res["suite_patched_tail"] = r.stdout[-500:]
        checks = meta.get("checks", [prop])
        res["checks"] = {}
        for c in checks:
            t0 = time.time()
            ev = VERIF / "evidence" / f"{c}.json"          # evidence must describe the UNCHANGED tree: put it back afterwards
            saved = ev.read_text() if ev.exists() else None
            r = sh(f"cd {VERIF} && VERIF_REPO={REPO} VERIF_SEED={meta.get('seed', 0)} ./check {c} --tier quick")
            if saved is not None:
                ev.write_text(saved)
            viol = [l for l in r.stdout.splitlines() if l.startswith("VIOLATION")]
            res["checks"][c] = {"exit": r.returncode, "violation_lines": viol[:3], "wall_s": round(time.time() - t0, 1),
                                "summary": r.stdout.strip().splitlines()[-1:] }
    finally:
        sh(f"git -C {REPO} checkout -- .")
    res["caught"] = any(v["exit"] == 1 for v in res["checks"].values())
    res["confirmed"] = res["demo_clean_exit"] == 0 and res["demo_patched_exit"] != 0
    meta["last_run"] = res
    meta_p.write_text(json.dumps(meta, indent=1))
    print(json.dumps(res, indent=1))

main()
