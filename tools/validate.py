#!/usr/bin/env python3
"""Validate MANIFEST.json and evidence/*.json against the given schemas (run with python3-vt)."""
import json, sys, glob
import jsonschema
ok = True
m = json.load(open('/verif/MANIFEST.json'))
jsonschema.validate(m, json.load(open('/root/.vp/MANIFEST.schema.json')))
es = json.load(open('/root/.vp/EVIDENCE.schema.json'))
for c in m['checks']:
    try:
        jsonschema.validate(json.load(open(c['evidence_file'])), es)
    except Exception as e:
        ok = False; print("BAD", c['evidence_file'], str(e)[:300])
ids = {json.loads(l)['id'] for l in open('/verif/properties.jsonl')}
cl = {c['property_id'] for c in m['checks']}; na = {n['property_id'] for n in m.get('not_applicable', [])}
assert cl | na == ids and not (cl & na), (ids - cl - na, cl & na)
print("valid" if ok else "INVALID", sorted(cl))
