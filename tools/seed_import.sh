#!/bin/bash
# tools/seed_import.sh <Cxx> <name> : import a sub-agent's seeded change from /tmp/seed/out-<Cxx>
set -e
id=$1; name=$2; src=/tmp/seed/out-$id; dst=/verif/seeded/$id-$name
mkdir -p $dst
cp $src/demo.py $dst/; cp $src/notes.md $dst/ 2>/dev/null || true
cd ${SEED_REPO:-/repo}
test -z "$(git status --porcelain --untracked-files=no)" || { echo "/repo dirty"; exit 1; }
if ! git apply $src/patch.diff 2>/dev/null; then
  git apply --3way $src/patch.diff || { echo "PATCH NEEDS MANUAL REBASE"; git checkout -- .; exit 2; }
  git reset -q
fi
git diff > $dst/patch.diff
git checkout -- .
echo "imported to $dst ($(wc -l < $dst/patch.diff) diff lines)"
