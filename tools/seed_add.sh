#!/bin/bash
# tools/seed_add.sh <Cxx> <round-suffix> <name> <what> <needs> : import /tmp/seed/out-<Cxx><suffix>, write meta.json, try it, remove the worktree
set -e
id=$1; suf=$2; name=$3; what=$4; needs=$5
cd /verif
bash tools/seed_import.sh ${id}${suf} $name
mv seeded/${id}${suf}-$name seeded/${id}-$name
python3 - "$id" "$suf" "$name" "$what" "$needs" <<'PY'
import json,sys
id,suf,name,what,needs=sys.argv[1:6]
json.dump({"property":id,"origin":f"sub-agent seed-{id}{suf}","what":what,"needs":needs},open(f"/verif/seeded/{id}-{name}/meta.json","w"),indent=1)
PY
python3 tools/seed_try.py seeded/${id}-$name | python3 -c "
import sys,json
t=sys.stdin.read(); j=json.loads(t[t.index('{'):])
print('confirmed',j['confirmed'],'caught',j['caught'],[(k,v['exit'],v['violation_lines'][:1],v['summary']) for k,v in j['checks'].items()])"
git -C /repo worktree remove --force /tmp/seed/wt-${id}${suf} 2>/dev/null || true
rm -rf /tmp/seed/out-${id}${suf}
