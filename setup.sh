#!/bin/bash
# Build the Lean library (models, proofs, property theorems) and the model driver.  Offline.
set -e
cd "$(dirname "$0")"
mkdir -p evidence replays
cd lean
/venv/bin/python ../tools/extract_tables.py
lake build Ramses ramses-model 2>&1 | grep -v "^✔" | tail -40
test -x .lake/build/bin/ramses-model
echo "setup ok"
