"""Scoring of QoS episodes for C07 / C08 / C09 (the property oracles, on the implementation)."""

from __future__ import annotations

import json
import random

from . import qos
from .common import Check

EPS = 1e-6


def limit_of(c: dict) -> int:
    return 1 + min(c["max_retries"], 3)


def frames_of(ep: qos.Episode, i: int) -> tuple[str, str, str | None]:
    q, r = qos.POOL[ep.calls[i]["cmd"]]
    return q, q.replace(qos.HGI, qos.GWY), r


def notice_time(ep: qos.Episode, res: qos.Result, i: int, t0: float) -> float:
    imp = sorted((k for k, c in enumerate(ep.calls) if qos.HGI not in qos.POOL[c["cmd"]][0][:17] and k in res.started), key=lambda k: (res.started[k], res.seq.get(k, k)))
    notices = [(t, f) for (t, f), call in zip(res.writes, res.write_calls) if call is None and " 7FFF " in f]
    simple = (not ep.alerts_lost and len(notices) == len(imp)
              and not any(kind in ("conn_lost", "conn_lost_made", "pause", "pause_resume") for _t, kind, _a in ep.events))
    if not simple or i not in imp:
        return 20.0
    t_notice = notices[imp.index(i)][0]
    return max(0.0, t_notice + 0.02 - t0) + 0.05


def score_c07(chk: Check, ep: qos.Episode, res: qos.Result) -> None:
    for i, c in enumerate(ep.calls):
        q, echo, reply = frames_of(ep, i)
        if i not in res.outcomes:
            chk.violation("c07.hang", f"call {i} ({q!r}) never finished", {"episode": ep.to_json()})
            continue
        t_done, kind, txt = res.outcomes[i]
        t0 = res.started.get(i, c["t"])
        bound = min(c["timeout"], 20.0)
        if qos.HGI not in q[:17]:
            # "plus only the time taken by a mandatory impersonation notice sent ahead of it" (itself a send, of up to 20 s); when
            # every notice of the episode went out once and was echoed, the time it took is known exactly: from the call to its echo
            bound += notice_time(ep, res, i, t0)
        if t_done - t0 > bound + EPS:
            chk.violation("c07.late", f"call {i} finished after {t_done - t0:.6f}s, timeout {bound}", {"episode": ep.to_json()})
        if kind == "ok":
            if txt not in (echo, reply):
                # the two recorded findings are about a foreign packet with the very header of this command's echo / reply
                # (FOREIGN[3] / FOREIGN[1] for pool command 0); any other wrong packet is something else
                kind2 = (".foreign-same-header-request" if txt == qos.FOREIGN[3] and ep.calls[i]["cmd"] == 0
                         else ".foreign-same-header-reply" if txt == qos.FOREIGN[1] and ep.calls[i]["cmd"] == 0 else "")
                chk.violation("c07.wrong_packet" + kind2, f"call {i} ({q!r}) returned {txt!r}", {"episode": ep.to_json()})
        else:
            if "ProtocolError" not in txt:
                chk.violation("c07.foreign_exception:" + txt.split(":")[0], f"call {i} raised {txt}", {"episode": ep.to_json()})
        chk.count("c07.outcome." + (kind if kind == "ok" else txt.split(":")[0]))


def score_c08(chk: Check, ep: qos.Episode, res: qos.Result) -> None:
    # writes are attributed to the call whose Command object was written (two callers may send equal frames)
    by_call: dict[int, list[float]] = {}
    order: list[int] = []
    for (t, fr), i in zip(res.writes, res.write_calls):
        if i is None:
            continue
        if qos.POOL[ep.calls[i]["cmd"]][0] != fr:
            chk.violation("c08.wrong_frame", f"call {i} wrote {fr!r}", {"episode": ep.to_json()})
        by_call.setdefault(i, []).append(t)
        if not order or order[-1] != i:
            order.append(i)
    cmds = [c["cmd"] for c in ep.calls]
    if len(set(cmds)) != len(cmds):
        chk.count("c08.scored_with_duplicate_frames")
    for i, c in enumerate(ep.calls):
        ws = by_call.get(i, [])
        if len(ws) > limit_of(c):
            chk.violation("c08.over_budget", f"call {i}: {len(ws)} transmissions, limit {limit_of(c)}", {"episode": ep.to_json()})
        if i in res.outcomes and any(w > res.outcomes[i][0] + EPS for w in ws):
            chk.violation("c08.tx_after_outcome", f"call {i} answered at {res.outcomes[i][0]} but transmitted at {ws}", {"episode": ep.to_json()})
    # ... and no fewer, if its timeout allows: a caller is told "failed" before its own deadline only when the
    # budget is spent (or the link / a write failed)
    faults = bool(res.conn_lost_at) or bool(res.paused) or any(v.get("fail") for v in ep.tx.values())
    for i, c in enumerate(ep.calls):
        if faults or i not in res.outcomes or res.outcomes[i][1] != "err" or i not in res.started or c["cmd"] == qos.HEADERLESS:
            continue        # (a command that cannot be sent at all is refused at once: not a transmission that was given up)
        deadline = res.started[i] + min(c["timeout"], 20.0)
        if res.outcomes[i][0] < deadline - 1e-6 and len(by_call.get(i, [])) < limit_of(c):
            # recorded finding: the echo arrives in the loop iteration in which the echo timer runs out, *behind* the timer task's step;
            # the re-transmission already scheduled then finds the FSM waiting for the reply and fails the command with ProtocolFsmError
            # ("Invalid state to send a command") although the frame was echoed and retries remain
            fsm_race = res.outcomes[i][2].startswith("ProtocolFsmError") and ep.hop
            chk.violation("c08.gave_up_early" + (".fsm-error-echo-behind-timer" if fsm_race else ""), f"call {i} (max_retries={c['max_retries']}, timeout={c['timeout']}, called at {res.started[i]}) was failed at "
                          f"{res.outcomes[i][0]} after {len(by_call.get(i, []))} of {limit_of(c)} transmissions: {res.outcomes[i][2][:60]}",
                          {"episode": ep.to_json()})
    # "with the wait doubling after each unanswered attempt": a command is re-transmitted only when a wait has run out, and the
    # shortest wait is the echo / reply timeout itself (0.5 s)
    for i, ws in by_call.items():
        for a, b in zip(ws, ws[1:]):
            if b - a < 0.5 - 1e-6:
                chk.violation("c08.retry_too_soon", f"call {i} was transmitted at {a:.6f} and again at {b:.6f}, {b - a:.6f} s later: no wait of the back-off "
                              "schedule is that short", {"episode": ep.to_json()})
                break
    if len(order) != len(set(order)):
        chk.violation("c08.interleaved", f"transmission order {order}: a command was resumed after another started", {"episode": ep.to_json()})
    for a, b in zip(order, order[1:]):
        if a in res.outcomes and by_call[b][0] < res.outcomes[a][0] - EPS:
            chk.violation("c08.two_in_flight", f"call {b} first transmitted at {by_call[b][0]} while call {a} was answered only at {res.outcomes[a][0]}",
                          {"episode": ep.to_json()})
    # priority then FIFO among commands that were queued together
    started = {i: by_call[i][0] for i in by_call}
    for i in started:
        for j in started:
            if i == j or not qos.is_plain(ep.calls[i]["cmd"]) or not qos.is_plain(ep.calls[j]["cmd"]):
                continue   # (a command sent in another device's name joins the queue only after its notice has gone out)
            ti, tj = res.started.get(i, 0), res.started.get(j, 0)
            both_queued_before = max(ti, tj) < min(started[i], started[j]) - EPS
            pi, pj = (0 if ep.calls[k]["prio"] is None else ep.calls[k]["prio"] for k in (i, j))      # (no preference = the default priority)
            first = (pi, res.seq.get(i, i)) < (pj, res.seq.get(j, j))
            if both_queued_before and first and started[i] > started[j] + EPS and not res.conn_lost_at:
                chk.violation("c08.order", f"call {i} (prio {ep.calls[i]['prio']}, queued {ti}) started at {started[i]} after call {j} "
                              f"(prio {ep.calls[j]['prio']}, queued {tj}) at {started[j]}", {"episode": ep.to_json()})
    chk.count("c08.scored")


def score_c08_exact(chk: Check, max_retries: int, timeout: float, res: qos.Result, ep: qos.Episode) -> None:
    """A lone command that never gets an echo: exact budget and doubling waits."""
    lim = 1 + min(max_retries, 3)
    want = [0.0, 0.5, 1.5, 3.5][:lim]
    fail_at = [0.5, 1.5, 3.5, 7.5][lim - 1]
    got = [round(t, 6) for t, fr in res.writes if fr == qos.POOL[ep.calls[0]["cmd"]][0]]
    cap = min(timeout, 20.0)
    if cap >= fail_at:
        if got != want:
            chk.violation("c08.exact_budget", f"max_retries={max_retries} timeout={timeout}: transmissions at {got}, expected {want}", {"episode": ep.to_json()})
        if 0 in res.outcomes and abs(res.outcomes[0][0] - fail_at) > EPS:
            chk.violation("c08.fail_time", f"max_retries={max_retries}: failed at {res.outcomes[0][0]}, expected {fail_at}", {"episode": ep.to_json()})
    else:
        exp = [t for t in want if t < cap - EPS]
        if got != exp:
            chk.violation("c08.exact_budget_short", f"max_retries={max_retries} timeout={timeout}: transmissions at {got}, expected {exp}", {"episode": ep.to_json()})


def score_c09(chk: Check, ep: qos.Episode, res: qos.Result) -> None:
    if res.deadlock:
        chk.violation("c09.wedged", "the event loop would block for ever (lock re-acquired while held) or is deadlocked", {"episode": ep.to_json()})
    for e in res.loop_errors:
        chk.violation("c09.loop_error:" + type(e).__name__, f"unhandled in the event loop: {type(e).__name__}: {str(e)[:120]}", {"episode": ep.to_json()})
    if len(res.outcomes) != len(ep.calls) and not res.deadlock:
        chk.violation("c09.unanswered", f"{len(ep.calls) - len(res.outcomes)} caller(s) never answered", {"episode": ep.to_json()})
    if not res.deadlock:
        if res.final_state not in ("IsInIdle", "Inactive"):
            chk.violation("c09.not_idle", f"at rest the sender is {res.final_state}", {"episode": ep.to_json()})
        # idle - or inactive if (and only if) disconnected
        connected = not res.conn or res.conn[-1][1] == "made"
        if res.final_state == "IsInIdle" and not connected:
            chk.violation("c09.idle_while_disconnected", "the transport is gone (connection_lost, no reconnect) yet the sender is IsInIdle, not Inactive: "
                          "it accepts and dequeues commands for a transport that does not exist", {"episode": ep.to_json()})
        if res.final_state == "Inactive" and connected:
            chk.violation("c09.inactive_while_connected", "the transport is connected yet at rest the sender is Inactive", {"episode": ep.to_json()})
        if res.final_inflight:
            chk.violation("c09.inflight_residue", f"at rest a command is still in flight: {res.final_inflight}", {"episode": ep.to_json()})
        if res.lock_held:
            chk.violation("c09.lock_held", "at rest the buffer lock is still held", {"episode": ep.to_json()})
        if res.probe and res.probe[0] != "ok":
            chk.violation("c09.probe_failed", f"a fresh command to a responsive device failed: {res.probe[1]}", {"episode": ep.to_json()})
    chk.count("c09.final." + (res.final_state or "?"))


def run_prop(chk: Check, which: str) -> None:
    from . import rt

    rt.quiet()
    rnd = random.Random(chk.seed * 7919 + {"C07": 1, "C08": 2, "C09": 3}[which])
    thorough = chk.tier == "thorough"
    n = 60000 if thorough else 2500
    chk.rule = (
        "episodes of 1-5 concurrent callers (9 commands: RQ/W/I, 0418/0006 incl.; priorities; max_retries 0-5; timeouts incl. "
        "values within 1 ns of the echo/reply timers; wait_for_reply None/True/False; the three gateway QoS modes) against a "
        "scripted transport: per-transmission echo/reply lost / prompt / late / duplicated / reply-before-echo, write failures, "
        "foreign packets with equal or incomputable headers, disconnects and reconnects at arbitrary and at timer-coincident "
        "instants; real PortProtocol + ProtocolContext under a virtual-time event loop; every episode is scored by the "
        "property oracle; non-trivial = distinct episode in which at least one frame was transmitted"
    )
    for k in range(n):
        ep = qos.gen_episode(rnd, fine=True)
        res = qos.run_episode(ep)
        chk.evaluations += 1
        if res.writes:
            chk.nontrivial.add(json.dumps(ep.to_json(), sort_keys=True))
        if which == "C07":
            score_c07(chk, ep, res)
        elif which == "C08":
            score_c08(chk, ep, res)
        else:
            score_c09(chk, ep, res)
        if k < 2:
            chk.sample({"episode": ep.to_json(), "writes": [(round(t, 6), f[:40]) for t, f in res.writes][:8],
                        "outcomes": {i: (round(o[0], 6), o[1], o[2][:50]) for i, o in res.outcomes.items()}, "final": res.final_state})
    if which == "C07":
        # a write that fails with a low-level exception (a dying port), at the first transmission or at a re-transmission
        for cmd in (0, 4, 5, 9):
            for kind in ("oserror", "attr"):
                for at in (1, 2):
                    for mode in (None, False):
                        ep = qos.Episode()
                        ep.mode = mode
                        ep.calls = [{"t": 0.0, "cmd": cmd, "prio": 0, "max_retries": 2, "timeout": 6.0, "wfr": None}]
                        for nn in range(1, 6):
                            ep.tx[(cmd, nn)] = {"echo": None if nn < at else 0.02, "reply": 0.05, "dup": False, "fail": kind if nn == at else False}
                        res = qos.run_episode(ep)
                        chk.evaluations += 1
                        chk.nontrivial.add(json.dumps(ep.to_json(), sort_keys=True))
                        score_c07(chk, ep, res)
        # two devices are impersonated at once: a command is in flight (stuck for a while), plain commands of the lowest priority are
        # queued, the first impersonated command too (lowest priority); the second caller asks for HIGH priority with a short timeout.
        # Its notice (DEFAULT priority) and its command overtake what is queued at a lower priority: it is answered within its timeout
        # plus the time its own notice took - which starts when the command in flight at the time of the call is done
        for t2 in (2.0, 1.0, 3.0):
            for n_lost in (1, 2):
                for mode in (None, False):
                    ep = qos.Episode()
                    ep.mode = mode
                    ep.calls = [{"t": 0.0, "cmd": 0, "prio": 0, "max_retries": 3, "timeout": 20.0, "wfr": None}]
                    ep.calls += [{"t": 0.001 * (k + 1), "cmd": qos.N_POOL_CLASSIC + k, "prio": 4, "max_retries": 3, "timeout": 20.0, "wfr": None} for k in range(6)]
                    ep.calls += [{"t": 0.01, "cmd": 9, "prio": 4, "max_retries": 3, "timeout": 20.0, "wfr": None},
                                 {"t": 0.02, "cmd": 10, "prio": -2, "max_retries": 3, "timeout": t2, "wfr": None}]
                    for c in ep.calls:
                        for nn in range(1, 8):
                            lost = (c["cmd"] == 0 and nn <= n_lost) or (c["cmd"] >= qos.N_POOL_CLASSIC and nn == 1)
                            ep.tx[(c["cmd"], nn)] = {"echo": None if lost else 0.02, "reply": None if lost else 0.05, "dup": False, "fail": False}
                    res = qos.run_episode(ep)
                    chk.evaluations += 1
                    chk.nontrivial.add(json.dumps(ep.to_json(), sort_keys=True))
                    score_c07(chk, ep, res)
                    last = len(ep.calls) - 1
                    if 0 in res.outcomes and last in res.outcomes:
                        t_free = res.outcomes[0][0]
                        t_done = res.outcomes[last][0]
                        allowed = max(t_free, res.started[last]) + 0.3 + min(t2, 20.0)     # (two notices and an echo: 3 x 0.04 s, rounded up)
                        if t_done > allowed:
                            chk.violation("c07.late.behind_lower_priority", f"the HIGH-priority impersonated send (timeout {t2}) called at {res.started[last]:.3f} was answered at "
                                          f"{t_done:.3f}; the command in flight at the call was done at {t_free:.3f}, everything else queued was of a lower priority",
                                          {"episode": ep.to_json()})
        # every foreign packet of the list while each command waits for its echo (0.01 s) / for its reply (0.1 s)
        for cmd in range(qos.N_PLAIN):
            for k in range(len(qos.FOREIGN)):
                for at in (0.01, 0.1):
                    for wfr, mode in ((True, False), (None, None)):
                        ep = qos.Episode()
                        ep.mode = mode
                        ep.calls = [{"t": 0.0, "cmd": cmd, "prio": 0, "max_retries": 0, "timeout": 5.0, "wfr": wfr}]
                        ep.tx[(cmd, 1)] = {"echo": 0.05, "reply": 0.3, "dup": False, "fail": False}
                        ep.events = [(at, "foreign", k)]
                        res = qos.run_episode(ep)
                        chk.evaluations += 1
                        chk.nontrivial.add(json.dumps(ep.to_json(), sort_keys=True))
                        score_c07(chk, ep, res)
    if which == "C09":
        # the echo (late, or a duplicate) arrives in the very iteration in which the echo / reply timer runs out - just before, with, or
        # just behind it - for commands that await a reply and have retries left; the reply follows within the second
        for cmd, wfr, mode in ((0, True, False), (5, None, None), (8, None, None), (4, True, False), (1, True, None)):
            for base in (0.5, 1.0):
                for d in (-1e-9, -5e-10, 0.0, 5e-10, 1e-9, 2e-9):
                    for rp, hop in ((0.1, False), (0.3, True), (0.8, True), (0.1, True)):
                        ep = qos.Episode()
                        ep.mode = mode
                        ep.hop = hop
                        ep.calls = [{"t": 0.0, "cmd": cmd, "prio": 0, "max_retries": 3, "timeout": 20.0, "wfr": wfr}]
                        if base == 0.5:      # the first echo itself is that late
                            ep.tx[(cmd, 1)] = {"echo": 0.5 + d, "reply": 0.5 + rp, "dup": False, "fail": False}
                        else:                # echo prompt, no reply: the reply timer (0.02 + 0.5) runs out as a duplicate echo arrives
                            ep.tx[(cmd, 1)] = {"echo": 0.02, "reply": None, "dup": False, "fail": False}
                            ep.events = [(0.52 + d, "foreign", 0)]
                        for nn in range(2, 8):
                            ep.tx[(cmd, nn)] = {"echo": 0.02, "reply": rp, "dup": nn == 2, "fail": False}
                        res = qos.run_episode(ep)
                        chk.evaluations += 1
                        chk.nontrivial.add(json.dumps(ep.to_json(), sort_keys=True))
                        score_c09(chk, ep, res)
    if which in ("C07", "C09"):
        # a faked device's command whose impersonation notice fails (no echo, every transmission), then further commands in
        # faked devices' names and in the gateway's own
        for lost in (1, 4, 8):
            for second in (9, 10, 0):
                for gap in (0.01, 6.0, 12.0):
                    ep = qos.Episode()
                    ep.mode = None
                    ep.alerts_lost = lost
                    ep.calls = [{"t": 0.0, "cmd": 9, "prio": 0, "max_retries": 3, "timeout": 20.0, "wfr": None},
                                {"t": gap, "cmd": second, "prio": 0, "max_retries": 3, "timeout": 20.0, "wfr": None},
                                {"t": gap + 20.0, "cmd": 10, "prio": 0, "max_retries": 3, "timeout": 20.0, "wfr": None}]
                    res = qos.run_episode(ep)
                    chk.evaluations += 1
                    chk.nontrivial.add(json.dumps(ep.to_json(), sort_keys=True))
                    (score_c07 if which == "C07" else score_c09)(chk, ep, res)
    if which in ("C07", "C09"):
        # more callers than the send buffer holds (32), behind a command whose echoes are lost: the surplus is refused with a
        # protocol error, everybody is answered, the sender comes to rest
        for n_calls, spread in ((34, 0.0), (40, 0.0), (36, 0.4), (48, 2.0)):
            ep = qos.Episode()
            ep.mode = False
            plain = [i for i in range(len(qos.POOL)) if qos.is_plain(i)]
            ep.calls = [{"t": round(spread * k / n_calls, 4), "cmd": plain[k % len(plain)], "prio": (0, 2, -2)[k % 3], "max_retries": 1,
                         "timeout": 3.0 if k % 5 else 20.0, "wfr": None} for k in range(n_calls)]
            for c in plain:
                for nn in range(1, 12):
                    ep.tx[(c, nn)] = {"echo": None if (c == plain[0] and nn <= 3) else 0.02, "reply": 0.05, "dup": False, "fail": False}
            res = qos.run_episode(ep)
            chk.evaluations += 1
            chk.nontrivial.add(json.dumps(ep.to_json(), sort_keys=True))
            (score_c07 if which == "C07" else score_c09)(chk, ep, res)
            chk.count("flood.refused", sum(1 for o in res.outcomes.values() if o[1] == "err"))
    if which == "C08":
        # long queues of mixed priorities behind a command whose echoes are lost, callers giving up while queued, late arrivals
        for k in range(6000 if thorough else 500):
            ep = qos.gen_jam(rnd)
            res = qos.run_episode(ep)
            chk.evaluations += 1
            chk.nontrivial.add(json.dumps(ep.to_json(), sort_keys=True))
            score_c08(chk, ep, res)
            chk.count("c08.jam.abandoned_in_queue", sum(1 for i in res.outcomes if i not in {w for w in res.write_calls if w is not None}))
        # a caller that gives up while still queued, between a command in flight and a live one behind it, all echoes
        # lost: the one in flight and the one behind are each sent exactly 1 + min(max_retries, 3) times, the dead one never
        for mr_a, mr_b, mr_c in ((0, 3, 3), (3, 0, 3), (3, 3, 0), (1, 5, 2), (2, 0, 5), (0, 0, 1), (5, 1, 0)):
            for b_timeout in (0.3, 1.0, 2.5):
                ep = qos.Episode()
                ep.mode = False
                ep.calls = [{"t": 0.0, "cmd": 0, "prio": 0, "max_retries": mr_a, "timeout": 20.0, "wfr": None},
                            {"t": 0.01, "cmd": 3, "prio": 0, "max_retries": mr_b, "timeout": b_timeout, "wfr": None},
                            {"t": 0.02, "cmd": 6, "prio": 0, "max_retries": mr_c, "timeout": 20.0, "wfr": None}]
                for cmd in (0, 3, 6):
                    for nn in range(1, 8):
                        ep.tx[(cmd, nn)] = {"echo": None, "reply": None, "dup": False, "fail": False}
                res = qos.run_episode(ep)
                chk.evaluations += 1
                score_c08(chk, ep, res)
                fail_a = [0.5, 1.5, 3.5, 7.5][limit_of(ep.calls[0]) - 1]
                counts = [sum(1 for i in res.write_calls if i == k) for k in range(3)]
                # (the second command's own count depends on where the back-off stands when it starts: only bounded here)
                want = [limit_of(ep.calls[0]), counts[1], limit_of(ep.calls[2])]
                if b_timeout <= fail_a + 1e-6:
                    want[1] = 0
                if counts != want or counts[1] > limit_of(ep.calls[1]):
                    chk.violation("c08.exact_budget_queue", f"max_retries {mr_a}/{mr_b}/{mr_c}, the second caller gives up after {b_timeout} s: "
                                  f"transmissions per command {counts}, expected {want}", {"episode": ep.to_json()})
        # a caller gives up while its command is in flight; the next command's echoes are lost: its re-transmissions keep to the
        # back-off schedule and its budget is exact (nothing of the abandoned command's timers is left to interfere)
        for a_timeout in (0.1, 0.3, 0.45, 0.7, 1.2):
            for mr_b in (1, 2, 3):
                for b_at in (0.01, 0.2):
                    ep = qos.Episode()
                    ep.mode = False
                    ep.calls = [{"t": 0.0, "cmd": 0, "prio": 0, "max_retries": 3, "timeout": a_timeout, "wfr": None},
                                {"t": b_at, "cmd": 3, "prio": 0, "max_retries": mr_b, "timeout": 20.0, "wfr": None}]
                    for cmd in (0, 3):
                        for nn in range(1, 8):
                            ep.tx[(cmd, nn)] = {"echo": None, "reply": None, "dup": False, "fail": False}
                    res = qos.run_episode(ep)
                    chk.evaluations += 1
                    score_c08(chk, ep, res)
                    n_b = sum(1 for i in res.write_calls if i == 1)
                    if n_b != limit_of(ep.calls[1]):
                        chk.violation("c08.exact_budget_after_abandoned", f"the first caller gives up after {a_timeout} s with its command in flight; the second "
                                      f"command (max_retries={mr_b}, all echoes lost) was transmitted {n_b} times, expected {limit_of(ep.calls[1])}", {"episode": ep.to_json()})
        # echoed every time, never answered, the reply being awaited: sent exactly 1 + min(max_retries, 3) times
        for mr in range(0, 6):
            for cmd, wfr, mode in ((0, True, False), (4, True, False), (5, None, None), (8, None, None), (5, True, False), (1, True, None)):
                for echo in (0.02, 0.1, 0.45):
                    ep = qos.Episode()
                    ep.mode = mode
                    ep.calls = [{"t": 0.0, "cmd": cmd, "prio": 0, "max_retries": mr, "timeout": 20.0, "wfr": wfr}]
                    for nn in range(1, 12):
                        ep.tx[(cmd, nn)] = {"echo": echo, "reply": None, "dup": False, "fail": False}
                    res = qos.run_episode(ep)
                    chk.evaluations += 1
                    score_c08(chk, ep, res)
                    from . import qos_model
                    if not qos_model.need_reply(mode, qos.POOL[cmd][0], wfr):
                        continue
                    n_tx = sum(1 for i in res.write_calls if i == 0)
                    if n_tx != limit_of(ep.calls[0]):
                        chk.violation("c08.exact_budget_unanswered", f"max_retries={mr}, echoed after {echo} s every time, never answered (reply awaited): "
                                      f"{n_tx} transmissions, expected {limit_of(ep.calls[0])}", {"episode": ep.to_json()})
        for mr in range(0, 6):
            for timeout in (20.0, 30.0, 7.5, 5.0, 3.5, 1.0, 0.4):
                for cmd in (0, 4, 7):
                    ep = qos.Episode()
                    ep.mode = False
                    ep.calls = [{"t": 0.0, "cmd": cmd, "prio": 0, "max_retries": mr, "timeout": timeout, "wfr": None}]
                    for nn in range(1, 8):
                        ep.tx[(cmd, nn)] = {"echo": None, "reply": None, "dup": False, "fail": False}
                    res = qos.run_episode(ep)
                    chk.evaluations += 1
                    score_c08_exact(chk, mr, timeout, res, ep)
