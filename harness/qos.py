"""Rig for the QoS send machine: real PortProtocol + ProtocolContext over a scripted fake
transport, under the virtual-time loop.  Used by C07, C08, C09."""

from __future__ import annotations

import asyncio
import random
from datetime import datetime as real_dt, timedelta as td

from . import vloop

GWY = "18:006402"
HGI = "18:000730"
CTL = "01:145038"
OTH = "01:223036"

# (request frame, reply frame or None)
POOL = [
    (f"RQ --- {HGI} {CTL} --:------ 2309 001 00", f"RP --- {CTL} {GWY} --:------ 2309 003 0007D0"),
    (f"RQ --- {HGI} {CTL} --:------ 2309 001 01", f"RP --- {CTL} {GWY} --:------ 2309 003 0107D0"),
    (f"RQ --- {HGI} {CTL} --:------ 2309 001 02", f"RP --- {CTL} {GWY} --:------ 2309 003 0207D0"),
    (f"RQ --- {HGI} {CTL} --:------ 30C9 001 00", f"RP --- {CTL} {GWY} --:------ 30C9 003 0007D0"),
    (f" W --- {HGI} {CTL} --:------ 2309 003 0107D0", f" I --- {CTL} {GWY} --:------ 2309 003 0107D0"),
    (f"RQ --- {HGI} {CTL} --:------ 0418 003 000001", f"RP --- {CTL} {GWY} --:------ 0418 022 004001B0040000000000CE6FB9F87FFFFF7000000001"),
    (f"RQ --- {HGI} {OTH} --:------ 2309 001 00", f"RP --- {OTH} {GWY} --:------ 2309 003 0007D0"),
    (f" I --- {HGI} {CTL} --:------ 0008 002 00C8", None),
    (f"RQ --- {HGI} {CTL} --:------ 0006 001 00", f"RP --- {CTL} {GWY} --:------ 0006 004 00050009"),
    # sent in another device's name (impersonation): a notice goes out ahead of it
    (f" I --- 04:111111 --:------ {CTL} 2309 003 0307D0", None),
    (f"RQ --- 30:111111 {CTL} --:------ 30C9 001 03", f"RP --- {CTL} 30:111111 --:------ 30C9 003 0307D0"),
]
N_PLAIN = 9   # the first nine pool commands are sent in the gateway's own name
# more commands in the gateway's own name, for long queues (`gen_jam`); appended so that the indices above stay put
for _z in range(8):
    POOL.append((f"RQ --- {HGI} {CTL} --:------ 000A 001 {_z:02X}", f"RP --- {CTL} {GWY} --:------ 000A 006 {_z:02X}1001F40DAC"))
N_POOL_CLASSIC = 11       # gen_episode draws from the first eleven (nine plain + two impersonating)
# a schema-valid command whose QoS header cannot be computed (index 01 to a device that has no zones): it can be matched to no echo
POOL.append((f"RQ --- {HGI} 32:123456 --:------ 2411 003 010052", None))
HEADERLESS = len(POOL) - 1
# commands the public constructors build (get_mix_valve_params, get_relay_demand for a zone, get_tpi_params for a heating
# valve, get_schedule_fragment for a DHW that has no schedule) whose echo or reply the *message* layer does not accept (no
# such verb / index / shape in its schema) although its QoS header is computable: the exchange is correlated all the same
MSG_REJECTED = []
for _q, _r in ((f"RQ --- {HGI} {CTL} --:------ 1030 001 01", f"RP --- {CTL} {GWY} --:------ 1030 016 01C80137C9010FCA0196CB010FCC0101"),
               (f"RQ --- {HGI} {CTL} --:------ 0008 001 03", f"RP --- {CTL} {GWY} --:------ 0008 002 03C8"),
               (f"RQ --- {HGI} {CTL} --:------ 1100 001 F9", f"RP --- {CTL} {GWY} --:------ 1100 008 F9180400007FFF01"),
               (f"RQ --- {HGI} {CTL} --:------ 0404 007 00230008000100", f"RP --- {CTL} {GWY} --:------ 0404 007 002300080001FF")):
    POOL.append((_q, _r))
    MSG_REJECTED.append(len(POOL) - 1)


def is_plain(cmd: int) -> bool:
    return (cmd < N_PLAIN or cmd >= N_POOL_CLASSIC) and cmd != HEADERLESS
FOREIGN = [
    f" I --- {CTL} --:------ {CTL} 1F09 003 FF073F",
    f"RP --- {CTL} 18:999999 --:------ 2309 003 0007D0",       # same header as a reply, other gateway
    f"RP --- {CTL} {GWY} --:------ 2309 003 0307D0",            # another zone
    f"RQ --- 18:999999 {CTL} --:------ 2309 001 00",            # same header as our request, foreign sender
    f" I --- 04:111111 --:------ 04:111111 30C9 003 0107D0",    # header cannot be computed (idx 01, no controller)
    f" I --- 04:111111 --:------ {CTL} 30C9 003 0007D0",
    # a null fault-log entry (what a controller answers for any index beyond its log) from ANOTHER controller
    f"RP --- {OTH} {GWY} --:------ 0418 022 000000B0000000000000000000007FFFFF7000000000",
    f"RP --- {OTH} 18:999999 --:------ 0418 022 000000B0000000000000000000007FFFFF7000000000",
]


class VClockDt(real_dt):
    """datetime whose now() is base + virtual time (+ a strictly increasing microsecond counter)."""

    _loop = None
    _n = 0
    _base = real_dt(2024, 1, 1, 12, 0, 0)

    coarse = False      # a wall clock of 1/64 s resolution (time.time() of CPython <= 3.12 on Windows): stamps tie

    @classmethod
    def now(cls, tz=None):
        cls._n += 1
        t = cls._loop.time() if cls._loop else 0.0
        if cls.coarse:
            return cls._base + td(microseconds=int(t * 64) * 15625)
        return cls._base + td(seconds=t, microseconds=cls._n)


class Tagged(str):
    """A frame text that remembers which call it belongs to (two callers may send equal frames)."""

    call: int | None = None


class WouldBlockForever(BaseException):
    """threading.Lock.acquire() on a lock this (only) thread already holds."""


class TripLock:
    """Stand-in for the context's threading.Lock: same semantics on one thread, except that the
    acquire that would block the event loop for ever raises instead (so the check can go on)."""

    def __init__(self) -> None:
        self._held = False
        self.tripped = False

    def acquire(self, blocking=True, timeout=-1):
        if self._held:
            self.tripped = True
            raise WouldBlockForever("ProtocolContext._lock.acquire() would block the event loop for ever")
        self._held = True
        return True

    def __enter__(self):
        self.acquire()
        return self

    def __exit__(self, *a):
        self.release()
        return False

    def release(self):
        if not self._held:
            raise RuntimeError("release unlocked lock")
        self._held = False

    def locked(self):
        return self._held


class Episode:
    def __init__(self) -> None:
        self.mode = None            # disable_qos: None / True / False
        self.calls: list[dict] = [] # {t, cmd (pool idx), prio, max_retries, timeout, wfr}
        self.tx: dict = {}          # (pool idx, n-th transmission) -> {echo, reply, dup, fail}
        self.events: list = []      # (t, kind, arg)
        self.probe = True
        self.coarse_clock = False   # datetime.now() with 1/64 s resolution: queue entries' time stamps tie
        self.hop = False            # packets reach the protocol through one call_soon hop (as from the real transports)
        self.alerts_lost = 0        # so many impersonation notices (7FFF) get no echo

    def to_json(self) -> dict:
        return {"mode": self.mode, "calls": self.calls, "tx": {f"{k[0]}:{k[1]}": v for k, v in self.tx.items()},
                "events": self.events, "coarse_clock": self.coarse_clock, "hop": self.hop, "alerts_lost": self.alerts_lost}

    @staticmethod
    def from_json(d: dict) -> "Episode":
        e = Episode()
        e.mode = d["mode"]
        e.calls = d["calls"]
        e.tx = {tuple(int(x) for x in k.split(":")): v for k, v in d["tx"].items()}
        e.events = [tuple(x) for x in d["events"]]
        e.coarse_clock = bool(d.get("coarse_clock", False))
        e.hop = bool(d.get("hop", False))
        e.alerts_lost = int(d.get("alerts_lost", 0))
        return e


def gen_episode(rnd: random.Random, fine: bool = True) -> Episode:
    """`fine`: allow events at timer deadlines +-1 ns, disconnects, write failures, foreign traffic."""
    e = Episode()
    e.mode = rnd.choice((None, None, False, True))
    n_calls = rnd.choice((1, 1, 2, 3, 5))
    t = 0.0
    deadlines = [0.5, 1.5, 3.5, 7.5, 1.0, 2.0]
    for i in range(n_calls):
        t += rnd.choice((0.0, 0.0, 0.001, 0.3, 2.0))
        timeout = rnd.choice((20.0, 20.0, 5.0, 1.0, 0.5, 0.3, 0.5 + 5e-10, 1.5, 3.5 - 5e-10, 30.0)) if fine else rnd.choice((20.0, 5.0, 30.0))
        e.calls.append({"t": t, "cmd": HEADERLESS if (fine and rnd.random() < 0.03) else rnd.randrange(N_POOL_CLASSIC),
                        "prio": None if (fine and rnd.random() < 0.08) else rnd.choice((-2, 0, 0, 2, 4)),
                        "max_retries": rnd.choice((0, 1, 2, 3, 3, 5)), "timeout": timeout, "wfr": rnd.choice((None, None, True, False))})
    for c in {c["cmd"] for c in e.calls}:
        for n in range(1, 6):
            r = rnd.random()
            echo = None if r < 0.35 else rnd.choice((0.02, 0.02, 0.1, 0.45))
            if fine and r > 0.9:
                echo = rnd.choice(deadlines) * rnd.choice((1, 1 - 1e-9, 1 + 1e-9)) % 0.5 + (0.5 - 1e-9 if rnd.random() < 0.5 else 0.0)
            rr = rnd.random()
            reply = None if rr < 0.3 else rnd.choice((0.05, 0.1, 0.3, 0.49))
            if fine and rr > 0.9:
                reply = 0.01  # before the echo
            e.tx[(c, n)] = {"echo": echo, "reply": reply, "dup": fine and rnd.random() < 0.15, "fail": fine and rnd.random() < 0.07}
    if fine:
        for _ in range(rnd.choice((0, 0, 1, 2, 3))):
            kind = rnd.choice(("foreign", "foreign", "conn_lost", "conn_lost_made", "pause", "pause_resume"))
            c0 = rnd.choice(e.calls)
            tt = rnd.choice((rnd.uniform(0, 8), rnd.choice(deadlines) + rnd.choice((0, -1e-9, 1e-9)), rnd.choice([c["t"] for c in e.calls]) + rnd.choice((0.0, 1e-9, 0.02)),
                             c0["t"] + min(c0["timeout"], 20.0) + rnd.choice((0, 0, -1e-9, 1e-9))))      # ... and a caller's own deadline
            e.events.append((tt, kind, rnd.randrange(len(FOREIGN))))
        e.coarse_clock = rnd.random() < 0.25
        e.hop = rnd.random() < 0.3
    return e


def gen_coarse(rnd: random.Random) -> Episode:
    """Episodes in which no two events coincide (all times on distinct sub-millisecond offsets):
    the macro-step model applies exactly."""
    e = Episode()
    e.mode = rnd.choice((None, False, True))
    n_calls = rnd.choice((1, 2, 3, 4))
    pool = rnd.sample(range(N_PLAIN), n_calls)      # (the model has no impersonation notice)
    t = 0.0
    for i in range(n_calls):
        t += rnd.choice((0.0, 0.0031, 0.3007, 2.0013)) + 0.0001 * (i + 1)
        e.calls.append({"t": round(t, 6), "cmd": pool[i], "prio": rnd.choice((-2, 0, 0, 2, 4)), "max_retries": rnd.choice((0, 1, 2, 3, 5)),
                        "timeout": rnd.choice((20.0, 30.0, 5.2003, 2.3007, 0.8011)), "wfr": rnd.choice((None, True, False))})
    for c in pool:
        for n in range(1, 6):
            echo = None if rnd.random() < 0.35 else rnd.choice((0.0201, 0.1003, 0.4507))
            reply = None if rnd.random() < 0.3 else rnd.choice((0.0509, 0.1207, 0.3011, 0.0103))
            e.tx[(c, n)] = {"echo": echo, "reply": reply, "dup": rnd.random() < 0.15, "fail": rnd.random() < 0.07}
    for _ in range(rnd.choice((0, 0, 1, 2))):
        e.events.append((round(rnd.uniform(0.05, 9.0), 3) + 0.000377, rnd.choice(("conn_lost", "conn_lost_made", "foreign")), rnd.randrange(len(FOREIGN))))
    return e


def gen_jam(rnd: random.Random) -> Episode:
    """A long queue behind a command whose echoes are lost: 4-9 callers of mixed priorities queue up, some give up while
    still queued (at any position of the queue), further callers arrive afterwards.  All times on distinct
    sub-millisecond offsets, every command distinct: the macro-step model applies exactly."""
    e = Episode()
    e.mode = rnd.choice((False, False, None))
    plain = [i for i in range(len(POOL)) if is_plain(i) and i not in (5, 8)]     # (0418 / 0006 wait for replies by default)
    n_early = rnd.randint(4, 9)
    n_late = rnd.randint(1, 3)
    pool = rnd.sample(plain, n_early + n_late + 1)
    e.calls.append({"t": 0.0, "cmd": pool[0], "prio": rnd.choice((-2, 0, 0, 2)), "max_retries": rnd.choice((1, 2, 3, 3)),
                    "timeout": 20.0, "wfr": None})
    t = 0.0
    same_prio = rnd.random() < 0.4
    for i in range(n_early):
        t += rnd.choice((0.0, 0.0, 0.0031, 0.0507)) + 0.0001 * (i + 1)
        timeout = rnd.choice((20.0, 20.0, 30.0, round(rnd.uniform(0.2, 4.0), 3) + 0.000173, round(rnd.uniform(0.2, 9.0), 3) + 0.000173))
        e.calls.append({"t": round(t, 6), "cmd": pool[1 + i], "prio": 0 if same_prio else rnd.choice((-2, 0, 0, 2, 4)),
                        "max_retries": rnd.choice((0, 1, 3)), "timeout": timeout, "wfr": None})
    for i in range(n_late):
        e.calls.append({"t": round(rnd.uniform(0.6, 9.0), 3) + 0.000291 + 0.00001 * i, "cmd": pool[1 + n_early + i],
                        "prio": 0 if same_prio else rnd.choice((-2, 0, 2, 4)), "max_retries": rnd.choice((0, 3)), "timeout": 20.0, "wfr": None})
    k_lost = rnd.randint(1, 4)
    for c in pool:
        for n in range(1, 6):
            lost = (c == pool[0] and n <= k_lost) or (c != pool[0] and rnd.random() < 0.25)
            e.tx[(c, n)] = {"echo": None if lost else 0.0201, "reply": None if rnd.random() < 0.3 else 0.0509, "dup": False, "fail": False}
    return e


class Result:
    def __init__(self) -> None:
        self.writes: list = []        # (t, frame)
        self.write_calls: list = []   # call idx of each write (None: not a caller's command), parallel to writes
        self.outcomes: dict = {}      # call idx -> (t_done, "ok"/"err", text)
        self.started: dict = {}       # call idx -> t_call
        self.seq: dict = {}           # call idx -> order in which send_cmd was invoked
        self.loop_errors: list = []
        self.final_state = ""
        self.final_inflight = None
        self.probe = None
        self.deadlock = False
        self.lock_held = False
        self.conn_lost_at: list = []
        self.pkts: list = []          # (t, 'echo'|'reply', pool idx) at delivery
        self.conn: list = []          # (t, 'lost'|'made')
        self.paused: list = []        # (t, 'pause'|'resume')


def run_episode(ep: Episode) -> Result:
    from ramses_tx import exceptions as exc
    from ramses_tx import protocol_fsm as F
    from ramses_tx.command import Command
    from ramses_tx.const import Priority
    from ramses_tx.packet import Packet
    from ramses_tx.protocol import protocol_factory
    from ramses_tx.typing import QosParams

    res = Result()
    real_fsm_dt = F.dt

    async def main(loop: vloop.VLoop) -> None:
        VClockDt._loop = loop
        VClockDt._n = 0
        VClockDt.coarse = ep.coarse_clock
        F.dt = VClockDt
        protocol = protocol_factory(lambda m: None, disable_qos=ep.mode)
        tx_count: dict = {}
        alerts_to_lose = [ep.alerts_lost]
        rig_gave_up = [False]

        class FakeTransport:
            closing = False

            def get_extra_info(self, name, default=None):
                return {"active_gwy": GWY, "is_evofw3": True}.get(name, default)

            def _dt_now(self):
                return VClockDt.now()

            def is_closing(self):
                return self.closing

            def close(self):
                self.closing = True

            async def write_frame(self, frame: str, disable_tx_limits: bool = False) -> None:
                now = loop.time()
                res.writes.append((now, str(frame)))
                res.write_calls.append(getattr(frame, "call", None))
                idx = next((i for i, (q, _) in enumerate(POOL) if q == frame), None)
                if idx is None and " 7FFF " in frame and alerts_to_lose[0] > 0:
                    alerts_to_lose[0] -= 1          # the notice sent ahead of a faked device's command gets no echo
                    return
                if idx is None:
                    # an impersonation alert or the probe: echo promptly
                    loop.call_at(now + 0.02, protocol.pkt_received, Packet.from_port(VClockDt.now(), "000 " + frame.replace(HGI, GWY)))
                    return
                n = tx_count[idx] = tx_count.get(idx, 0) + 1
                sc = ep.tx.get((idx, n), {"echo": 0.02, "reply": 0.1, "dup": False, "fail": False})
                if sc["fail"] == "oserror":
                    raise OSError(5, "Input/output error (scripted)")      # what a dying serial port / socket raises
                if sc["fail"] == "attr":
                    raise AttributeError("'NoneType' object has no attribute 'write' (scripted)")
                if sc["fail"]:
                    raise exc.TransportError("write failed (scripted)")
                def deliver_now(kind, pkt):
                    res.pkts.append((loop.time(), kind, idx))
                    protocol.pkt_received(pkt)

                def deliver(kind, pkt):
                    # (the real transports hand a packet to the protocol through call_soon: one hop behind whatever else
                    #  fell due in the same iteration, e.g. a timer task's wake-up)
                    if ep.hop:
                        loop.call_soon(deliver_now, kind, pkt)
                    else:
                        deliver_now(kind, pkt)

                if sc["echo"] is not None:
                    pkt = Packet.from_port(VClockDt.now(), "000 " + frame.replace(HGI, GWY))
                    loop.call_at(now + sc["echo"], deliver, "echo", pkt)
                    if sc["dup"]:
                        loop.call_at(now + sc["echo"] + 0.03, deliver, "echo", pkt)
                reply = POOL[idx][1]
                if sc["reply"] is not None and reply is not None:
                    rp = Packet.from_port(VClockDt.now(), "045 " + reply)
                    loop.call_at(now + sc["reply"], deliver, "reply", rp)
                    if sc["dup"]:
                        loop.call_at(now + sc["reply"] + 0.04, deliver, "reply", rp)

        transport = FakeTransport()
        protocol.connection_made(transport, ramses=True)
        protocol.resume_writing()
        ctx = protocol._context
        ctx._lock = TripLock()
        res._lock = ctx._lock

        def do_event(kind, arg):
            try:
                if kind == "foreign":
                    # two of the foreign packets carry the very header of pool command 0's echo / reply: the sender cannot
                    # tell them from its own (recorded finding); for the model they are labelled as what they are taken for
                    # (the reply addressed to another gateway only once the echo is in: before that the addressee is checked)
                    if arg == 3:
                        res.pkts.append((loop.time(), "echo", 0))
                    elif arg == 1 and isinstance(ctx._state, F.WantRply):
                        res.pkts.append((loop.time(), "reply", 0))
                    protocol.pkt_received(Packet.from_port(VClockDt.now(), "050 " + FOREIGN[arg]))
                elif kind in ("pause", "pause_resume"):
                    # the transport's buffer goes over its high-water mark: new sends are refused until it drains
                    res.paused.append((loop.time(), "pause"))
                    protocol.pause_writing()
                    if kind == "pause_resume":
                        def drain():
                            res.paused.append((loop.time(), "resume"))
                            protocol.resume_writing()
                        loop.call_later(0.3, drain)
                elif kind in ("conn_lost", "conn_lost_made"):
                    res.conn_lost_at.append(loop.time())
                    res.conn.append((loop.time(), "lost"))
                    ctx.connection_lost(None)
                    if kind == "conn_lost_made":
                        def remake():
                            res.conn.append((loop.time(), "made"))
                            ctx.connection_made(transport)
                        loop.call_later(0.2, remake)
            except Exception as e:  # noqa: BLE001  (a callback raising = reaches the loop handler)
                loop.errors.append(e)

        for t, kind, arg in ep.events:
            loop.call_at(t, do_event, kind, arg)

        async def caller(i: int, c: dict) -> None:
            await asyncio.sleep(c["t"]) if c["t"] > 0 else None
            res.started[i] = loop.time()
            res.seq[i] = len(res.seq)
            cmd = Command(POOL[c["cmd"]][0])
            cmd._repr = Tagged(str(cmd))  # str(cmd) is what reaches write_frame: the very object, tagged
            cmd._repr.call = i
            qos = QosParams(max_retries=c["max_retries"], timeout=c["timeout"], wait_for_reply=c["wfr"])
            try:
                # (None is what ramses_rf's own entity layer passes when it has no preference, e.g. every binding frame)
                pkt = await protocol.send_cmd(cmd, priority=None if c["prio"] is None else Priority(c["prio"]), qos=qos)
                res.outcomes[i] = (loop.time(), "ok", str(pkt))
            except Exception as e:  # noqa: BLE001
                res.outcomes[i] = (loop.time(), "err", type(e).__name__ + ":" + ",".join(k.__name__ for k in type(e).__mro__[1:4]))
            except asyncio.CancelledError as e:
                if rig_gave_up[0]:
                    raise        # (the rig's own cut-off after 200 s: this caller was never answered)
                # nobody cancelled this caller: the cancellation comes out of send_cmd itself
                res.outcomes[i] = (loop.time(), "err", type(e).__name__ + ":" + ",".join(k.__name__ for k in type(e).__mro__[1:4]))

        tasks = [loop.create_task(caller(i, c)) for i, c in enumerate(ep.calls)]
        done_, pending_ = await asyncio.wait(tasks, timeout=200)
        if pending_:
            rig_gave_up[0] = True
            for t_ in pending_:
                t_.cancel()
            await asyncio.wait(pending_, timeout=1)
        # let the machine come to rest
        await asyncio.sleep(30)
        res.final_state = type(ctx._state).__name__
        res.final_inflight = None if ctx._cmd is None else str(ctx._cmd)
        res.lock_held = ctx._lock.locked()
        if ep.probe:
            if getattr(protocol, "_pause_writing", False):
                protocol.resume_writing()      # the buffer has drained by now
            if isinstance(ctx._state, F.Inactive):
                try:
                    ctx.connection_made(transport)
                except Exception as e:  # noqa: BLE001
                    loop.errors.append(e)
                await asyncio.sleep(0.1)
            try:
                probe = Command(f"RQ --- {HGI} {CTL} --:------ 313F 001 00")
                p = await asyncio.wait_for(protocol.send_cmd(probe, qos=QosParams(wait_for_reply=False)), timeout=60)
                res.probe = ("ok", str(p))
            except Exception as e:  # noqa: BLE001
                res.probe = ("err", type(e).__name__ + ": " + str(e)[:80])

    try:
        _, loop = vloop.run(main)
        res.loop_errors = list(loop.errors)
    except vloop.LoopIdle:
        res.deadlock = True
    except WouldBlockForever:
        res.deadlock = True
    finally:
        F.dt = real_fsm_dt
    if getattr(res, "_lock", None) is not None and res._lock.tripped:
        res.deadlock = True
    return res
