"""Generate strings from the library's payload regexes (CPython sre parse trees)."""

from __future__ import annotations

import random
import re

try:
    import re._constants as sre_c
    import re._parser as sre_parse
except ImportError:  # pragma: no cover
    import sre_constants as sre_c
    import sre_parse

HEX = "0123456789ABCDEF"


def _gen(items, rnd: random.Random, out: list[str], extreme: bool) -> None:
    for op, av in items:
        if op is sre_c.LITERAL:
            out.append(chr(av))
        elif op is sre_c.ANY:
            out.append(rnd.choice(HEX))
        elif op is sre_c.IN:
            chars = []
            for o, a in av:
                if o is sre_c.LITERAL:
                    chars.append(chr(a))
                elif o is sre_c.RANGE:
                    chars.extend(chr(c) for c in range(a[0], a[1] + 1))
                elif o is sre_c.CATEGORY:
                    chars.extend("0123456789")
            if extreme and rnd.random() < 0.5:
                out.append(rnd.choice((chars[0], chars[-1])))
            else:
                out.append(rnd.choice(chars))
        elif op is sre_c.SUBPATTERN:
            _gen(av[3], rnd, out, extreme)
        elif op is sre_c.BRANCH:
            _gen(rnd.choice(av[1]), rnd, out, extreme)
        elif op in (sre_c.MAX_REPEAT, sre_c.MIN_REPEAT):
            lo, hi, sub = av
            hi = lo + 8 if hi is sre_c.MAXREPEAT else hi
            n = rnd.choice((lo, hi, rnd.randint(lo, hi), rnd.randint(lo, min(hi, lo + 2))))
            for _ in range(n):
                _gen(sub, rnd, out, extreme)
        elif op is sre_c.AT:
            pass
        elif op is sre_c.CATEGORY:
            out.append(rnd.choice("0123456789"))
        else:
            raise ValueError(f"unsupported {op}")


_cache: dict[str, object] = {}


def gen_payload(pattern: str, rnd: random.Random, extreme: bool = False) -> str | None:
    """A payload (even number of upper-hex chars, 1..48 bytes) matching `pattern`, or None."""
    if pattern not in _cache:
        _cache[pattern] = sre_parse.parse(pattern)
    tree = _cache[pattern]
    for _ in range(30):
        out: list[str] = []
        items = list(tree)
        if len(items) == 1 and items[0][0] is sre_c.BRANCH:
            items = rnd.choice(items[0][1][1])
        _gen(items, rnd, out, extreme)
        s = "".join(out)
        if not pattern.endswith("$"):
            s += "".join(rnd.choice(HEX) for _ in range(2 * rnd.randint(0, 6)))
        if len(s) % 2:
            s += rnd.choice(HEX)
        s = s[:96]
        if 2 <= len(s) <= 96 and re.match(pattern, s) and re.fullmatch("[0-9A-F]+", s):
            return s
    return None
