"""Structured generators of schema-valid frames."""

from __future__ import annotations

import random

from . import regen, rt

CTL = "01:145038"
HGI = "18:000730"
DEVS = ["01:145038", "01:223036", "02:044328", "03:094242", "04:056053", "04:029390", "07:045960", "10:067219",
        "12:126457", "13:237335", "13:049798", "18:006402", "18:013393", "22:012299", "23:100224", "30:082155",
        "32:206250", "34:092243", "37:171685", "00:034798", "63:262142"]
NON = "--:------"


def schema_pairs():
    from ramses_tx import const as C
    from ramses_tx.ramses import CODES_SCHEMA

    out = []
    for code, sch in CODES_SCHEMA.items():
        for verb in (C.I_, C.RQ, C.RP, C.W_):
            if verb in sch:
                out.append((str(code), verb, sch[verb]))
    return out


def gen_addr_set(rnd: random.Random, verb: str, code: str) -> tuple[str, str, str]:
    """A legal address set, biased to the shapes real traffic uses for the verb."""
    a, b = rnd.sample(DEVS[:-1], 2)
    r = rnd.random()
    if verb == "RQ":
        if r < 0.6:
            return (rnd.choice((HGI, "18:006402", a)), b, NON)
        if r < 0.8:
            return (a, rnd.choice((CTL, b)), NON)
    if verb == "RP":
        if r < 0.8:
            return (a, rnd.choice(("18:006402", HGI, b)), NON)
    if verb == " W":
        if r < 0.8:
            return (rnd.choice((HGI, a)), b, NON)
    # I, or the remaining mass: all three shapes
    k = rnd.randrange(4)
    if k == 0:
        return (a, NON, a)
    if k == 1:
        return (a, NON, b)
    if k == 2:
        return (a, rnd.choice((b, "63:262142")), NON)
    return (NON, NON, a)


def gen_schema_frame(rnd: random.Random, pairs, extreme: bool = False) -> str | None:
    code, verb, pat = rnd.choice(pairs)
    payload = regen.gen_payload(pat, rnd, extreme)
    if payload is None:
        return None
    a0, a1, a2 = gen_addr_set(rnd, verb, code)
    seqn = "---" if rnd.random() < 0.85 else f"{rnd.randrange(256):03d}"
    return f"{verb} {seqn} {a0} {a1} {a2} {code} {len(payload) // 2:03d} {payload}"


def repo_log_frames(limit: int = 20000) -> list[str]:
    """Frames found in the repository's own logs (46+ chars after a 27-char stamp + RSSI)."""
    import glob
    import re

    out: list[str] = []
    seen = set()
    pat = re.compile(r"(?:^|\s)(\.\.\.|\d{3}|---) ((?: I|RP|RQ| W) (?:---|\d{3}) \S+ \S+ \S+ [0-9A-F]{4} \d{3} [0-9A-F]+)")
    for f in sorted(glob.glob(str(rt_repo() / "tests" / "**" / "*.log"), recursive=True)):
        try:
            for ln in open(f, errors="replace"):
                m = pat.search(ln)
                if m and m.group(2) not in seen:
                    seen.add(m.group(2))
                    out.append(m.group(2))
                    if len(out) >= limit:
                        return out
        except OSError:
            pass
    return out


def rt_repo():
    from .common import REPO

    return REPO
