"""Structured generators of schema-valid frames."""

from __future__ import annotations

import random

from . import regen, rt

CTL = "01:145038"
HGI = "18:000730"
DEVS = ["01:145038", "01:223036", "02:044328", "03:094242", "04:056053", "04:029390", "07:045960", "10:067219",
        "12:126457", "13:237335", "13:049798", "18:006402", "18:013393", "22:012299", "23:100224", "30:082155",
        "32:206250", "34:092243", "37:171685", "00:034798", "63:262142"]
NON = "--:------"


def schema_pairs():
    from ramses_tx import const as C
    from ramses_tx.ramses import CODES_SCHEMA

    out = []
    for code, sch in CODES_SCHEMA.items():
        for verb in (C.I_, C.RQ, C.RP, C.W_):
            if verb in sch:
                out.append((str(code), verb, sch[verb]))
    return out


def gen_addr_set(rnd: random.Random, verb: str, code: str) -> tuple[str, str, str]:
    """A legal address set, biased to the shapes real traffic uses for the verb."""
    a, b = rnd.sample(DEVS[:-1], 2)
    r = rnd.random()
    if verb == "RQ":
        if r < 0.6:
            return (rnd.choice((HGI, "18:006402", a)), b, NON)
        if r < 0.8:
            return (a, rnd.choice((CTL, b)), NON)
    if verb == "RP":
        if r < 0.8:
            return (a, rnd.choice(("18:006402", HGI, b)), NON)
    if verb == " W":
        if r < 0.8:
            return (rnd.choice((HGI, a)), b, NON)
    # I, or the remaining mass: all three shapes
    k = rnd.randrange(4)
    if k == 0:
        return (a, NON, a)
    if k == 1:
        return (a, NON, b)
    if k == 2:
        return (a, rnd.choice((b, "63:262142")), NON)
    return (NON, NON, a)


def packed_datetime(rnd: random.Random, seconds: bool) -> str:
    """A packed date-time as the wire carries it (minute, hour + 3 day-of-week bits, day, month, year; a leading seconds byte
    with the DST bit for the 7-byte form): valid and biased to the ends of every field, or - one time in five - with one
    field one step outside its range (hour 24, minute / second 60, day 0 / 32, month 0 / 13)."""
    y = rnd.choice((2000, 2023, 2024, 2024, 2099, rnd.randrange(1, 10000)))
    mo = rnd.choice((1, 2, 2, 12, rnd.randrange(1, 13)))
    leap = (y % 4 == 0 and y % 100 != 0) or y % 400 == 0
    dim = [31, 29 if leap else 28, 31, 30, 31, 30, 31, 31, 30, 31, 30, 31][mo - 1]
    d = rnd.choice((1, dim, dim, rnd.randrange(1, dim + 1)))
    h = rnd.choice((0, 23, 23, rnd.randrange(24)))
    mi = rnd.choice((0, 59, 59, rnd.randrange(60)))
    se = rnd.choice((0, 59, 59, rnd.randrange(60)))
    if rnd.random() < 0.2:
        k = rnd.randrange(6)
        if k == 0:
            h = 24
        elif k == 1:
            mi = 60
        elif k == 2:
            se = 60
        elif k == 3:
            d = rnd.choice((0, dim + 1))
        elif k == 4:
            mo = rnd.choice((0, 13))
        else:
            y = 0
    h |= rnd.choice((0, 0, 1, 7)) << 5
    se |= rnd.choice((0, 0x80))
    body = f"{mi:02X}{h:02X}{d:02X}{mo:02X}{y:04X}"
    return (f"{se:02X}" + body) if seconds else body


def with_datetime(rnd: random.Random, code: str, payload: str) -> str:
    """The payloads that carry a date-time: put a structured one in (and the mode byte that makes the decoder read it)."""
    if code == "2349" and len(payload) == 26:
        return payload[:6] + "04" + "FFFFFF" + packed_datetime(rnd, False)
    if code == "1F41" and len(payload) == 24:
        return payload[:4] + "04" + "FFFFFF" + packed_datetime(rnd, False)
    if code == "2E04" and len(payload) == 16:
        return rnd.choice(("02", "03", "04", "07", payload[:2])) + packed_datetime(rnd, False) + "01"
    if code == "313F" and len(payload) == 18:
        return payload[:4] + packed_datetime(rnd, True)
    return payload


def gen_schema_frame(rnd: random.Random, pairs, extreme: bool = False) -> str | None:
    code, verb, pat = rnd.choice(pairs)
    payload = regen.gen_payload(pat, rnd, extreme)
    if payload is None:
        return None
    if code in ("2349", "1F41", "2E04", "313F") and rnd.random() < 0.6:
        import re

        p2 = with_datetime(rnd, code, payload)
        if re.match(pat, p2):
            payload = p2
    a0, a1, a2 = gen_addr_set(rnd, verb, code)
    seqn = "---" if rnd.random() < 0.85 else f"{rnd.randrange(256):03d}"
    return f"{verb} {seqn} {a0} {a1} {a2} {code} {len(payload) // 2:03d} {payload}"


def repo_log_frames(limit: int = 20000) -> list[str]:
    """Frames found in the repository's own logs (46+ chars after a 27-char stamp + RSSI)."""
    import glob
    import re

    out: list[str] = []
    seen = set()
    pat = re.compile(r"(?:^|\s)(\.\.\.|\d{3}|---) ((?: I|RP|RQ| W) (?:---|\d{3}) \S+ \S+ \S+ [0-9A-F]{4} \d{3} [0-9A-F]+)")
    for f in sorted(glob.glob(str(rt_repo() / "tests" / "**" / "*.log"), recursive=True)):
        try:
            for ln in open(f, errors="replace"):
                m = pat.search(ln)
                if m and m.group(2) not in seen:
                    seen.add(m.group(2))
                    out.append(m.group(2))
                    if len(out) >= limit:
                        return out
        except OSError:
            pass
    return out


def rt_repo():
    from .common import REPO

    return REPO
