"""Entry point: ./check <id> [--tier quick|thorough] [--replay file]"""

from __future__ import annotations

import argparse
import importlib
import os
import sys
import traceback

from . import common


def main() -> int:
    ap = argparse.ArgumentParser()
    ap.add_argument("prop")
    ap.add_argument("--tier", default=os.environ.get("VERIF_TIER", "quick"), choices=["quick", "thorough"])
    ap.add_argument("--replay", default=None)
    ap.add_argument("--no-lean", action="store_true", help="development only: skip build+audit")
    a = ap.parse_args()
    pid = a.prop.upper()
    common.import_repo()
    mod = importlib.import_module(f"harness.props.{pid.lower()}")
    chk = common.Check(pid, a.tier)
    try:
        if a.replay:
            return mod.replay(chk, a.replay)
        if not a.no_lean:
            chk.lean(getattr(mod, "EXTRA_TARGETS", None))
        else:
            chk.obligations = chk.discharged = len(common.theorem_names(pid))
        mod.run(chk)
        return chk.finish()
    except Exception:
        traceback.print_exc()
        print(f"[{pid}] internal error in the check itself", file=sys.stderr)
        return 2


if __name__ == "__main__":
    sys.exit(main())
