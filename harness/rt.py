"""Runtime helpers that drive the real library (log replay, packet logging)."""

from __future__ import annotations

import asyncio
import logging
import os
import random
import tempfile
from datetime import datetime as dt


def quiet() -> None:
    logging.disable(logging.CRITICAL)


async def _replay(path: str, handler) -> BaseException | None:
    from ramses_tx.gateway import Engine

    f = open(path)
    eng = Engine(None, input_file=f)
    eng._set_msg_handler(handler)
    err: BaseException | None = None
    try:
        await eng.start()
    except BaseException as e:  # noqa: BLE001
        f.close()
        return e
    try:
        await eng._protocol._wait_connection_lost
    except BaseException as e:  # noqa: BLE001
        err = e
    try:
        await eng.stop()
    except BaseException as e:  # noqa: BLE001
        err = err or e
    f.close()
    return err


def replay_log_file(path: str) -> tuple[list, BaseException | None]:
    """Replay a packet log through the real FileTransport/ReadProtocol; returns (messages, error)."""
    got: list = []
    err = asyncio.run(_replay(path, got.append))
    return got, err


def replay_lines(lines: list[str]) -> tuple[list, BaseException | None]:
    with tempfile.NamedTemporaryFile("w", suffix=".log", delete=False) as f:
        f.write("".join(ln + "\n" for ln in lines))
        name = f.name
    try:
        return replay_log_file(name)
    finally:
        os.unlink(name)


def replay_dict(d: dict) -> tuple[list, BaseException | None]:
    """Replay a saved-state dict {dtm: line} through the real FileTransport (packet_dict=...)/ReadProtocol."""
    got: list = []

    async def go():
        import ramses_tx.transport as T
        from ramses_tx.protocol import protocol_factory

        proto = protocol_factory(got.append, disable_sending=True)
        try:
            await T.transport_factory(proto, packet_dict=d, loop=asyncio.get_running_loop())
            await proto.wait_for_connection_made()
            await proto.wait_for_connection_lost()
        except BaseException as e:  # noqa: BLE001
            return e
        return None

    err = asyncio.run(go())
    return got, err


class PacketLog:
    """The real packet logger writing to a temp file."""

    def __init__(self) -> None:
        from ramses_tx import packet as P
        from ramses_tx.logger import set_pkt_logging

        self.file = tempfile.NamedTemporaryFile("w", suffix=".log", delete=False).name
        self.logger = P.PKT_LOGGER
        logging.disable(logging.NOTSET)
        set_pkt_logging(self.logger, file_name=self.file)

    def reconfigure(self) -> None:
        """the packet log is configured again for the same file, as a second Gateway(..., packet_log=...) in the same
        process does (a restart / reload)"""
        from ramses_tx.logger import set_pkt_logging

        set_pkt_logging(self.logger, file_name=self.file)

    def close(self) -> list[str]:
        for h in list(self.logger.handlers):
            h.flush()
            h.close()
            self.logger.removeHandler(h)
        self.logger.setLevel(logging.CRITICAL)
        quiet()
        lines = open(self.file).read().split("\n")
        return lines

    def unlink(self) -> None:
        os.unlink(self.file)


# ---- generators of well-formed frame text ---------------------------------------------------

VERBS = (" I", "RQ", "RP", " W")
HEX = "0123456789ABCDEF"
NON = "--:------"


_RECENT_IDS: list = []


def other_spellings(dev_id: str) -> list[str]:
    """The other id texts with the same 24-bit wire value (the number field is six decimal digits: numbers above 262143
    spill into the type bits, so 01:300000 and 02:037856 are one value on the wire - and two ids as text)."""
    t, n = int(dev_id[:2]), int(dev_id[3:])
    wire = (t << 18) + n
    out = []
    for t2 in range(max(0, t - 4), min(64, t + 5)):
        n2 = wire - (t2 << 18)
        if 0 <= n2 <= 999999 and t2 != t:
            out.append(f"{t2:02d}:{n2:06d}")
    return out


def gen_id(rnd: random.Random, types=None) -> str:
    if types is None and _RECENT_IDS and rnd.random() < 0.08:
        tw = other_spellings(rnd.choice(_RECENT_IDS[-50:]))      # an id seen a moment ago, in its other spelling
        tw = [x for x in tw if x != "63:262142"]
        if tw:
            return rnd.choice(tw)
    t = rnd.choice(types) if types else rnd.randrange(64)
    n = rnd.choice((rnd.randrange(2**18), rnd.randrange(1000000), 0, 730, 262142, 999999))
    out = f"{int(t):02d}:{n:06d}"
    if types is None:
        _RECENT_IDS.append(out)
        del _RECENT_IDS[:-200]
    return out


def gen_addrs(rnd: random.Random) -> tuple[str, str, str]:
    shape = rnd.randrange(3)
    while True:
        a, b = gen_id(rnd), gen_id(rnd)
        if shape == 0:  # src, --, dst (possibly src == dst)
            if a != "63:262142":
                return (a, NON, a if rnd.random() < 0.5 else b)
        elif shape == 1:  # src, dst, --
            if a != "63:262142" and a != b:
                return (a, b, NON)
        else:
            if a != "63:262142":
                return (NON, NON, a)


def gen_frame(rnd: random.Random, codes: list[str]) -> str:
    verb = rnd.choice(VERBS)
    seqn = "---" if rnd.random() < 0.5 else f"{rnd.choice((0, 1, 7, 99, 100, 255, rnd.randrange(1000))):03d}"
    a0, a1, a2 = gen_addrs(rnd)
    code = rnd.choice(codes) if rnd.random() < 0.7 else "".join(rnd.choice(HEX) for _ in range(4))
    n = rnd.choice((1, 2, 3, 6, 8, 12, 24, 47, 48, rnd.randint(1, 48)))
    payload = "".join(rnd.choice(HEX) for _ in range(2 * n))
    return f"{verb} {seqn} {a0} {a1} {a2} {code} {n:03d} {payload}"


MUT_CHARS = " -:.0159AFGaf\n\t#*<٣"


def mutate(rnd: random.Random, s: str) -> str:
    k = rnd.randrange(5)
    i = rnd.randrange(len(s) + 1)
    if k == 0 and i < len(s):
        return s[:i] + rnd.choice(MUT_CHARS) + s[i + 1:]
    if k == 1 and i < len(s):
        return s[:i] + s[i + 1:]
    if k == 2:
        return s[:i] + rnd.choice(MUT_CHARS) + s[i:]
    if k == 3:
        return s + rnd.choice(("\n", " ", "\r", "\n\n", "00", "0"))
    # length-field / payload disagreement
    if len(s) > 46:
        n = rnd.randrange(1, 49)
        return s[:42] + f"{n:03d}" + s[45:]
    return s


# ---- a real PortTransport on a pty, with scripted reads -----------------------------------------


class ScriptedSerial:
    def __init__(self, real, chunks):
        self._real = real
        self._chunks = list(chunks)

    def read(self, size):
        return self._chunks.pop(0) if self._chunks else b""

    def __getattr__(self, name):
        return getattr(self._real, name)


class PortRig:
    """Real PortTransport + real ReadProtocol built by the library's own factories.

    `sending`: the transport is opened the way a sending gateway opens it - it writes its signature (a 7FFF puzzle frame) to the
    port until the stick echoes it; the rig plays the stick (first echo) and keeps the signature frame (`self.signature`), so
    that streams can carry further echoes of it (a slow stick echoes every copy it was sent)."""

    def __init__(self, sending: bool = False) -> None:
        self.sending = sending
        self.signature: str | None = None

    async def start(self) -> None:
        from ramses_tx.protocol import protocol_factory
        from ramses_tx.transport import transport_factory

        self.loop = asyncio.get_running_loop()
        self.received: list = []
        self.loop_errors: list = []
        self.loop.set_exception_handler(lambda lp, ctx: self.loop_errors.append(ctx.get("exception") or ctx.get("message")))
        self.protocol = protocol_factory(lambda msg: self.received.append(msg), disable_sending=not self.sending)
        self.master, self.slave = os.openpty()
        if self.sending:
            os.set_blocking(self.master, False)
            buf = b""

            def stick() -> None:
                nonlocal buf
                try:
                    buf += os.read(self.master, 4096)
                except OSError:
                    return
                while b"\r\n" in buf:
                    line, buf = buf.split(b"\r\n", 1)
                    text = line.decode(errors="replace").rstrip()
                    if text[:1] not in (" ", "R"):       # (the verb column is two wide: ' I', ' W')
                        text = " " + text
                    if " 7FFF " in text and self.signature is None:
                        self.signature = text.replace("18:000730", "18:006402", 1)
                        os.write(self.master, f"000 {self.signature}\r\n".encode())

            self.loop.add_reader(self.master, stick)
        self.transport = await transport_factory(
            self.protocol, port_name=os.ttyname(self.slave), port_config={}, disable_sending=not self.sending, loop=self.loop
        )
        if self.sending:
            await asyncio.sleep(0.12)      # (the signature task sees the echo at its next 50 ms poll)
            self.loop.remove_reader(self.master)
        self.loop.remove_reader(self.transport.serial.fileno())
        self.real_serial = self.transport._serial

    async def replay(self, chunks: list[bytes]) -> tuple[list, list]:
        """Feed the reads; returns (messages delivered, exceptions that escaped _read_ready or reached the loop)."""
        self.received.clear()
        self.loop_errors.clear()
        escaped: list = []
        self.transport._recv_buffer = b""
        self.transport._serial = ScriptedSerial(self.real_serial, chunks)
        for _ in range(len(chunks) + 1):
            try:
                self.transport._read_ready()
            except Exception as e:  # noqa: BLE001
                escaped.append(e)
        for _ in range(4):
            await asyncio.sleep(0)
        return list(self.received), escaped + list(self.loop_errors)

    def stop(self) -> None:
        self.transport._serial = self.real_serial
        self.transport.close()
        os.close(self.master)
