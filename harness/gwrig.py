"""Whole-gateway rig: a real `ramses_rf.Gateway` over a harness-side mock transport, under the
virtual-time loop, with the library's clocks following the loop's clock.

Nothing in /repo is changed: `ramses_tx.gateway.transport_factory` is replaced *by the harness*
(after import) with a factory that returns a `MockTransport`; the `datetime` class seen by the
modules that read the wall clock is replaced by `VDt`, whose `now()` is `BASE + loop.time()`.

Used by C12, C13, C14, C15, C16, C18, C20.
"""

from __future__ import annotations

import asyncio
import glob
import random
import re
from datetime import datetime as real_dt, timedelta as td

from . import vloop

BASE = real_dt(2024, 1, 1, 12, 0, 0)
GWY_ID = "18:006402"
HGI_ID = "18:000730"
LOG_LINE = re.compile(r"^(\d{4}-\d\d-\d\d[T ]\d\d:\d\d:\d\d\.\d{6}) (?:\.\.\.|\d{3}) ((?: I|RQ|RP| W) [^<#*]*?)\s*(?:[<#*].*)?$")


class VDt(real_dt):
    """datetime whose now() follows the running virtual loop (strictly increasing by 1 us per call
    when `tick` is set: protocol_fsm's queue entries must not tie)."""

    _loop = None
    _n = 0
    tick = False

    @classmethod
    def now(cls, tz=None):
        t = cls._loop.time() if cls._loop is not None else 0.0
        d = BASE + td(seconds=t)
        return cls(d.year, d.month, d.day, d.hour, d.minute, d.second, d.microsecond)


class VDtTick(VDt):
    @classmethod
    def now(cls, tz=None):
        VDt._n += 1
        t = cls._loop.time() if cls._loop is not None else 0.0
        d = BASE + td(seconds=t, microseconds=VDt._n % 900)
        return cls(d.year, d.month, d.day, d.hour, d.minute, d.second, d.microsecond)


def vnow(loop) -> real_dt:
    return BASE + td(seconds=loop.time())


def install_clock(loop) -> None:
    """Point every wall-clock reader of the library at the virtual loop."""
    import ramses_rf.entity_base as EB
    import ramses_rf.system.heat as SH
    import ramses_tx.helpers as H
    import ramses_tx.protocol_fsm as F
    import ramses_tx.transport as T

    VDt._loop = loop
    VDtTick._loop = loop
    VDt._n = 0
    H.dt = VDt
    EB.dt = VDt
    SH.dt = VDt
    F.dt = VDtTick
    T.perf_counter = loop.time
    for name in ("ramses_rf.system.schedule", "ramses_rf.system.zones", "ramses_rf.device.heat", "ramses_rf.device.base",
                 "ramses_rf.binding_fsm", "ramses_rf.gateway", "ramses_tx.gateway", "ramses_rf.system.faultlog"):
        try:
            mod = __import__(name, fromlist=["x"])
        except Exception:  # noqa: BLE001
            continue
        if getattr(mod, "dt", None) is real_dt:
            mod.dt = VDt


def make_transport_class():
    import ramses_tx.transport as T
    from ramses_tx.const import SZ_ACTIVE_HGI

    class MockTransport(T._FullTransport, T._FileTransportAbstractor):
        """Bidirectional transport whose far end is a Python callback (`responder`)."""

        def __init__(self, protocol, loop, gwy_id=GWY_ID, responder=None, echo_delay=0.02) -> None:
            super().__init__({}, protocol, loop=loop)
            self._extra[SZ_ACTIVE_HGI] = gwy_id
            self._reading = True
            self.gwy_id = gwy_id
            self.responder = responder      # fn(frame_as_on_air: str) -> list[(delay_s, frame)]
            self.echo_delay = echo_delay
            self.written: list[tuple[float, str]] = []
            self.lose_echo = lambda frame: False
            self._make_connection(gwy_id)

        def _dt_now(self):
            return vnow(self._loop)

        def inject(self, frame: str, rssi: str = "045") -> None:
            """A frame arrives from the air now."""
            if self._closing:
                return
            self._frame_read(vnow(self._loop).isoformat(timespec="microseconds"), f"{rssi} {frame}")

        def inject_at(self, dtm: real_dt, frame: str, rssi: str = "045") -> None:
            self._frame_read(dtm.isoformat(timespec="microseconds"), f"{rssi} {frame}")

        async def write_frame(self, frame: str, disable_tx_limits: bool = False) -> None:
            await super().write_frame(frame)

        ether = None

        async def _write_frame(self, frame: str) -> None:
            self.written.append((self._loop.time(), frame))
            if self.ether is not None:
                self.ether.transmit(self, frame)
                return
            on_air = frame.replace(HGI_ID, self.gwy_id, 1) if (frame[7:16] == HGI_ID and self.gwy_id) else frame
            if not self.lose_echo(on_air):
                self._loop.call_later(self.echo_delay, self.inject, on_air, "000")
            if self.responder is not None:
                for delay, reply in self.responder(on_air) or ():
                    self._loop.call_later(self.echo_delay + delay, self.inject, reply)

        def get_extra_info(self, name, default=None):
            return self._extra.get(name, default)

    return MockTransport


async def make_port_transport(rig, protocol, **kw):
    """The library's real `PortTransport` (built by its own factory on a pty): every decorator of the real write
    and read paths is in play (duty-cycle limiter, sync-cycle avoidance and tracking, the inter-write gap).  What
    it writes to the serial port is captured; the far end (echo, responder) is the same as the mock's."""
    import os

    import ramses_tx.transport as T

    loop = rig.loop
    master, slave = os.openpty()
    rig._pty = (master, slave)
    # module-level state of the limiter / sync tracker: a fresh process for every episode
    T._global_sync_cycles.clear()
    wf = T.PortTransport.write_frame
    cells = dict(zip(wf.__code__.co_freevars, wf.__closure__ or ()))
    if "bits_in_bucket" in cells:
        cells["bits_in_bucket"].cell_contents = cells["BUCKET_CAPACITY"].cell_contents
        cells["last_time_bit_added"].cell_contents = loop.time()
    kw = {**kw, "loop": loop}
    tr = await T.transport_factory(protocol, port_name=os.ttyname(slave), port_config={}, **kw)
    tr.written = []
    tr.gwy_id = rig.gwy_id
    tr.responder = rig.responder
    tr.echo_delay = 0.02
    tr.lose_echo = lambda frame: False
    tr.ether = None

    def inject(frame: str, rssi: str = "045") -> None:
        if tr.is_closing():
            return
        tr._frame_read(vnow(loop).isoformat(timespec="microseconds"), f"{rssi} {frame}")

    def inject_at(dtm, frame: str, rssi: str = "045") -> None:
        tr._frame_read(dtm.isoformat(timespec="microseconds"), f"{rssi} {frame}")

    def _write(data: bytes) -> None:
        frame = data.decode("ascii").rstrip("\r\n")
        tr.written.append((loop.time(), frame))
        if frame[:1] == "!":
            return
        on_air = frame.replace(HGI_ID, tr.gwy_id, 1) if frame[7:16] == HGI_ID else frame
        if not tr.lose_echo(on_air):
            loop.call_later(tr.echo_delay, inject, on_air, "000")
        if tr.responder is not None:
            for delay, reply in tr.responder(on_air) or ():
                loop.call_later(tr.echo_delay + delay, inject, reply)

    tr._write = _write
    tr.inject = inject
    tr.inject_at = inject_at
    return tr


class Ether:
    """An in-memory RF medium: every transmitted frame is heard by every attached gateway (the sender hears its
    echo).  `policy(frame, src_id, dst_id) -> list of extra delays`: [] = lost for that listener, two entries = heard twice."""

    LATENCY = 0.01

    def __init__(self, loop) -> None:
        self.loop = loop
        self.ports: list = []
        self.log: list[tuple[float, str, str]] = []
        self.policy = lambda frame, src, dst: [0.0]

    def transmit(self, src, frame: str) -> None:
        if frame[:1] == "!":
            return
        if frame[7:16] == HGI_ID:
            frame = frame[:7] + src.gwy_id + frame[16:]
        self.log.append((self.loop.time(), src.gwy_id, frame))
        for dst in self.ports:
            for delay in self.policy(frame, src.gwy_id, dst.gwy_id):
                self.loop.call_later(self.LATENCY + delay, dst.inject, frame, "000")

    def inject(self, frame: str, delay: float = 0.0, only=None) -> None:
        """A frame from a third party, heard by all (or the listed) gateways."""
        self.log.append((self.loop.time() + delay, "3rd-party", frame))
        for dst in self.ports:
            if only is None or dst.gwy_id in only:
                self.loop.call_later(self.LATENCY + delay, dst.inject, frame, "045")


class Rig:
    """One gateway on one virtual loop."""

    def __init__(self, loop, *, config=None, schema=None, known_list=None, block_list=None, responder=None,
                 gwy_id=GWY_ID, disable_discovery=True, ether: Ether | None = None, port: bool = False,
                 early_frames=None) -> None:
        self.loop = loop
        self.responder = responder
        self.gwy_id = gwy_id
        self.ether = ether
        self.port = port          # the real PortTransport on a pty instead of the mock
        self.early_frames = list(early_frames or ())   # heard as soon as the transport is open, while start() is still under way
        self._pty = None
        cfg = {"disable_discovery": disable_discovery, "enforce_known_list": False, **(config or {})}
        self.kwargs = dict(config=cfg, **(schema or {}))
        if known_list:
            self.kwargs["known_list"] = known_list
        if block_list:
            self.kwargs["block_list"] = block_list
        self.transport = None
        self.gwy = None

    async def start(self, cached_packets=None, start_discovery=True) -> None:
        import ramses_tx.gateway as TG
        from ramses_rf import Gateway

        install_clock(self.loop)
        MT = make_transport_class()
        rig = self

        async def factory(protocol, /, *, port_name=None, port_config=None, packet_log=None, packet_dict=None, **kw):
            if packet_dict is not None or packet_log is not None:   # the restore path uses the real file transport
                import ramses_tx.transport as T

                return await T.transport_factory(protocol, packet_log=packet_log, packet_dict=packet_dict, **kw)
            if rig.port:
                rig.transport = await make_port_transport(rig, protocol, **kw)
                return rig.transport
            rig.transport = MT(protocol, rig.loop, gwy_id=rig.gwy_id, responder=rig.responder)
            if rig.early_frames:
                # a real transport factory returns only once the connection is made (for a serial port: after the
                # signature exchange, 50-100 ms); what is heard meanwhile is heard while Gateway.start() is still under way
                for fr in rig.early_frames:
                    rig.loop.call_later(0.05, rig.transport.inject, fr)
                await asyncio.sleep(0.1)
            if rig.ether is not None:
                rig.transport.ether = rig.ether
                rig.ether.ports.append(rig.transport)
            return rig.transport

        self._real_factory = TG.transport_factory
        TG.transport_factory = factory
        try:
            self.gwy = Gateway("/dev/null", loop=self.loop, **self.kwargs)
            ctx = getattr(self.gwy._protocol, "_context", None)
            if ctx is not None and hasattr(ctx, "_lock"):
                ctx._lock = TripLock()     # an acquire that would block the (only) thread for ever raises instead
            await self.gwy.start(cached_packets=cached_packets, start_discovery=start_discovery)
        finally:
            TG.transport_factory = self._real_factory
        await asyncio.sleep(0)

    async def feed(self, frame: str, dtm: real_dt | None = None) -> None:
        """Deliver one frame and let the dispatcher's deferred handlers run."""
        if dtm is None:
            self.transport.inject(frame)
        else:
            self.transport.inject_at(dtm, frame)
        for _ in range(3):
            await asyncio.sleep(0)

    async def stop(self) -> None:
        try:
            await self.gwy.stop()
        except Exception:  # noqa: BLE001
            pass
        if self._pty is not None:
            import os

            for fd in self._pty:
                try:
                    os.close(fd)
                except OSError:
                    pass
            self._pty = None


# ---------------------------------------------------------------------------------------------
# packet histories from the repo's logs


def load_logs(repo: str = "/repo") -> dict[str, list[tuple[real_dt, str]]]:
    """{log name: [(dtm, frame)]} for the system / schema / schedule logs shipped with the tests."""
    out: dict[str, list[tuple[real_dt, str]]] = {}
    pats = ["tests/tests/systems/*/packet.log", "tests/tests/schemas/log_files/*.log", "tests/tests/schedules/*/packet.log",
            "tests/tests/eavesdrop_schema/*/packet.log", "tests/tests/logs/*.log", "tests/tests_rf/logs/*.log"]
    for pat in pats:
        for path in sorted(glob.glob(f"{repo}/{pat}")):
            rows = []
            for ln in open(path, errors="replace"):
                m = LOG_LINE.match(ln.rstrip("\n"))
                if m:
                    try:
                        rows.append((real_dt.fromisoformat(m.group(1)), m.group(2).rstrip()))
                    except ValueError:
                        pass
            if rows:
                out[path[len(repo) + 1:]] = rows
    return out


def mutate_history(rnd: random.Random, logs: dict[str, list], max_len: int = 120) -> list[str]:
    """A history (frames only) built from real logs by prefix, deletion, duplication, reordering and splicing."""
    names = sorted(logs)
    base = [f for _, f in logs[rnd.choice(names)]]
    if len(base) > max_len:
        s = rnd.randrange(0, len(base) - max_len + 1)
        base = base[s:s + max_len]
    h = list(base)
    for _ in range(rnd.randrange(0, 6)):
        k = rnd.randrange(5)
        if not h:
            break
        i = rnd.randrange(len(h))
        if k == 0:
            del h[i]
        elif k == 1:
            h.insert(i, h[i])
        elif k == 2 and len(h) > 1:
            j = rnd.randrange(len(h))
            h[i], h[j] = h[j], h[i]
        elif k == 3:
            other = [f for _, f in logs[rnd.choice(names)]]
            a = rnd.randrange(len(other))
            h[i:i] = other[a:a + rnd.randrange(1, 15)]
        else:
            h = h[:rnd.randrange(1, len(h) + 1)]
    return h[:max_len]


class Deadlock(RuntimeError):
    """The library would have blocked the event loop's thread for ever (reported by the check, not hung on)."""


class TripLock:
    """Stand-in for ProtocolContext._lock (a threading.Lock used on the loop's thread only): same semantics, except
    that acquiring it while it is held - which blocks the whole event loop for ever - raises."""

    def __init__(self) -> None:
        self._held = False

    def acquire(self, blocking=True, timeout=-1):
        if self._held:
            raise Deadlock("ProtocolContext._lock.acquire() on a lock that is never released: the event loop would block for ever")
        self._held = True
        return True

    def release(self):
        if not self._held:
            raise RuntimeError("release unlocked lock")
        self._held = False

    def locked(self):
        return self._held

    def __enter__(self):
        self.acquire()
        return self

    def __exit__(self, *a):
        self.release()
        return False


def run(coro_fn, *a, **k):
    return vloop.run(coro_fn, *a, **k)
