"""A virtual-time asyncio event loop: time only advances when nothing is ready to run."""

from __future__ import annotations

import asyncio
import heapq


class LoopIdle(RuntimeError):
    """Nothing is ready and no timer is pending: the program under test is deadlocked."""


class VLoop(asyncio.SelectorEventLoop):
    def __init__(self) -> None:
        super().__init__()
        self._vtime = 0.0
        self.errors: list = []          # what reached the loop's exception handler
        self.set_exception_handler(self._on_error)
        self.iterations = 0

    def _on_error(self, loop, context) -> None:
        self.errors.append(context.get("exception") or context.get("message"))

    def time(self) -> float:
        return self._vtime

    def _run_once(self) -> None:
        self.iterations += 1
        while self._scheduled and self._scheduled[0]._cancelled:
            self._timer_cancelled_count -= 1
            handle = heapq.heappop(self._scheduled)
            handle._scheduled = False
        if not self._ready:
            if self._scheduled:
                when = self._scheduled[0]._when
                if when > self._vtime:
                    self._vtime = when
            elif not self._stopping:
                raise LoopIdle("virtual loop idle: nothing ready, no timers")
        super()._run_once()


def run(coro_fn, *args, **kw):
    """Run `coro_fn(loop, ...)` to completion on a fresh virtual loop; returns (result, loop)."""
    loop = VLoop()
    asyncio.set_event_loop(loop)
    try:
        res = loop.run_until_complete(coro_fn(loop, *args, **kw))
        return res, loop
    finally:
        try:
            pending = [t for t in asyncio.all_tasks(loop) if not t.done()]
            for t in pending:
                t.cancel()
            if pending:
                try:
                    loop.run_until_complete(asyncio.gather(*pending, return_exceptions=True))
                except Exception:  # noqa: BLE001
                    pass
        finally:
            asyncio.set_event_loop(None)
            loop.close()
