"""Shared machinery of the /verif checks: Lean build + audit, model driver, evidence, verdicts.

Run under /venv/bin/python (which imports the working tree at /repo/src).
"""

from __future__ import annotations

import fcntl
import hashlib
import json
import os
import re
import subprocess
import sys
import time
from fractions import Fraction
from pathlib import Path

VERIF = Path(__file__).resolve().parent.parent
LEAN = VERIF / "lean"
REPO = Path(os.environ.get("VERIF_REPO", "/repo"))
DRIVER = LEAN / ".lake" / "build" / "bin" / "ramses-model"
EVIDENCE = VERIF / "evidence"
REPLAYS = VERIF / "replays"
KNOWN = VERIF / "known_findings.json"

ALLOWED_AXIOMS = {"propext", "Classical.choice", "Quot.sound"}
FORBIDDEN_RE = re.compile(
    r"\bsorry\b|\badmit\b|^axiom |native_decide|bv_decide|implemented_by|\bunsafe |maxHeartbeats 0",
    re.M,
)

TRUSTED_BASE = [
    "Lean 4.33.0 kernel (axioms allowed in property theorems: propext, Classical.choice, Quot.sound only; "
    "no native_decide / bv_decide / sorry / own axioms; `decide +kernel` is kernel evaluation)",
    "tools/extract_tables.py (translator: tables, constants and regex ASTs regenerated from /repo on every run)",
    "harness/ (correspondence check: adapters calling the real code, canonicalisation, Python statement of the oracle)",
    "hand-written executable Lean models in lean/Ramses/Model (tied to /repo by the differential run of this check)",
]


def seed() -> int:
    try:
        return int(os.environ.get("VERIF_SEED", "0"))
    except ValueError:
        return 0


# ---------------------------------------------------------------------------------------------
# string escaping of the line protocol (must mirror lean/Driver/Wire.lean)


def esc(s: str) -> str:
    out = []
    for ch in s:
        o = ord(ch)
        if 0x20 <= o <= 0x7E and ch != "%":
            out.append(ch)
        else:
            out.append("%%%02X;" % o)
    return "".join(out)


def unesc(s: str) -> str:
    return re.sub(r"%([0-9A-Fa-f]+);", lambda m: chr(int(m.group(1), 16)), s)


def frac_str(x: float | int) -> str:
    """Canonical exact text of a Python number: reduced n/d (sign in front)."""
    f = Fraction(x)
    return f"{f.numerator}/{f.denominator}"


# ---------------------------------------------------------------------------------------------
# Lean side


class LeanBuild:
    """lake build of the targets a check needs, serialised by a file lock."""

    def __init__(self) -> None:
        self.log = ""
        self.ok = False
        self.failed_modules: list[str] = []

    def build(self, targets: list[str]) -> bool:
        lock = open(LEAN / ".build.lock", "w")
        fcntl.flock(lock, fcntl.LOCK_EX)
        try:
            p = subprocess.run(
                ["lake", "build", *targets],
                cwd=LEAN,
                capture_output=True,
                text=True,
                timeout=3600,
            )
        finally:
            fcntl.flock(lock, fcntl.LOCK_UN)
            lock.close()
        self.log = p.stdout + p.stderr
        self.ok = p.returncode == 0
        self.failed_modules = re.findall(r"^- (\S+)$", self.log, re.M)
        return self.ok


def prop_files(prop_id: str) -> list:
    """Props/<id>.lean and its continuation files Props/<id><Suffix>.lean"""
    props = LEAN / "Ramses" / "Props"
    return [props / f"{prop_id}.lean"] + sorted(q for q in props.glob(f"{prop_id}?*.lean") if q.stem[len(prop_id)].isalpha())


def prop_modules(prop_id: str) -> list[str]:
    return [f"Ramses.Props.{q.stem}" for q in prop_files(prop_id)]


def theorem_names(prop_id: str) -> list[str]:
    """Names of the theorems in lean/Ramses/Props/<id>*.lean (fully qualified)."""
    out = []
    for path in prop_files(prop_id):
        src = path.read_text()
        ns = re.search(r"^namespace (\S+)", src, re.M)
        prefix = ns.group(1) + "." if ns else ""
        out += [prefix + n for n in re.findall(r"^theorem (\S+)", src, re.M)]
    return out


def strip_comments(src: str) -> str:
    # nested block comments are rare here; handle one level + line comments
    src = re.sub(r"/-.*?-/", "", src, flags=re.S)
    src = re.sub(r"--.*$", "", src, flags=re.M)
    return src


def static_audit() -> list[str]:
    """grep the Lean sources for forbidden constructs (outside comments)."""
    bad = []
    for f in list((LEAN / "Ramses").rglob("*.lean")) + list((LEAN / "Driver").rglob("*.lean")):
        m = FORBIDDEN_RE.search(strip_comments(f.read_text()))
        if m:
            bad.append(f"{f.relative_to(LEAN)}: {m.group(0)!r}")
    return bad


def axiom_audit(prop_id: str) -> tuple[dict[str, list[str]], str]:
    """#print axioms for every theorem of Props.<id>; returns {theorem: axioms}."""
    names = theorem_names(prop_id)
    audit = LEAN / ".lake" / f"Audit_{prop_id}.lean"
    audit.parent.mkdir(exist_ok=True)
    audit.write_text(
"".join(f"import {m}\n" for m in prop_modules(prop_id)) + "".join(f"#print axioms {n}\n" for n in names)
    )
    p = subprocess.run(
        ["lake", "env", "lean", str(audit)], cwd=LEAN, capture_output=True, text=True, timeout=1800
    )
    out = p.stdout + p.stderr
    res: dict[str, list[str]] = {}
    for n in names:
        m = re.search(
            r"'" + re.escape(n) + r"' (does not depend on any axioms|depends on axioms: \[([^\]]*)\])",
            out,
        )
        if not m:
            res[n] = ["<missing>"]
        elif m.group(2) is None:
            res[n] = []
        else:
            res[n] = [a.strip() for a in m.group(2).replace("\n", " ").split(",") if a.strip()]
    return res, out


class Model:
    """Batch interface to the compiled line-protocol driver."""

    def __init__(self) -> None:
        if not DRIVER.exists():
            raise RuntimeError(f"driver not built: {DRIVER}")

    def run(self, lines: list[str]) -> list[str]:
        if not lines:
            return []
        data = "".join(line + "\n" for line in lines)
        assert data.count("\n") == len(lines), "a request contains a newline"
        p = subprocess.run([str(DRIVER)], input=data, capture_output=True, text=True, timeout=3600)
        if p.returncode != 0:
            raise RuntimeError(f"driver failed: {p.stderr[:400]}")
        out = p.stdout.split("\n")
        if out and out[-1] == "":
            out.pop()
        if len(out) != len(lines):
            raise RuntimeError(f"driver returned {len(out)} lines for {len(lines)} requests")
        return out


# ---------------------------------------------------------------------------------------------
# verdicts


class Violation:
    def __init__(self, key: str, what: str, replay: dict) -> None:
        self.key = key  # stable identity of the failing input / class
        self.what = what
        self.replay = replay


def load_known(prop_id: str) -> list[dict]:
    if not KNOWN.exists():
        return []
    data = json.loads(KNOWN.read_text())
    return [f for f in data.get("findings", []) if f.get("property") == prop_id]


class Check:
    """One run of one property's check."""

    def __init__(self, prop_id: str, tier: str) -> None:
        self.id = prop_id
        self.tier = tier
        self.seed = seed()
        self.t0 = time.time()
        self.violations: list[Violation] = []
        self.corr_divergences: list[dict] = []  # model != impl where the oracle holds
        self.evaluations = 0
        self.nontrivial: set = set()
        self.samples: list = []
        self.dist: dict[str, int] = {}
        self.obligations = 0
        self.discharged = 0
        self.theorems: dict[str, list[str]] = {}
        self.build_failed: list[str] = []
        self.assumptions: list[str] = []
        self.monitored: dict[str, dict[str, int]] = {}
        self.extra: dict = {}
        self.rule = ""
        self.known_hit: dict[str, int] = {}
        self.notes: list[str] = []
        self.exhaustive = False

    # -- bookkeeping -------------------------------------------------------------------------
    def count(self, label: str, n: int = 1) -> None:
        self.dist[label] = self.dist.get(label, 0) + n

    def sample(self, x, limit: int = 12) -> None:
        if len(self.samples) < limit:
            self.samples.append(x)

    def monitor(self, name: str, violated: bool) -> None:
        m = self.monitored.setdefault(name, {"exercised": 0, "violated": 0})
        m["exercised"] += 1
        if violated:
            m["violated"] += 1

    def violation(self, key: str, what: str, replay: dict) -> None:
        self.violations.append(Violation(key, what, replay))

    def divergence(self, op: str, inp, impl, model) -> None:
        if len(self.corr_divergences) < 50:
            self.corr_divergences.append({"op": op, "input": inp, "impl": impl, "model": model})
        self.count("corr_divergence")

    # -- Lean --------------------------------------------------------------------------------
    def lean(self, extra_targets: list[str] | None = None) -> bool:
        """Build Props.<id> + driver, static + axiom audit.  Returns True when all is well."""
        tr = subprocess.run(
            ["/venv/bin/python", str(VERIF / "tools" / "extract_tables.py")],
            capture_output=True, text=True, env={**os.environ, "VERIF_REPO": str(REPO)},
        )
        self.extra["translator"] = (tr.stdout + tr.stderr).strip()[-300:]
        if tr.returncode != 0:
            self.obligations = len(theorem_names(self.id))
            self.build_failed = ["translator: " + (tr.stdout + tr.stderr).strip()[-300:]]
            return False
        b = LeanBuild()
        targets = prop_modules(self.id) + ["ramses-model"] + (extra_targets or [])
        ok = b.build(targets)
        names = theorem_names(self.id)
        self.obligations = len(names)
        if not ok:
            self.build_failed = b.failed_modules or ["<lake build>"]
            self.extra["lean_build_log_tail"] = b.log[-3000:]
            self.discharged = 0
            return False
        bad = static_audit()
        if bad:
            self.build_failed = ["static-audit: " + "; ".join(bad)]
            return False
        axs, out = axiom_audit(self.id)
        self.theorems = axs
        good = [n for n, a in axs.items() if set(a) <= ALLOWED_AXIOMS]
        self.discharged = len(good)
        if len(good) != len(names):
            self.build_failed = [
                f"axiom-audit: {n}: {a}" for n, a in axs.items() if not set(a) <= ALLOWED_AXIOMS
            ]
            self.extra["audit_output_tail"] = out[-2000:]
            return False
        if self.tier == "thorough":
            # independent re-check of the compiled property modules (and what they import from this library)
            # by the toolchain's stand-alone kernel re-checker
            try:
                lc = subprocess.run(["lake", "env", "leanchecker", *prop_modules(self.id)], cwd=LEAN, capture_output=True,
                                    text=True, timeout=3000)
                self.extra["leanchecker"] = {"modules": prop_modules(self.id), "exit": lc.returncode,
                                             "tail": (lc.stdout + lc.stderr).strip()[-400:]}
                if lc.returncode != 0:
                    self.build_failed = ["leanchecker: " + (lc.stdout + lc.stderr).strip()[-300:]]
                    self.discharged = 0
                    return False
            except FileNotFoundError:
                self.extra["leanchecker"] = "not installed"
        return True

    # -- finish ------------------------------------------------------------------------------
    def finish(self) -> int:
        known = [f for f in load_known(self.id) if f.get("status") == "open"]
        reported: list[Violation] = []
        for v in self.violations:
            hit = None
            for f in known:
                if v.key in f.get("keys", []) or any(
                    v.key.startswith(p) for p in f.get("key_prefixes", [])
                ):
                    hit = f
                    break
            if hit is not None:
                self.known_hit[hit["id"]] = self.known_hit.get(hit["id"], 0) + 1
            else:
                reported.append(v)

        lines: list[str] = []
        for f in known:
            if self.known_hit.get(f["id"]):
                lines.append(f"KNOWN-FINDING: property={self.id} {f['what']}")
            else:
                self.notes.append(f"known finding {f['id']} not observed in this run")

        exit_code = 0
        REPLAYS.mkdir(exist_ok=True)
        seen_keys = set()
        for v in reported:
            if v.key in seen_keys:
                continue
            seen_keys.add(v.key)
            if len(seen_keys) > 5:
                break
            h = hashlib.sha1(v.key.encode()).hexdigest()[:10]
            path = REPLAYS / f"{self.id}-{h}.json"
            path.write_text(
                json.dumps(
                    {"property": self.id, "seed": self.seed, "tier": self.tier, "kind": "input",
                     "key": v.key, "what": v.what, **v.replay},
                    indent=1, default=str,
                )
            )
            lines.append(f"# {v.what}")
            lines.append(f"VIOLATION property={self.id} replay={path}")
            exit_code = 1

        if exit_code == 0 and (self.build_failed or self.corr_divergences):
            # the property is no longer shown to hold, and the search found no failing input
            kind = "theorem" if self.build_failed else "correspondence"
            name = (
                "; ".join(self.build_failed)
                if self.build_failed
                else "corr:" + self.id + "/" + self.corr_divergences[0]["op"]
            )
            h = hashlib.sha1(name.encode()).hexdigest()[:10]
            path = REPLAYS / f"{self.id}-{kind}-{h}.json"
            path.write_text(
                json.dumps(
                    {"property": self.id, "seed": self.seed, "tier": self.tier, "kind": kind,
                     "no_longer_checks": name,
                     "divergences": self.corr_divergences[:20],
                     "lean_log_tail": self.extra.get("lean_build_log_tail", ""),
                     "search": "the oracle was evaluated on the implementation for every generated case "
                               f"({self.evaluations} evaluations) and found no failing input"},
                    indent=1, default=str,
                )
            )
            lines.append(f"# no longer checks: {name}")
            lines.append(f"VIOLATION property={self.id} replay={path} no-failing-input-found")
            exit_code = 1

        classes: dict[str, int] = {}
        for v in reported:
            k = v.key.split(":", 1)[0]
            classes[k] = classes.get(k, 0) + 1
        if classes:
            self.extra["violation_classes"] = classes
            lines.append(f"# violation classes: {classes}")
        self.write_evidence(len(reported))
        for ln in lines:
            print(ln)
        print(
            f"[{self.id}] tier={self.tier} seed={self.seed} evaluations={self.evaluations} "
            f"nontrivial={len(self.nontrivial)} theorems={self.discharged}/{self.obligations} "
            f"violations={len(reported)} known={sum(self.known_hit.values())} "
            f"divergences={len(self.corr_divergences)} wall={time.time() - self.t0:.1f}s "
            f"=> {'FAIL' if exit_code else 'ok'}"
        )
        return exit_code

    def write_evidence(self, n_viol: int) -> None:
        EVIDENCE.mkdir(exist_ok=True)
        cov = {
            "obligations": self.obligations,
            "discharged": self.discharged,
            "checker_cmd": f"cd lean && lake build {' '.join(prop_modules(self.id))} ramses-model && "
                           f"lake env lean .lake/Audit_{self.id}.lean   # '#print axioms' of every theorem",
            "trusted_base": TRUSTED_BASE,
            "theorems": self.theorems,
            "evaluations": self.evaluations,
            "distinct_nontrivial": len(self.nontrivial),
            "rule": self.rule,
            "samples": self.samples,
            "traces_validated_against_impl": self.extra.get("traces_validated", 0),
            "input_distribution": dict(sorted(self.dist.items())),
            "assumptions_monitored": self.monitored,
            "known_findings_hit": self.known_hit,
            "correspondence_divergences": len(self.corr_divergences),
            "exhaustive": self.exhaustive,
            "notes": self.notes,
        }
        for k, v in self.extra.items():
            if k not in cov:
                cov[k] = v
        ev = {
            "property_id": self.id,
            "tier": self.tier,
            "seed": self.seed,
            "level": "proof",
            "coverage": cov,
            "assumptions": self.assumptions,
            "wall_s": round(time.time() - self.t0, 2),
            "violations": n_viol,
        }
        (EVIDENCE / f"{self.id}.json").write_text(json.dumps(ev, indent=1, default=str))


def import_repo() -> None:
    """Make sure `ramses_tx` / `ramses_rf` are imported from REPO's working tree."""
    src = str(REPO / "src")
    if src not in sys.path:
        sys.path.insert(0, src)
    import ramses_tx  # noqa: F401

    got = Path(ramses_tx.__file__).resolve()
    if not str(got).startswith(str((REPO / "src").resolve())):
        raise RuntimeError(f"ramses_tx imported from {got}, expected under {REPO}/src")


# ---------------------------------------------------------------------------------------------
# running the implementation and the model on the same operations


def exn_tag(e: BaseException) -> str:
    from ramses_tx import exceptions as exc

    if isinstance(e, exc.PacketInvalid):
        return "PacketInvalid"
    if hasattr(exc, "CommandInvalid") and isinstance(e, exc.CommandInvalid):
        return "CommandInvalid"
    for cls, tag in (
        (ZeroDivisionError, "ZeroDivisionError"),
        (OverflowError, "OverflowError"),
        (AssertionError, "AssertionError"),
        (NotImplementedError, "NotImplementedError"),
        (LookupError, "LookupError"),
        (AttributeError, "AttributeError"),
        (TypeError, "TypeError"),
        (ValueError, "ValueError"),
    ):
        if isinstance(e, cls):
            return tag
    return "Other"


def call(fn, *args, show=str, **kw) -> str:
    """Run the implementation; canonical `ok\\t<value>` / `err\\t<Tag>`."""
    try:
        r = fn(*args, **kw)
    except Exception as e:  # noqa: BLE001
        return "err\t" + exn_tag(e)
    return "ok\t" + show(r)


class Diff:
    """Collect (request line, implementation output) pairs; run the model; compare."""

    def __init__(self, chk: Check) -> None:
        self.chk = chk
        self.reqs: list[str] = []
        self.impl: list[str] = []
        self.meta: list = []

    def add(self, op: str, args: list[str], impl_out: str, meta=None) -> None:
        self.reqs.append("\t".join([op, *args]))
        self.impl.append(impl_out)
        self.meta.append(meta)

    def run(self) -> int:
        """Returns the number of disagreements (recorded as correspondence divergences)."""
        outs = Model().run(self.reqs)
        bad = 0
        for req, a, b, m in zip(self.reqs, self.impl, outs, self.meta):
            if a != b:
                bad += 1
                op = req.split("\t", 1)[0]
                self.chk.divergence(op, req, a, b)
        self.chk.extra["model_ops_compared"] = self.chk.extra.get("model_ops_compared", 0) + len(self.reqs)
        return bad
