"""C02 — frame text round-trips: parse then print is the identity, through logs too."""

from __future__ import annotations

import json
import random
from datetime import datetime as dt, timedelta as td

from .. import rt
from ..common import Check, Diff, call, esc


def show_frame_obj(f) -> str:
    from ramses_tx.frame import Frame

    return (
        esc(Frame.__repr__(f))
        + "\t"
        + "|".join(esc(x) for x in (f.verb, f.seqn, *(a.id for a in f._addrs), f.code, f.len_, f.payload))
    )


def run(chk: Check) -> None:
    rt.quiet()
    from ramses_tx import exceptions as exc
    from ramses_tx.command import Command
    from ramses_tx.const import COMMAND_REGEX
    from ramses_tx.frame import Frame
    from ramses_tx.packet import Packet
    from ramses_tx.ramses import CODES_SCHEMA

    rnd = random.Random(chk.seed)
    thorough = chk.tier == "thorough"
    N = 200000 if thorough else 8000
    codes = [str(c) for c in CODES_SCHEMA]
    D = Diff(chk)
    chk.rule = (
        "seeded well-formed frames (4 verbs; --- / 000-999 seqn; the 3 legal address shapes over types 00-63; known and "
        "unknown codes; 1-48 payload bytes) + single-edit mutants + CLI short forms + packets through the real packet "
        "logger and log replayer; non-trivial = distinct frame text accepted by the implementation"
    )
    stamp = dt(2024, 1, 1, 12, 0, 0, 123456)
    frames: list[str] = []
    rejected: list[tuple[str, str]] = []
    for i in range(N):
        fr = rt.gen_frame(rnd, codes)
        frames.append(fr)
        chk.evaluations += 1
        # --- base Frame: parse + print + fields
        out = call(Frame, fr, show=show_frame_obj)
        D.add("frame.parse", [esc(fr)], out)
        D.add("frame.shape", [esc(fr)], f"ok\t{bool(COMMAND_REGEX.match(fr))}\t{bool(COMMAND_REGEX.match(fr))}")
        if not out.startswith("ok"):
            chk.violation("frame.reject:" + fr, f"well-formed frame rejected: {fr!r} -> {out!r}", {"op": "frame.parse", "frame": fr})
            continue
        chk.nontrivial.add(fr)
        f = Frame(fr)
        if repr(f) != fr or int(f.len_) * 2 != len(f.payload) or fr[42:45] != f.len_ or fr[46:] != f.payload:
            chk.violation("frame.print:" + fr, f"Frame prints as {f!r}", {"op": "frame.parse", "frame": fr})
        # --- Command
        out = call(Command, fr, show=show_frame_obj)
        D.add("cmd.parse", [esc(fr)], out)
        if out != "ok\t" + esc(fr) + out[len("ok\t" + esc(fr)):] or not out.startswith("ok\t" + esc(fr) + "\t"):
            chk.violation("cmd.print:" + fr, f"Command({fr!r}) -> {out!r}", {"op": "cmd.parse", "frame": fr})
        # --- Packet (RSSI prefix); exceptions other than PacketInvalid belong to C01
        rssi = rnd.choice(("...", "---", "000", "045", "099", "255"))
        try:
            p = Packet(stamp, f"{rssi} {fr}")
            chk.count("packet.ok")
            if str(p) != fr or p._rssi != rssi or p.dtm != stamp:
                chk.violation("pkt.print:" + fr, f"Packet prints as {str(p)!r} rssi {p._rssi!r}", {"op": "packet", "frame": fr, "rssi": rssi})
        except exc.PacketInvalid:
            # Packet() refuses frames whose lifespan cannot be computed (an array payload from a non-controller,
            # a 1-byte 3220: the C01 repair).  That is a *semantic* rejection; it is legitimate exactly when the
            # modelled receive path (Recv.frameRead, what C01's theorems are about) rejects the same frame.
            chk.count("packet.rejected_semantic")
            rejected.append((fr, rssi))
        except Exception as e:  # noqa: BLE001  (reception totality is property C01)
            chk.count("packet.other_exception(" + type(e).__name__ + ")")
        if i < 3:
            chk.sample({"frame": fr, "impl": out})

    if rejected:
        from ..common import Model

        outs = Model().run(["recv.file\tTrue\t" + esc(f"{rssi} {fr}") for fr, rssi in rejected])
        for (fr, rssi), o in zip(rejected, outs):
            if o != "PacketInvalid":
                chk.violation("pkt.reject:" + fr, f"well-formed frame rejected by Packet() but accepted by the model ({o!r}): {fr!r}",
                              {"op": "packet", "frame": fr, "rssi": rssi, "model": o})
    # --- near misses: the shape recogniser vs COMMAND_REGEX vs the generated regex AST, and parse outcomes
    for i in range(N):
        s = rt.mutate(rnd, frames[i % len(frames)])
        if rnd.random() < 0.2:
            s = rt.mutate(rnd, s)
        chk.evaluations += 1
        m = bool(COMMAND_REGEX.match(s))
        D.add("frame.shape", [esc(s)], f"ok\t{m}\t{m}")
        out = call(Frame, s, show=show_frame_obj)
        D.add("frame.parse", [esc(s)], out)
        chk.count("mutant.accepted" if out.startswith("ok") else "mutant.rejected")
        if out.startswith("ok"):
            f = Frame(s)
            if repr(f) != s:
                chk.violation("frame.print:" + s, f"accepted text {s!r} prints as {f!r}", {"op": "frame.parse", "frame": s})
            chk.nontrivial.add(s)
        D.add("cmd.parse", [esc(s)], call(Command, s, show=show_frame_obj))

    # --- CLI short form
    def cli_forms(fr: str) -> list[str]:
        verb, seqn, a0, a1, a2, code, _len, payload = fr[:2], fr[3:6], fr[7:16], fr[17:26], fr[27:36], fr[37:41], fr[42:45], fr[46:]
        forms = [f"{verb} {seqn} {a0} {a1} {a2} {code} {payload}"]
        if seqn == "---" and a0 != rt.NON:  # without a seqn the first token must be a device id
            forms.append(f"{verb} {a0} {a1} {a2} {code} {payload}")
        if a2 == rt.NON:
            forms.append(f"{verb} {seqn} {a0} {a1} {code} {payload}")
            if a0 == "18:000730":
                forms.append(f"{verb} {seqn} {a1} {code} {payload}")
        if a1 == rt.NON and a0 == a2:
            forms.append(f"{verb} {seqn} {a0} {a2} {code} {payload}")
        return forms

    for fr in frames[: N // 2]:
        if rnd.random() < 0.15:
            fr = fr[:7] + "18:000730" + fr[16:]
            if call(Frame, fr, show=repr).startswith("err"):
                continue
        for form in cli_forms(fr):
            variants = [form]
            if rnd.random() < 0.3:
                variants.append("  " + form.lower().replace(" ", "   ", 2) + " ")
            for v in variants:
                chk.evaluations += 1
                out = call(Command.from_cli, v, show=show_frame_obj)
                D.add("cli.parse", [esc(v)], out)
                chk.count("cli.ok" if out.startswith("ok") else "cli.err")
                if not out.startswith("ok\t" + esc(fr) + "\t"):
                    chk.violation("cli:" + v, f"from_cli({v!r}) -> {out!r}, expected {fr!r}", {"op": "cli.parse", "cli": v, "frame": fr})
    for v in ("", "RQ", "RQ 01:123456 1F09", "RQ 01:123456 1F09 00", "I 01:123456 1F09 FF073F", " I 000 01:123456 1F09 FF073F",
              "RQ 01:123456 01:123456 1F09 00", "XX 01:123456 1F09 00", "RQ 1 2 3 4 5 6 7", "W 123 30:045960 -:- 32:054173 22F1 001374",
              "rq 01:123456 1f09 " + "00" * 60, "RQ --- 01:123456 1F09 00", "RQ - 01:123456 1F09 00", "RQ 7 01:123456 1F09 00"):
        chk.evaluations += 1
        D.add("cli.parse", [esc(v)], call(Command.from_cli, v, show=show_frame_obj))

    # --- packet log: real logger -> file -> real replayer
    plog = rt.PacketLog()
    expected = []
    stamped = []
    t = dt(2023, 11, 20, 8, 32, 6, 904058)
    n_log = 3000 if thorough else 600
    for i_fr, fr in enumerate(frames[:n_log]):
        if i_fr in (n_log // 3, 2 * n_log // 3, 2 * n_log // 3 + 5):
            plog.reconfigure()      # a second / third gateway in this process: the session goes on in the same file
            chk.count("log.reconfigured")
        t += td(microseconds=rnd.randrange(1, 3_000_000))
        k = rnd.random()
        if k < 0.12:  # clocks of coarser grain: whole seconds, whole milliseconds, the extremes of the fraction
            t = t.replace(microsecond=0)
        elif k < 0.20:
            t = t.replace(microsecond=rnd.randrange(1000) * 1000)
        elif k < 0.24:
            t = t.replace(microsecond=rnd.choice((1, 10, 999999, 100000)))
        if expected and t <= expected[-1][0]:
            t = expected[-1][0] + td(seconds=1)
        rssi = rnd.choice(("...", "000", "045", "099"))
        comment = rnd.choice(("", "", "note", "evofw3 0.7.1", "a # b * c < d", " padded "))
        try:
            p = Packet(t, f"{rssi} {fr}", comment=comment)
        except Exception:  # noqa: BLE001
            continue
        expected.append((t, rssi, fr))
        stamped.append((t, rssi, fr, comment))
    lines = plog.close()
    got, err = rt.replay_log_file(plog.file)
    plog.unlink()
    chk.extra["log_lines_written"] = len(lines)
    chk.evaluations += len(expected)
    if err is not None:
        chk.violation("log.replay.error", f"replaying the written log raised {err!r}", {"op": "log"})
    got_l = [(m._pkt.dtm, m._pkt._rssi, str(m._pkt)) for m in got]
    # the replayer only delivers packets whose payload decodes; compare as a subsequence + content
    gi = 0
    exp_map = {(a, c): b for a, b, c in expected}
    for dtm, rssi, fr in got_l:
        if (dtm, fr) not in exp_map or exp_map[(dtm, fr)] != rssi:
            chk.violation("log.roundtrip:" + fr, f"log replay delivered {dtm.isoformat()} {rssi} {fr!r}, never written like that", {"op": "log", "frame": fr})
    chk.extra["log_packets_written"] = len(expected)
    chk.extra["log_packets_replayed"] = len(got_l)
    # every written line must come back through from_file exactly
    seen = set()
    n_lines_of: dict = {}
    for ln in lines:
        if not ln.strip() or ln.startswith("#"):
            continue
        dtm_s, rest = ln[:26], ln[27:]
        if not rest.strip():
            continue
        try:
            p = Packet.from_file(dtm_s, rest)
        except ValueError:
            continue  # the logger's banner line (no frame)
        except exc.PacketInvalid as e:
            chk.violation("log.line:" + ln, f"written log line not readable: {ln!r}: {e}", {"op": "log", "line": ln})
            continue
        except Exception:  # noqa: BLE001 -> C01
            continue
        key = (p.dtm, str(p))
        seen.add(key)
        n_lines_of[key] = n_lines_of.get(key, 0) + 1
        if key not in exp_map or exp_map[key] != p._rssi:
            chk.violation("log.line:" + ln, f"log line {ln!r} reads back as {p.dtm} {p._rssi} {p}", {"op": "log", "line": ln})
    dup = [k for k, n in n_lines_of.items() if n > 1]
    if dup:
        chk.violation("log.duplicated", f"{len(dup)} packets were written to the packet log more than once (first: {dup[0][0].isoformat()} {dup[0][1]!r}, "
                      f"{n_lines_of[dup[0]]} lines): a replay delivers them again", {"op": "log", "frame": dup[0][1]})
    # ... and every packet that was logged must be among them (none lost, whatever its timestamp)
    for a, b, c in expected:
        if (a, c) not in seen:
            chk.violation(f"log.lost:us={a.microsecond == 0 and 'whole-second' or 'other'}", f"packet {a.isoformat()} {b} {c!r} was logged but the "
                          f"log file does not give it back (line: {[ln for ln in lines if c in ln][:1]})", {"op": "log", "frame": c, "dtm": a.isoformat()})
            break
    chk.extra["log_whole_second_stamps"] = sum(1 for a, _, _ in expected if a.microsecond == 0)
    # the log line format itself against the model (Model/LogLine.lean): what the logger wrote, and what the reader's
    # fixed columns + fromisoformat make of every written line and of lines with one character of the stamp changed
    by_stamp = {}
    for ln in lines:
        by_stamp.setdefault(ln[:26], ln)
    for t, rssi, fr, comment in stamped:
        want = by_stamp.get(t.isoformat(timespec="microseconds"))
        if want is None:
            continue   # (lost: reported above)
        body = want.split(" # ")[0].split(" < ")[0].rstrip() if not comment else want[: 26 + 1 + len(rssi) + 1 + len(fr)]
        D.add("log.write", [str(x) for x in (t.year, t.month, t.day, t.hour, t.minute, t.second, t.microsecond)] + [esc(rssi), esc(fr)], "ok\t" + esc(body))

    def read_impl(ln: str) -> str:
        try:
            d = dt.fromisoformat(ln[:26])
        except ValueError:
            return "err\tValueError"
        if d.tzinfo is not None:
            return "err\tValueError"   # (not produced by 26 characters)
        return f"ok\t{d.year},{d.month},{d.day},{d.hour},{d.minute},{d.second},{d.microsecond}\t{esc(ln[27:])}"

    for ln in [x for x in lines if x.strip() and not x.startswith("#")][: 400 if not thorough else 3000]:
        if len(ln) < 27 or not ln[:4].isdigit():
            continue
        D.add("log.read", [esc(ln)], read_impl(ln))
        i = rnd.randrange(26)
        m = ln[:i] + rnd.choice("0123456789") + ln[i + 1:] if ln[i].isdigit() else ln[:i] + rnd.choice("-T:. ,") + ln[i + 1:]
        D.add("log.read", [esc(m)], read_impl(m))
    chk.monitor("fromtimestamp(timestamp(d)) == d", False)
    for _ in range(20000):
        d = dt(2000, 1, 1) + td(microseconds=rnd.randrange(50 * 365 * 86400 * 10**6))
        chk.monitor("fromtimestamp(timestamp(d)) == d", dt.fromtimestamp(d.timestamp()) != d)
    D.run()


def replay(chk: Check, path: str) -> int:
    r = json.load(open(path))
    print(json.dumps(r, indent=1))
    run(chk)
    return chk.finish()
