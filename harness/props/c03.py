"""C03 — command builders emit valid frames of the advertised verb/code that decode back."""

from __future__ import annotations

import json
import random
from datetime import datetime as dt, timedelta as td

from .. import gen, rt
from ..common import Check, Diff, esc, exn_tag

LOG_BY_CODE: dict = {}

CTL = "01:145038"
IDX_OK = [0, 1, 7, 11, 15, "00", "01", "0B", "0F"]
IDX_BAD = [16, 99, 255, -1, "10", "7F", "FF", 256]
DHW_OK = [0, 1]


def grid_temps(rnd, lo=0, hi=9999, n=12):
    ks = [29, 57, 2007, 1999, 2150, 500, 3500] + [rnd.randrange(lo, hi + 1) for _ in range(n)]
    return [k / 100 for k in ks if lo <= k <= hi]


def idx_hex(i) -> str:
    return f"{i:02X}" if isinstance(i, int) else f"{int(i, 16):02X}"


class Case:
    def __init__(self, name, args, kwargs, in_domain, expect=None, tag=""):
        self.name, self.args, self.kwargs, self.in_domain, self.expect, self.tag = name, args, kwargs, in_domain, expect or {}, tag

    def label(self) -> str:
        return f"{self.name}({', '.join(map(repr, self.args))}{', ' if self.kwargs else ''}{', '.join(f'{k}={v!r}' for k, v in self.kwargs.items())})"


def cases(rnd: random.Random, thorough: bool) -> list[Case]:
    out: list[Case] = []
    A = out.append
    n_t = 2000 if thorough else 300

    def idx_cases(name, mk_args, expect_idx=True, extra_kwargs=None, code_has_idx_in_reply=True):
        for i in IDX_OK:
            A(Case(name, mk_args(i), dict(extra_kwargs or {}), True, {"zone_idx": idx_hex(i)} if expect_idx else {}))
        for i in IDX_BAD:
            A(Case(name, mk_args(i), dict(extra_kwargs or {}), False, {"zone_idx": idx_hex(i) if isinstance(i, int) and i >= 0 else None} if expect_idx else {}))

    # --- zone-indexed requests
    idx_cases("get_zone_name", lambda i: (CTL, i), expect_idx=False)
    idx_cases("get_zone_config", lambda i: (CTL, i))
    idx_cases("get_zone_mode", lambda i: (CTL, i))
    idx_cases("get_zone_setpoint", lambda i: (CTL, i), expect_idx=False)
    idx_cases("get_zone_temp", lambda i: (CTL, i), expect_idx=False)
    idx_cases("get_zone_window_state", lambda i: (CTL, i), expect_idx=False)
    for i in IDX_OK:
        A(Case("get_mix_valve_params", (CTL, i), {}, True, tag="rq-1030"))
    for i in IDX_OK + [None]:
        A(Case("get_relay_demand", ("13:111111",) if i is None else ("13:111111", i), {}, i in (None, 0, "00"), tag="" if i in (None, 0, "00") else "zone>0"))
    for i in (16, 255):
        A(Case("get_relay_demand", ("13:111111", i), {}, False))
    # --- zone-indexed writes with temperatures
    for i in IDX_OK[:4]:
        for t in grid_temps(rnd, 500, 3500, n_t):
            A(Case("set_zone_setpoint", (CTL, i, t), {}, True, {"zone_idx": idx_hex(i), "setpoint": t}))
    for t in (400, -400.0, 327.68, 1e6):
        A(Case("set_zone_setpoint", (CTL, 1, t), {}, False, {"setpoint": t}))
    for i in IDX_BAD:
        A(Case("set_zone_setpoint", (CTL, i, 20.0), {}, False, {"setpoint": 20.0}))
    for _ in range(n_t * 2):
        lo, hi = rnd.randrange(500, 2101) / 100, rnd.randrange(2100, 3501) / 100
        kw = dict(min_temp=lo, max_temp=hi, local_override=rnd.random() < 0.5, openwindow_function=rnd.random() < 0.5, multiroom_mode=rnd.random() < 0.5)
        A(Case("set_zone_config", (CTL, rnd.choice(IDX_OK)), kw, True, dict(kw)))
    for kw in (dict(min_temp=4.99), dict(max_temp=35.01), dict(min_temp=21.01), dict(local_override=1), dict(multiroom_mode="yes")):
        A(Case("set_zone_config", (CTL, 1), kw, False, {}))
    for name in ("Living Room", "", "A", "x" * 20, "Küche", "a" * 25, " padded ", "tab\there"):
        ok = len(name) <= 20 and all(31 < ord(c) < 127 for c in name)
        A(Case("set_zone_name", (CTL, rnd.choice(IDX_OK), name), {}, ok, {"name": name.strip()} if name.strip() and ok else ({"name": name} if name else {}),
               tag="too-long" if len(name) > 20 else ""))
    # --- zone mode
    until = dt(2024, 2, 29, 23, 59)
    for sp in grid_temps(rnd, 500, 3500, n_t):
        A(Case("set_zone_mode", (CTL, 2), dict(mode="permanent_override", setpoint=sp), True, {"mode": "permanent_override", "setpoint": sp}))
        A(Case("set_zone_mode", (CTL, 2), dict(setpoint=sp, until=until), True, {"mode": "temporary_override", "setpoint": sp, "until": until.isoformat()}))
        A(Case("set_zone_mode", (CTL, 2), dict(setpoint=sp, duration=rnd.randrange(1, 1000)), True, {"mode": "countdown_override", "setpoint": sp}))
    A(Case("set_zone_mode", (CTL, 2), dict(mode="follow_schedule"), True, {"mode": "follow_schedule"}))
    A(Case("set_zone_mode", (CTL, 2), dict(mode=0), True, {"mode": "follow_schedule"}))
    A(Case("set_zone_mode", (CTL, 2), dict(mode="04", setpoint=20.0, until=until), True, {"mode": "temporary_override", "setpoint": 20.0, "until": until.isoformat()}))
    for kw in (dict(), dict(mode="permanent_override"), dict(setpoint=20.0, until=until, duration=5), dict(mode="countdown_override", setpoint=20.0),
               dict(mode="temporary_override", setpoint=20.0, duration=5), dict(mode="bogus", setpoint=20.0), dict(mode=9, setpoint=20.0),
               dict(mode="follow_schedule", until=until), dict(mode="permanent_override", setpoint="hot")):
        A(Case("set_zone_mode", (CTL, 2), kw, False, {}))
    # --- DHW
    for d in DHW_OK:
        A(Case("get_dhw_mode", (CTL,), dict(dhw_idx=d), True))
        A(Case("get_dhw_params", (CTL,), dict(dhw_idx=d), True))
        A(Case("get_dhw_temp", (CTL,), dict(dhw_idx=d), True))
    for d in (2, 15):
        A(Case("get_dhw_mode", (CTL,), dict(dhw_idx=d), False, tag="dhw-idx>1"))
        A(Case("get_dhw_params", (CTL,), dict(dhw_idx=d), False, tag="dhw-idx>1"))
        A(Case("get_dhw_temp", (CTL,), dict(dhw_idx=d), False, tag="dhw-idx>1"))
    for _ in range(n_t * 2):
        kw = dict(setpoint=rnd.randrange(3000, 8501) / 100, overrun=rnd.randrange(0, 11), differential=rnd.randrange(100, 1001) / 100)
        A(Case("set_dhw_params", (CTL,), kw, True, dict(kw)))
    for kw in (dict(setpoint=29.99), dict(setpoint=85.01), dict(overrun=11), dict(overrun=-1), dict(differential=0.99), dict(differential=10.01)):
        A(Case("set_dhw_params", (CTL,), kw, False, {}))
    for t in grid_temps(rnd, 0, 9999, n_t):
        A(Case("put_dhw_temp", ("07:111111", t), {}, True, {"temperature": t}))
    A(Case("put_dhw_temp", ("07:111111", None), {}, True, {"temperature": None}))
    A(Case("put_dhw_temp", ("13:111111", 45.0), {}, False, {}))
    A(Case("put_dhw_temp", ("07:111111", 400), {}, False, {"temperature": 400}))
    for active in (True, False):
        A(Case("set_dhw_mode", (CTL,), dict(mode="permanent_override", active=active), True, {"mode": "permanent_override", "active": active}))
        A(Case("set_dhw_mode", (CTL,), dict(active=active, until=until), True, {"mode": "temporary_override", "active": active, "until": until.isoformat()}))
        A(Case("set_dhw_mode", (CTL,), dict(active=active, duration=30), True, {"mode": "countdown_override", "active": active}, tag="countdown"))
    A(Case("set_dhw_mode", (CTL,), dict(mode="follow_schedule"), True, {"mode": "follow_schedule", "active": None}))   # (no target asked for: none decoded)
    for kw in (dict(), dict(mode="permanent_override"), dict(active=True, until=until, duration=3), dict(mode="bogus", active=True)):
        A(Case("set_dhw_mode", (CTL,), kw, False, {}))
    # --- sensors (faked devices)
    for t in grid_temps(rnd, 0, 9999, n_t):
        A(Case("put_sensor_temp", (rnd.choice(("34:111111", "03:111111", "04:111111", "12:111111", "22:111111", "00:111111")), t), {}, True, {"temperature": t}))
        A(Case("put_outdoor_temp", ("37:111111", t), {}, True, {"outdoor_temp": t}))
        A(Case("put_weather_temp", ("17:111111", t), {}, True, {"temperature": t}))
    for t in (-5.5, -0.01, -27.3):
        A(Case("put_sensor_temp", ("34:111111", t), {}, True, {"temperature": t}))
        A(Case("put_weather_temp", ("17:111111", t), {}, True, {"temperature": t}))
    A(Case("put_sensor_temp", ("34:111111", None), {}, True, {"temperature": None}))
    A(Case("put_sensor_temp", ("13:111111", 20.0), {}, False, {}))
    A(Case("put_sensor_temp", ("34:111111", 700.0), {}, False, {"temperature": 700.0}))
    A(Case("put_weather_temp", ("18:111111", 20.0), {}, False, {}))
    for k in list(range(0, 101, 7)) + [29, 57, 58, 100]:
        A(Case("put_indoor_humidity", ("37:111111", k / 100), {}, True, {"indoor_humidity": k / 100}))
    A(Case("put_indoor_humidity", ("37:111111", None), {}, True, {"indoor_humidity": None}))
    for k in range(0, 101):
        A(Case("put_indoor_humidity", ("37:111111", k / 100), {}, True, {"indoor_humidity": k / 100}))
    for t in (-40.0, -272.99, 0.0, 127.98, 128.0, 327.66, -0.01):
        A(Case("put_outdoor_temp", ("37:111111", t), {}, True, {"outdoor_temp": t}))
    A(Case("put_outdoor_temp", ("37:111111", None), {}, True, {"outdoor_temp": None}))
    for v in (0, 1, 400, 400.4, 999.5, 1000.5, 32766, 5000):
        A(Case("put_co2_level", ("37:111111", v), {}, True, {"co2_level": round(v)}))
    A(Case("put_co2_level", ("37:111111", None), {}, True, {"co2_level": None}))
    for v in (-1, -0.6, 65536, 1e9):
        A(Case("put_co2_level", ("37:111111", v), {}, False, {}))
    A(Case("put_co2_level", ("37:111111", -0.4), {}, True, {"co2_level": 0}))
    for v in (1.01, -0.1, 2):
        A(Case("put_indoor_humidity", ("37:111111", v), {}, False, {}))
    for v in (0, 1, 400, 1999, 5000, 32766):
        A(Case("put_co2_level", ("37:111111", v), {}, True, {"co2_level": v}))
    A(Case("put_co2_level", ("37:111111", None), {}, True, {"co2_level": None}))
    for v in (-1, 70000):
        A(Case("put_co2_level", ("37:111111", v), {}, False, {}))
    for v in (True, False, None):
        A(Case("put_presence_detected", ("37:111111", v), {}, True, {"presence_detected": v}, tag="any"))
    # --- relays / actuators
    for k in list(range(0, 201, 13)) + [113, 114, 57, 200]:
        lvl = "full-level" if k in (0, 200) else "partial-level"
        A(Case("put_actuator_state", ("13:111111", k / 200), {}, True, {"modulation_level": k / 200}, tag=lvl))
        A(Case("put_actuator_cycle", ("13:111111", CTL, k / 200, 100), dict(cycle_countdown=200), True, {"modulation_level": k / 200, "actuator_countdown": 100, "cycle_countdown": 200}, tag="any"))
    A(Case("put_actuator_state", ("13:111111", 1.5), {}, False, {}))
    A(Case("put_actuator_state", ("04:111111", 0.5), {}, False, {}))
    # --- system
    A(Case("get_schedule_version", (CTL,), {}, True))
    A(Case("get_system_language", (CTL,), {}, True))
    A(Case("get_system_mode", (CTL,), {}, True))
    A(Case("get_system_time", (CTL,), {}, True))
    for i in (0, 1, 5, 63, "00", "3F"):
        A(Case("get_system_log_entry", (CTL, i), {}, True, {"log_idx": idx_hex(i)}))
    for i in (64, 255, 256, -1):
        A(Case("get_system_log_entry", (CTL, i), {}, False, {}))
    modes = {"auto": "00", "heat_off": "01", "eco_boost": "02", "away": "03", "day_off": "04", "day_off_eco": "05", "auto_with_reset": "06", "custom": "07"}
    for name, code in modes.items():
        for spelling in (name, code, int(code)):
            A(Case("set_system_mode", (CTL, spelling), {}, True, {"system_mode": name}))
            ok = name not in ("auto", "heat_off", "auto_with_reset")
            A(Case("set_system_mode", (CTL, spelling), dict(until=until), ok, {"system_mode": name, "until": until.isoformat()}))
    for m in ("bogus", 8, "08", None):
        A(Case("set_system_mode", (CTL, m), {}, False, {}))
    for _ in range(n_t):
        d = dt(2000, 1, 1) + td(seconds=rnd.randrange(80 * 365 * 86400))
        dst = rnd.random() < 0.5
        A(Case("set_system_time", (CTL, d), dict(is_dst=dst), True, {"datetime": d.isoformat(timespec="seconds"), "is_dst": dst if dst else None}))
    A(Case("set_system_time", (CTL, dt(2024, 2, 29, 23, 59, 59)), {}, True, {"datetime": "2024-02-29T23:59:59"}))
    # a clock reading is not on a whole second: the sub-second part is below the wire's resolution (ends of every field)
    for _ in range(n_t):
        d = dt(rnd.choice((2000, 2024, 2079)), rnd.choice((1, 2, 12)), rnd.choice((1, 28)), rnd.choice((0, 23, rnd.randrange(24))),
               rnd.choice((0, 59, rnd.randrange(60))), rnd.choice((0, 59, 59, rnd.randrange(60))), rnd.choice((1, 499999, 500000, 999999, rnd.randrange(10**6))))
        dst = rnd.random() < 0.5
        arg = d if rnd.random() < 0.6 else d.isoformat()
        A(Case("set_system_time", (CTL, arg), dict(is_dst=dst), True, {"datetime": d.isoformat(timespec="seconds"), "is_dst": dst if dst else None}))
    # --- TPI
    for dom in (None, "FC", 0, "00"):
        A(Case("get_tpi_params", ("13:111111",), dict(domain_id=dom), True))
    for dom in ("F9", "FA"):
        A(Case("get_tpi_params", ("13:111111",), dict(domain_id=dom), False, tag="domain-F9/FA"))
    for cr in (3, 6, 9, 12):
        A(Case("set_tpi_params", (CTL, "FC"), dict(cycle_rate=cr, min_on_time=rnd.randrange(1, 6), min_off_time=rnd.randrange(1, 6)), True, {"cycle_rate": cr}))
    for pb in (1.5, 2.5, 3.0):
        A(Case("set_tpi_params", (CTL, "FC"), dict(proportional_band_width=pb), True, {"proportional_band_width": pb}))
    for kw in (dict(cycle_rate=4), dict(cycle_rate=0), dict(min_on_time=0), dict(min_on_time=6), dict(proportional_band_width=1.4), dict(proportional_band_width=3.1)):
        A(Case("set_tpi_params", (CTL, "FC"), kw, False, dict(kw), tag="unvalidated-arg"))
    # --- mixing valve
    for _ in range(n_t):
        kw = dict(max_flow_setpoint=rnd.randrange(0, 100), min_flow_setpoint=rnd.randrange(0, 51), valve_run_time=rnd.randrange(0, 241), pump_run_time=rnd.randrange(0, 100))
        A(Case("set_mix_valve_params", (CTL, rnd.choice(IDX_OK)), kw, True, dict(kw)))
    for kw in (dict(max_flow_setpoint=100), dict(min_flow_setpoint=51), dict(valve_run_time=241), dict(pump_run_time=100), dict(max_flow_setpoint=-1)):
        A(Case("set_mix_valve_params", (CTL, 1), kw, False, {}))
    # --- modes x target x until x duration, swept (whether refused or built is the model's business; a built frame must decode,
    #     and to the mode that was named)
    mode_names = {"00": "follow_schedule", "01": "advanced_override", "02": "permanent_override", "03": "countdown_override", "04": "temporary_override"}
    for m in (None, 0, 1, 2, 3, 4, 5, -1, "00", "02", "03", "04", "05", "follow_schedule", "temporary_override", "countdown_override", "COUNTDOWN", "bogus", ""):
        for has_target in (False, True):
            for u in (None, dt(2025, 1, 2, 3, 4)):
                for du in (None, 0, 30, -1, 0xFFFFFF + 1):
                    hexm = f"{m:02X}" if isinstance(m, int) else m
                    exp = {"mode": mode_names[hexm]} if hexm in mode_names else ({"mode": m} if m in mode_names.values() else {})
                    kw = dict(mode=m, until=u, duration=du)
                    A(Case("set_zone_mode", (CTL, 1), {**kw, "setpoint": 21.5 if has_target else None}, False, exp, tag="sweep"))
                    A(Case("set_dhw_mode", (CTL,), {**kw, "active": True if has_target else None}, False, exp, tag="sweep" if du is None else "sweep-duration"))
    for m in (None, 0, 1, 6, 7, 8, -1, "00", "03", "07", "08", "auto", "away", "custom", "au_00", "bogus"):
        for u in (None, dt(2025, 1, 2, 3, 4)):
            A(Case("set_system_mode", (CTL, m), dict(until=u), False, {}, tag="sweep"))
    # --- OpenTherm: all 256 ids
    from ramses_tx.opentherm import OPENTHERM_MESSAGES

    for i in range(256):
        A(Case("get_opentherm_data", ("10:111111", i), {}, True, {"msg_id": i}, tag="known-id" if i in OPENTHERM_MESSAGES else "unknown-id"))
    for i in (256, -1, "GG"):
        A(Case("get_opentherm_data", ("10:111111", i), {}, False, {}))
    # --- schedules
    for z in (0, 5, 11, "HW", "FA"):
        for fn, tot in ((1, None), (1, 0), (2, 3), (3, 3), (2, 2), (8, 8)):
            A(Case("get_schedule_fragment", (CTL, z, fn, tot), {}, True, {"frag_number": fn, "total_frags": tot or None}))
        frag = "".join(rnd.choice(rt.HEX) for _ in range(2 * rnd.randint(1, 41)))
        A(Case("set_schedule_fragment", (CTL, z, 1, 2, frag), {}, True, {"frag_number": 1, "total_frags": 2, "fragment": frag}))
    A(Case("get_schedule_fragment", (CTL, 1, 0, 3), {}, False, {}))
    A(Case("get_schedule_fragment", (CTL, 1, 4, 3), {}, False, {}))
    A(Case("set_schedule_fragment", (CTL, 1, 1, 2, "AA" * 42), {}, False, {}))
    # --- HVAC
    for fm in ("away", "low", "medium", "high", "auto", "boost", "00", "01", "04", 1, 2, None):
        A(Case("set_fan_mode", ("32:111111", fm), dict(src_id="37:111111"), True, {}))
        A(Case("set_fan_mode", ("32:111111", fm), dict(seqn=rnd.choice((1, 17, "063"))), True, {}))
    A(Case("set_fan_mode", ("32:111111", "bogus"), {}, False, {}))
    A(Case("set_fan_mode", ("32:111111", "low"), dict(seqn=1, src_id="37:111111"), False, {}))
    for pos, mode in ((0.0, "off"), (1.0, "on"), (None, "auto")):
        A(Case("set_bypass_position", ("32:111111",), dict(bypass_position=pos, src_id="37:111111"), True, {"bypass_mode": mode}))
    for pos in (0.5, 0.57, 0.005):
        A(Case("set_bypass_position", ("32:111111",), dict(bypass_position=pos, src_id="37:111111"), True, {"bypass_position": pos}, tag="partial-position"))
    for bm in ("auto", "off", "on"):
        A(Case("set_bypass_position", ("32:111111",), dict(bypass_mode=bm, src_id="37:111111"), True, {"bypass_mode": bm}))
    A(Case("set_bypass_position", ("32:111111",), dict(bypass_mode="on", bypass_position=0.5), False, {}))
    A(Case("set_fan_param", ("32:111111", "3D", "10"), dict(src_id="37:111111"), True, {}, tag="str-value"))
    # --- binding
    A(Case("put_bind", (" I", "30:111111", ["22F1", "22F3"]), {}, True, {"phase": "offer"}))
    A(Case("put_bind", (" I", "30:111111", "22F1"), {}, True, {"phase": "offer"}))
    A(Case("put_bind", (" W", "30:111111", "22F1", "32:222222"), dict(idx="00"), True, {"phase": "accept"}))
    A(Case("put_bind", (" I", "30:111111", None, "32:222222"), {}, True, {"phase": "confirm"}))
    A(Case("put_bind", (" I", "30:111111", "22F1", "32:222222"), {}, True, {"phase": "confirm"}))
    A(Case("put_bind", ("RQ", "30:111111", "22F1"), {}, False, {}))
    A(Case("put_bind", (" W", "30:111111", "22F1"), {}, False, {}))
    for v in (" W", " I", "RP", "RQ"):
        for dst in (None, "30:111111", "63:262142", "32:222222"):
            for codes in ("22F1", ["22F1", "22F3"], None, []):
                for kw in ({}, {"idx": "00"}, {"idx": "21"}):
                    A(Case("put_bind", (v, "30:111111", codes, dst), dict(kw), False, {}))
    return out


API_KEY = {}
MODEL_ON = True


def run(chk: Check) -> None:
    rt.quiet()
    from ramses_tx import exceptions as exc
    from ramses_tx.command import CODE_API_MAP, Command
    from ramses_tx.message import Message
    from ramses_tx.packet import Packet

    rnd = random.Random(chk.seed)
    thorough = chk.tier == "thorough"
    D = Diff(chk)
    keys: dict[str, set] = {}
    for k, f in CODE_API_MAP.items():
        keys.setdefault(f.__name__, set()).add(k)
    chk.rule = (
        "every constructor of CODE_API_MAP with argument tuples from its documented domain (all small domains exhaustively: "
        "indexes, modes x until x duration, the 256 OpenTherm ids, fragment numbers; temperatures/percentages on the wire "
        "grid incl. the values binary floating point truncates) and from outside it; built command checked for its API-map "
        "key, decoded by the library's own decoder, decoded values compared with the arguments; non-trivial = distinct "
        "argument tuple for which a command was built"
    )
    cs = cases(rnd, thorough)
    covered = set()
    LOG_BY_CODE.clear()
    for fr in gen.repo_log_frames(20000):
        if fr[:2] in (" I", "RP"):
            LOG_BY_CODE.setdefault(fr[37:41], []).append(fr)
    # ... and, for every code a constructor builds, schema-valid announcements / replies of that code (the logs hold few of them)
    _pairs = {}
    for code, verb, pat in gen.schema_pairs():
        if verb in (" I", "RP"):
            _pairs.setdefault(code, []).append((code, verb, pat))
    for code, prs in _pairs.items():
        for _ in range(12):
            fr = gen.gen_schema_frame(rnd, prs)
            if fr:
                LOG_BY_CODE.setdefault(code, []).append(fr)
    for c in cs:
        chk.evaluations += 1
        covered.add(c.name)
        fn = getattr(Command, c.name)
        try:
            cmd = fn(*c.args, **c.kwargs)
        except Exception as e:  # noqa: BLE001  -- refused with an error
            chk.count(f"{c.name}.refused({exn_tag(e)})")
            _model_compare(D, c, None, "err\t" + exn_tag(e))
            if c.in_domain:
                chk.violation(f"{c.name}:indomain_refused:{_argkey(c)}", f"{c.label()} is in the documented domain but raises {type(e).__name__}: {e}",
                              {"op": "build", "constructor": c.name, "args": repr(c.args), "kwargs": repr(c.kwargs)})
            continue
        chk.nontrivial.add(c.label())
        chk.count(f"{c.name}.built")
        key = f"{cmd.verb}|{cmd.code}"
        if key not in keys.get(c.name, ()):
            chk.violation(f"{c.name}:wrong_key", f"{c.label()} builds {key} but is registered under {sorted(keys.get(c.name, []))}: {cmd}",
                          {"op": "build", "constructor": c.name, "args": repr(c.args), "kwargs": repr(c.kwargs), "frame": str(cmd)})
        if c.name == "put_bind" and str(cmd.verb) != str(c.args[0]):
            # the one constructor registered under two verbs takes the verb as an argument: what it builds is of that verb
            chk.violation(f"put_bind:wrong_verb:{c.args[0].strip()}->{str(cmd.verb).strip()}", f"{c.label()} was asked for verb {c.args[0]!r} and builds {str(cmd)!r}",
                          {"op": "build", "constructor": c.name, "args": repr(c.args), "kwargs": repr(c.kwargs), "frame": str(cmd)})
        # (a gateway has decoded other traffic of that code by the time it builds a command: the controller's announcements
        #  and replies found in the repo's logs - what a built command decodes to does not depend on them)
        try:
            before = json.dumps(Message._from_cmd(fn(*c.args, **c.kwargs)).payload, sort_keys=True, default=str)
        except Exception:  # noqa: BLE001
            before = None
        for fr in rnd.sample(LOG_BY_CODE.get(str(cmd.code), []), min(3, len(LOG_BY_CODE.get(str(cmd.code), [])))) if chk.evaluations % 2 else ():
            try:
                _ = Message(Packet(dt.now(), "045 " + fr)).payload
                chk.count("decoded_log_frame_of_the_code_first")
            except Exception:  # noqa: BLE001
                pass
        try:
            msg = Message._from_cmd(cmd)
            payload = msg.payload
        except exc.PacketInvalid as e:
            kind = "undecodable" if c.in_domain else "outdomain_undecodable"
            chk.violation(f"{c.name}:{kind}:{_argkey(c)}", f"{c.label()} builds {str(cmd)!r}, which the library's own decoder rejects: {e}",
                          {"op": "decode", "constructor": c.name, "args": repr(c.args), "kwargs": repr(c.kwargs), "frame": str(cmd)})
            continue
        except Exception as e:  # noqa: BLE001
            chk.violation(f"{c.name}:decode_escape:{exn_tag(e)}", f"{c.label()} builds {str(cmd)!r}; decoding raises {type(e).__name__}: {e}",
                          {"op": "decode", "constructor": c.name, "frame": str(cmd)})
            continue
        after = json.dumps(payload, sort_keys=True, default=str)
        if before is not None and after != before:
            chk.violation(f"{c.name}:decode_depends_on_other_traffic", f"{c.label()} -> {str(cmd)!r} decoded to {before} and, after other packets of code {cmd.code} "
                          f"had been decoded, to {after}", {"op": "decode", "constructor": c.name, "args": repr(c.args), "kwargs": repr(c.kwargs), "frame": str(cmd)})
        # values
        if isinstance(payload, dict):
            for k, want in c.expect.items():
                if k not in payload:
                    if want is None:
                        continue
                    chk.violation(f"{c.name}:missing_value:{k}:{_argkey(c)}", f"{c.label()} -> {str(cmd)!r} decodes to {payload}, which lacks {k}",
                                  {"op": "values", "constructor": c.name, "args": repr(c.args), "kwargs": repr(c.kwargs), "frame": str(cmd)})
                elif payload[k] != want or type(payload[k]) is bool and type(want) is not bool:
                    kind = "wrong_value" if c.in_domain else "outdomain_wrong_value"
                    chk.violation(f"{c.name}:{kind}:{k}:{_argkey(c) if (kind != 'wrong_value' or c.tag) else _valkey(want)}",
                                  f"{c.label()} -> {str(cmd)!r} decodes {k}={payload[k]!r}, asked for {want!r}",
                                  {"op": "values", "constructor": c.name, "args": repr(c.args), "kwargs": repr(c.kwargs), "frame": str(cmd)})
        if len(chk.samples) < 6:
            chk.sample({"call": c.label(), "frame": str(cmd), "decoded": str(payload)[:200]})
        # model comparison for the modelled builders
        _model_compare(D, c, cmd) if MODEL_ON else None
    # OpenTherm parity arithmetic against the model: `parity` on random and structured values, `decode_frame`'s head
    # checks on well-formed requests with either parity bit and with spare bits set
    from ramses_tx import opentherm as OT

    for x in [0, 1, 2, 3, 0x7FFFFFFF, 0x80000000, 0xFFFFFFFF] + [rnd.getrandbits(rnd.choice((8, 16, 31, 32))) for _ in range(300)]:
        D.add("ot.parity", [str(x)], f"ok\t{OT.parity(x)}")
    for _ in range(400):
        b0 = rnd.choice((0x00, 0x80, 0x10, 0x90, 0x40, 0xC0, 0x70, 0xF0, 0x01, 0x8F))
        fr = f"{b0:02X}{rnd.randrange(256):02X}{rnd.choice((0, 0, rnd.getrandbits(16))):04X}"
        try:
            OT.decode_frame(fr)
            got = "ok\tok"
        except ValueError as e:
            got = "err\tValueError" if ("parity" in str(e) or "spare" in str(e)) else "ok\tok"
        except Exception:  # noqa: BLE001  (unknown data-id etc.: after the head checks)
            got = "ok\tok"
        D.add("ot.check", [fr], got)
    missing = set(keys) - covered
    if missing:
        chk.notes.append(f"constructors without generated cases: {sorted(missing)}")
    chk.extra["constructors_covered"] = len(covered)
    chk.extra["constructors_in_api_map"] = len(keys)
    D.run()


def _argkey(c: Case) -> str:
    if c.tag:
        return "#" + c.tag
    return (repr(c.args[1:]) + repr(sorted(c.kwargs.items())))[:80]


def _valkey(v) -> str:
    return repr(v)[:24]


MODELLED = {
    "get_zone_config": "000A", "get_zone_mode": "2349", "get_zone_setpoint": "2309", "get_zone_temp": "30C9",
    "get_zone_window_state": "12B0", "set_zone_setpoint": "2309", "put_sensor_temp": "30C9", "put_dhw_temp": "1260",
    "put_outdoor_temp": "1290", "put_co2_level": "1298", "put_indoor_humidity": "12A0",
    "get_dhw_params": "10A0", "get_dhw_temp": "1260", "set_dhw_params": "10A0", "set_zone_config": "000A",
    "get_relay_demand": "0008",
    "get_system_mode": "2E04", "get_system_time": "313F", "get_schedule_version": "0006", "get_system_language": "0100",
    "get_dhw_mode": "1F41", "get_mix_valve_params": "1030", "get_tpi_params": "1100", "set_system_mode": "2E04",
    "set_system_time": "313F", "set_dhw_mode": "1F41", "set_zone_mode": "2349", "set_mix_valve_params": "1030",
    "set_tpi_params": "1100", "set_zone_name": "0004",
    "get_opentherm_data": "3220", "get_system_log_entry": "0418", "get_schedule_fragment": "0404", "set_schedule_fragment": "0404",
}


def _model_compare(D: Diff, c: Case, cmd, out=None) -> None:
    from ..common import frac_str

    if c.name not in MODELLED:
        return

    def f(x):
        return "None" if x is None else frac_str(x)

    def ix(i):
        return "i" + str(i) if isinstance(i, int) else "s" + esc(str(i))

    if c.name in ("get_zone_config", "get_zone_mode", "get_zone_setpoint", "get_zone_temp", "get_zone_window_state"):
        args = [c.name, esc(c.args[0]), ix(c.args[1])]
    elif c.name == "get_relay_demand":
        args = [c.name, esc(c.args[0]), ix(c.args[1]) if len(c.args) > 1 else "None"]
    elif c.name == "set_zone_setpoint":
        if not isinstance(c.args[2], (int, float)):
            return
        args = [c.name, esc(c.args[0]), ix(c.args[1]), f(c.args[2])]
    elif c.name in ("put_sensor_temp", "put_dhw_temp", "put_outdoor_temp", "put_co2_level", "put_indoor_humidity"):
        if c.kwargs or not (c.args[1] is None or isinstance(c.args[1], (int, float))):
            return
        args = [c.name, esc(c.args[0]), f(c.args[1])]
    elif c.name in ("get_dhw_params", "get_dhw_temp"):
        args = [c.name, esc(c.args[0]), ix(c.kwargs.get("dhw_idx", 0))]
    elif c.name == "set_dhw_params":
        args = [c.name, esc(c.args[0]), f(c.kwargs.get("setpoint", 50.0)), str(c.kwargs.get("overrun", 5)), f(c.kwargs.get("differential", 1))]
    elif c.name == "set_zone_config":
        if not all(isinstance(c.kwargs.get(k, False), bool) for k in ("local_override", "openwindow_function", "multiroom_mode")):
            return
        args = [c.name, esc(c.args[0]), ix(c.args[1]), f(c.kwargs.get("min_temp", 5)), f(c.kwargs.get("max_temp", 35)),
                str(c.kwargs.get("local_override", False)), str(c.kwargs.get("openwindow_function", False)), str(c.kwargs.get("multiroom_mode", False))]
    elif c.name in ("get_system_mode", "get_system_time", "get_schedule_version", "get_system_language"):
        if c.kwargs or len(c.args) != 1:
            return
        args = [c.name, esc(c.args[0])]
    elif c.name == "get_dhw_mode":
        args = [c.name, esc(c.args[0]), ix(c.kwargs.get("dhw_idx", 0))]
    elif c.name == "get_mix_valve_params":
        args = [c.name, esc(c.args[0]), ix(c.args[1])]
    elif c.name == "get_tpi_params":
        dom = c.kwargs.get("domain_id")
        args = [c.name, esc(c.args[0]), "None" if dom is None else ix(dom)]
    elif c.name == "set_system_mode":
        u = c.kwargs.get("until")
        if not _plain_dt(u) or not _plain_mode(c.args[1]) or set(c.kwargs) - {"until"}:
            return
        args = [c.name, esc(c.args[0]), mo(c.args[1]), dtm(u)]
    elif c.name == "set_system_time":
        if not _plain_dt(c.args[1]) or c.args[1] is None or not isinstance(c.kwargs.get("is_dst", False), bool):
            return
        args = [c.name, esc(c.args[0]), dtm(c.args[1]), str(c.kwargs.get("is_dst", False))]
    elif c.name in ("set_dhw_mode", "set_zone_mode"):
        kw = dict(c.kwargs)
        u, du, m = kw.pop("until", None), kw.pop("duration", None), kw.pop("mode", None)
        if not _plain_dt(u) or not _plain_mode(m) or not (du is None or (isinstance(du, int) and not isinstance(du, bool))):
            return
        if c.name == "set_dhw_mode":
            a, i = kw.pop("active", None), kw.pop("dhw_idx", 0)
            if kw or not (a is None or isinstance(a, bool)) or len(c.args) != 1:
                return
            args = [c.name, esc(c.args[0]), ix(i), mo(m), str(a), dtm(u), str(du)]
        else:
            sp = kw.pop("setpoint", None)
            if kw or not (sp is None or (isinstance(sp, (int, float)) and not isinstance(sp, bool))) or len(c.args) != 2:
                return
            args = [c.name, esc(c.args[0]), ix(c.args[1]), mo(m), f(sp), dtm(u), str(du)]
    elif c.name == "set_mix_valve_params":
        kw = dict(c.kwargs)
        vals = [kw.pop(k, d) for k, d in (("max_flow_setpoint", 55), ("min_flow_setpoint", 15), ("valve_run_time", 150), ("pump_run_time", 15), ("boolean_cc", 1))]
        if kw or not all(isinstance(v, int) and not isinstance(v, bool) for v in vals):
            return
        args = [c.name, esc(c.args[0]), ix(c.args[1])] + [str(v) for v in vals]
    elif c.name == "set_tpi_params":
        kw = dict(c.kwargs)
        vals = [kw.pop(k, d) for k, d in (("cycle_rate", 3), ("min_on_time", 5), ("min_off_time", 5))]
        pbw = kw.pop("proportional_band_width", None)
        if kw or not all(isinstance(v, int) and not isinstance(v, bool) for v in vals) or not (pbw is None or (isinstance(pbw, (int, float)) and not isinstance(pbw, bool))):
            return
        args = [c.name, esc(c.args[0]), "None" if c.args[1] is None else ix(c.args[1])] + [str(v) for v in vals] + [f(pbw)]
    elif c.name in ("get_opentherm_data", "get_system_log_entry"):
        i = c.args[1]
        if c.kwargs or isinstance(i, bool) or not isinstance(i, (int, str)) or (isinstance(i, int) and i < 0 and c.name == "get_opentherm_data"):
            return
        args = [c.name, esc(c.args[0]), ix(i)]
    elif c.name == "get_schedule_fragment":
        if c.kwargs or len(c.args) != 4 or not isinstance(c.args[2], int) or not (c.args[3] is None or isinstance(c.args[3], int)):
            return
        args = [c.name, esc(c.args[0]), ix(c.args[1]), str(c.args[2]), str(c.args[3])]
    elif c.name == "set_schedule_fragment":
        if c.kwargs or len(c.args) != 5 or not all(isinstance(x, int) for x in c.args[2:4]) or not isinstance(c.args[4], str):
            return
        args = [c.name, esc(c.args[0]), ix(c.args[1]), str(c.args[2]), str(c.args[3]), esc(c.args[4])]
    elif c.name == "set_zone_name":
        if c.kwargs or not isinstance(c.args[2], str) or "\t" in c.args[2] or "\n" in c.args[2]:
            return
        args = [c.name, esc(c.args[0]), ix(c.args[1]), esc(c.args[2])]
    else:
        return
    D.add("build", args, out if out is not None else "ok\t" + esc(str(cmd)))
    D.chk.count("model.build." + c.name + (".ok" if out is None else ".refused"))


def _plain_dt(u) -> bool:
    from datetime import datetime as _dt

    return u is None or (type(u) is _dt and u.tzinfo is None)


def _plain_mode(m) -> bool:
    return m is None or (isinstance(m, (int, str)) and not isinstance(m, bool))


def mo(m) -> str:
    return "None" if m is None else ("i" + str(m) if isinstance(m, int) else "s" + esc(m))


def dtm(u) -> str:
    return "None" if u is None else f"{u.year},{u.month},{u.day},{u.hour},{u.minute},{u.second}"


def replay(chk: Check, path: str) -> int:
    r = json.load(open(path))
    print(json.dumps(r, indent=1)[:3000])
    run(chk)
    return chk.finish()
