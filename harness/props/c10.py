"""C10 — device filters are sound and complete: blocked never passes, allowed never drops."""

from __future__ import annotations

import asyncio
import itertools
import json
import random
from datetime import datetime as dt

from .. import rt
from ..common import Check, Diff, esc

GWY = "18:006402"
FOREIGN = "18:999999"
HGI = "18:000730"
ALL = "63:262142"
NUL = "--:------"
LISTED, LISTED2, UNLISTED, BLOCKED, BOTH = "01:111111", "04:222222", "01:333333", "13:444444", "04:555555"
UNIVERSE = [LISTED, LISTED2, UNLISTED, BLOCKED, BOTH, GWY, FOREIGN, HGI, ALL, NUL]


def oracle(src, dst, known, block, enforce, active, sending) -> bool:
    """The property text: blocked never passes; enforced known list; otherwise always passes."""
    for d in (src, dst):
        if d in block:
            return False
    if enforce:
        for d in (src, dst):
            if d in known or (active is not None and d == active) or d in (ALL, NUL):
                continue
            if sending and d == HGI:
                continue
            return False
    return True


class FakeTransport:
    def __init__(self, protocol, loop, gwy) -> None:
        self._protocol, self._loop, self._gwy = protocol, loop, gwy
        self.frames: list[str] = []

    def get_extra_info(self, name, default=None):
        return {"active_gwy": self._gwy, "is_evofw3": True}.get(name, default)

    def _dt_now(self):
        return dt.now()

    def is_closing(self):
        return False

    def close(self):
        pass

    async def write_frame(self, frame: str, disable_tx_limits: bool = False) -> None:
        from ramses_tx.packet import Packet

        self.frames.append(frame)
        if not getattr(self, "echo", True):
            return
        echo = frame.replace(HGI, self._gwy or HGI)
        pkt = Packet.from_port(dt.now(), f"000 {echo}")
        self._loop.call_soon(self._protocol.pkt_received, pkt)


def frame_for(src, dst) -> str | None:
    if src in (NUL, ALL):
        return None
    if dst == NUL:
        return f" I --- {NUL} {NUL} {src} 0008 002 00C8"
    if dst == src:
        return f" I --- {src} {NUL} {src} 0008 002 00C8"
    return f" I --- {src} {dst} {NUL} 0008 002 00C8"


def run(chk: Check) -> None:
    rt.quiet()
    from ramses_tx import exceptions as exc
    from ramses_tx.command import Command
    from ramses_tx.packet import Packet
    from ramses_tx.protocol import protocol_factory
    from ramses_tx.schemas import select_device_filter_mode

    rnd = random.Random(chk.seed)
    thorough = chk.tier == "thorough"
    D = Diff(chk)
    chk.rule = (
        "exhaustive over a 10-id universe (listed x2, unlisted, blocked, listed+blocked, active gateway, foreign 18:, "
        "18:000730, 63:262142, --:------): all (src, dst, direction) triples x all configurations of known_list "
        "subsets / block_list subsets / HGI entry / enforcement / active gateway (unknown, known, unlisted, blocked); the "
        "real _is_wanted_addrs on a real PortProtocol vs the model and vs the property text, also asked before the gateway "
        "is identified and again (twice) after; end-to-end delivery and "
        "send refusal on a sample; a real ramses_rf.Gateway with the lists configured, fed live packets and a restored packet "
        "cache, gateway id known or not: which devices exist; non-trivial = distinct (config, src, dst, direction)"
    )

    known_sets = [[], [LISTED], [LISTED, LISTED2, BOTH], [LISTED, LISTED2, BOTH, GWY], [LISTED, GWY, FOREIGN], [GWY], [GWY, FOREIGN]]
    block_sets = [[], [BLOCKED], [BLOCKED, BOTH], [BLOCKED, GWY]]
    actives = [None, GWY, FOREIGN]
    configs = list(itertools.product(known_sets, block_sets, (False, True), actives))
    if not thorough:
        rnd.shuffle(configs)
        configs = configs[:90]

    async def body() -> None:
        loop = asyncio.get_running_loop()
        for known, block, enforce_req, active in configs:
            inc = {k: ({"class": "HGI"} if k[:2] == "18" else {}) for k in known}
            exc_l = {k: {} for k in block}
            enforce_impl = select_device_filter_mode(enforce_req, inc, exc_l)
            D.add("filter.mode", [str(enforce_req), ",".join(known)], f"ok\t{bool(enforce_impl)}")
            # what the stack is configured with is the library's own decision; what the property demands is enforcement
            # whenever it was asked for and there is a list to enforce (a list naming only the gateway is a list)
            enforce = bool(enforce_req and known)
            if bool(enforce_impl) != enforce:
                chk.violation("mode:" + ("not-enforced" if enforce else "enforced-unasked"), f"enforce_known_list={enforce_req} with known_list {known}: "
                              f"select_device_filter_mode answers {enforce_impl}", {"op": "filter.mode", "known": known, "enforce": enforce_req})
            delivered: list = []
            protocol = protocol_factory(delivered.append, disable_qos=True, enforce_include_list=enforce_impl, exclude_list=exc_l, include_list=inc)
            transport = FakeTransport(protocol, loop, active)
            # (also when the transport could not identify its gateway - a stick that never echoed the signature)
            protocol.connection_made(transport, ramses=True)
            protocol.resume_writing()
            # the active gateway is the id the transport identified - unless that id is block-listed; nothing else
            eff_active = active if (active is not None and active not in block) else None
            D.add("filter.active", [",".join(block), ",".join(known), str(bool(enforce)), str(active)], f"ok\t{protocol._active_hgi}")
            if protocol._active_hgi != eff_active:
                chk.violation("active_gateway:" + ("installed-unidentified" if active is None else "wrong"), f"known={known} block={block}: the transport identified "
                              f"{active} as its gateway; the protocol treats {protocol._active_hgi} as the active gateway", {"op": "filter.active", "known": known, "block": block, "active": active})
            # decision level, exhaustive
            for src in UNIVERSE:
                for dst in UNIVERSE:
                    for sending in (False, True):
                        chk.evaluations += 1
                        got = bool(protocol._is_wanted_addrs(src, dst, sending=sending))
                        D.add("filter.wanted", [",".join(block), ",".join(known), str(bool(enforce)), str(active), src, dst, str(sending)], f"ok\t{got}")
                        want = oracle(src, dst, known, block, enforce, eff_active, sending)
                        chk.nontrivial.add((tuple(known), tuple(block), enforce, active, src, dst, sending))
                        if got != want:
                            chk.violation(
                                f"filter:{'overblock' if want else 'leak'}:{'tx' if sending else 'rx'}",
                                f"known={known} block={block} enforce={enforce} active={eff_active}: {src}->{dst} "
                                f"{'send' if sending else 'receive'} is {'passed' if got else 'dropped'}, must be {'passed' if want else 'dropped'}",
                                {"op": "filter.wanted", "known": known, "block": block, "enforce": enforce, "active": active, "src": src, "dst": dst, "sending": sending})
            # end to end, a sample
            if active is None:
                continue
            # the verdict is a function of the configuration and the gateway known *now*, not of what the filter
            # was asked earlier: the same questions before the gateway is identified, then again after
            p3 = protocol_factory(lambda m: None, disable_qos=True, enforce_include_list=enforce_impl, exclude_list=exc_l, include_list=inc)
            t3 = FakeTransport(p3, loop, active)
            pre_active = p3._active_hgi
            for phase in ("before-connect", "after-connect", "after-connect-again"):
                if phase == "after-connect":
                    p3.connection_made(t3, ramses=True)
                    p3.resume_writing()
                now_active = p3._active_hgi
                pairs = [(a, b, c) for a in UNIVERSE for b in UNIVERSE for c in (False, True)]
                if phase != "before-connect":
                    pairs.reverse()
                for src, dst, sending in pairs:
                    chk.evaluations += 1
                    got = bool(p3._is_wanted_addrs(src, dst, sending=sending))
                    want = oracle(src, dst, known, block, enforce, now_active, sending)
                    D.add("filter.wanted", [",".join(block), ",".join(known), str(bool(enforce)), str(now_active), src, dst, str(sending)], f"ok\t{got}")
                    if got != want:
                        chk.violation(
                            f"filter.history:{'overblock' if want else 'leak'}:{'tx' if sending else 'rx'}",
                            f"known={known} block={block} enforce={enforce}: asked {phase} (gateway {now_active}, was {pre_active}), {src}->{dst} "
                            f"{'send' if sending else 'receive'} is {'passed' if got else 'dropped'}, must be {'passed' if want else 'dropped'}",
                            {"op": "filter.history", "phase": phase, "known": known, "block": block, "enforce": enforce, "active": active, "src": src, "dst": dst, "sending": sending})
            # ... nor of what the sender is doing: with QoS on and a command of ours on the air (written, its echo outstanding) the
            # same questions get the same answers, and a packet received in that window is delivered or dropped as at any other time
            delivered4: list = []
            p4 = protocol_factory(delivered4.append, disable_qos=False, enforce_include_list=enforce_impl, exclude_list=exc_l, include_list=inc)
            t4 = FakeTransport(p4, loop, active)
            t4.echo = False
            p4.connection_made(t4, ramses=True)
            p4.resume_writing()
            dst4 = next((d for d in (LISTED, UNLISTED) if oracle(HGI, d, known, block, enforce, p4._active_hgi, True)), None)
            if dst4 is not None:
                from ramses_tx.command import Command as _Cmd

                task = asyncio.ensure_future(p4.send_cmd(_Cmd(f"RQ --- {HGI} {dst4} --:------ 0016 002 00FF")))
                for _ in range(6):
                    await asyncio.sleep(0)
                if t4.frames:      # on the air, no echo yet
                    for src in UNIVERSE:
                        for dst in UNIVERSE:
                            chk.evaluations += 1
                            got = bool(p4._is_wanted_addrs(src, dst, sending=False))
                            want = oracle(src, dst, known, block, enforce, p4._active_hgi, False)
                            if got != want:
                                chk.violation(f"filter.echo_outstanding:{'overblock' if want else 'leak'}:rx",
                                              f"known={known} block={block} enforce={enforce} active={p4._active_hgi}: with a command of ours awaiting its echo, "
                                              f"{src}->{dst} receive is {'passed' if got else 'dropped'}, must be {'passed' if want else 'dropped'}",
                                              {"op": "filter.echo_outstanding", "known": known, "block": block, "enforce": enforce, "active": active, "src": src, "dst": dst})
                    for src, dst in ((HGI, LISTED), (LISTED, HGI), (UNLISTED, LISTED)):
                        fr = frame_for(src, dst)
                        if fr is None:
                            continue
                        delivered4.clear()
                        p4.pkt_received(Packet.from_port(dt.now(), f"045 {fr}"))
                        for _ in range(4):
                            await asyncio.sleep(0)
                        chk.evaluations += 1
                        want = oracle(src, dst, known, block, enforce, p4._active_hgi, False)
                        if bool(delivered4) != want:
                            chk.violation(f"delivery.echo_outstanding:{'overblock' if want else 'leak'}", f"known={known} block={block} enforce={enforce}: with a command of ours "
                                          f"awaiting its echo, {fr!r} is {'delivered' if delivered4 else 'dropped'}", {"op": "delivery.echo_outstanding", "frame": fr, "known": known, "block": block, "enforce": enforce, "active": active})
                    chk.count("echo_outstanding.configs")
                task.cancel()
                try:
                    await task
                except BaseException:  # noqa: BLE001
                    pass
            for _ in range(12):
                src, dst = rnd.choice(UNIVERSE[:7]), rnd.choice(UNIVERSE)
                fr = frame_for(src, dst)
                if fr is None or src == dst:
                    continue
                try:
                    pkt = Packet.from_port(dt.now(), f"045 {fr}")
                except Exception:  # noqa: BLE001
                    continue
                delivered.clear()
                protocol.pkt_received(pkt)
                for _ in range(4):
                    await asyncio.sleep(0)
                chk.evaluations += 1
                want = oracle(pkt.src.id, pkt.dst.id, known, block, enforce, eff_active, False)
                if bool(delivered) != want:
                    chk.violation(f"deliver:{'overblock' if want else 'leak'}", f"known={known} block={block} enforce={enforce} active={eff_active}: packet {fr!r} "
                                  f"{'delivered' if delivered else 'dropped'}, must be {'delivered' if want else 'dropped'}",
                                  {"op": "deliver", "frame": fr, "known": known, "block": block, "enforce": enforce, "active": active})
            for src in (HGI, active):
                for dst in rnd.sample([LISTED, UNLISTED, BLOCKED, BOTH, ALL, FOREIGN], 3):
                    # a fresh stack per command: a send whose echo is filtered out keeps the FSM retrying
                    p2 = protocol_factory(lambda m: None, disable_qos=True, enforce_include_list=enforce_impl, exclude_list=exc_l, include_list=inc)
                    t2 = FakeTransport(p2, loop, active)
                    p2.connection_made(t2, ramses=True)
                    p2.resume_writing()
                    cmd = Command.from_attrs(" I", dst, "0008", "00C8", from_id=src)
                    refused = False
                    try:
                        await asyncio.wait_for(p2.send_cmd(cmd), timeout=0.3)
                    except exc.ProtocolError:
                        refused = True
                    except TimeoutError:
                        refused = None
                    for _ in range(4):
                        await asyncio.sleep(0)
                    chk.evaluations += 1
                    on_air = [f for f in t2.frames if " 0008 " in f]
                    want = oracle(src, dst, known, block, enforce, eff_active, True)
                    if (bool(on_air) != want) or (want is False and refused is not True):
                        chk.violation(f"send:{'overblock' if want else 'leak'}", f"known={known} block={block} enforce={enforce} active={eff_active}: command {str(cmd)!r} "
                                      f"refused={refused}, written={on_air}, must be {'sent' if want else 'refused before the radio'}",
                                      {"op": "send", "frame": str(cmd), "known": known, "block": block, "enforce": enforce, "active": active})

    asyncio.run(body())
    gateway_part(chk, rnd, thorough, D)
    chk.extra["configurations"] = len(configs)
    chk.exhaustive = thorough
    chk.sample({"config": {"known": [LISTED], "block": [BLOCKED], "enforce": True, "active": GWY}, "src": UNLISTED, "dst": LISTED, "wanted": False})
    D.run()


def gateway_part(chk: Check, rnd: random.Random, thorough: bool, D: Diff) -> None:
    """The second layer: a real `ramses_rf.Gateway` (its own `get_device` filter, the dispatcher) with the lists configured,
    fed live packets and - the restart path - a saved packet cache, with the gateway's own id known or not.  Whatever the
    route, no device may exist for an id that is blocked, or (enforced known list) neither listed nor the active gateway;
    and every listed, un-blocked device that was heard exists."""
    from .. import gwrig

    ids = {"ctl": "01:145038", "trv": "04:056053", "unl_ctl": "01:222222", "unl_trv": "04:111111", "blk": "13:444444", "both": "04:555555"}

    def frames_of(d: str) -> list[str]:
        if d[:2] == "01":
            return [f" I --- {d} --:------ {d} 1F09 003 FF073F", f" I --- {d} --:------ {d} 2309 003 0007D0"]
        if d[:2] == "13":
            return [f" I --- {d} --:------ {d} 3EF0 003 00C8FF"]
        return [f" I --- {d} --:------ {d} 30C9 003 0007D0", f" I --- {d} --:------ 01:145038 3150 002 0064"]

    n = 60 if thorough else 16
    for ep in range(n):
        enforce = rnd.random() < 0.8
        with_hgi_entry = rnd.random() < 0.4
        gwy_known = rnd.random() < 0.5
        known = {ids["ctl"]: {}, ids["trv"]: {}, ids["both"]: {}}
        if with_hgi_entry:
            known[gwrig.GWY_ID] = {"class": "HGI"}
        block = {ids["blk"]: {}, ids["both"]: {}} if rnd.random() < 0.7 else {}
        heard = [k for k in ids if rnd.random() < 0.8]
        cache_ids = [k for k in heard if rnd.random() < 0.6]
        live_ids = [k for k in heard if k not in cache_ids or rnd.random() < 0.3]
        base = gwrig.BASE
        from datetime import timedelta as td_

        cache = {}
        t = 0
        for k in cache_ids:
            for fr in frames_of(ids[k]):
                t += 1
                cache[(base - td_(seconds=600 - t)).isoformat(timespec="microseconds")] = "045 " + fr

        async def body(loop, known=known, block=block, enforce=enforce, gwy_known=gwy_known, cache=cache, live_ids=live_ids):
            rig = gwrig.Rig(loop, config={"enforce_known_list": enforce}, known_list=known, block_list=block or None,
                            gwy_id=gwrig.GWY_ID if gwy_known else None)
            err = None
            try:
                await rig.start(cached_packets=cache or None)
            except Exception as e:  # noqa: BLE001
                err = repr(e)
                return {"error": err, "devices": []}
            for k in live_ids:
                for fr in frames_of(ids[k]):
                    await rig.feed(fr)
                    await asyncio.sleep(0.5)
            devs = sorted(d.id for d in rig.gwy.devices)
            # the second-layer rule itself, id by id, against the model (`canCreateDevice`): may a device be created now?
            asked = []
            g = rig.gwy
            for d in list(ids.values()) + [gwrig.GWY_ID, gwrig.HGI_ID, "18:999999"]:
                unwanted = list(g._unwanted)
                hgi = g._protocol.hgi_id
                gd = getattr(g.hgi, "id", None)
                try:
                    g.get_device(d)
                    made = True
                except LookupError:
                    made = False
                except Exception as e:  # noqa: BLE001
                    made = "ERR:" + type(e).__name__
                asked.append((unwanted, hgi, gd, d, made))
            await rig.stop()
            return {"error": None, "devices": devs, "asked": asked}

        try:
            res, _ = gwrig.run(body)
        except Exception as e:  # noqa: BLE001
            chk.violation(f"gwy.run_died:{type(e).__name__}", f"gateway run raised {e!r}", {"op": "gateway", "known": list(known), "block": list(block)})
            continue
        chk.evaluations += 1
        chk.count("gateway.episodes")
        rep = {"op": "gateway", "known": list(known), "block": list(block), "enforce": enforce, "gateway_id_known": gwy_known,
               "cached": list(cache.values()), "live": [ids[k] for k in live_ids]}
        if res["error"]:
            chk.count("gateway.start_raised")
            continue
        chk.nontrivial.add(("gateway", tuple(sorted(known)), tuple(sorted(block)), enforce, gwy_known, tuple(cache_ids), tuple(live_ids)))
        eff_enforce = enforce  # (a non-empty known list with enforcement asked for stays enforced)
        for unwanted, hgi, gd, d, made in res.get("asked", []):
            D.add("filter.create", [",".join(block), ",".join(known), str(bool(enforce)), ",".join(unwanted), str(hgi), str(gd), d], f"ok\t{made}")
        for d in res["devices"]:
            if d in block:
                chk.violation("gwy.device.blocked", f"a device exists for the block-listed id {d} (devices: {res['devices']})", rep)
            elif eff_enforce and d not in known and d != gwrig.GWY_ID and d != gwrig.HGI_ID:
                chk.violation("gwy.device.unlisted:" + ("cache" if any(d in v for v in cache.values()) else "live"),
                              f"known list enforced, yet a device exists for the unlisted id {d} (devices: {res['devices']})", rep)
        for k in heard:
            d = ids[k]
            allowed = d not in block and (not eff_enforce or d in known)
            if allowed and d not in res["devices"] and (k in live_ids or k in cache_ids):
                chk.violation("gwy.device.missing", f"{d} is allowed and was heard ({'live' if k in live_ids else 'cache'}), but no device exists for it "
                              f"(devices: {res['devices']})", rep)


def replay(chk: Check, path: str) -> int:
    print(json.dumps(json.load(open(path)), indent=1)[:3000])
    run(chk)
    return chk.finish()
