"""C04 — wire value codecs are exact inverses on their grid."""

from __future__ import annotations

import json
import random
from datetime import datetime as dt, timedelta as td
from fractions import Fraction

from ..common import Check, Diff, call, esc, frac_str

EXTRA_TARGETS: list[str] = []


def show_temp(v) -> str:
    if v is None:
        return "None"
    if v is False:
        return "False"
    return frac_str(v)


def show_optnum(v) -> str:
    return "None" if v is None else frac_str(v)


def show_dt_iso(s) -> str:
    if s is None:
        return "None"
    d = dt.fromisoformat(s)
    return f"{d.year}-{d.month}-{d.day}T{d.hour}:{d.minute}:{d.second}"


def dt_arg(d: dt) -> str:
    return f"{d.year}-{d.month}-{d.day}T{d.hour}:{d.minute}:{d.second}"


def run(chk: Check) -> None:
    from ramses_tx import helpers as H
    from ramses_tx.address import dev_id_to_hex_id, hex_id_to_dev_id

    rnd = random.Random(chk.seed)
    thorough = chk.tier == "thorough"
    D = Diff(chk)
    chk.rule = (
        "exhaustive on the implementation: all 65 536 temperature words and all k/100, all 256 bytes x 2 "
        "resolutions (percent, flag8), booleans; seeded samples + boundaries for date-times, packed timestamps, "
        "ids (thorough: all 2^24 ids, every minute of 4 years); non-trivial = distinct input whose decode or "
        "encode succeeded on the implementation (a value, not an error)"
    )

    def nt(key):
        chk.nontrivial.add(key)

    # ---- temperatures: every word ---------------------------------------------------------
    for w in range(65536):
        h = f"{w:04X}"
        out = call(H.hex_to_temp, h, show=show_temp)
        D.add("temp.dec", [h], out)
        chk.evaluations += 1
        if out.startswith("ok"):
            v = H.hex_to_temp(h)
            if v is not None and v is not False:
                nt(("tw", w))
                chk.count("temp.word.numeric")
                back = call(H.hex_from_temp, v, show=esc)
                D.add("temp.enc", [show_temp(v)], back)
                if back != "ok\t" + h:
                    chk.violation(
                        f"temp.dec-enc:{h}",
                        f"hex_to_temp('{h}') = {v!r} re-encodes as {back!r}",
                        {"op": "temp.dec-enc", "word": h},
                    )
            else:
                chk.count("temp.word.sentinel")
                if H.hex_to_temp(H.hex_from_temp(v)) is not v:
                    chk.violation(f"temp.sentinel:{h}", f"sentinel {v!r} does not survive", {"word": h})
        else:
            chk.count("temp.word.rejected")
    # ---- temperatures: every grid value k/100 ------------------------------------------------
    sentinels = {0x31FF, 0x7EFF, 0x7FFF}
    for k in range(-27315, 32768):
        v = k / 100
        out = call(H.hex_from_temp, v, show=esc)
        chk.evaluations += 1
        word = f"{k & 0xFFFF:04X}"
        if k % 7 == 0 or out != "ok\t" + word:
            D.add("temp.enc", [show_temp(v)], out)
        if out != "ok\t" + word:
            chk.violation(
                f"temp.enc:k={k}",
                f"hex_from_temp({v!r}) = {out!r}, expected {word}",
                {"op": "temp.enc", "centi": k},
            )
        elif k not in sentinels:
            nt(("tk", k))
            if H.hex_to_temp(word) != v:
                chk.violation(f"temp.enc-dec:k={k}", f"{v!r} -> {word} -> {H.hex_to_temp(word)!r}", {"centi": k})
    # ---- out of range: refuse, never wrap ------------------------------------------------------
    oor = [327.68, 327.675, 400, 400.0, 655.36, 655.37, 700.0, 1e6, -327.69, -327.685, -400, -655.36, -1e6, 10**6]
    oor += [rnd.uniform(327.68, 2000) * rnd.choice((1, -1)) for _ in range(300)]
    for v in oor:
        out = call(H.hex_from_temp, v, show=esc)
        D.add("temp.enc", [show_temp(v)], out)
        chk.evaluations += 1
        chk.count("temp.out_of_range")
        if out.startswith("ok"):
            h = out[3:]
            ok = len(h) == 4
            if ok:
                n = int(h, 16)
                n = n if n < 2**15 else n - 2**16
                ok = n == round(v * 100)
            if not ok:
                chk.violation(
                    "temp.wrap:" + frac_str(v),
                    f"hex_from_temp({v!r}) = '{h}' silently wraps (decodes as {call(H.hex_to_temp, h, show=show_temp)})",
                    {"op": "temp.enc", "value": repr(v)},
                )
    # arbitrary in-range floats (off-grid): model/impl agreement on rounding
    for _ in range(3000 if not thorough else 100000):
        v = rnd.uniform(-327.0, 327.0)
        D.add("temp.enc", [show_temp(v)], call(H.hex_from_temp, v, show=esc))
        chk.evaluations += 1

    # ---- percentages ----------------------------------------------------------------------------
    for hr in (True, False):
        den = 200 if hr else 100
        for b in range(256):
            h = f"{b:02X}"
            out = call(H.hex_to_percent, h, hr, show=show_optnum)
            D.add("pct.dec", [h, str(hr)], out)
            chk.evaluations += 1
            if out.startswith("ok") and out != "ok\tNone":
                nt(("pb", hr, b))
                v = H.hex_to_percent(h, hr)
                back = call(H.hex_from_percent, v, hr, show=esc)
                D.add("pct.enc", [show_optnum(v), str(hr)], back)
                if back != "ok\t" + h:
                    chk.violation(
                        f"pct.dec-enc:{hr}:{h}",
                        f"hex_to_percent('{h}', high_res={hr}) = {v!r} re-encodes as {back!r}",
                        {"op": "pct.dec-enc", "byte": h, "high_res": hr},
                    )
            elif out == "ok\tNone":
                if H.hex_to_percent(H.hex_from_percent(None, hr), hr) is not None:
                    chk.violation(f"pct.sentinel:{hr}", "None does not survive", {})
        for k in range(den + 1):
            v = k / den
            out = call(H.hex_from_percent, v, hr, show=esc)
            D.add("pct.enc", [show_optnum(v), str(hr)], out)
            chk.evaluations += 1
            if out != f"ok\t{k:02X}" or H.hex_to_percent(f"{k:02X}", hr) != v:
                chk.violation(
                    f"pct.enc:{hr}:{k}", f"hex_from_percent({v!r}, high_res={hr}) = {out!r}, expected {k:02X}",
                    {"op": "pct.enc", "k": k, "high_res": hr},
                )
        for v in (1.0000001, 1.005, 1.01, 2, -0.001, -1, 1.28, 2.56):
            out = call(H.hex_from_percent, v, hr, show=esc)
            D.add("pct.enc", [show_optnum(v), str(hr)], out)
            chk.evaluations += 1
            if out.startswith("ok"):
                chk.violation(f"pct.wrap:{hr}:{v}", f"hex_from_percent({v!r}) = {out!r} (out of range accepted)", {})
        for _ in range(500):
            v = rnd.random()
            D.add("pct.enc", [show_optnum(v), str(hr)], call(H.hex_from_percent, v, hr, show=esc))
            chk.evaluations += 1

    # ---- doubles / counters (factor 1 is the only one the library uses) -----------------------------
    for n in list(range(0, 65536, 257)) + [0x7FFE, 0x7FFF, 0x8000, 65535]:
        h = f"{n:04X}"
        out = call(H.hex_to_double, h, show=show_optnum)
        D.add("dbl.dec", [h, "1"], out)
        chk.evaluations += 1
        v = H.hex_to_double(h)
        if v is not None:
            nt(("d", n))
            back = call(H.hex_from_double, v, show=esc)
            D.add("dbl.enc", [show_optnum(v), "1"], back)
            if back != "ok\t" + h:
                chk.violation(f"dbl.dec-enc:{h}", f"hex_to_double('{h}') = {v!r} re-encodes as {back!r}", {"word": h})
    for v in (-1, -0.6, 65535.4, 65535.5, 65536, 70000.0, 1e9):
        out = call(H.hex_from_double, v, show=esc)
        D.add("dbl.enc", [show_optnum(v), "1"], out)
        chk.evaluations += 1
        if out.startswith("ok") and (len(out[3:]) != 4 or int(out[3:], 16) != round(v)):
            chk.violation(f"dbl.wrap:{v}", f"hex_from_double({v!r}) = {out!r}", {"value": repr(v)})

    # ---- booleans, flags ---------------------------------------------------------------------------
    for b in (None, False, True):
        out = call(H.hex_from_bool, b, show=esc)
        D.add("bool.enc", [str(b)], out)
        chk.evaluations += 1
        if H.hex_to_bool(H.hex_from_bool(b)) is not b:
            chk.violation(f"bool:{b}", "bool does not round-trip", {})
    for h in ("00", "C8", "FF", "01", "c8", "0"):
        D.add("bool.dec", [h], call(H.hex_to_bool, h, show=str))
    for lsb in (True, False):
        for b in range(256):
            h = f"{b:02X}"
            bits = H.hex_to_flag8(h, lsb)
            D.add("flag.dec", [h, str(lsb)], "ok\t" + ",".join(map(str, bits)))
            back = call(H.hex_from_flag8, bits, lsb, show=esc)
            D.add("flag.enc", [",".join(map(str, bits)), str(lsb)], back)
            chk.evaluations += 1
            nt(("f", lsb, b))
            if back != "ok\t" + h:
                chk.violation(f"flag:{lsb}:{h}", f"flag8 {h} -> {bits} -> {back!r}", {"byte": h, "lsb": lsb})

    # ... and again after a caller has *used* the decoded list the usual way (set / clear a flag in place, re-encode):
    # the value decoded for a byte does not depend on what earlier callers did with their copy
    for form in ("kw", "pos", "default"):
        for b in range(256):
            h = f"{b:02X}"
            lsb = form != "default" and b % 2 == 0
            dec = (lambda: H.hex_to_flag8(h, lsb=lsb)) if form == "kw" else (lambda: H.hex_to_flag8(h, lsb)) if form == "pos" else (lambda: H.hex_to_flag8(h))
            bits = dec()
            k = b % 8
            bits[k] ^= 1                      # the caller toggles a flag ...
            H.hex_from_flag8(bits, lsb)       # ... and builds the new byte
            again = dec()
            want = [(b >> x) & 1 for x in (range(8) if lsb else reversed(range(8)))]
            chk.evaluations += 1
            if list(again) != want:
                chk.violation(f"flag.history:{form}", f"hex_to_flag8({h!r}, lsb={lsb}) reads {list(again)} after an earlier caller toggled bit {k} of its own copy "
                              f"(a fresh decode gives {want})", {"byte": h, "lsb": lsb, "form": form})
                break

    # ---- the setpoint word of a schedule record (ramses_rf.system.schedule): whatever value a record carries reads back as that
    # value - also outside the range the schedule *validator* accepts (a controller may hold what a user could not enter)
    from ramses_rf.system import schedule as SCHED

    # (the words 0 and 1 are the hot-water off / on flags of the same record format: not setpoints)
    for k in sorted(set(list(range(41, 10000, 41)) + [2, 449, 450, 499, 500, 501, 3499, 3500, 3501, 3550, 9999, 12799, 32767])):
        outer = {"zone_idx": "01", "schedule": [{"day_of_week": d, "switchpoints": [{"time_of_day": "06:30", "heat_setpoint": k / 100}]} for d in range(7)]}
        try:
            back = SCHED.fragz_to_full_sched(SCHED.full_sched_to_fragz(outer))
            got = back["schedule"][3]["switchpoints"][0]["heat_setpoint"]
        except Exception as e:  # noqa: BLE001
            got = "raised " + type(e).__name__
        chk.evaluations += 1
        nt(("sched.sp", k))
        if got != k / 100:
            chk.violation("sched.setpoint:" + ("clamped" if isinstance(got, float) else "raises"), f"a schedule record with setpoint {k / 100} reads back as {got!r}",
                          {"op": "sched.setpoint", "setpoint": k / 100})
            break

    # ---- text -----------------------------------------------------------------------------------------
    alphabet = [chr(c) for c in range(32, 127)]
    for _ in range(400):
        s = "".join(rnd.choice(alphabet) for _ in range(rnd.randint(0, 20)))
        hx = H.hex_from_str(s)
        D.add("str.enc", [esc(s)], "ok\t" + esc(hx))
        if rnd.random() < 0.2:
            bad = s + rnd.choice("\x00\x1f\x7fü€\n")
            out = call(H.hex_from_str, bad, show=esc)
            D.add("str.enc", [esc(bad)], out)
            if out.startswith("ok") and H.hex_to_str(out[3:]) != bad.strip():
                chk.violation("str.wrap:" + repr(bad), f"text {bad!r} is encoded but decodes as {H.hex_to_str(out[3:])!r}", {"text": bad})
        out = call(H.hex_to_str, hx, show=esc)
        D.add("str.dec", [hx], out)
        chk.evaluations += 1
        if s == s.strip():
            nt(("s", s))
            if out != "ok\t" + esc(s):
                chk.violation("str:" + hx, f"text {s!r} -> {hx} -> {out!r}", {"text": s})
    for hx in ("00", "7F", "41004200", "201F41", "4", "GG"):
        D.add("str.dec", [hx], call(H.hex_to_str, hx, show=esc))

    # ---- date-times ---------------------------------------------------------------------------------------
    def dtm_case(d: dt, dst: bool, secs: bool) -> None:
        hx = H.hex_from_dtm(d, is_dst=dst, incl_seconds=secs)
        D.add("dtm.enc", [dt_arg(d), str(dst), str(secs)], "ok\t" + esc(hx))
        out = call(H.hex_to_dtm, hx, show=show_dt_iso)
        D.add("dtm.dec", [hx], out)
        chk.evaluations += 1
        want = d if secs else d.replace(second=0)
        nt(("dtm", d, dst, secs))
        if out != "ok\t" + dt_arg(want):
            chk.violation(
                f"dtm:{d.isoformat()}:{dst}:{secs}", f"{d.isoformat()} -> {hx} -> {out!r}",
                {"op": "dtm", "dtm": d.isoformat(), "is_dst": dst, "incl_seconds": secs},
            )
        elif H.hex_from_dtm(dt.fromisoformat(H.hex_to_dtm(hx)), is_dst=dst, incl_seconds=secs) != hx:
            chk.violation(f"dtm.dec-enc:{hx}", f"{hx} does not re-encode to itself", {"hex": hx})

    specials = [dt(2024, 2, 29, 23, 59, 59), dt(2000, 2, 29, 0, 0, 0), dt(1, 1, 1, 0, 0, 0), dt(9999, 12, 31, 23, 59, 59),
                dt(2100, 2, 28, 12, 0, 1), dt(2023, 3, 26, 1, 59, 59), dt(2023, 10, 29, 2, 0, 0), dt(255, 12, 31, 15, 31, 31)]
    for d in specials:
        for dst in (False, True):
            for secs in (False, True):
                dtm_case(d, dst, secs)
    if thorough:
        d = dt(2023, 1, 1)
        end = dt(2027, 1, 1)
        while d < end:
            dtm_case(d.replace(second=rnd.randrange(60)), bool(d.minute & 1), bool(d.hour & 1))
            d += td(minutes=1)
    else:
        base = dt(2023, 1, 1)
        for _ in range(6000):
            d = base + td(seconds=rnd.randrange(4 * 366 * 86400))
            dtm_case(d, rnd.random() < 0.5, rnd.random() < 0.5)
        for _ in range(1000):
            d = dt(rnd.randint(1, 9999), rnd.randint(1, 12), rnd.randint(1, 28), rnd.randrange(24), rnd.randrange(60), rnd.randrange(60))
            dtm_case(d, rnd.random() < 0.5, True)
    D.add("dtm.enc", ["None", "False", "False"], "ok\t" + H.hex_from_dtm(None))
    D.add("dtm.enc", ["None", "False", "True"], "ok\t" + H.hex_from_dtm(None, incl_seconds=True))
    for hx in ("FFFFFFFFFFFF", "FFFFFFFFFFFFFF", "00FFFFFFFFFFFF", "001E0C1F0D07E7", "003C0C1F0C07E7", "0000001E0207E7",
               "00000C1D0207E7", "E0000C1D0207E8", "00001F0107E7", "0000", "0000000000000"):
        D.add("dtm.dec", [hx], call(H.hex_to_dtm, hx, show=show_dt_iso))
        chk.evaluations += 1
    if H.hex_to_dtm(H.hex_from_dtm(None)) is not None or H.hex_to_dtm(H.hex_from_dtm(None, incl_seconds=True)) is not None:
        chk.violation("dtm.none", "None date-time does not survive", {})

    # ---- packed timestamps ---------------------------------------------------------------------------------
    def show_dts(s):
        if s is None:
            return "None"
        # the library's text form has a two-digit year: "yy-mm-ddThh:mm:ss" (century 20yy)
        yy, mo, dd, hh, mi, se = (int(x) for x in __import__("re").split("[-T:]", s))
        return f"{2000 + yy}-{mo}-{dd}T{hh}:{mi}:{se}"

    def dts_case(d: dt) -> None:
        hx = H.hex_from_dts(d)
        D.add("dts.enc", [dt_arg(d)], "ok\t" + esc(hx))
        out = call(H.hex_to_dts, hx, show=show_dts)
        D.add("dts.dec", [hx], out)
        chk.evaluations += 1
        nt(("dts", d))
        if out != "ok\t" + dt_arg(d):
            chk.violation(
                f"dts:year={d.year}" if out.startswith("err") else f"dts:{d.isoformat()}",
                f"packed timestamp {d.isoformat()} -> {hx} -> {out!r}",
                {"op": "dts", "dtm": d.isoformat()},
            )
        else:
            if H.hex_from_dts(H.hex_to_dts(hx)) != hx:
                chk.violation(f"dts.dec-enc:{hx}", f"{hx} does not re-encode (via the library's text form)", {"hex": hx})

    for d in (dt(2000, 1, 1), dt(2000, 2, 29, 12, 0, 0), dt(2001, 1, 1), dt(2024, 2, 29, 23, 59, 59), dt(2068, 12, 31, 23, 59, 59),
              dt(2069, 1, 1), dt(2099, 12, 31, 23, 59, 59), dt(2096, 2, 29, 1, 2, 3)):
        dts_case(d)
    for _ in range(6000 if not thorough else 10**6):
        dts_case(dt(2000, 1, 1) + td(seconds=rnd.randrange(100 * 365 * 86400)))
    D.add("dts.enc", ["None"], "ok\t" + H.hex_from_dts(None))
    for hx in ("00000000007F", "000000000000", "FFFFFFFFFFFF", "0000", "D0000000007F"):
        D.add("dts.dec", [hx], call(H.hex_to_dts, hx, show=show_dts))
    if H.hex_to_dts(H.hex_from_dts(None)) is not None:
        chk.violation("dts.none", "None timestamp does not survive", {})

    # ---- device ids -------------------------------------------------------------------------------------------
    def id_hex_case(x: int) -> None:
        h = f"{x:06X}"
        if x % 5 == 3:
            # (the display form of the same id - 'CTL:145038' - was asked for first: what a log viewer does; the id is the id)
            call(lambda: hex_id_to_dev_id(h, friendly_id=True), show=str)
            chk.count("id.dec.after_friendly_form")
        out = call(hex_id_to_dev_id, h, show=str)
        D.add("id.dec", [h], out)
        chk.evaluations += 1
        if not out.startswith("ok"):
            chk.violation(f"id.dec:{h}", f"hex_id_to_dev_id('{h}') raises", {"hex": h})
            return
        nt(("id", x))
        did = out[3:]
        back = call(dev_id_to_hex_id, did, show=str)
        if back != "ok\t" + h:
            chk.violation(f"id.dec-enc:{h}", f"{h} -> {did} -> {back!r}", {"op": "id", "hex": h})

    def id_dev_case(t: int, n: int) -> None:
        did = f"{t:02d}:{n:06d}"
        out = call(dev_id_to_hex_id, did, show=str)
        D.add("id.enc", [str(t), str(n)], out)
        chk.evaluations += 1
        want = f"{(t << 18) + n:06X}"
        if out != "ok\t" + want or hex_id_to_dev_id(want) != did:
            chk.violation(f"id.enc:{did}", f"{did} -> {out!r} -> {call(hex_id_to_dev_id, want)}", {"op": "id", "id": did})

    if thorough:
        for x in range(2**24):
            id_hex_case(x)
        chk.exhaustive = True
    else:
        lo = rnd.randrange(2**24 - 2**16)
        for x in range(lo, lo + 2**16):
            id_hex_case(x)
        for x in [0, 1, 2**18 - 1, 2**18, 2**24 - 1, 2**24 - 2, 2**24 - 3] + [rnd.randrange(2**24) for _ in range(20000)]:
            id_hex_case(x)
    for t in range(64):
        for n in (0, 1, 730, 262141, 262142, 262143, rnd.randrange(2**18), rnd.randrange(2**18)):
            id_dev_case(t, n)
    D.add("id.dec", ["      "], call(hex_id_to_dev_id, "      ", show=str))

    chk.sample({"op": "temp.dec", "word": "07D7", "impl": call(H.hex_to_temp, "07D7", show=show_temp)})
    chk.sample({"op": "temp.enc", "value": "20.07", "impl": call(H.hex_from_temp, 20.07, show=esc)})
    chk.sample({"op": "pct.enc", "value": "0.57", "high_res": True, "impl": call(H.hex_from_percent, 0.57, show=esc)})
    chk.sample({"op": "dtm.enc", "value": "2024-02-29T23:59:58 dst", "impl": H.hex_from_dtm(dt(2024, 2, 29, 23, 59, 58), is_dst=True, incl_seconds=True)})
    chk.sample({"op": "id.dec", "hex": "06368E", "impl": hex_id_to_dev_id("06368E")})
    D.run()


def replay(chk: Check, path: str) -> int:
    r = json.load(open(path))
    print(json.dumps(r, indent=1))
    chk.tier = r.get("tier", "quick")
    run(chk)
    return chk.finish()
