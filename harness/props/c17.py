"""C17 — schedules survive the wire format: encode / fragment / decode is the identity."""

from __future__ import annotations

import itertools
import json
import random
import zlib
from datetime import datetime as dt
from types import SimpleNamespace

from .. import rt
from ..common import Check, Diff, esc, frac_str

CTL = "01:145038"


def gen_schedule(rnd: random.Random, dhw: bool, n_max: int = 6, setpoints=None) -> list[dict]:
    days = []
    for dow in range(7):
        n = rnd.randint(1, n_max)
        tods = set(rnd.sample(range(288), n))
        # the ends of the day (a record of all zeros is Monday 00:00 off for hot water) and its neighbours
        r = rnd.random()
        if r < 0.3:
            tods.add(0)
        elif r < 0.4:
            tods.add(1)
        if rnd.random() < 0.2:
            tods.add(287)
        tods = sorted(tods)[:n_max + 2]
        sps = []
        for t in tods:
            tod = f"{t * 5 // 60:02d}:{t * 5 % 60:02d}"
            if dhw:
                sps.append({"time_of_day": tod, "enabled": rnd.random() < 0.5})
            else:
                k = rnd.choice(setpoints) if setpoints else rnd.randrange(500, 3501)
                sps.append({"time_of_day": tod, "heat_setpoint": k / 100})
        days.append({"day_of_week": dow, "switchpoints": sps})
    return days


def show_sched(full) -> str:
    out = []
    for d in full["schedule"]:
        sps = []
        for sp in d["switchpoints"]:
            h, m = sp["time_of_day"].split(":")
            tod = int(h) * 60 + int(m)
            val = int(sp["enabled"]) if "enabled" in sp else round(sp["heat_setpoint"] * 100)
            sps.append(f"{tod}={val}")
        out.append(f"{d['day_of_week']}:" + ",".join(sps))
    return f"{int(full['zone_idx'], 16)}|" + ";".join(out)


def run(chk: Check) -> None:
    rt.quiet()
    from ramses_rf.system import schedule as S
    from ramses_tx.command import Command
    from ramses_tx.message import Message
    from ramses_tx import exceptions as exc

    rnd = random.Random(chk.seed)
    thorough = chk.tier == "thorough"
    N = 12000 if thorough else 2000
    D = Diff(chk)
    chk.rule = (
        "validator-accepted weekly schedules (7 days, 1-6 ordered switchpoints on 5-minute times; zone setpoints k/100 in "
        "5.00-35.00 with the whole grid swept in the thorough tier, DHW on/off) for zones 00-0B and HW: through the real "
        "full_sched_to_fragz / fragz_to_full_sched, _struct_pack vs the model, the W|0404 commands through the real "
        "decoder, and the RP|0404 payloads fed to a real Schedule._update_payload_set in every order with repeats and with "
        "fragments of a second version mixed in; non-trivial = distinct schedule that round-tripped through the implementation"
    )

    # ---- every setpoint of the grid packs to its own hundredths value (struct level, exhaustive) -----------------
    full0 = {"zone_idx": "01", "schedule": []}
    for k in range(500, 3501):
        raw = S._struct_pack(full0, {"day_of_week": 3}, {"time_of_day": "06:30", "heat_setpoint": k / 100})
        idx, dow, tod, val = S._struct_unpack(raw)
        chk.evaluations += 1
        if k % 9 == 0 or val != k:
            D.add("sched.pack", ["1", "3", "390", frac_str(k / 100)], "ok\t" + raw.hex().upper())
        if (idx, dow, tod, val) != (1, 3, 390, k):
            chk.violation(f"pack.setpoint:{k}", f"setpoint {k / 100} packs as {val / 100}", {"op": "sched.pack", "setpoint": k / 100})
    for en in (True, False):
        raw = S._struct_pack(full0, {"day_of_week": 0}, {"time_of_day": "23:55", "enabled": en})
        D.add("sched.pack", ["1", "0", "1435", str(en)], "ok\t" + raw.hex().upper())

    # ---- whole schedules -------------------------------------------------------------------------------------------
    weird = [29 + 500, 2007, 1999, 502, 506, 510, 803, 3499, 3500, 500]
    for h in range(N):
        dhw = rnd.random() < 0.25
        zone = "HW" if dhw else f"{rnd.randrange(12):02X}"
        inner = gen_schedule(rnd, dhw, n_max=rnd.choice((1, 3, 6)), setpoints=weird if rnd.random() < 0.3 else None)
        outer = {"zone_idx": "00" if dhw else zone, "schedule": inner}
        try:
            (S.SCH_SCHEDULE_DHW_OUTER if dhw else S.SCH_SCHEDULE_ZON_OUTER)({"zone_idx": zone, "schedule": inner})
        except Exception as e:  # noqa: BLE001
            chk.count("generator.rejected_by_validator")
            continue
        chk.evaluations += 1
        try:
            frags = S.full_sched_to_fragz(outer)
            back = S.fragz_to_full_sched(frags)
        except Exception as e:  # noqa: BLE001
            chk.violation(f"roundtrip.raise:{type(e).__name__}", f"schedule {show_sched(outer)} raised {e!r}", {"op": "roundtrip", "schedule": outer})
            continue
        if back != outer:
            first = next(((d1, d2) for d1, d2 in zip(outer["schedule"], back["schedule"]) if d1 != d2), None)
            chk.violation("roundtrip.differs", f"schedule does not round-trip: day {first}", {"op": "roundtrip", "schedule": outer})
            continue
        chk.nontrivial.add(show_sched(outer))
        # ... and again after the caller has edited what it was given (get, tweak, set): the decode of the same fragments
        # does not depend on what became of an earlier result
        if h % 4 == 0:
            import copy

            keep = copy.deepcopy(back)
            back["zone_idx"] = "HW"
            sp0 = back["schedule"][0]["switchpoints"][0]
            sp0["time_of_day"] = "23:55"
            back["schedule"].reverse()
            again = S.fragz_to_full_sched(frags)
            if again != keep:
                chk.violation("roundtrip.history", f"decoding the same fragments again gives {json.dumps(again, default=str)[:200]}, "
                              f"not {json.dumps(keep, default=str)[:200]}: the result an earlier caller edited", {"op": "roundtrip.twice", "schedule": outer})
            back = keep
        # model: regroup of the real decompressed bytes; cutting of the real blob
        blob = "".join(frags)
        raw = zlib.decompress(bytes.fromhex(blob))
        D.add("sched.raw", [raw.hex().upper()], "ok\t" + show_sched(back))
        D.add("sched.cut", [blob], "ok\t" + ",".join(frags))
        chk.monitor("zlib.decompress(compress(b)) == b", False)
        # every fragment fits one frame and the W commands decode
        for i, fr in enumerate(frags, 1):
            if 7 + len(fr) // 2 > 48:
                chk.violation("fragment.too_long", f"fragment {i} has {len(fr) // 2} bytes", {"op": "fragment", "schedule": outer})
            try:
                cmd = Command.set_schedule_fragment(CTL, zone, i, len(frags), fr)
                msg = Message._from_cmd(cmd)
                p = msg.payload
                if p["fragment"] != fr or p["frag_number"] != i or p["total_frags"] != len(frags):
                    chk.violation("write_cmd.values", f"W|0404 for fragment {i}/{len(frags)} decodes to {p}", {"op": "write_cmd", "frame": str(cmd)})
            except Exception as e:  # noqa: BLE001
                chk.violation(f"write_cmd.{type(e).__name__}", f"W|0404 for fragment {i} rejected: {e!r}", {"op": "write_cmd", "schedule": outer, "frag": i})
        # ---- re-assembly from reply packets in any order, with repeats, with another version mixed in
        if h % 3 == 0:
            other = gen_schedule(rnd, dhw, n_max=rnd.choice((1, 3, 6)))
            if h % 2 == 0:
                # a small edit of the same schedule (one day's switchpoints re-drawn): usually the same number of fragments,
                # so that a set holding fragments of both versions is "full"
                import copy

                other = copy.deepcopy(outer["schedule"])
                donor = gen_schedule(rnd, dhw, n_max=6)
                for _ in range(rnd.choice((1, 1, 2))):
                    k = rnd.randrange(len(other))
                    other[k]["switchpoints"] = donor[k]["switchpoints"]
            frags_b = S.full_sched_to_fragz({"zone_idx": outer["zone_idx"], "schedule": other})
            _reassembly(chk, D, S, rnd, zone, outer, frags, {"zone_idx": outer["zone_idx"], "schedule": other}, frags_b)
        # ---- one Schedule object over an edit: it holds this schedule, the last day(s) of the week are edited, and the
        #      reply packets of the new version are received (twice over, any order): it reports the new version
        if h % 3 == 1:
            import copy

            other = copy.deepcopy(inner)
            donor = gen_schedule(rnd, dhw, n_max=len(inner[-1]["switchpoints"]))
            for k in range(len(other) - rnd.choice((1, 1, 2)), len(other)):
                other[k]["switchpoints"] = donor[k]["switchpoints"]
            if other != inner:
                outer_b = {"zone_idx": outer["zone_idx"], "schedule": other}
                _edited(chk, D, S, rnd, zone, outer, frags, outer_b, S.full_sched_to_fragz(outer_b))
        if h < 2:
            chk.sample({"schedule": show_sched(outer)[:200], "fragments": [len(f) // 2 for f in frags]})
    D.run()


def _edited(chk, D, S, rnd, zone, sched_a, frags_a, sched_b, frags_b) -> None:
    """A Schedule holds version a (received in full); then version b's packets arrive - every fragment, twice over, in
    any order.  What is received is b and only b: the object reports b (through the passive path, `_handle_msg`)."""
    tcs = SimpleNamespace(zone_lock_idx=None)
    zobj = SimpleNamespace(id=f"{CTL}_{zone}", idx=zone, ctl=SimpleNamespace(id=CTL), tcs=tcs, _gwy=SimpleNamespace())
    sch = S.Schedule(zobj)

    def msg(frags, i):
        return SimpleNamespace(code="0404", verb="RP", payload={"zone_idx": zone, "frag_number": i, "total_frags": len(frags),
                                                                 "frag_length": len(frags[i - 1]) // 2, "fragment": frags[i - 1]})

    same_head = len(frags_a) == len(frags_b) and frags_a[0] == frags_b[0]
    chk.count("edited.same_count_and_first_fragment" if same_head else "edited.other")
    seq = [("a", i) for i in range(1, len(frags_a) + 1)]
    for _ in range(2):
        order = list(range(1, len(frags_b) + 1))
        if rnd.random() < 0.6:
            rnd.shuffle(order)
        seq += [("b", i) for i in order]
    rep = {"op": "reassembly.edited", "zone": zone, "a": show_sched(sched_a), "b": show_sched(sched_b), "frags_a": frags_a, "frags_b": frags_b, "seq": seq}
    held = None
    evs, states = [], []
    for n, (which, i) in enumerate(seq):
        frags = frags_a if which == "a" else frags_b
        try:
            sch._handle_msg(msg(frags, i))
        except Exception as e:  # noqa: BLE001
            chk.violation(f"reassembly.edited.raise:{type(e).__name__}", f"feeding fragment {which}{i} raised {e!r}", rep)
            return
        chk.evaluations += 1
        if n + 1 == len(frags_a):
            held = S_show(sch._full_schedule) if sch._full_schedule else "-"
        evs.append(f"{i}/{len(frags)}/{frags[i - 1]}")
        slots = ",".join("-" if x is None else f"{x['frag_number']}/{x['total_frags']}/{x['fragment']}" for x in sch._payload_set)
        states.append(slots + "=>" + (S_show(sch._full_schedule) if sch._full_schedule else "-"))
    # the model of the same object (Model/Sched.lean feedMsg; theorem C17E.edited_two_passes), zlib by table
    if len(frags_a) != len(frags_b) or len(frags_a) <= 5:
        combos = [tuple(frags_a), tuple(frags_b)] if len(frags_a) != len(frags_b) else list(itertools.product(*zip(frags_a, frags_b)))
        table = {}
        for combo in combos:
            joined = "".join(combo)
            try:
                table[joined] = zlib.decompress(bytes.fromhex(joined)).hex().upper()
            except zlib.error:
                table[joined] = "bad"
        D.add("sched.feed", [";".join(f"{k}={v}" for k, v in table.items()), ";".join(evs)], "ok\t" + "|".join(states))
        chk.count("edited.compared_with_model")
    got = S_show(sch._full_schedule) if sch._full_schedule else "-"
    if held != S_show(sched_a):
        chk.violation("reassembly.edited.first", f"after one complete pass the schedule held is {held[:100]}", rep)
    elif got != S_show(sched_b):
        what = "still the version before the edit" if got == held else ("none" if got == "-" else "neither version")
        chk.violation("reassembly.edited.stale" + (".same-first-fragment" if same_head else ""), f"after every packet of the edited schedule was received twice over the "
                      f"schedule reported is {what}: {got[:100]}", rep)


def _reassembly(chk, D, S, rnd, zone, sched_a, frags_a, sched_b, frags_b) -> None:
    tcs = SimpleNamespace(zone_lock_idx=None)
    zobj = SimpleNamespace(id=f"{CTL}_{zone}", idx=zone, ctl=SimpleNamespace(id=CTL), tcs=tcs, _gwy=SimpleNamespace())
    sch = S.Schedule(zobj)

    def payload(frags, i):
        return {"zone_idx": zone, "frag_number": i, "total_frags": len(frags), "frag_length": len(frags[i - 1]) // 2, "fragment": frags[i - 1]}

    mix = rnd.random() < 0.8 and len(frags_a) == len(frags_b) and frags_a != frags_b
    pool = [("a", i) for i in range(1, len(frags_a) + 1)]
    if mix:
        pool += [("b", i) for i in range(1, len(frags_b) + 1)]
    seq = [rnd.choice(pool) for _ in range(rnd.randint(len(frags_a), 3 * len(frags_a) + 2))]
    if mix and rnd.random() < 0.6:
        # the controller's schedule changes (a -> b) between two passes, and the new fragments arrive last-first
        seq = [("a", i) for i in range(1, len(frags_a) + 1)] + [("b", i) for i in range(len(frags_b), 0, -1)]
    elif rnd.random() < 0.5:  # make sure a complete pass of version a is in there
        order = list(range(1, len(frags_a) + 1))
        rnd.shuffle(order)
        seq += [("a", i) for i in order]
    # decompress table for every slot combination that can arise
    table = {}
    n = len(frags_a)
    if mix or True:
        for combo in itertools.product(*[(frags_a[i], frags_b[i]) if mix else (frags_a[i],) for i in range(n)]):
            joined = "".join(combo)
            try:
                table[joined] = zlib.decompress(bytes.fromhex(joined)).hex().upper()
            except zlib.error:
                table[joined] = "bad"
            if len(table) > 64:
                break
    evs, states = [], []
    valid = {S_show(sched_a), S_show(sched_b)}
    ok = True
    for which, i in seq:
        frags = frags_a if which == "a" else frags_b
        p = payload(frags, i)
        sch._full_schedule = {}
        try:
            sch._payload_set = sch._update_payload_set(sch._payload_set, p)
        except Exception as e:  # noqa: BLE001
            chk.violation(f"reassembly.raise:{type(e).__name__}", f"feeding fragment {which}{i} raised {e!r}", {"op": "reassembly", "seq": seq})
            ok = False
            break
        chk.evaluations += 1
        evs.append(f"{i}/{len(frags)}/{frags[i - 1]}")
        got = sch._full_schedule
        slots = ",".join("-" if x is None else f"{x['frag_number']}/{x['total_frags']}/{x['fragment']}" for x in sch._payload_set)
        states.append(slots + "=>" + (S_show(got) if got else "-"))
        if got:
            shown = S_show({"zone_idx": "00" if zone == "HW" else got["zone_idx"], "schedule": got["schedule"]})
            if shown not in valid:
                chk.violation("reassembly.mixed", f"re-assembled a schedule that is neither version: {shown[:120]}", {"op": "reassembly", "seq": seq, "zone": zone})
                ok = False
                break
    if ok and len(table) <= 64:
        D.add("sched.asm", [";".join(f"{k}={v}" for k, v in table.items()), ";".join(evs)], "ok\t" + "|".join(states))


def S_show(full) -> str:
    if not full or "schedule" not in full:
        return "-"
    z = full["zone_idx"]
    return show_sched({"zone_idx": "00" if z == "HW" else z, "schedule": full["schedule"]})


def replay(chk: Check, path: str) -> int:
    print(json.dumps(json.load(open(path)), indent=1)[:3000])
    run(chk)
    return chk.finish()
