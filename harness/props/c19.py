"""C19 — the fault-log view tracks the controller's log and never shows an entry twice."""

from __future__ import annotations

import asyncio
import json
import random
from datetime import datetime as dt, timedelta as td
from types import SimpleNamespace

from .. import rt
from ..common import Check, Diff

CTL = "01:145038"
GWY = "18:006402"
NULL = "000000B0000000000000000000007FFFFF7000000000"
T0 = dt(2023, 1, 1, 0, 0, 0)


def run(chk: Check) -> None:
    rt.quiet()
    from ramses_rf.system.faultlog import FaultLog
    from ramses_tx.command import Command
    from ramses_tx.const import FaultDeviceClass, FaultState, FaultType
    from ramses_tx.exceptions import ProtocolSendFailed
    from ramses_tx.message import Message
    from ramses_tx.packet import Packet

    rnd = random.Random(chk.seed)
    thorough = chk.tier == "thorough"
    N = 40000 if thorough else 2500
    D = Diff(chk)
    chk.rule = (
        "histories of a simulated controller log (new fault/restore entries, up to 64 deep) observed through delivered and "
        "lost announcements, single-entry replies at arbitrary positions, null replies and complete read-throughs; each event "
        "is a real Message (built with the library's own 0418 constructor) fed to a real FaultLog; after every event the "
        "view is scored (newest-first, no duplicate, no phantom, accessors total) and compared with the model's map; "
        "non-trivial = distinct history with at least one delivered entry"
    )

    base = [T0]       # every history has its own epoch: an entry of another history (another FaultLog of this process) is no entry of this one

    def stamp(k: int) -> dt:
        return base[0] + td(minutes=k)

    def entry_frame(verb: str, idx: int, k: int) -> str:
        cmd = Command._put_system_log_entry(
            CTL, FaultState.FAULT if k % 2 else FaultState.RESTORE, FaultType.BATTERY_LOW, FaultDeviceClass.ACTUATOR,
            device_id="04:111111", domain_idx="01", _log_idx=min(idx, 0x3E), timestamp=stamp(k))
        payload = cmd.payload[:4] + f"{idx:02X}" + cmd.payload[6:]  # (the constructor is a test helper limited to 0x3E)
        # (an entry's fault type / domain / device class need not be one the library has a name for: it is an entry all the same)
        if k % 7 == 3:
            payload = payload[:8] + "02" + payload[10:]
        if k % 11 == 5:
            payload = payload[:10] + "FB" + payload[12:]
        if k % 13 == 6:
            payload = payload[:12] + "03" + payload[14:]
        if verb == " I":
            return f" I --- {CTL} --:------ {CTL} 0418 022 {payload}"
        return f"RP --- {CTL} {GWY} --:------ 0418 022 {payload}"

    def msg_entry(verb: str, idx: int, k: int):
        return Message(Packet(dt.now(), "... " + entry_frame(verb, idx, k)))

    def msg_null(flog, idx: int):
        pkt = Packet(dt.now(), f"... RP --- {CTL} {GWY} --:------ 0418 022 {NULL}")
        cmd = Command.get_system_log_entry(CTL, idx)
        return flog._hack_pkt_idx(pkt, cmd)

    def stamp_to_k(s: str) -> int:
        d = dt.strptime(s, "%y-%m-%dT%H:%M:%S")
        return round((d - base[0]).total_seconds() / 60)

    found_classes: dict[str, int] = {}
    TAINTED.clear()
    LAST_VIEW.clear()
    lost_any = top_unknown = False
    aloop = asyncio.new_event_loop()

    def taint() -> str:
        return ".after-lost-announcement" if lost_any else ".after-top-unknown-announcement" if top_unknown else ""

    for h in range(N):
        base[0] = T0 + td(days=(h * 7) % 9000)
        tcs = SimpleNamespace(id=CTL, _gwy=SimpleNamespace())
        flog = FaultLog(tcs)
        # a view that has been told nothing shows nothing - whatever other controllers' logs this process has seen
        try:
            first = (dict(flog.faultlog), flog.latest_event, flog.latest_fault, flog.active_faults)
        except Exception as e:  # noqa: BLE001
            first = ("raised", repr(e), None, None)
        if first[0] or first[1] is not None or first[2] is not None or first[3]:
            chk.violation("flog.fresh-view.not-empty", f"a fault-log view created for a controller and told nothing yet reports {first!r:.300}",
                          {"op": "flog.fresh", "history_index": h})
        ctl: list[int] = []          # controller's log, newest first (stamps as minute counters)
        clock = 0
        for _ in range(rnd.choice((0, 0, 2, 5, 5, 61, 62, 63, 64, 70) if h % (5 if thorough else 20) == 0 else (0, 0, 2, 5))):  # entries logged before we started listening
            clock += rnd.randint(1, 5)
            ctl.insert(0, clock)
        reported: set[int] = set()
        evs: list[str] = []
        maps: list[str] = []
        steps = rnd.randint(3, 14)
        lost_any = False
        cleared = False
        top_unknown = False   # an announcement arrived while position 0 was unknown (recorded finding): the view is off by one since
        ok_hist = True

        def announce(k: int) -> None:
            """the controller's unsolicited I|0418 for its new top entry, through the public handler; scored at once:
            the known entries move down by one"""
            nonlocal top_unknown
            before = {i: stamp_to_k(d) for i, d in flog._map.items()}
            flog.handle_msg(msg_entry(" I", 0, k))
            reported.add(k)
            evs.append(f"E0:{k}")
            after = {i: stamp_to_k(d) for i, d in flog._map.items()}
            want = {0: k, **{i + 1: v for i, v in before.items() if i + 1 <= 0x3E}}
            if after != want:
                _viol(chk, found_classes, "announce-shift" + (".top-unknown" if 0 not in before else "") + taint(), evs,
                      f"an announcement of a new entry turned the view {before} into {after}, not {want}")
                if 0 not in before:
                    top_unknown = True

        for _ in range(steps):
            r = rnd.random()
            try:
                if ctl and rnd.random() < 0.06:
                    # the log is cleared at the controller (nothing is announced), and maybe gains fresh entries
                    del ctl[:]
                    for _ in range(rnd.choice((0, 1, 1, 2))):
                        clock += rnd.randint(1, 5)
                        ctl.insert(0, clock)
                    cleared = True
                    continue
                if r < 0.35 or not ctl:
                    clock += rnd.randint(1, 5)
                    ctl.insert(0, clock)
                    del ctl[64:]
                    if rnd.random() < 0.7:
                        announce(clock)
                    else:
                        lost_any = True
                        continue
                elif r < 0.75:
                    i = rnd.randrange(0, min(len(ctl) + 2, 63))
                    if i < len(ctl):
                        flog.handle_msg(msg_entry("RP", i, ctl[i]))       # (an overheard / late reply comes in through the handler)
                        reported.add(ctl[i])
                        evs.append(f"E{i}:{ctl[i]}")
                    else:
                        flog._process_msg(msg_null(flog, i))
                        evs.append(f"N{i}")
                elif r < 0.85 or len(ctl) > 40:  # the library's own read-through: get_faultlog(start, limit) against the controller
                    start = rnd.choice((0, 0, 0, 1, 3, 60, 63))
                    limit = rnd.choice((None, 6, 1, 3, 64, 64, 65, 100))
                    del ctl[64:]
                    before_evs = list(evs)

                    ann_at = rnd.choice((None, None, None, 0, 1, 2, 4))     # a new entry is announced while the n-th reply is awaited
                    fail_at = rnd.choice((None, None, None, None, 0, 1, 3))  # the n-th request fails (ProtocolSendFailed)
                    disturbed = [False]

                    async def fake_send(cmd, **kw):
                        nonlocal clock
                        i = int(cmd.payload[4:6], 16)
                        n = len(asked)
                        asked.append(i)
                        if n == ann_at:
                            disturbed[0] = True
                            clock += rnd.randint(1, 5)
                            ctl.insert(0, clock)
                            del ctl[64:]
                            announce(clock)          # (the spy below records the view)
                        if n == fail_at:
                            disturbed[0] = True
                            raise ProtocolSendFailed("scripted: no reply")
                        if i < len(ctl):
                            reported.add(ctl[i])
                            evs.append(f"E{i}:{ctl[i]}")
                            return Packet(dt.now(), "... " + entry_frame("RP", i, ctl[i]))
                        evs.append(f"N{i}")
                        return Packet(dt.now(), f"... RP --- {CTL} {GWY} --:------ 0418 022 {NULL}")

                    asked: list[int] = []
                    flog._gwy.async_send_cmd = fake_send
                    orig_process = flog._process_msg

                    def spy(msg, orig_process=orig_process):
                        orig_process(msg)
                        maps.append(_show(flog, stamp_to_k))

                    flog._process_msg = spy
                    try:
                        aloop.run_until_complete(flog.get_faultlog(start=start, limit=limit))
                    except ProtocolSendFailed:
                        chk.count("get_faultlog.failed_midway")
                    finally:
                        del flog._process_msg
                    eff = 6 if limit is None else limit
                    if disturbed[0]:
                        # (exactness is promised only "with nothing changing meanwhile"; the view's invariants are scored below,
                        # and every later announcement must still push the entries down)
                        chk.count("get_faultlog.disturbed")
                        LAST_VIEW[";".join(evs)] = _show(flog, stamp_to_k)
                        view = {i: stamp_to_k(dtm) for i, dtm in flog._map.items()}
                        ks = [v for _, v in sorted(view.items())]
                        if len(set(ks)) != len(ks) or any(a <= b for a, b in zip(ks, ks[1:])):
                            _viol(chk, found_classes, ("duplicate" if len(set(ks)) != len(ks) else "order") + taint(), evs,
                                  f"after a read-through disturbed by an announcement / a failed request the view is {view}")
                            ok_hist = False
                        continue
                    D.add("flog.get", [";".join(before_evs), ",".join(map(str, ctl)), str(start), str(eff)], "ok\t" + _show(flog, stamp_to_k))
                    chk.count(f"get_faultlog.depth{'64' if len(ctl) == 64 else '<64'}.limit{'>=64' if eff >= 64 else '<64'}")
                    # readthrough_exact: over the range read (the positions start .. min(start+limit, 64)-1 that the
                    # controller has, up to and including the first empty one) the view equals the controller's log
                    view = {i: stamp_to_k(dtm) for i, dtm in flog._map.items()}
                    stop = min(start + eff, 64)
                    want_asked = []
                    for i in range(start, stop):
                        want_asked.append(i)
                        if i >= len(ctl):
                            break
                    if asked != want_asked:
                        _viol(chk, found_classes, "readthrough.range", evs, f"get_faultlog(start={start}, limit={limit}) on a {len(ctl)}-deep log asked for {asked}, not {want_asked}")
                        ok_hist = False
                    for i in range(start, min(stop, len(ctl))):
                        if view.get(i) != ctl[i]:
                            _viol(chk, found_classes, "readthrough" + taint(), evs,
                                  f"after get_faultlog(start={start}, limit={limit}) on a {len(ctl)}-deep log the view has {view.get(i)} at {i}, controller has {ctl[i]}")
                            ok_hist = False
                            break
                    if stop > len(ctl) >= start and any(i >= len(ctl) for i in view):
                        _viol(chk, found_classes, "readthrough.tail" + taint(), evs, f"after a read-through ending in a null entry at {len(ctl)} the view still has {sorted(view)}")
                        ok_hist = False
                    continue
                else:  # a complete read-through from the top
                    n = rnd.randint(1, min(len(ctl) + 1, 8))
                    for i in range(n):
                        if i < len(ctl):
                            flog._process_msg(msg_entry("RP", i, ctl[i]))
                            reported.add(ctl[i])
                            evs.append(f"E{i}:{ctl[i]}")
                            maps.append(_show(flog, stamp_to_k))
                            LAST_VIEW[";".join(evs)] = maps[-1]
                        else:
                            flog._process_msg(msg_null(flog, i))
                            evs.append(f"N{i}")
                            maps.append(_show(flog, stamp_to_k))
                            LAST_VIEW[";".join(evs)] = maps[-1]
                            break
                    # readthrough_exact: the view equals the controller's log over the range read
                    view = {i: stamp_to_k(dtm) for i, dtm in flog._map.items()}
                    for i in range(min(n, len(ctl))):
                        if view.get(i) != ctl[i]:
                            _viol(chk, found_classes, "readthrough" + taint(), evs, f"after reading 0..{n - 1} the view has {view.get(i)} at {i}, controller has {ctl[i]}")
                            ok_hist = False
                            break
                    if n > len(ctl) and any(i >= len(ctl) for i in view):
                        _viol(chk, found_classes, "readthrough.tail" + taint(), evs, f"after a read-through ending in a null entry at {len(ctl)} the view still has {sorted(view)}")
                        ok_hist = False
                    continue
            except Exception as e:  # noqa: BLE001
                _viol(chk, found_classes, "raise." + type(e).__name__, evs, f"processing raised {e!r}")
                ok_hist = False
                break
            maps.append(_show(flog, stamp_to_k))
            LAST_VIEW[";".join(evs)] = maps[-1]
            # ---- score the view after this event
            try:
                view = flog.faultlog
                derived = [x for x in (flog.latest_event, flog.latest_fault) if x is not None] + list(flog.active_faults or ())
                shown = {stamp_to_k(v.timestamp) for v in view.values()}
                alien = [stamp_to_k(x.timestamp) for x in derived if stamp_to_k(x.timestamp) not in shown]
                if alien:
                    _viol(chk, found_classes, "derived-view.phantom", evs, f"latest_event / latest_fault / active_faults name entries {alien} (minutes since this "
                          f"history's epoch) that the view {sorted(shown)} does not hold - entries this controller never reported")
                    ok_hist = False
                    break
            except Exception as e:  # noqa: BLE001
                _viol(chk, found_classes, "view.raise." + type(e).__name__, evs, f"reading the view raised {e!r}")
                ok_hist = False
                break
            ks = [stamp_to_k(v.timestamp) for _, v in sorted(view.items())]
            if len(set(ks)) != len(ks):
                _viol(chk, found_classes, "duplicate" + taint(), evs, f"view {dict(sorted((i, stamp_to_k(v.timestamp)) for i, v in view.items()))} shows an entry at two positions")
                ok_hist = False
                break
            if any(a <= b for a, b in zip(ks, ks[1:])):
                _viol(chk, found_classes, "order" + taint(), evs, f"view {dict(sorted((i, stamp_to_k(v.timestamp)) for i, v in view.items()))} is not newest-first")
                ok_hist = False
                break
            if not set(ks) <= reported:
                _viol(chk, found_classes, "phantom", evs, f"view holds {set(ks) - reported}, never reported")
                ok_hist = False
                break
        chk.evaluations += 1
        if evs:
            chk.nontrivial.add(";".join(evs))
            D.add("flog.run", [";".join(evs)], "ok\t" + "|".join(maps)) if ok_hist or True else None
        if h < 3:
            chk.sample({"events": evs, "final_view": maps[-1] if maps else ""})
    aloop.close()
    chk.extra["violation_classes_seen"] = found_classes
    not_the_recorded_behaviour(chk)
    D.run()


def _show(flog, stamp_to_k) -> str:
    return ",".join(f"{i}:{stamp_to_k(d)}" for i, d in flog._map.items()) + "/" + ",".join(str(stamp_to_k(k)) for k in flog._log)


TAINTED: list = []   # (kind, events at that point, what) of violations that fall into a recorded finding's class


def _viol(chk: Check, seen: dict, kind: str, evs: list[str], what: str) -> None:
    seen[kind] = seen.get(kind, 0) + 1
    if ".after-" in kind or kind.startswith("announce-shift.top-unknown"):
        TAINTED.append((kind, list(evs), what))
    chk.violation(f"flog.{kind}", f"history {';'.join(evs)}: {what}", {"op": "flog.run", "events": list(evs)})


def not_the_recorded_behaviour(chk: Check) -> None:
    """A recorded finding is a specific behaviour: the one the Lean model of the present code exhibits (theorems
    `duplicate_witness`, `announce_top_unknown_witness`).  A violation that falls into a recorded class is excused only if the
    model, fed the same events, ends in the same (wrong) view; if the implementation's view differs from the model's, it
    is some other defect and the history is reported as the failing input."""
    from ..common import Model

    if not TAINTED:
        return
    seen_hist = set()
    todo = []
    for kind, evs, what in TAINTED:
        k = ";".join(evs)
        if k in seen_hist or any(e.startswith("G") for e in evs):
            continue
        seen_hist.add(k)
        todo.append((kind, evs, what))
    todo = todo[:400]
    outs = Model().run(["flog.run\t" + ";".join(evs) for _, evs, _ in todo])
    for (kind, evs, what), out in zip(todo, outs):
        parts = out.split("\t")
        if parts[0] != "ok":
            continue
        model_last = parts[1].split("|")[-1] if parts[1] else ""
        impl_last = LAST_VIEW.get(";".join(evs))
        if impl_last is not None and impl_last != model_last:
            chk.violation("flog.not-the-recorded-behaviour:" + kind.split(".")[0],
                          f"history {';'.join(evs)}: {what}; and the view {impl_last} is not the one the recorded defect produces ({model_last})",
                          {"op": "flog.run", "events": list(evs)})


LAST_VIEW: dict = {}


def replay(chk: Check, path: str) -> int:
    print(json.dumps(json.load(open(path)), indent=1)[:3000])
    run(chk)
    return chk.finish()
