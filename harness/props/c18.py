"""C18 — schedule transfers end cleanly under faults and never return a mixed schedule.

A real Gateway (mock transport, virtual clock) talks to a scripted evohome controller (0006 change
counter, 0404 fragments, W|0404) through the real protocol / QoS path.  Fault scripts: replies to
chosen exchanges are lost (the QoS retries, then gives up), the schedule of this or another zone is
changed on the controller between any two exchanges, fragments for this and other zones are
overheard, the caller's overall timeout is set to strike at any step, 2-3 zones transfer at once.

Oracle (implementation): every call ends; its result is one of the controller's versions of that
zone's schedule that existed during the transfer, or an error; afterwards `tcs.zone_lock_idx` is
None and a follow-up fetch on another zone succeeds.  Correspondence: every exchange outcome of a
fetch (reply with the controller's version / failed / cancelled) is logged by a harness-side
wrapper and replayed through the Lean model `Xfer.getSchedule`, which must predict the result kind,
the version returned and the lock owner afterwards.
"""

from __future__ import annotations

import asyncio
import json
import random

from .. import gwrig, rt
from ..common import Check, Model

CTL = "01:145038"
ZONES = ["00", "01", "02"]
ALL = ZONES + ["HW"]       # ... and the stored hot water, whose schedule goes by index 00 too (type 23 where a zone's is 20)


def zi(z: str) -> str:
    return "00" if z == "HW" else z


def zt(z: str) -> str:
    return "23" if z == "HW" else "20"


def widx(pay: str) -> str:
    """zone of a 0404 payload"""
    return "HW" if pay[2:4] == "23" else pay[:2]


def make_schedule(rnd: random.Random, zone_idx: str, n_sp: int) -> dict:
    days = []
    for dow in range(7):
        times = sorted(rnd.sample(range(0, 144), n_sp))
        sps = [{"time_of_day": f"{(t * 10) // 60:02d}:{(t * 10) % 60:02d}", "heat_setpoint": rnd.randrange(10, 70) * 0.5} for t in times]
        if zone_idx == "HW":
            sps = [{"time_of_day": sp["time_of_day"], "enabled": rnd.random() < 0.5} for sp in sps]
        days.append({"day_of_week": dow, "switchpoints": sps})
    return {"zone_idx": zi(zone_idx), "schedule": days}


class Controller:
    """A scripted evohome controller behind the mock transport."""

    def __init__(self, loop, rnd: random.Random) -> None:
        from ramses_rf.system.schedule import fragz_to_full_sched, full_sched_to_fragz

        self.loop = loop
        self.rnd = rnd
        self.f2s, self.s2f = fragz_to_full_sched, full_sched_to_fragz
        self.counter = 0x0100
        self.frags: dict[str, list[str]] = {}
        self.history: dict[str, list[tuple[float, int, list]]] = {z: [] for z in ALL}     # (time, counter, inner schedule)
        self.n_exch = 0
        self.lose: dict[int, int] = {}         # exchange number -> how many times its reply is lost
        self.bump_after: dict[int, str] = {}   # exchange number -> zone whose schedule changes right after it
        self.seen: dict[str, int] = {}
        self.log: list = []
        self.wbuf: dict[str, dict[int, str]] = {}

    def put(self, zone: str, n_sp: int | None = None) -> None:
        full = make_schedule(self.rnd, zone, n_sp or self.rnd.choice((2, 4, 6)))
        self.frags[zone] = self.s2f(full)
        self.counter += 1
        self.history[zone].append((self.loop.time(), self.counter, self.f2s(self.frags[zone])["schedule"]))

    def respond(self, frame: str):
        """The mock transport calls this with every frame on the air."""
        verb, code, pay, src = frame[:2], frame[37:41], frame[46:], frame[7:16]
        if frame[17:26] != CTL or code not in ("0006", "0404") or verb not in ("RQ", " W"):
            return []
        key = frame
        first_time = key not in self.seen
        if first_time:
            self.n_exch += 1
            self.seen[key] = self.n_exch
        k = self.seen[key]
        if self.lose.get(k, 0) > 0:
            self.lose[k] -= 1
            self.log.append((self.loop.time(), k, "lost", frame[37:]))
            return []
        if code == "0006":
            p = f"0005{self.counter:04X}"
            reply = f"RP --- {CTL} {src} --:------ 0006 {len(p) // 2:03d} {p}"
        elif verb == "RQ":
            idx, num = widx(pay), int(pay[10:12], 16)
            frags = self.frags.get(idx)
            if frags is None or num > len(frags):
                # a fragment that does not exist (the schedule shrank meanwhile): this fixture stays silent
                self.log.append((self.loop.time(), k, "no-such-fragment", frame[37:60]))
                del self.seen[key]
                return []
            else:
                frag = frags[num - 1]
                p = f"{zi(idx)}{zt(idx)}0008{len(frag) // 2:02X}{num:02X}{len(frags):02X}{frag}"
                reply = f"RP --- {CTL} {src} --:------ 0404 {len(p) // 2:03d} {p}"
        else:
            # W|0404: a fragment of a new schedule; the schedule is taken (and the change counter stepped) when the last
            # fragment of the set is in; every fragment is acknowledged with an I|0404 carrying its index and number
            idx, num, total, frag = widx(pay), int(pay[10:12], 16), int(pay[12:14], 16), pay[14:]
            buf = self.wbuf.setdefault(idx, {})
            if num == 1:
                buf.clear()
            buf[num] = frag
            if num == total and all(i in buf for i in range(1, total + 1)):
                self.frags[idx] = [buf[i] for i in range(1, total + 1)]
                self.counter += 1
                self.history[idx].append((self.loop.time(), self.counter, self.f2s(self.frags[idx])["schedule"]))
                buf.clear()
            p = f"{zi(idx)}{zt(idx)}0008{len(frag) // 2:02X}{num:02X}{total:02X}"
            reply = f" I --- {CTL} {src} --:------ 0404 {len(p) // 2:03d} {p}"
        self.log.append((self.loop.time(), k, "reply", frame[37:60], self.counter))
        del self.seen[key]                     # a later identical request is a new exchange
        z = self.bump_after.pop(k, None)
        if z is not None:
            self.loop.call_later(0.021, self.put, z)
        return [(0.02, reply)]


class XferLog:
    """Wrapper (harness side) of the lock and of the exchanges of each fetch."""

    def __init__(self) -> None:
        self.rows: list = []

    def install(self, tcs, gwy, ctl: Controller):
        self.tcs, self.gwy = tcs, gwy
        self._orig = (tcs._obtain_lock, tcs._release_lock, gwy.async_send_cmd)
        o_obt, o_rel, o_send = self._orig
        log = self

        async def obtain(idx):
            holder = tcs.zone_lock_idx
            try:
                await o_obt(idx)
            except BaseException as e:  # noqa: BLE001
                log.rows.append(("obtain", idx, holder, type(e).__name__))
                raise
            log.rows.append(("obtain", idx, holder, "ok"))

        def release():
            log.rows.append(("release", tcs.zone_lock_idx))
            o_rel()

        async def send(cmd, **kw):
            code = str(cmd.code)
            if code not in ("0404", "0006"):
                return await o_send(cmd, **kw)
            idx = widx(cmd.payload) if code == "0404" else "--"
            if code == "0404" and str(cmd.verb) == " W":
                try:
                    pkt = await o_send(cmd, **kw)
                except asyncio.CancelledError:
                    log.rows.append(("wexch", code, idx, "cancel", None))
                    raise
                except Exception as e:  # noqa: BLE001
                    log.rows.append(("wexch", code, idx, "fail:" + type(e).__name__, None))
                    raise
                log.rows.append(("wexch", code, idx, "ack", (int(cmd.payload[10:12], 16), int(cmd.payload[12:14], 16))))
                return pkt
            try:
                pkt = await o_send(cmd, **kw)
            except asyncio.CancelledError:
                log.rows.append(("exch", code, idx, "cancel", None))
                raise
            except Exception as e:  # noqa: BLE001
                log.rows.append(("exch", code, idx, "fail:" + type(e).__name__, None))
                raise
            if code == "0404":
                p = pkt.payload
                if widx(p) != idx:
                    log.rows.append(("other_schedules_reply_taken", code, idx, str(pkt)[:60]))
                elif pkt.dst.id not in (gwrig.GWY_ID, gwrig.HGI_ID):
                    log.rows.append(("foreign_reply_taken", code, idx, str(pkt)[:60]))
                num, total = int(p[10:12], 16), int(p[12:14], 16)
                frag = p[14:]
                ver = next((c for _, c, _s in reversed(ctl.history.get(idx, [])) if False), None)
                # which controller version does this fragment belong to?  (the controller's own record)
                ver = ctl_version_of(ctl, idx, num, frag)
                log.rows.append(("exch", code, idx, "reply", (ver, num, total)))
            else:
                log.rows.append(("exch", code, idx, "reply", (int(pkt.payload[4:8], 16), 0, 0)))
            return pkt

        tcs._obtain_lock = obtain
        tcs._release_lock = release
        gwy.async_send_cmd = send


def ctl_version_of(ctl: Controller, idx: str, num: int, frag: str):
    """The (latest) controller version of zone idx whose fragment `num` is `frag`."""
    for _t, counter, inner in reversed(ctl.history.get(idx, [])):
        frs = ctl.s2f({"zone_idx": zi(idx), "schedule": inner})
        if num <= len(frs) and frs[num - 1] == frag:
            return counter
    return -1


async def episode(loop, script, rnd) -> dict:
    ctl = Controller(loop, rnd)
    schema = {"main_tcs": CTL, CTL: {"zones": {z: {"class": "radiator_valve"} for z in ZONES}, "stored_hotwater": {"sensor": "07:045960"}}}
    rig = gwrig.Rig(loop, schema=schema, responder=ctl.respond)
    await rig.start()
    gwy = rig.gwy
    tcs = gwy.system_by_id[CTL]
    zone = {z.idx: z for z in tcs.zones}
    zone["HW"] = tcs.dhw
    for z in ALL:
        ctl.put(z, script["sizes"].get(z, 2))
    xlog = XferLog()
    xlog.install(tcs, gwy, ctl)
    ctl.lose = dict(script["lose"])
    ctl.bump_after = dict(script["bump_after"])
    out = {"calls": []}

    async def one(call):
        await asyncio.sleep(call["at"])
        t0 = loop.time()
        c0 = ctl.counter
        if call.get("op") == "set":
            sch = zone[call["zone"]]._schedule
            new = make_schedule(random.Random(call["new_seed"]), call["zone"], call["new_size"])["schedule"]
            before = (sch.schedule, sch.version)
            try:
                r = await asyncio.wait_for(zone[call["zone"]].set_schedule(new), timeout=call["timeout"])
                res = ("ok", r)
            except Exception as e:  # noqa: BLE001
                res = ("err", type(e).__name__)
            return {**call, "t0": t0, "t1": loop.time(), "c0": c0, "res": res, "label": zone[call["zone"]].schedule_version,
                    "new": new, "before": before, "after": (sch.schedule, sch.version)}
        try:
            if call["timeout"] == 15:
                r = await zone[call["zone"]].get_schedule(force_io=call["force_io"])      # the public entry point (15 s)
            else:
                r = await zone[call["zone"]]._schedule.get_schedule(force_io=call["force_io"], timeout=call["timeout"])
            res = ("ok", r)
        except Exception as e:  # noqa: BLE001
            res = ("err", type(e).__name__)
        return {**call, "t0": t0, "t1": loop.time(), "c0": c0, "res": res, "label": zone[call["zone"]].schedule_version}

    for dly, fr in script["overheard"]:
        loop.call_later(dly, rig.transport.inject, fr)
    for t, z in script.get("bump_at", []):
        loop.call_later(t, ctl.put, z, script["sizes"][z])

    def replay_old(z, num, dst):
        """a delayed / duplicated copy of a fragment of the zone's *previous* schedule (a repeater, a reply to another gateway)"""
        hist = ctl.history[z]
        if len(hist) < 2:
            return
        frs = ctl.s2f({"zone_idx": zi(z), "schedule": hist[-2][2]})
        if num > len(frs):
            return
        frag = frs[num - 1]
        p = f"{zi(z)}{zt(z)}0008{len(frag) // 2:02X}{num:02X}{len(frs):02X}{frag}"
        rig.transport.inject(f"RP --- {CTL} {dst} --:------ 0404 {len(p) // 2:03d} {p}")

    def sibling(z, num, dst):
        """a copy of a fragment of another schedule's *present* version (the controller answering someone else)"""
        frs = ctl.frags[z]
        if num <= len(frs):
            p = f"{zi(z)}{zt(z)}0008{len(frs[num - 1]) // 2:02X}{num:02X}{len(frs):02X}{frs[num - 1]}"
            rig.transport.inject(f"RP --- {CTL} {dst} --:------ 0404 {len(p) // 2:03d} {p}")

    for t, z, num, dst in script.get("sibling", []):
        loop.call_later(t, sibling, z, num, dst)

    for t, z, num, dst in script.get("replay_old", []):
        loop.call_later(t, replay_old, z, num, dst)
    tasks = [asyncio.ensure_future(one(c)) for c in script["calls"]]
    done, pending = await asyncio.wait(tasks, timeout=600.0)
    for t in pending:
        t.cancel()
    out["hung"] = len(pending)
    out["calls"] = [t.result() for t in tasks if t in done]
    await asyncio.sleep(1.0)
    if script.get("read_passive"):
        # what the zone reports with no further I/O (every packet of the controller's present version was overheard, twice)
        await asyncio.sleep(max(0.0, script["read_passive"] - loop.time()))
        out["passive_view"] = {z: zone[z].schedule for z in ALL}
        out["passive_want"] = {z: ctl.history[z][-1][2] for z in ALL}
    out["lock_after"] = tcs.zone_lock_idx
    # a follow-up transfer on another zone proceeds normally
    other = next(z for z in ZONES if z != script["calls"][0]["zone"])
    ctl.lose, ctl.bump_after = {}, {}
    t0 = loop.time()
    try:
        r = await zone[other].get_schedule(force_io=True)
        out["followup"] = ("ok", r, loop.time() - t0)
    except Exception as e:  # noqa: BLE001
        out["followup"] = ("err", type(e).__name__, loop.time() - t0)
    out["followup_zone"] = other
    same = script["calls"][0]["zone"]
    try:
        r = await zone[same].get_schedule(force_io=True)
        out["followup_same"] = ("ok", r)
    except Exception as e:  # noqa: BLE001
        out["followup_same"] = ("err", type(e).__name__)
    out["followup_same_zone"] = same
    out["history"] = ctl.history
    out["rows"] = list(xlog.rows)
    out["loop_errors"] = [repr(e) for e in loop.errors]
    await rig.stop()
    return out


def gen_script(rnd: random.Random) -> dict:
    sizes = {z: rnd.choice((2, 4, 6)) for z in ALL}
    n_calls = rnd.choice((1, 1, 2, 3))
    zs = rnd.sample(ALL, n_calls)
    calls = [{"zone": z, "at": rnd.choice((0.0, 0.0, 0.01, 0.3, 2.0)), "force_io": rnd.random() < 0.7,
              "timeout": rnd.choice((15, 15, 15, 0.05, 0.3, 1.0, 2.6, 6.0, 40.0))} for z in zs]
    lose = {}
    for _ in range(rnd.randrange(0, 3)):
        lose[rnd.randrange(1, 12)] = rnd.choice((1, 1, 2, 4, 9))
    bump = {}
    for _ in range(rnd.randrange(0, 3)):
        bump[rnd.randrange(1, 10)] = rnd.choice(ZONES)
    overheard = []
    for _ in range(rnd.randrange(0, 3)):
        z = rnd.choice(ZONES)
        overheard.append((rnd.choice((0.0, 0.05, 0.2, 1.0)), f"RP --- {CTL} 18:999999 --:------ 0404 012 {z}20000805" + rnd.choice(("0103", "0203", "0101")) + "6899AB00CD"))
    if rnd.random() < 0.12:
        # directed: the hot water's schedule and zone 00's go by the same index on the wire; while the one is fetched, the
        # controller's answers about the other (to this gateway's earlier request, to another gateway) are heard
        a, b = rnd.choice((("HW", "00"), ("00", "HW"), ("HW", "01")))
        sizes[a] = sizes[b] = rnd.choice((1, 1, 2))
        calls = [{"zone": a, "at": 0.0, "force_io": True, "timeout": 15}]
        t0 = rnd.uniform(0.0, 0.01)
        sib = [(round(t0 + 0.007 * k, 4), b, 1 + (k % 2 if sizes[b] > 1 else 0), rnd.choice((gwrig.GWY_ID, "18:999999"))) for k in range(rnd.choice((12, 40)))]
        return {"sizes": sizes, "calls": calls, "lose": {}, "bump_after": {}, "overheard": [], "sibling": sib}
    if rnd.random() < 0.1:
        # directed: the zone is fetched; its schedule changes on the controller; another gateway fetches the new version and the
        # controller's replies to it are overheard - every fragment, twice over, any order.  What the zone then reports is the
        # new version (C17: the packets received are the schedule)
        z = rnd.choice(ALL)
        sizes[z] = rnd.choice((1, 2, 4))
        nfr = {1: 2, 2: 3, 4: 5}[sizes[z]] + 3
        calls = [{"zone": z, "at": 0.0, "force_io": True, "timeout": 15}]
        sib, t = [], 5.0
        for _pass in range(2):
            order = list(range(1, nfr + 1))
            if rnd.random() < 0.5:
                rnd.shuffle(order)
            for num in order:
                t += rnd.choice((0.05, 0.2))
                sib.append((round(t, 3), z, num, "18:999999"))
        return {"sizes": sizes, "calls": calls, "lose": {}, "bump_after": {}, "overheard": [], "bump_at": [(3.0, z)], "sibling": sib, "read_passive": round(t + 1.0, 3)}
    if rnd.random() < 0.2:
        # directed: the zone is fetched, its schedule changes on the controller, it is fetched again - and copies of fragments of
        # the *old* schedule (delayed duplicates, replies to another gateway) arrive at moments spread over the re-fetch
        z = rnd.choice(ZONES)
        t1 = rnd.choice((4.0, 4.0, 6.5))
        calls = [{"zone": z, "at": 0.0, "force_io": True, "timeout": 15},
                 {"zone": z, "at": t1, "force_io": True, "timeout": 15}]     # (unforced, the cached copy may be returned with no I/O: documented)
        nfr = {2: 3, 4: 5, 6: 8}.get(sizes[z], 5)
        olds = []
        for _ in range(rnd.randrange(1, 5)):
            olds.append((round(t1 + rnd.choice((rnd.uniform(0.0, 0.12), rnd.uniform(0.0, 0.05 * (nfr + 2)))), 4), z,
                         rnd.choice((1, 1, 1, rnd.randrange(1, nfr + 1))), "18:999999"))
        lose = {}
        if rnd.random() < 0.4:
            # ... and the re-fetch's own change-counter request goes unanswered (every retry): an error, never the cached copy
            lose[nfr + 2] = 9
            olds = []
        return {"sizes": sizes, "calls": calls, "lose": lose, "bump_after": {}, "overheard": overheard, "bump_at": [(3.0, z)], "replay_old": olds}
    if rnd.random() < 0.3:
        # a write (after a fetch of the same zone, so that the zone holds a labelled schedule), faults in the middle of it
        z = rnd.choice(ZONES)
        calls = [{"zone": z, "at": 0.0, "force_io": True, "timeout": 15},
                 {"zone": z, "op": "set", "at": 4.0, "force_io": True, "timeout": rnd.choice((60.0, 60.0, 0.2, 1.0, 2.6, 6.0, round(rnd.uniform(0.0, 1.2), 3), round(rnd.uniform(0.0, 1.2), 3))),
                  "new_seed": rnd.randrange(10**6), "new_size": rnd.choice((2, 4, 6))}]
        nfr = {2: 3, 4: 5, 6: 8}.get(sizes[z], 5)
        lose = {}
        if rnd.random() < 0.7:
            lose[nfr + 1 + rnd.randrange(1, 9)] = rnd.choice((1, 4, 9))      # an exchange of the write (fragments, then the 0006 read)
        bump = {}
        return {"sizes": sizes, "calls": calls, "lose": lose, "bump_after": bump, "overheard": overheard}
    if rnd.random() < 0.35:
        # directed: one unforced fetch; the zone's own schedule changes right after one of the last exchanges
        z = rnd.choice(ZONES)
        calls = [{"zone": z, "at": 0.0, "force_io": rnd.random() < 0.3, "timeout": 15}]
        nfr = {2: 3, 4: 5, 6: 8}.get(sizes[z], 5)
        bump = {nfr + rnd.choice((-1, 0, 0, 1, 1, 2)): z}
        lose = {}
    return {"sizes": sizes, "calls": calls, "lose": lose, "bump_after": bump, "overheard": overheard}


def score_set(chk: Check, c, o, rep) -> None:
    """a write: on success the controller holds the new schedule and so does the zone; on failure the zone believes what it
    believed before (the follow-up forced fetch, scored below, must give the controller's present schedule either way)"""
    kind, val = c["res"]
    chk.count("set.result." + (kind if kind == "ok" else val))
    hist = o["history"][c["zone"]]
    if kind == "ok":
        if val != c["new"] or c["after"][0] != c["new"]:
            chk.violation("c18.set.ok_but_other_schedule", f"zone {c['zone']}: set_schedule succeeded but returned / holds another schedule", rep)
        if not any(s_ == c["new"] and c["t0"] <= t <= c["t1"] for (t, _cnt, s_) in hist):
            chk.violation("c18.set.ok_but_not_written", f"zone {c['zone']}: set_schedule succeeded but the controller never took the new schedule", rep)
    else:
        if c["after"] != c["before"]:
            chk.violation("c18.set.failed_write_changed_cache", f"zone {c['zone']}: set_schedule failed ({val}) yet the zone's schedule/version changed from "
                          f"version {c['before'][1]} to {c['after'][1]} (schedule {'changed' if c['after'][0] != c['before'][0] else 'same'}): "
                          "the zone now believes a schedule the controller did not accept", rep)
    if c["t1"] - c["t0"] > c["timeout"] + 185.0:
        chk.violation("c18.overran", f"zone {c['zone']}: the write took {c['t1'] - c['t0']:.1f} s with timeout {c['timeout']}", rep)


class _Tagged:
    """violations of an episode in which the send layer returned, as the reply to a fragment request, a packet addressed to
    another gateway (the recorded C07 finding): the data fetched is then not the controller's answer to this gateway"""

    def __init__(self, chk: Check, suffix: str) -> None:
        self._chk, self._suffix = chk, suffix

    def __getattr__(self, name):
        return getattr(self._chk, name)

    def violation(self, key, what, rep):
        self._chk.violation(key + self._suffix, what, rep)


def score(chk: Check, script, o, rep) -> None:
    for r in o["rows"]:
        if r[0] == "other_schedules_reply_taken":
            chk.violation("c18.other_schedules_reply_taken", f"the request for a fragment of {r[2]}'s schedule was answered with a fragment of another schedule: {r[3]}", rep)
            break
    if any(r[0] == "foreign_reply_taken" for r in o["rows"]):
        chk.count("episodes.foreign_reply_taken_as_reply")
        chk = _Tagged(chk, ".foreign-reply-taken")
    if o["hung"]:
        chk.violation("c18.hang", f"{o['hung']} transfer(s) had not ended after 600 s", rep)
    for c in o["calls"]:
        if c.get("op") == "set":
            score_set(chk, c, o, rep)
    o = {**o, "calls": [c for c in o["calls"] if c.get("op") != "set"], "all_calls": o["calls"]}
    for c in o["calls"]:
        kind, val = c["res"]
        chk.count("result." + (kind if kind == "ok" else val))
        if kind == "ok" and val is None:
            # (None is how the library says "the controller holds no schedule for this zone": this controller always holds one)
            chk.violation("c18.returned_no_schedule", f"zone {c['zone']}: get_schedule ended without an error and without a schedule - the controller held one throughout", rep)
        if kind == "ok" and val is not None:
            versions = [s for (t, cnt, s) in o["history"][c["zone"]]]
            # the versions that existed during the transfer: the one current at t0 and every later one up to t1
            hist = o["history"][c["zone"]]
            live = [s for i, (t, cnt, s) in enumerate(hist) if t <= c["t1"] and (i + 1 == len(hist) or hist[i + 1][0] >= c["t0"])]
            if val not in versions:
                chk.violation("c18.mixed_schedule", f"zone {c['zone']}: the schedule returned is none of the controller's versions (stitched?)", rep)
            elif val not in live:
                chk.violation("c18.stale_schedule", f"zone {c['zone']}: the schedule returned is a version the controller no longer held during the transfer", rep)
        # (the property allows "an error": any exception ends the call; the classes are counted in the evidence)
        if c["t1"] - c["t0"] > c["timeout"] + 185.0:
            chk.violation("c18.overran", f"zone {c['zone']}: the call took {c['t1'] - c['t0']:.1f} s with timeout {c['timeout']}", rep)
    for c in o["calls"]:
        kind, val = c["res"]
        if kind == "ok" and val is not None and c.get("label") is not None:
            hist = o["history"][c["zone"]]
            idxs = [i for i, (_t, _cnt, s_) in enumerate(hist) if s_ == val]
            if idxs:
                i = idxs[-1]
                superseded_at = hist[i + 1][1] if i + 1 < len(hist) else None     # the counter at which this version was replaced
                if superseded_at is not None and c["label"] >= superseded_at:
                    chk.violation("c18.label_newer_than_data", f"zone {c['zone']}: the schedule returned was replaced on the controller at change counter {superseded_at}, "
                                  f"yet it is labelled with counter {c['label']}: a later forced fetch will take the stale copy for current", rep)
    if "passive_view" in o:
        z = script["calls"][0]["zone"]
        chk.count("passive.overheard_new_version.cases")
        first = next((c for c in o["all_calls"] if c["zone"] == z), None) if "all_calls" in o else None
        if first is not None and first["res"][0] == "ok" and o["passive_view"][z] != o["passive_want"][z]:
            what = "still the version fetched earlier" if o["passive_view"][z] == first["res"][1] else ("none" if o["passive_view"][z] is None else "neither version")
            chk.violation("c18.passive.overheard_new_version_not_taken", f"zone {z}: fetched, then changed on the controller, then every packet of the new version "
                          f"was overheard twice over - the zone reports {what}", rep)
    fs = o.get("followup_same")
    if fs and fs[0] == "ok" and fs[1] != o["history"][o["followup_same_zone"]][-1][2]:
        chk.violation("c18.forced_refetch_stale", f"get_schedule(force_io=True) on zone {o['followup_same_zone']} after the transfers does not return the controller's present schedule", rep)
    if fs and fs[0] == "err":
        chk.violation(f"c18.followup_same_failed:{fs[1]}", f"with nothing lost any more, get_schedule(force_io=True) on zone {o['followup_same_zone']} (the zone of the "
                      f"earlier transfers) ended with {fs[1]}: an earlier transfer left something behind", rep)
    if o["lock_after"] is not None:
        chk.violation("c18.lock_left", f"zone_lock_idx is {o['lock_after']!r} after every transfer has ended", rep)
    fk = o["followup"]
    if fk[0] != "ok" or fk[2] > 30.0:
        chk.violation("c18.followup_blocked", f"a follow-up get_schedule on zone {o['followup_zone']} ended with {fk[0]} {fk[1] if fk[0] == 'err' else ''} after {fk[2]:.1f} s", rep)
    elif fk[1] != o["history"][o["followup_zone"]][-1][2]:
        chk.violation("c18.followup_wrong", f"the follow-up on zone {o['followup_zone']} did not return the controller's present schedule", rep)
    if o["loop_errors"]:
        chk.count("loop_handler_exception." + o["loop_errors"][0].split("(")[0])


def model_lines(o) -> list[tuple[str, str]]:
    """Per fetch: (request line for the model, what the implementation did)."""
    out = []
    rows = o["rows"]
    # split the rows into fetches: each starts at an `obtain`
    i = 0
    while i < len(rows):
        if rows[i][0] != "obtain":
            i += 1
            continue
        _, z, holder, how = rows[i]
        j = i + 1
        exch = []
        released = False
        while j < len(rows) and not (rows[j][0] == "obtain" and rows[j][1] == z):
            r = rows[j]
            if r[0] == "exch" and (r[2] == z or (r[1] == "0006" and not exch)) and not released:
                exch.append(r)
            if r[0] == "wexch" and r[2] == z and not released:
                exch.append(r)
            if r[0] == "exch" and r[1] == "0006" and any(x[0] == "wexch" for x in exch) and r not in exch and not released:
                exch.append(r)      # the change counter read at the end of a write
            if r[0] == "release" and r[1] == z:
                released = True
                break
            j += 1
        out.append((z, holder, how, exch, released))
        i += 1
    return out


def run(chk: Check) -> None:
    rt.quiet()
    rnd = random.Random(chk.seed)
    thorough = chk.tier == "thorough"
    n_ep = 3000 if thorough else 250
    chk.rule = (
        "seeded fault scripts on a real 3-zone gateway against a scripted controller through the real QoS path: 1-3 concurrent "
        "get_schedule calls (force_io on/off, caller timeouts 0.05 s - 40 s) and set_schedule after a fetch (caller timeouts 0.2 - 60 s), replies / "
        "acknowledgements to chosen exchanges lost 1-9 times, the schedule of "
        "this or another zone changed right after chosen exchanges, overheard 0404 fragments; then a follow-up fetch on another zone; "
        "non-trivial = distinct script"
    )
    reqs, impl, meta = [], [], []
    for ep in range(n_ep):
        script = gen_script(rnd)

        async def body(loop, script=script):
            return await episode(loop, script, random.Random(rnd.random()))

        try:
            o, _ = gwrig.run(body)
        except Exception as e:  # noqa: BLE001
            chk.violation(f"c18.run_died:{type(e).__name__}", f"the run itself raised {e!r}", {"op": "xfer", "script": script})
            continue
        chk.evaluations += 1
        chk.nontrivial.add(json.dumps(script, sort_keys=True, default=str))
        rep = {"op": "xfer", "script": script, "results": [(c["zone"], c["res"][0], c["res"][1] if c["res"][0] == "err" else "...") for c in o["calls"]],
               "lock_after": o["lock_after"], "rows": [list(map(str, r)) for r in o["rows"]][:80]}
        score(chk, script, o, rep)
        # correspondence, fetch by fetch (only fetches that were not interleaved with another zone's: the model is sequential)
        set_calls = [c for c in o["calls"] if c.get("op") == "set"]
        if len(set_calls) == 1:
            c = set_calls[0]
            for z, holder, how, exch, released in model_lines(o):
                if z != c["zone"] or not any(x[0] == "wexch" for x in exch) and how == "ok":
                    continue
                if how not in ("ok",) and any(x[0] == "wexch" for x in exch):
                    continue
                ws = ["a" if x[3] == "ack" else "c" if x[3] == "cancel" else "f" for x in exch if x[0] == "wexch"]
                vers = [x for x in exch if x[0] == "exch" and x[1] == "0006"]
                ver = "-"
                if vers:
                    x = vers[-1]
                    ver = f"r:{x[4][0]}:0:0" if x[3] == "reply" else "c" if x[3] == "cancel" else "f"
                tag_before = "-" if c["before"][0] is None else "7"
                kind, val = c["res"]
                got_kind = f"sched:{c['after'][1]}" if kind == "ok" else "error" if val == "ProtocolSendFailed" else "cancelled"
                tag_after = "-" if c["after"][0] is None else ("8" if c["after"][0] == c["new"] else "7" if c["after"][0] == c["before"][0] else "?")
                reqs.append(f"xfer.set\t{z}\t{'-' if holder is None else holder}\t{tag_before}\t{c['before'][1] or 0}\t8\t{';'.join(ws)}\t{ver}")
                impl.append(f"{'released' if released else 'kept'}\t{got_kind}\t{tag_after}:{c['after'][1] or 0}")
                meta.append(rep)
        if len(script["calls"]) == 1:
            for z, holder, how, exch, released in model_lines(o):
                if how != "ok":
                    continue
                toks = []
                for r in exch:
                    if r[3] == "reply":
                        v, num, total = r[4]
                        toks.append(f"r:{v}:{num}:{total}")
                    elif r[3] == "cancel":
                        toks.append("c")
                    else:
                        toks.append("f")
                reqs.append(f"xfer.run\t{z}\t{'-' if holder is None else holder}\t" + ";".join(toks))
                impl.append("released" if released else "kept")
                meta.append(rep)
    outs = Model().run(reqs)
    for r, a, b, m in zip(reqs, impl, outs, meta):
        p = b.split("\t")
        if r.startswith("xfer.set"):
            if p[0] != "ok" or "\t".join(p[1:]) != a:
                chk.divergence("xfer.set", {"req": r, **{k: m[k] for k in ("script",)}}, a, b[:200])
            continue
        if p[0] != "ok" or p[1] != a:
            chk.divergence("xfer.run", {"req": r, **{k: m[k] for k in ("script",)}}, a, b[:200])
    chk.extra["model_ops_compared"] = len(reqs)
    chk.assumptions.append("a fragment set stitched from two versions of a schedule does not decompress (zlib adler-32); monitored: every schedule returned is compared with the controller's versions")
    chk.sample({"script": {"calls": [{"zone": "01", "timeout": 2.6}], "lose": {4: 9}}, "expect": "TimeoutError, zone_lock_idx None, follow-up on zone 00 succeeds"})


def replay(chk: Check, path: str) -> int:
    r = json.load(open(path))
    print(json.dumps(r, indent=1)[:4000])
    run(chk)
    return chk.finish()
