"""C14 — state is fresh: attributes reflect the newest live message, stale data ages out.

(A) expiry: real `Message` objects (repo logs + generated 1F09 countdowns 0..6553.5 s) read at clock
    values on the microsecond grid around the two thresholds, out of order too; vs `db.expired`.
(B) freshness: a real Gateway (mock transport, virtual clock) with a 6-zone controller is fed seeded
    interleavings of array / per-zone forms of 30C9, 2309, 2349, 12B0, 000A from the controller and
    noise from another controller, TRVs and the gateway itself, with the clock jumping between
    packets; zone attributes are read after every step; vs `db.run` (multi-zone model) and vs the
    property's own oracle (newest relevant message; unknown after 2x lifetime + 3 s).
"""

from __future__ import annotations

import asyncio
import json
import random
from datetime import datetime as dt, timedelta as td

from .. import gwrig, rt
from ..common import esc, Check, Model

CTL = "01:145038"
CTL2 = "01:223036"
GWY = gwrig.GWY_ID
TRV = "04:056053"
ZONES = ["00", "01", "02", "03", "04", "07"]
ATTRS = {  # attribute -> (codes, payload key, scale)
    "temperature": (["30C9"], "temperature", 100),
    "setpoint": (["2309", "2349"], "setpoint", 100),
    "window_open": (["12B0"], "window_open", 1),
    "min_temp": (["000A"], "min_temp", 100),
}
KEY_OF = {"30C9": ("temperature", 100), "2309": ("setpoint", 100), "2349": ("setpoint", 100), "12B0": ("window_open", 1), "000A": ("min_temp", 100)}
EPOCH = gwrig.BASE


def us(d: dt) -> int:
    return round((d - EPOCH) / td(microseconds=1))


def life_of(msg) -> str:
    """The lifespan `_expired` uses, as the model's token: C or microseconds."""
    from ramses_tx.const import Code

    if msg.code == Code._1F09 and msg.verb != "RQ":
        return str(round(td(seconds=msg.payload["remaining_seconds"]) / td(microseconds=1)))
    ls = msg._pkt._lifespan
    if ls is False:
        return "C"
    if ls is True:
        return "X"
    return str(round(ls / td(microseconds=1)))


class FakeGwy:
    def __init__(self) -> None:
        self.now = EPOCH

    def _dt_now(self):
        return self.now


def part_a(chk: Check, rnd: random.Random, thorough: bool) -> None:
    from ramses_tx.message import Message
    from ramses_tx.packet import Packet

    logs = gwrig.load_logs()
    frames = sorted({f for rows in logs.values() for _, f in rows if f[:2] in (" I", "RP")})
    rnd.shuffle(frames)
    frames = frames[: (1500 if thorough else 250)]
    countdowns = [0, 1, 2, 9, 10, 100, 1799, 1800, 3600, 65534, 65535] + [rnd.randrange(65536) for _ in range(300 if thorough else 60)]
    for cd in countdowns:
        frames.append(f" I --- {CTL} --:------ {CTL} 1F09 003 FF{cd:04X}")
        if rnd.random() < 0.3:
            frames.append(f"RP --- {CTL} {GWY} --:------ 1F09 003 00{cd:04X}")
    # OpenTherm replies of every data-id class (status / parameters / schema: 10.5 min, 2.1 h, 12.6 h), in a shuffled order
    from ramses_tx.command import Command as _Cmd
    from ramses_tx.opentherm import PARAMS_DATA_IDS, SCHEMA_DATA_IDS, STATUS_DATA_IDS

    ot = []
    for ids in (STATUS_DATA_IDS, PARAMS_DATA_IDS, SCHEMA_DATA_IDS):
        for i in rnd.sample(sorted(ids), min(len(ids), 4)):
            try:
                rq = _Cmd.get_opentherm_data("10:067219", i)
            except Exception:  # noqa: BLE001
                continue
            # the read-ack of that data-id with value 0 (parity of msg-type 4 + id)
            par = (bin(0x40).count("1") + bin(i).count("1")) % 2
            ot.append(f"RP --- 10:067219 {GWY} --:------ 3220 005 00{(0x40 | (0x80 if par else 0)):02X}{i:02X}0000")
    rnd.shuffle(ot)
    frames = ot[: len(ot) // 2] + frames + ot[len(ot) // 2:]
    g = FakeGwy()
    reqs, impl, meta = [], [], []
    kind_reqs, kind_impl, kind_meta = [], [], []
    for fr in frames:
        dtm = EPOCH + td(microseconds=rnd.randrange(0, 10**9))
        try:
            msg = Message(Packet(dtm, "045 " + fr))
            life = life_of(msg)
        except Exception:  # noqa: BLE001  (undecodable log lines are C01/C05's business)
            continue
        if life == "X":
            continue
        # "each message has a lifetime fixed by its kind": the lifetime the library uses is the one the model of pkt_lifespan
        # assigns to this frame on its own - whatever was received before it
        if not (fr[37:41] == "1F09" and fr[:2] != "RQ"):
            kind_reqs.append("recv.file\tTrue\t" + esc("045 " + fr))
            kind_impl.append("False" if life in ("C", "0") else life)
            kind_meta.append({"op": "lifetime", "frame": fr})
        msg._gwy = g
        t0 = us(dtm)
        if life == "C":
            L = 3600 * 10**6
        else:
            L = int(life)
        thr = t0 + 3_000_000 + 2 * L
        nows = [t0, t0 + L - 1, t0 + L, thr - 1_000_000, thr - 1, thr, thr + 1, t0 + 5, thr + 10**9, t0 + L, thr - 1]
        if rnd.random() < 0.5:
            nows = [t0 + rnd.randrange(0, 3 * L + 4_000_000) for _ in range(6)] + nows
        got = []
        err = None
        for n in nows:
            g.now = EPOCH + td(microseconds=n)
            try:
                got.append(bool(msg._expired))
            except Exception as e:  # noqa: BLE001
                err = e
                break
        chk.evaluations += 1
        rep = {"op": "expired", "frame": fr, "dtm_us": t0, "life": life, "nows": nows}
        if err is not None:
            chk.violation(f"c14.expired.raises:{type(err).__name__}", f"_expired raised {err!r} for {fr!r}", rep)
            continue
        chk.nontrivial.add(fr)
        chk.count("expiry.life." + ("cant" if life == "C" else "zero" if life == "0" else "timed"))
        # the property, directly
        seen_true = False
        for n, r in zip(nows, got):
            age = n - t0
            if life != "C":
                if age < L and r and not seen_true:
                    chk.violation("c14.expired.early", f"{fr!r}: expired at age {age} us < lifetime {L} us", rep)
                if age >= 2 * L + 3_000_000 and not r:
                    chk.violation("c14.expired.late", f"{fr!r}: not expired at age {age} us >= 2*{L}+3s", rep)
            elif r:
                chk.violation("c14.expired.cant", f"{fr!r}: a message that cannot expire did", rep)
            if seen_true and not r:
                chk.violation("c14.expired.unhappened", f"{fr!r}: expiry un-happened at clock {n}", rep)
            seen_true = seen_true or r
        reqs.append(f"db.expired\t{t0}\t{life}\t" + ",".join(str(n) for n in nows))
        impl.append("ok\t" + ",".join("True" if r else "False" for r in got))
        meta.append(rep)
    outs = Model().run(reqs)
    for r, a, b, m in zip(reqs, impl, outs, meta):
        if a != b:
            chk.divergence("db.expired", m, a, b)
    for r, a, b, m in zip(kind_reqs, kind_impl, Model().run(kind_reqs), kind_meta):
        p = b.split("\t")
        if p[0] != "packet":
            continue
        chk.count("lifetime_by_kind.compared")
        if p[-1] != a:
            chk.violation("c14.lifetime_not_by_kind:" + m["frame"][37:41], f"{m['frame']!r} is given a lifetime of {a} us; a packet of its kind has {p[-1]} us "
                          "(what the same frame gets when it is the first packet of a process)", m)
    chk.extra["model_ops_compared"] = chk.extra.get("model_ops_compared", 0) + len(reqs)


# ---------------------------------------------------------------------------------------------


def hex_temp(v: int) -> str:
    return f"{v & 0xFFFF:04X}"


def gen_ctl_frame(rnd: random.Random, ctl: str) -> str:
    code = rnd.choice(("30C9", "30C9", "2309", "2309", "2349", "12B0", "000A"))
    form = rnd.choice(("array", "single_i", "single_rp"))
    zs = rnd.sample(ZONES + ["05", "0B"], rnd.randint(1, 5))
    if code in ("2349", "12B0") or form != "array":
        z = zs[0]
        if code == "30C9":
            pl = z + hex_temp(rnd.randrange(500, 3000))
        elif code == "2309":
            pl = z + hex_temp(rnd.randrange(500, 3500, 50))
        elif code == "2349":
            pl = z + hex_temp(rnd.randrange(500, 3500, 50)) + rnd.choice(("00", "02")) + "FFFFFF"
        elif code == "12B0":
            pl = z + rnd.choice(("0000", "C800"))
        else:
            pl = z + rnd.choice(("10", "00")) + hex_temp(rnd.randrange(500, 1500, 100)) + hex_temp(rnd.randrange(2100, 3500, 100))
        if form == "single_rp" or (code in ("2349", "12B0") and rnd.random() < 0.5):
            return f"RP --- {ctl} {GWY} --:------ {code} {len(pl) // 2:03d} {pl}"
        return f" I --- {ctl} --:------ {ctl} {code} {len(pl) // 2:03d} {pl}"
    zs = sorted(zs)
    if code == "30C9":
        pl = "".join(z + hex_temp(rnd.randrange(500, 3000)) for z in zs)
    elif code == "2309":
        pl = "".join(z + hex_temp(rnd.randrange(500, 3500, 50)) for z in zs)
    else:
        pl = "".join(z + "10" + hex_temp(rnd.randrange(500, 1500, 100)) + hex_temp(rnd.randrange(2100, 3500, 100)) for z in zs)
    return f" I --- {ctl} --:------ {ctl} {code} {len(pl) // 2:03d} {pl}"


def gen_noise(rnd: random.Random) -> str:
    k = rnd.randrange(6)
    if k == 0:
        return gen_ctl_frame(rnd, CTL2)
    if k == 1:
        return f" I --- {TRV} --:------ {TRV} 30C9 003 00{hex_temp(rnd.randrange(500, 3000))}"
    if k == 2:
        return f" I --- {TRV} --:------ {CTL} 2309 003 {rnd.choice(ZONES)}{hex_temp(rnd.randrange(500, 3000, 50))}"
    if k == 3:
        return f"RQ --- {GWY} {CTL} --:------ {rnd.choice(('30C9', '2309', '12B0', '000A', '2349'))} 001 {rnd.choice(ZONES)}"
    if k == 4:
        return f" W --- {GWY} {CTL} --:------ 2309 003 {rnd.choice(ZONES)}{hex_temp(2000)}"
    return f" I --- {CTL} --:------ {CTL} 1F09 003 FF{rnd.randrange(1, 3000):04X}"


def elems_of(msg) -> str:
    key, scale = KEY_OF[str(msg.code)]
    pl = msg.payload
    rows = pl if isinstance(pl, list) else [pl]
    out = []
    for d in rows:
        if not isinstance(d, dict) or "zone_idx" not in d:
            continue
        v = d.get(key)
        if v is None:
            return "?"
        out.append(f"{d['zone_idx']}={round(v * scale) if not isinstance(v, bool) else int(v)}")
    return "|".join(out)


async def episode(loop, frames_and_gaps, reads_per_step, rnd) -> dict:
    schema = {"main_tcs": CTL, CTL: {"zones": {z: {"class": "radiator_valve"} for z in ZONES}}}
    rig = gwrig.Rig(loop, schema=schema)
    await rig.start()
    gwy = rig.gwy
    seen: list = []
    gwy.add_msg_handler(seen.append)
    tcs = gwy.system_by_id[CTL]
    zone = {z.idx: z for z in tcs.zones}
    evs: list[str] = []
    reads: list = []
    seq = 0
    errors: list = []
    bystander_at = rnd.randrange(len(frames_and_gaps)) if rnd.random() < 0.35 else -1
    bystanders = []
    burst_k = 0
    for i_step, (gap, fr) in enumerate(frames_and_gaps):
        in_burst = gap is None           # read from the port in the same pass of the loop as the frame before (one read, two lines)
        more = i_step + 1 < len(frames_and_gaps) and frames_and_gaps[i_step + 1][0] is None
        if not in_burst:
            await asyncio.sleep(gap)
            burst_k = 0
        if i_step == bystander_at:
            # a second gateway is created in this process (a log being replayed next to the live one): its clock is the time of
            # its log, years away from ours - whose messages age by *our* clock
            from types import SimpleNamespace

            from ramses_rf import Gateway

            other = Gateway("/dev/null", config={"disable_discovery": True, "enforce_known_list": False})
            when = rnd.choice((dt(2001, 1, 1), dt(2037, 1, 1)))
            other._transport = SimpleNamespace(_dt_now=lambda when=when: when)
            bystanders.append(other)
        if not in_burst:
            seen.clear()
        if fr is not None and (in_burst or more):
            burst_k += 1
            rig.transport.inject_at(gwrig.vnow(loop) + td(microseconds=700 * burst_k), fr)
        elif fr is not None:
            await rig.feed(fr)
        if more:
            continue
        if in_burst:
            for _ in range(3):
                await asyncio.sleep(0)
        if fr is not None or in_burst:
            for msg in seen:
                seq += 1
                code = str(msg.code)
                el = elems_of(msg) if code in KEY_OF else ""
                if el == "?":
                    el = ""
                evs.append("M,%d,%s,%s,%s,%s,%d,%s,%s" % (seq, msg.src.id, msg.dst.id, msg.verb.strip(), code, us(msg.dtm), life_of(msg), el))
                reads.append(None)
        for _ in range(reads_per_step):
            z = rnd.choice(ZONES)
            attr = rnd.choice(list(ATTRS))
            codes, key, scale = ATTRS[attr]
            now = gwrig.vnow(loop)
            try:
                if attr == "min_temp":
                    cfg = zone[z].config
                    v = None if cfg is None else cfg.get("min_temp")
                else:
                    v = getattr(zone[z], attr)
            except Exception as e:  # noqa: BLE001
                errors.append((attr, z, repr(e)))
                v = "ERR"
            await asyncio.sleep(0)      # let the deferred _delete_msg run
            if isinstance(v, bool):
                v = int(v)
            elif isinstance(v, (int, float)):
                v = round(v * scale)
            evs.append("R,%d,%s,%s" % (us(now), z, "+".join(codes)))
            reads.append((us(now), z, attr, v))
    await rig.stop()
    return {"evs": evs, "reads": reads, "errors": errors, "loop_errors": list(loop.errors)}


def oracle(chk: Check, evs: list[str], reads: list, rep: dict, src: str = CTL) -> None:
    """The property on the implementation's own answers (independent of the Lean model)."""
    newest: dict[tuple[str, str], tuple[int, str, int, int]] = {}   # (zone, code) -> (dtm, life, value, seq)
    noticed: set = set()
    for ev, rd in zip(evs, reads):
        p = ev.split(",")
        if p[0] == "M":
            _, seq, src_, dst, verb, code, dtm, life, el = p
            if src_ != src or verb not in ("I", "RP") or not el:
                continue
            for kv in el.split("|"):
                z, v = kv.split("=")
                newest[(z, code)] = (int(dtm), life, int(v), int(seq))
            continue
        now, z, attr, got = rd
        codes = ATTRS[attr][0]
        cands = [newest[(z, c)] for c in codes if (z, c) in newest]
        if got == "ERR":
            chk.violation("c14.read.raises", f"reading zone {z} {attr} raised", rep)
            return
        if not cands:
            if got is not None:
                chk.violation("c14.read.phantom", f"zone {z} {attr} = {got} but no message ever carried it", rep)
                return
            continue
        dtm, life, val, seq = max(cands, key=lambda c: c[0])

        def cls(c) -> str:
            if c[1] == "C":
                return "live"
            age = now - c[0]
            return "live" if age < int(c[1]) else ("dead" if age >= 2 * int(c[1]) + 3_000_000 else "grey")

        age_class = cls((dtm, life, val, seq))
        chk.count("read." + age_class)
        if age_class == "live" and got != val:
            # (a message deleted because *another* code's older message expired is still a violation)
            chk.violation("c14.read.not_newest", f"zone {z} {attr} = {got}, newest live message (seq {seq}) says {val}", rep)
            return
        if age_class == "dead" and got is not None:
            # which message is being reported?  the newest, or (two-code attributes) an older one it fell back to
            src_c = next((c for c in sorted(cands, key=lambda c: -c[0]) if c[2] == got and c[3] not in noticed), None)
            if src_c is not None and cls(src_c) == "dead":
                chk.violation("c14.stale_first_read", f"zone {z} {attr} still reads {got} from a message {now - src_c[0]} us old (lifetime {src_c[1]} us) "
                              "on the read that notices the expiry", rep)
                noticed.add(src_c[3])
            elif src_c is not None:
                chk.violation("c14.read.fallback_older", f"zone {z} {attr} = {got} from an older message (seq {src_c[3]}) although the newest (seq {seq}) has expired", rep)
            else:
                chk.violation("c14.stale_read_again", f"zone {z} {attr} reads {got} from an expired message after the expiry was noticed", rep)
                return
        elif age_class == "dead":
            noticed.add(seq)


def part_b(chk: Check, rnd: random.Random, thorough: bool) -> None:
    n_ep = 250 if thorough else 40
    reqs, impl, meta = [], [], []
    for _ in range(n_ep):
        steps = rnd.randint(15, 70)
        tempo = rnd.choice(("fast", "mixed", "slow"))
        fg = []
        sent: list = []
        for _ in range(steps):
            if tempo == "fast":
                gap = rnd.choice((0.1, 1.0, 30.0, 200.0))
            elif tempo == "slow":
                gap = rnd.choice((100.0, 359.0, 361.0, 722.9, 723.1, 3600.0, 7300.0))
            else:
                gap = rnd.choice((0.1, 5.0, 180.0, 360.0, 400.0, 723.0, 1000.0, 3603.0, 7203.5, 10000.0))
            r = rnd.random()
            fr = None if r < 0.15 else (gen_noise(rnd) if r < 0.4 else gen_ctl_frame(rnd, CTL))
            if r >= 0.4 and sent and rnd.random() < 0.3:
                fr = rnd.choice(sent[-6:])      # a steady value is announced again, byte for byte
            elif r >= 0.4:
                sent.append(fr)
            fg.append((gap, fr))
            # ... the controller announces one zone of an array again, with other values, within the 3 s in which a second
            # packet of that code is taken for the array's second part: the later announcement is the zone's value
            if fr is not None and r >= 0.4 and fr[17:26] == "--:------" and fr[37:41] in ("000A", "2309", "30C9") and len(fr) > 46 + 12 and rnd.random() < 0.35:
                code = fr[37:41]
                el = 12 if code == "000A" else 6
                z = rnd.choice([fr[46 + i:46 + i + 2] for i in range(0, len(fr) - 46, el)])
                for _try in range(40):
                    fr2 = gen_ctl_frame(rnd, CTL)
                    if fr2[:2] == " I" and fr2[37:41] == code and len(fr2) == 46 + el and fr2[46:48] == z:
                        fg.append((rnd.choice((0.05, 0.5, 1.5, 2.9, 3.1)), fr2))
                        break
            # ... and now and then the very next frame arrives in the same serial read: the same zone and code again, as the
            # other of announcement / reply, with another value
            if fr is not None and r >= 0.4 and rnd.random() < 0.12 and fr[17:26] == "--:------" and len(fr) < 64 and fr[37:41] in ("30C9", "2309", "2349", "12B0", "000A"):
                z, code = fr[46:48], fr[37:41]
                for _try in range(20):
                    fr2 = gen_ctl_frame(rnd, CTL)
                    if fr2[:2] == "RP" and fr2[37:41] == code and fr2[46:48] == z and fr2[46:] != fr[46:]:
                        fg.append((None, fr2))
                        break

        async def body(loop, fg=fg):
            return await episode(loop, fg, rnd.randint(1, 3), rnd)

        res, _ = gwrig.run(body)
        chk.evaluations += 1
        rep = {"op": "history", "steps": [(g, f) for g, f in fg]}
        chk.nontrivial.add(tuple(res["evs"]))
        if res["errors"] or res["loop_errors"]:
            chk.violation("c14.exception", f"{(res['errors'] or res['loop_errors'])[:2]}", rep)
        oracle(chk, res["evs"], res["reads"], rep)
        reqs.append(f"db.run\t{CTL}\t{','.join(ZONES)}\t" + ";".join(res["evs"]))
        impl.append(",".join("None" if r[3] is None else str(r[3]) for r in res["reads"] if r is not None))
        meta.append(rep)
        chk.count("history.messages", sum(1 for e in res["evs"] if e[0] == "M"))
        chk.count("history.reads", sum(1 for e in res["evs"] if e[0] == "R"))
    outs = Model().run(reqs)
    for a, b, m in zip(impl, outs, meta):
        got = b.split("\t")[1] if b.startswith("ok\t") else b
        if a != got:
            al, bl = a.split(","), got.split(",")
            k = next((i for i, (x, y) in enumerate(zip(al, bl)) if x != y), -1)
            chk.divergence("db.run", {**m, "first_diff_read": k}, a[:400], got[:400])
    chk.extra["model_ops_compared"] = chk.extra.get("model_ops_compared", 0) + len(reqs)


# ---------------------------------------------------------------------------------------------
# (C) the same, for attributes of devices and of the hot-water / system entities

DHW_S, BDR, TRV2 = "07:045960", "13:237335", "04:189076"
DEV_ATTRS = {   # (entity tag, attribute) -> (sender, code, verb, payload maker, value of payload)
    ("trv", "temperature"): (TRV, "30C9", " I", lambda v: "00" + hex_temp(v), lambda v: v),
    ("trv2", "temperature"): (TRV2, "30C9", " I", lambda v: "00" + hex_temp(v), lambda v: v),
    ("trv", "window_open"): (TRV, "12B0", " I", lambda v: "00" + ("C800" if v % 2 else "0000"), lambda v: v % 2),
    ("dhw_sensor", "temperature"): (DHW_S, "1260", " I", lambda v: "00" + hex_temp(v), lambda v: v),
}


async def dev_episode(loop, steps, rnd) -> dict:
    schema = {"main_tcs": CTL, CTL: {"zones": {"00": {"class": "radiator_valve", "actuators": [TRV]}, "01": {"class": "radiator_valve", "actuators": [TRV2]}},
                                    "stored_hotwater": {"sensor": DHW_S}, "system": {"appliance_control": BDR}}}
    rig = gwrig.Rig(loop, schema=schema)
    await rig.start()
    gwy = rig.gwy
    tcs = gwy.system_by_id[CTL]
    ent = {"trv": gwy.device_by_id[TRV], "trv2": gwy.device_by_id[TRV2], "dhw_sensor": gwy.device_by_id[DHW_S], "bdr": gwy.device_by_id[BDR], "dhw": tcs.dhw}
    seen: list = []
    gwy.add_msg_handler(seen.append)
    evs, reads, errors = [], [], []
    seq = 0
    for gap, tagattr, v in steps:
        await asyncio.sleep(gap)
        if tagattr is not None and DEV_ATTRS[tagattr][3] is not None:
            sender, code, verb, mk, val = DEV_ATTRS[tagattr]
            pl = mk(v)
            seen.clear()
            await rig.feed(f"{verb} --- {sender} --:------ {sender} {code} {len(pl) // 2:03d} {pl}")
            for msg in seen:
                seq += 1
                who = [t for (t, a), spec in DEV_ATTRS.items() if spec[0] == msg.src.id and spec[1] == str(msg.code)]
                el = "|".join(f"{t}={val(v)}" for t in who)
                evs.append("M,%d,%s,%s,%s,%s,%d,%s,%s" % (seq, "DEV", msg.dst.id, msg.verb.strip(), str(msg.code), us(msg.dtm), life_of(msg), el))
                reads.append(None)
        for _ in range(rnd.randint(1, 3)):
            tag, attr = rnd.choice(list(DEV_ATTRS))
            code = DEV_ATTRS[(tag, attr)][1]
            now = gwrig.vnow(loop)
            try:
                x = getattr(ent[tag], attr)
            except Exception as e:  # noqa: BLE001
                errors.append((tag, attr, repr(e)))
                x = "ERR"
            await asyncio.sleep(0)
            if isinstance(x, bool):
                x = int(x)
            elif isinstance(x, (int, float)):
                x = round(x * (10000 if attr == "relay_demand" else 100))
            evs.append("R,%d,%s,%s" % (us(now), tag, code))
            reads.append((us(now), tag, f"{tag}.{attr}", x))
    await rig.stop()
    return {"evs": evs, "reads": reads, "errors": errors, "loop_errors": list(loop.errors)}


def part_c(chk: Check, rnd: random.Random, thorough: bool) -> None:
    global ATTRS
    n_ep = 120 if thorough else 25
    zone_attrs = ATTRS
    for _ in range(n_ep):
        steps = []
        tempo = rnd.choice(("fast", "mixed", "slow"))
        sent: list = []
        for _ in range(rnd.randint(12, 50)):
            gap = rnd.choice({"fast": (0.1, 5.0, 60.0, 400.0), "slow": (359.0, 361.0, 722.9, 723.1, 1300.0, 3600.0, 3604.0, 7300.0),
                              "mixed": (0.1, 100.0, 360.0, 723.0, 1000.0, 3603.0, 7203.5, 10000.0)}[tempo])
            r = rnd.random()
            if r < 0.2:
                steps.append((gap, None, 0))
            elif r < 0.4 and sent:
                steps.append((gap,) + rnd.choice(sent[-5:]))     # the same value again
            else:
                ta = rnd.choice([k for k, sp in DEV_ATTRS.items() if sp[3] is not None])
                v = rnd.randrange(500, 3000)
                sent.append((ta, v))
                steps.append((gap, ta, v))

        async def body(loop, steps=steps):
            return await dev_episode(loop, steps, rnd)

        res, _ = gwrig.run(body)
        chk.evaluations += 1
        rep = {"op": "device-history", "steps": [(g, list(t) if t else None, v) for g, t, v in steps]}
        chk.nontrivial.add(("dev", tuple(res["evs"])))
        if res["errors"] or res["loop_errors"]:
            chk.violation("c14.exception", f"{(res['errors'] or res['loop_errors'])[:2]}", rep)
        # the same oracle, with (entity, code) in the place of (zone, code)
        ATTRS = {f"{t}.{a}": ([DEV_ATTRS[(t, a)][1]], a, 1) for (t, a) in DEV_ATTRS}
        try:
            oracle(chk, res["evs"], [None if r is None else (r[0], r[1], r[2], r[3]) for r in res["reads"]], rep, src="DEV")
        finally:
            ATTRS = zone_attrs
        chk.count("device_history.reads", sum(1 for e in res["evs"] if e[0] == "R"))


def run(chk: Check) -> None:
    rt.quiet()
    rnd = random.Random(chk.seed)
    thorough = chk.tier == "thorough"
    chk.rule = (
        "(A) _expired of real Message objects (distinct I/RP frames of the repo logs + 1F09 countdowns incl. 0 and 65535) at 11-17 "
        "clock values each on the microsecond grid around lifetime and 2*lifetime+3 s, forwards and backwards; (B) seeded histories of "
        "15-70 steps on a real 6-zone gateway: array/per-zone I/RP forms of 30C9, 2309, 2349, 12B0, 000A, noise from a second controller, "
        "TRVs, requests and writes, clock gaps 0.1 s - 3 h, 1-3 attribute reads after every step; (C) the same for attributes of devices and "
        "(two TRVs' temperature / window state, the DHW sensor's temperature), steady values re-announced; non-trivial = distinct frame (A) / distinct event trace (B, C)"
    )
    part_a(chk, rnd, thorough)
    part_b(chk, rnd, thorough)
    part_c(chk, rnd, thorough)
    chk.assumptions.append("age/lifespan >= 2.0 in binary64 equals the exact rational comparison for lifespans below 2^52 us")
    chk.sample({"history": "I 30C9 array (zones 00,01) at t; RP 30C9 zone 01 at t+690 s; read zone 00 at t+724 s", "expect": "zone 00 unknown, zone 01 live"})


def replay(chk: Check, path: str) -> int:
    r = json.load(open(path))
    print(json.dumps(r, indent=1)[:3000])
    run(chk)
    return chk.finish()
