"""C08 — QoS send machine (see harness/qos.py, harness/qos_checks.py)."""

from __future__ import annotations

import json

from .. import qos, qos_checks, qos_model
from ..common import Check


def run(chk: Check) -> None:
    qos_checks.run_prop(chk, "C08")
    qos_model.correspond(chk)
    through_the_gateway(chk)


def through_the_gateway(chk: Check) -> None:
    """The same bound through the gateway's own entry point (`Engine.async_send_cmd`, what every entity of ramses_rf calls), one
    gateway after another in this process: a command whose reply must be awaited (a schedule fragment, the change counter, a
    fault-log entry) and is never answered is transmitted 1 + min(max_retries, 3) times and ends in an error - whatever was sent
    before it, with whatever settings."""
    import asyncio
    import random

    from ramses_tx.command import Command

    from .. import gwrig

    CTL = "01:145038"
    rnd = random.Random(chk.seed)
    must_wait = [f"RQ --- 18:000730 {CTL} --:------ 0404 007 00200008000100", f"RQ --- 18:000730 {CTL} --:------ 0006 001 00",
                 f"RQ --- 18:000730 {CTL} --:------ 0418 003 000002"]
    ordinary = [(f"RQ --- 18:000730 {CTL} --:------ 2349 001 01", f"RP --- {CTL} 18:006402 --:------ 2349 007 0107D000FFFFFF"),
                (f"RQ --- 18:000730 {CTL} --:------ 2309 001 01", f"RP --- {CTL} 18:006402 --:------ 2309 003 0107D0")]
    for k in range(6):
        retries = rnd.choice((0, 1, 2, 3, 3, 5))
        timeout = rnd.choice((20.0, 20.0, 5.0))
        first = rnd.choice(ordinary)
        target = rnd.choice(must_wait)
        out: dict = {}

        async def body(loop, retries=retries, timeout=timeout, first=first, target=target):
            def responder(frame):
                return [(0.05, first[1])] if frame[37:41] == first[0][37:41] else []

            rig = gwrig.Rig(loop, responder=responder)
            await rig.start()
            try:
                await rig.gwy.async_send_cmd(Command(first[0]), wait_for_reply=True, max_retries=retries, timeout=timeout)
                out["first"] = "ok"
            except Exception as e:  # noqa: BLE001
                out["first"] = type(e).__name__
            n0 = len(rig.transport.written)
            try:
                pkt = await rig.gwy.async_send_cmd(Command(target), wait_for_reply=True, max_retries=retries, timeout=timeout)
                out["target"] = ("ok", str(pkt))
            except Exception as e:  # noqa: BLE001
                out["target"] = ("err", type(e).__name__)
            out["tx"] = sum(1 for _t, fr in rig.transport.written[n0:] if fr[37:41] == target[37:41])
            await rig.stop()

        try:
            gwrig.run(body)
        except Exception as e:  # noqa: BLE001
            chk.violation(f"gateway_api.run_died:{type(e).__name__}", f"the run itself raised {e!r}", {"op": "gateway_api"})
            continue
        chk.evaluations += 1
        chk.nontrivial.add(("gateway_api", k, retries, timeout, first[0], target))
        chk.count("gateway_api.episodes")
        want_tx = 1 + min(retries, 3)
        rep = {"op": "gateway_api", "first": first[0], "target": target, "max_retries": retries, "timeout": timeout, "got": out}
        if out.get("target", ("", ""))[0] == "ok":
            chk.violation("gateway_api.unanswered_returned_success", f"{target!r} (wait_for_reply=True) was never answered, yet async_send_cmd returned {out['target'][1][:80]!r} "
                          f"after {out['tx']} transmission(s)", rep)
        elif out.get("tx") != want_tx:
            chk.violation("gateway_api.transmission_count", f"{target!r} unanswered with max_retries={retries}: {out.get('tx')} transmissions, expected {want_tx}", rep)


def replay(chk: Check, path: str) -> int:
    r = json.load(open(path))
    print(json.dumps(r, indent=1)[:3000])
    if "episode" in r:
        ep = qos.Episode.from_json(r["episode"])
        res = qos.run_episode(ep)
        {"C07": qos_checks.score_c07, "C08": qos_checks.score_c08, "C09": qos_checks.score_c09}["C08"](chk, ep, res)
        return chk.finish()
    run(chk)
    return chk.finish()
