"""C08 — QoS send machine (see harness/qos.py, harness/qos_checks.py)."""

from __future__ import annotations

import json

from .. import qos, qos_checks, qos_model
from ..common import Check


def run(chk: Check) -> None:
    qos_checks.run_prop(chk, "C08")
    qos_model.correspond(chk)


def replay(chk: Check, path: str) -> int:
    r = json.load(open(path))
    print(json.dumps(r, indent=1)[:3000])
    if "episode" in r:
        ep = qos.Episode.from_json(r["episode"])
        res = qos.run_episode(ep)
        {"C07": qos_checks.score_c07, "C08": qos_checks.score_c08, "C09": qos_checks.score_c09}["C08"](chk, ep, res)
        return chk.finish()
    run(chk)
    return chk.finish()
