"""C11 — transmit regulation holds for every send pattern (duty cycle, write spacing, MQTT tokens).

The real `PortTransport` (on a pty, built by the library's own factory) and the real `MqttTransport`
(paho client stubbed) run under the virtual-time loop with `perf_counter` = the loop's clock.
Observed per pattern: offers (time, frame), arrivals at the leaker semaphore, leaker ticks,
`serial.write()`s / publishes.  Checked:
  * the property oracle on the implementation's own write log (all O(n^2) windows; order;
    exactly-once; unaltered; spacing; MQTT allowance, drop-not-queue);
  * correspondence with the Lean model: bucket levels/waits (`lim.duty`), semaphore order
    (`lim.sem`), MQTT decisions and sleeps (`lim.mqtt`).
"""

from __future__ import annotations

import asyncio
import json
import os
import random
from datetime import timedelta as td

from .. import rt, vloop
from ..common import Check, Diff, Model

# the constants of the *property* (1 % of the deemed 38 400 bit/s; 60 s bucket; 50 ms gap; 80 per 60 s)
P_RATE = 384.0
P_CAP = 23040.0
P_GAP = 0.05
P_TOKENS = 80
P_WINDOW = 60.0
EPS = 2e-6


def frame_for(i: int, nbytes: int, rnd: random.Random) -> str:
    payload = "".join(rnd.choice("0123456789ABCDEF") for _ in range(2 * nbytes))
    return f"RQ --- 18:{i:06d} 01:145038 --:------ 0008 {nbytes:03d} {payload}"


def bits_of(frame: str) -> int:
    return 330 + 10 * len(frame[46:])


# ---------------------------------------------------------------------------------------------
# patterns


def gen_pattern(rnd: random.Random, thorough: bool) -> list[tuple[int, int]]:
    """[(offset in microseconds, payload bytes)], offsets non-decreasing."""
    kind = rnd.choice(("burst", "steady_fast", "steady_slow", "gaps", "mixed", "drain_then_small", "concurrent"))
    out: list[tuple[int, int]] = []
    t = rnd.randrange(0, 2_000_000)
    big = 400 if thorough else 160

    def size() -> int:
        return rnd.choice((1, 2, 3, 6, 24, 47, 48, rnd.randint(1, 48)))

    if kind == "burst":
        n = rnd.randint(2, big)
        for _ in range(n):
            out.append((t, size()))
            if rnd.random() < 0.2:
                t += rnd.choice((1, 1000, 49_999, 50_000, 50_001))
    elif kind == "steady_fast":
        step = rnd.choice((10_000, 50_000, 100_000, 500_000, 859_375))
        for _ in range(rnd.randint(20, big)):
            out.append((t, size()))
            t += step
    elif kind == "steady_slow":
        step = rnd.choice((1_000_000, 2_000_000, 5_000_000))
        for _ in range(rnd.randint(10, 80)):
            out.append((t, size()))
            t += step
    elif kind == "gaps":
        for _ in range(rnd.randint(2, 5)):
            for _ in range(rnd.randint(5, 90)):
                out.append((t, size()))
                t += rnd.choice((0, 0, 1000, 60_000))
            t += rnd.choice((10, 45, 61, 120, 600)) * 1_000_000
    elif kind == "drain_then_small":
        for _ in range(70):
            out.append((t, 48))
        for _ in range(rnd.randint(2, 12)):
            t += rnd.choice((0, 1000, 500_000))
            out.append((t, rnd.choice((48, 1, 1, 24))))
    elif kind == "concurrent":
        # several callers, each offering its next frame as soon as the previous one was written is
        # approximated by interleaved streams with different phases
        k = rnd.randint(2, 4)
        evs = []
        for c in range(k):
            tt = t + rnd.randrange(0, 200_000)
            step = rnd.choice((20_000, 70_000, 300_000, 900_000))
            for _ in range(rnd.randint(10, big // k)):
                evs.append((tt, size()))
                tt += step
        out = sorted(evs)
    else:
        for _ in range(rnd.randint(10, big)):
            out.append((t, size()))
            t += rnd.choice((0, 0, 1, 999, 50_000, 123_457, 1_000_000, 7_000_000))
    return out


# ---------------------------------------------------------------------------------------------
# the serial gateway


class RecSem(asyncio.BoundedSemaphore):
    def __init__(self, log: list, loop) -> None:
        super().__init__()
        self._log = log
        self._lp = loop

    async def acquire(self):
        self._log.append(("A", self._lp.time()))
        return await super().acquire()

    def release(self):
        self._log.append(("T", self._lp.time()))
        return super().release()


def reset_bucket(T, now: float) -> dict:
    wf = T.PortTransport.write_frame
    for cand in [wf] + [v for v in vars(T.PortTransport).values() if callable(v) and getattr(v, "__closure__", None)]:
        if "BUCKET_CAPACITY" in getattr(cand, "__code__", wf.__code__).co_freevars:
            wf = cand       # (the duty-cycle wrapper, wherever in the write path it has been put)
            break
    cells = dict(zip(wf.__code__.co_freevars, wf.__closure__ or ()))
    cells["bits_in_bucket"].cell_contents = cells["BUCKET_CAPACITY"].cell_contents
    cells["last_time_bit_added"].cell_contents = now
    return {"FILL_RATE": cells["FILL_RATE"].cell_contents, "BUCKET_CAPACITY": cells["BUCKET_CAPACITY"].cell_contents}


async def port_episode(loop, pattern, rnd, cancels=None) -> dict:
    import ramses_tx.transport as T
    from ramses_tx.protocol import protocol_factory

    T.perf_counter = loop.time
    proto = protocol_factory(lambda m: None, disable_sending=False)
    master, slave = os.openpty()
    tr = await T.transport_factory(proto, port_name=os.ttyname(slave), port_config={}, loop=loop)
    await asyncio.sleep(3.0)
    writes: list = []
    semlog: list = []
    tr._write = lambda data: writes.append((loop.time(), data))
    tr._leaker_sem = RecSem(semlog, loop)
    t0 = loop.time()
    consts = reset_bucket(T, t0)
    offers: list = []
    done: list = []
    errors: list = []
    frames = [frame_for(i, nb, rnd) for i, (_, nb) in enumerate(pattern)]

    async def offer(i: int) -> None:
        offers.append((loop.time(), i))
        try:
            await tr.write_frame(frames[i])
        except Exception as e:  # noqa: BLE001
            errors.append((i, repr(e)))
        done.append((loop.time(), i))

    tasks = []

    def start(i: int) -> None:
        tasks.append(loop.create_task(offer(i)))

    for i, (off, _) in enumerate(pattern):
        loop.call_at(t0 + off / 1e6, start, i)
    cancelled: list = []

    def cancel(i: int) -> None:
        # (a caller's send timeout: the task that offered frame i is cancelled, wherever in the write path it is waiting)
        k = next((k for k, (_t, j) in enumerate(offers) if j == i), None)
        if k is not None and not tasks[k].done():
            tasks[k].cancel()
            cancelled.append((loop.time(), i))

    for i, off in (cancels or {}).items():
        loop.call_at(t0 + off / 1e6, cancel, i)
    total_bits = sum(bits_of(f) for f in frames)
    horizon = pattern[-1][0] / 1e6 + total_bits / P_RATE + len(pattern) * P_GAP * 2 + 10.0
    await asyncio.sleep(horizon)
    pending = [t for t in tasks if not t.done()]
    for t in pending:
        t.cancel()
    tr.close()
    os.close(master)
    await asyncio.sleep(0)
    return {"t0": t0, "offers": offers, "writes": writes, "semlog": semlog, "frames": frames, "errors": errors, "cancelled": cancelled,
            "unfinished": len(pending), "consts": consts, "loop_errors": list(loop.errors)}


def run_port_cancel(chk: Check, rnd) -> None:
    """A caller gives up (its task is cancelled) while its frame waits for the duty-cycle allowance, with others waiting behind it and
    more frames offered afterwards: the frames that are written are written once, unaltered, and in the order they were offered."""
    n_back = rnd.choice((80, 90, 100))              # a backlog that puts the bucket in debt
    pattern = [(1000 * k, 48) for k in range(n_back)]
    tA = 1000 * n_back + rnd.choice((1000, 200000))
    a = len(pattern)
    pattern += [(tA, 48), (tA + 1000, rnd.choice((24, 48))), (tA + 2000, 48)]
    t_cancel = tA + rnd.choice((300000, 900000, 2500000))
    pattern += [(t_cancel + rnd.choice((1000, 100000, 400000)), rnd.choice((1, 4, 8))), (t_cancel + 600000, 1)]
    cancels = {a: t_cancel}
    if rnd.random() < 0.4:
        cancels[a + 2] = t_cancel + 50000

    async def body(loop):
        return await port_episode(loop, pattern, rnd, cancels)

    res, _ = vloop.run(body)
    chk.evaluations += 1
    chk.nontrivial.add(("port-cancel", tuple(pattern), tuple(sorted(cancels.items()))))
    chk.count("port.cancel_episodes")
    rep = {"op": "port.cancel", "pattern": pattern, "cancels": cancels}
    frames = res["frames"]
    offered = [(frames[i] + "\r\n").encode() for _, i in res["offers"]]
    got = [d for _, d in res["writes"]]
    if len(set(got)) < len(got):
        chk.violation("c11.port.cancel.duplicate", "a frame was written more than once", rep)
        return
    if any(g not in offered for g in got):
        chk.violation("c11.port.cancel.altered", "something was written that was not offered", rep)
        return
    pos = [offered.index(g) for g in got]
    if pos != sorted(pos):
        k = next(i for i in range(1, len(pos)) if pos[i] < pos[i - 1])
        chk.violation("c11.port.cancel.reorder", f"after a waiting caller was cancelled, frame #{pos[k - 1]} (offered at {res['offers'][pos[k - 1]][0] - res['t0']:.3f}) was written "
                      f"before frame #{pos[k]} (offered earlier, at {res['offers'][pos[k]][0] - res['t0']:.3f})", rep)
    gone = {(frames[i] + "\r\n").encode() for _t, i in res["cancelled"]}
    missing = [o for o in offered if o not in got and o not in gone]
    if missing:
        chk.violation("c11.port.cancel.lost", f"{len(missing)} frame(s) whose caller did not give up were never written", rep)


def score_port(chk: Check, D: Diff, pattern, res, consts_model) -> None:
    frames = res["frames"]
    t0 = res["t0"]
    offers = res["offers"]
    writes = res["writes"]
    rep = {"op": "port", "pattern": pattern}
    # --- only delays: exactly once, unaltered, in order
    # (timers with equal deadlines fire in heap order, so "offered order" is the order the calls were really made in)
    want = [(frames[i] + "\r\n").encode() for _, i in offers]
    got = [d for _, d in writes]
    if got != want:
        if sorted(got) == sorted(want):
            k = next(i for i, (a, b) in enumerate(zip(got, want)) if a != b)
            chk.violation("c11.port.reorder", f"frames written out of order: position {k} got {got[k]!r}, offered {want[k]!r}", rep)
        elif len(got) < len(want) and all(g in want for g in got):
            chk.violation("c11.port.lost", f"{len(want) - len(got)} accepted frame(s) never written (unfinished={res['unfinished']})", rep)
        elif len(set(got)) < len(got):
            chk.violation("c11.port.duplicate", "a frame was written more than once", rep)
        else:
            chk.violation("c11.port.altered", "written bytes differ from the offered frames", rep)
    if res["errors"] or res["loop_errors"]:
        chk.violation("c11.port.exception", f"write_frame raised: {(res['errors'] or res['loop_errors'])[:2]}", rep)
    # --- window bound on the implementation's own log (all windows that start and end at a write)
    size_of = {(f + "\r\n").encode(): bits_of(f) for f in frames}
    offer_t = {(frames[i] + "\r\n").encode(): t for t, i in offers}
    ws = sorted(((t, size_of.get(d, 330 + 10 * (len(d) - 48))) for t, d in writes))
    wt = {d: t for t, d in writes}
    n = len(ws)
    pref = [0]
    for _, z in ws:
        pref.append(pref[-1] + z)
    ot = sorted((offer_t[d], wt.get(d, float("inf")), size_of[d]) for d in offer_t)
    worst = 0.0
    for i in range(n):
        s = ws[i][0]
        # pending just before s: offered strictly before s, not yet written before s
        pend = sum(z for (to, tw, z) in ot if to < s - 1e-9 and tw >= s)
        for j in range(i, n):
            e = ws[j][0]
            bits = pref[j + 1] - pref[i]
            allowed = P_RATE * (e - s) + P_CAP + pend
            worst = max(worst, bits - allowed)
            if bits > allowed + 1.0:
                chk.violation("c11.port.window", f"{bits} bits written in [{s - t0:.6f}, {e - t0:.6f}] s, allowance {allowed:.1f} "
                              f"(= {P_RATE}*{e - s:.6f} + {P_CAP} + {pend} pending)", rep)
                break
        else:
            continue
        break
    chk.extra["worst_window_excess_bits"] = max(chk.extra.get("worst_window_excess_bits", -1e18), worst)
    # --- spacing: any k+1 consecutive writes span at least (k-1) gaps
    tw = [t for t, _ in ws]
    bad = None
    for i in range(n):
        for j in range(i + 2, min(n, i + 60)):
            if tw[j] - tw[i] < (j - i - 1) * P_GAP - EPS:
                bad = (i, j)
                break
        if bad:
            break
    if bad:
        i, j = bad
        chk.violation("c11.port.spacing", f"{j - i + 1} writes within {tw[j] - tw[i]:.6f} s (from {tw[i] - t0:.6f} s): more than one extra write for the {P_GAP} s gap", rep)
    # --- every accepted frame written in bounded time (only delays)
    # --- correspondence: bucket stage
    R, C = consts_model[0], consts_model[1]
    reqs = ";".join(f"{round((t - t0) * 1e9)}:{len(frames[i][46:])}" for t, i in offers)
    out = Model().run([f"lim.duty\t{R}\t{C}\t0\t{reqs}"])[0]
    arrivals = [t for k, t in res["semlog"] if k == "A"]
    if out.startswith("ok\t") and len(arrivals) == len(offers):
        cells = out[3:].split(",") if out[3:] else []
        slept = 0
        for (t, i), cell, arr in zip(offers, cells, arrivals):
            lvl, wait = cell.split("@")
            due = (t - t0) + int(wait) / 1e9
            slept += int(wait) > 0
            if abs((arr - t0) - due) > EPS:
                chk.divergence("lim.duty", {"pattern": pattern, "offer": i}, f"arrives at the semaphore at {arr - t0:.9f}", f"due {due:.9f} (lvl {lvl})")
                break
        chk.count("port.offers", len(offers))
        chk.count("port.offers_that_slept", slept)
    else:
        chk.divergence("lim.duty", {"pattern": pattern}, f"{len(arrivals)} arrivals for {len(offers)} offers", out[:80])
    # --- correspondence: semaphore stage
    evs = []
    k = 0
    for kind, _t in res["semlog"]:
        if kind == "T":
            evs.append("T")
        else:
            evs.append(f"A{k}")
            k += 1
    out = Model().run(["lim.sem\t" + ";".join(evs)])[0]
    order_model = out.split("\t")[1] if out.startswith("ok\t") else "?"
    # identity of the k-th arrival = the k-th written frame iff FIFO; compare the *number* written and emptiness of the queue
    if order_model != ",".join(str(i) for i in range(len(writes))):
        chk.divergence("lim.sem", {"pattern": pattern}, f"{len(writes)} writes", out[:200])
    chk.count("port.ticks", sum(1 for kk, _ in res["semlog"] if kk == "T"))


# ---------------------------------------------------------------------------------------------
# the MQTT gateway


class StubClient:
    def __init__(self, *a, **k) -> None:
        self.published: list = []

    def username_pw_set(self, *a, **k): ...
    def connect_async(self, *a, **k): ...
    def loop_start(self): ...
    def loop_stop(self): ...
    def disconnect(self): ...
    def subscribe(self, *a, **k): ...

    def publish(self, topic, payload=None, qos=0):
        self.published.append(payload)
        return True


class StubMsg:
    """an MQTT message as the client library hands it to on_message"""

    def __init__(self, topic: str, payload: bytes) -> None:
        self.topic, self.payload, self.timestamp = topic, payload, 0.0


async def mqtt_episode(loop, pattern, forced, rnd, status=()) -> dict:
    import ramses_tx.transport as T
    from ramses_tx.protocol import protocol_factory

    T.perf_counter = loop.time
    real_client = T.mqtt.Client
    T.mqtt.Client = StubClient
    try:
        proto = protocol_factory(lambda m: None, disable_sending=False)
        tr = T.MqttTransport("mqtt://user:pw@localhost:1883/RAMSES/GATEWAY", proto, loop=loop)
    finally:
        T.mqtt.Client = real_client
    # the gateway's topic reports `online`: the transport's own connection path (subscribe, connection_made) runs
    tr._on_message(None, None, StubMsg("RAMSES/GATEWAY/18:000730", b"online"))
    await asyncio.sleep(0)
    t0 = loop.time()
    pubs: list = []
    tr._publish = lambda data: pubs.append((loop.time(), data))
    # ... and may report it again at any time (the gateway rebooted; the broker re-delivered the retained status)
    for off, what in status:
        loop.call_at(t0 + off / 1e6, tr._on_message, None, None, StubMsg("RAMSES/GATEWAY/18:000730", what.encode()))
    frames = [frame_for(i, nb, rnd) for i, (_, nb) in enumerate(pattern)]
    offers: list = []
    errors: list = []
    tasks = []

    async def offer(i: int) -> None:
        offers.append((loop.time(), i))
        try:
            await tr.write_frame(frames[i], disable_tx_limits=forced[i])
        except Exception as e:  # noqa: BLE001
            errors.append((i, repr(e)))

    def start(i: int) -> None:
        tasks.append(loop.create_task(offer(i)))

    for i, (off, _) in enumerate(pattern):
        loop.call_at(t0 + off / 1e6, start, i)
    await asyncio.sleep(pattern[-1][0] / 1e6 + 30.0)
    unfinished = sum(1 for t in tasks if not t.done())
    for t in tasks:
        t.cancel()
    await asyncio.sleep(0)
    return {"t0": t0, "offers": offers, "pubs": pubs, "frames": frames, "errors": errors, "unfinished": unfinished,
            "loop_errors": list(loop.errors), "tokens": (tr._num_tokens, tr._max_tokens)}


def score_mqtt(chk: Check, pattern, forced, res, consts_model, status=()) -> None:
    t0 = res["t0"]
    frames = res["frames"]
    rep = {"op": "mqtt", "pattern": pattern, "forced": forced, "status": list(status)}
    pub_t: dict[int, list[float]] = {}
    order: list[int] = []
    for t, data in res["pubs"]:
        try:
            fr = json.loads(data)["msg"]
            i = frames.index(fr)
        except Exception:  # noqa: BLE001
            chk.violation("c11.mqtt.altered", f"published payload is not an offered frame: {data!r}", rep)
            return
        pub_t.setdefault(i, []).append(t)
        order.append(i)
    if any(len(v) > 1 for v in pub_t.values()):
        chk.violation("c11.mqtt.duplicate", "a frame was published more than once", rep)
    if res["errors"] or res["loop_errors"] or res["unfinished"]:
        chk.violation("c11.mqtt.exception", f"write_frame raised / never ended: {res['errors'][:2]} {res['loop_errors'][:2]} unfinished={res['unfinished']}", rep)
    off_t = {i: t for t, i in res["offers"]}
    # drop, not queue: an accepted ordinary frame is published within one second of being offered
    for i, ts in pub_t.items():
        if not forced[i] and ts[0] - off_t[i] > 1.0 + EPS:
            chk.violation("c11.mqtt.queued", f"frame {i} published {ts[0] - off_t[i]:.6f} s after it was offered (over-budget writes must be dropped, not queued)", rep)
            break
    # allowance: ordinary frames offered in (s, e] and published: at most rate*(e-s) + burst allowance + one second's worth
    rate = P_TOKENS / P_WINDOW
    ordinary = sorted((off_t[i], i) for i in pub_t if not forced[i])
    for a in range(len(ordinary)):
        for b in range(a, len(ordinary)):
            s, e = ordinary[a][0], ordinary[b][0]
            cnt = b - a + 1
            if cnt > rate * (e - s) + 2 * P_TOKENS + rate + 1 + 1e-6:
                chk.violation("c11.mqtt.allowance", f"{cnt} frames accepted in [{s - t0:.3f}, {e - t0:.3f}] s; allowance {rate * (e - s) + 2 * P_TOKENS + rate + 1:.2f}", rep)
                break
        else:
            continue
        break
    # sustained rate: after the one-off double allowance is spent, at most P_TOKENS + rate*(e-s) + rate + 1
    # order among the published frames: by publication time, an ordinary frame may be overtaken only by a forced one
    rank = {i: k for k, (_, i) in enumerate(res["offers"])}
    pub_ord = [rank[i] for i in order if not forced[i]]
    if pub_ord != sorted(pub_ord):
        chk.violation("c11.mqtt.reorder", "ordinary frames published out of order", rep)
    # correspondence
    M, W = consts_model[3], consts_model[4]
    offers = ";".join(f"{round((t - t0) * 1e9)}:{1 if forced[i] else 0}" for t, i in res["offers"])
    out = Model().run([f"lim.mqtt\t{M}\t{W}\t0\t{offers}"])[0]
    if not out.startswith("ok\t"):
        chk.divergence("lim.mqtt", rep, "-", out[:100])
        return
    cells = out[3:].split(",")
    nd = 0
    for (t, i), cell in zip(res["offers"], cells):
        cell, _, margin = cell.partition(":")
        if margin and not forced[i] and abs(int(margin)) < W * 1000:        # within 1e-6 token of the drop threshold:
            chk.count("mqtt.knife_edge_stop")                               # float and exact arithmetic may differ here
            break
        if cell == "D":
            nd += 1
            if i in pub_t:
                chk.divergence("lim.mqtt", {**rep, "offer": i}, f"published at {pub_t[i][0] - t0:.6f}", "dropped")
                return
        else:
            wait = int(cell[1:]) / 1e9
            if i not in pub_t:
                chk.divergence("lim.mqtt", {**rep, "offer": i}, "not published", cell)
                return
            if abs((pub_t[i][0] - t) - wait) > EPS:
                chk.divergence("lim.mqtt", {**rep, "offer": i}, f"published after {pub_t[i][0] - t:.9f}", f"wait {wait:.9f}")
                return
    chk.count("mqtt.offers", len(res["offers"]))
    chk.count("mqtt.dropped", nd)
    chk.count("mqtt.forced", sum(1 for f in forced if f))


# ---------------------------------------------------------------------------------------------


def model_consts() -> list[int]:
    out = Model().run(["lim.consts"])[0]
    return [int(x) for x in out.split("\t")[1:]]


# ---------------------------------------------------------------------------------------------
# avoidance of the controllers' sync cycles (the wrapper between the duty-cycle limiter and the write)

SYNC_SRCS = ("01:145038", "01:223036", "01:078710", "01:181818")


def gen_sync_events(rnd: random.Random) -> list:
    """[("R", t_us, src index, countdown in 0.1 s) | ("W", t_us)], times ascending; writes are far enough apart for
    the limiter and the inter-write gap to stay out of it, and no announcement arrives while a write may be waiting"""
    evs = []
    t = 0
    for _ in range(rnd.randint(1, 5)):
        # a few announcements ...
        for _ in range(rnd.randint(0, 4)):
            t += rnd.choice((1_000, 20_000, 500_000, 3_000_000))
            evs.append(("R", t, rnd.randrange(len(SYNC_SRCS)), rnd.choice((0, 0, 1, 2, 5, 10, 30, 1300, 1800))))
        # ... then a write placed around the edges of a remembered window (or anywhere, or long after them all)
        syncs = [tt + cd * 100_000 for k, tt, _, cd in [e for e in evs if e[0] == "R"]]
        t += 600_000
        if syncs and rnd.random() < 0.8:
            s0 = rnd.choice(syncs)
            cand = s0 - rnd.choice((108_801, 108_800, 108_799, 100_000, 60_000, 18_001, 18_000, 8_001, 8_000, 7_999, 0, -5_000, -3_000_000))
            t = max(t, cand)
        else:
            t += rnd.randrange(0, 4_000_000)
        evs.append(("W", t))
        t += 1_500_000
    return evs


async def sync_episode(loop, evs) -> dict:
    from types import SimpleNamespace

    from ramses_tx.protocol import protocol_factory

    from .. import gwrig

    gwrig.install_clock(loop)
    rig = SimpleNamespace(loop=loop, gwy_id="18:006402", responder=None, _pty=None)
    proto = protocol_factory(lambda m: None, disable_sending=False)
    tr = await gwrig.make_port_transport(rig, proto)
    await asyncio.sleep(3.0)
    tr.written.clear()
    t0 = round(loop.time() * 1e6) / 1e6 + 1.0
    errors = []

    def heard(t_us, src, cd):
        fr = f" I --- {SYNC_SRCS[src]} --:------ {SYNC_SRCS[src]} 1F09 003 FF{cd:04X}"
        tr.inject_at(gwrig.BASE + td(seconds=t0) + td(microseconds=t_us), fr)

    async def offer(i):
        try:
            await tr.write_frame(f"RQ --- 18:000730 01:145038 --:------ 0004 002 {i:02X}00")
        except Exception as e:  # noqa: BLE001
            errors.append(repr(e))

    tasks = []
    n_w = 0
    for e in evs:
        if e[0] == "R":
            loop.call_at(t0 + e[1] / 1e6, heard, e[1], e[2], e[3])
        else:
            loop.call_at(t0 + e[1] / 1e6, lambda i=n_w: tasks.append(loop.create_task(offer(i))))
            n_w += 1
    await asyncio.sleep(evs[-1][1] / 1e6 + 10.0)
    pending = [t for t in tasks if not t.done()]
    for t in pending:
        t.cancel()
    writes = [(round((t - t0) * 1e6), f) for t, f in tr.written]
    tr.close()
    import os as _os

    for fd in rig._pty or ():
        try:
            _os.close(fd)
        except OSError:
            pass
    await asyncio.sleep(0)
    return {"writes": writes, "errors": errors, "blocked": len(pending), "loop_errors": list(loop.errors)}


def run_sync(chk: Check, D: Diff, evs) -> None:
    async def body(loop):
        return await sync_episode(loop, evs)

    res, _ = vloop.run(body)
    chk.evaluations += 1
    chk.nontrivial.add(("sync", tuple(evs)))
    rep = {"op": "sync", "events": evs}
    offered = [e[1] for e in evs if e[0] == "W"]
    got = {int(f[46:48], 16): t for t, f in res["writes"]}
    if res["blocked"] or len(got) != len(offered):
        chk.violation("c11.sync.never_written", f"{res['blocked']} write(s) still held back 10 s after the last event: offered at {offered}, written {sorted(got.items())}", rep)
    if res["errors"] or res["loop_errors"]:
        chk.violation("c11.sync.exception", f"write_frame raised: {(res['errors'] or res['loop_errors'])[:2]}", rep)
    # only delays, and by a bounded time: three remembered announcements hold a write for 33 polls + the long wait at most
    for i, t in got.items():
        if not offered[i] - 2 <= t <= offered[i] + 33 * 10_000 + 84_000 + 50:
            chk.violation("c11.sync.delay", f"write {i} offered at {offered[i]} us was written at {t} us", rep)
    line = ";".join(f"R:{e[1]}:{e[2]}:{e[1] + e[3] * 100_000}" if e[0] == "R" else f"W:{e[1]}" for e in evs)
    # the model's answer per write is exit:polls; a single poll is the float knife-edge of `elapsed > SYNC_WAIT_SHORT`
    D.add("sync.run", [line], "sync", meta={"got": got, "offered": offered, "rep": rep})


def score_sync_model(chk: Check, D: Diff) -> None:
    """Compare the write instants with the model's (done here rather than by text equality: see run_sync)."""
    keep_r, keep_i, keep_m = [], [], []
    todo = []
    for r, i, m in zip(D.reqs, D.impl, D.meta):
        if i == "sync":
            todo.append((r, m))
        else:
            keep_r.append(r), keep_i.append(i), keep_m.append(m)
    D.reqs, D.impl, D.meta = keep_r, keep_i, keep_m
    if not todo:
        return
    outs = Model().run([r for r, _ in todo])
    for (r, m), out in zip(todo, outs):
        parts = out.split("\t")
        if parts[0] != "ok":
            chk.divergence("sync.run", m["rep"], "writes", out[:200])
            continue
        short, long_ = (int(x) for x in parts[2].split(",")[:2])
        for k, cell in enumerate(parts[1].split(",") if parts[1] else []):
            t = m["got"].get(k)
            if cell == "never":
                if t is not None:
                    chk.divergence("sync.run", m["rep"], f"write {k} at {t}", "never (model)")
                continue
            ex, polls = (int(x) for x in cell.split(":"))
            want = {ex} if polls == 0 else {ex, ex + long_} if polls == 1 else {ex + long_}
            if t is None or not any(abs(t - w) <= 3 for w in want):
                chk.divergence("sync.run", m["rep"], f"write {k} (offered {m['offered'][k]}) at {t}", f"model: {sorted(want)} ({polls} polls)")
    chk.extra["model_ops_compared"] = chk.extra.get("model_ops_compared", 0) + len(todo)


def run_port(chk: Check, D: Diff, pattern, rnd, consts) -> None:
    async def body(loop):
        return await port_episode(loop, pattern, rnd)

    res, _ = vloop.run(body)
    chk.evaluations += 1
    chk.nontrivial.add(("port", tuple(pattern)))
    score_port(chk, D, pattern, res, consts)


def run_mqtt(chk: Check, pattern, forced, rnd, consts, status=()) -> None:
    async def body(loop):
        return await mqtt_episode(loop, pattern, forced, rnd, status)

    res, _ = vloop.run(body)
    chk.evaluations += 1
    chk.nontrivial.add(("mqtt", tuple(pattern), tuple(forced), tuple(status)))
    chk.count("mqtt.status_messages", len(status))
    score_mqtt(chk, pattern, forced, res, consts, status)


def run(chk: Check) -> None:
    rt.quiet()
    rnd = random.Random(chk.seed)
    thorough = chk.tier == "thorough"
    D = Diff(chk)
    consts = model_consts()
    chk.extra["constants_read_from_repo"] = dict(zip(
        ("FILL_RATE", "BUCKET_CAPACITY", "DUTY_CYCLE_DURATION", "_MAX_TOKENS", "_TIME_WINDOW", "MIN_INTER_WRITE_GAP_ns"), consts))
    chk.rule = (
        "seeded arrival patterns (bursts up to 160/400 frames, steady streams above/below the limit, idle gaps of 10-600 s, "
        "2-4 interleaved callers, drain-then-small, mixed), payloads 1-48 bytes, against the real PortTransport (pty) and the real "
        "MqttTransport (stub client) under virtual time; the window bound is evaluated on every window that starts and ends at "
        "a write; sync-cycle avoidance: I|1F09 announcements (countdowns 0-180 s, up to 4 controllers) and writes placed on the edges "
        "of their windows, write instants compared with the model's; non-trivial = distinct pattern"
    )
    n_port = 400 if thorough else 70
    n_mqtt = 300 if thorough else 60
    # fixed regression patterns first (corpus)
    corpus = [
        [(0, 1)] * 100,                                   # 100 frames at once (overdrew the bucket before the fix)
        [(0, 48)] * 30 + [(1000, 1)] * 3,                 # long first, short later (overtook before the fix)
        [(i * 859_375, 1) for i in range(40)],            # exactly at the fill rate
    ]
    for pat in corpus:
        run_port(chk, D, pat, rnd, consts)
    for _ in range(n_port):
        run_port(chk, D, gen_pattern(rnd, thorough), rnd, consts)
    for _ in range(6 if not thorough else 40):
        run_port_cancel(chk, rnd)
    for k in range(n_mqtt):
        pat = gen_pattern(rnd, thorough)
        if k % 6 == 0:
            # drain the one-off double allowance, then keep offering while accepted writes sleep off their debt
            t, step = rnd.randrange(0, 10**6), rnd.choice((20_001, 50_003, 70_000, 200_017, 700_001, rnd.randrange(15_000, 900_000)))
            pat = [(t, 1)] * rnd.choice((150, 200, 260))
            for _ in range(rnd.randint(300, 1500 if thorough else 700)):
                t += step
                pat.append((t, rnd.choice((1, 24, 48))))
        p_forced = rnd.choice((0.0, 0.0, 0.1, 0.5))
        forced = [rnd.random() < p_forced for _ in pat]
        status = []
        if k % 3 == 0 and pat:
            # the topic reports online again (after an offline, or just so) while frames are being offered
            span = max(o for o, _ in pat) + 1
            for _ in range(rnd.randint(1, 4)):
                t = rnd.randrange(0, span)
                if rnd.random() < 0.4:
                    status.append((t, "offline"))
                    t += rnd.choice((1000, 500_000, 3_000_000))
                status.append((t, "online"))
            status.sort()
        run_mqtt(chk, pat, forced, rnd, consts, status)
    # sync-cycle avoidance: announcements heard and writes offered around their windows (a zero countdown, an announcement
    # whose time has passed, three controllers at once)
    sync_corpus = [
        [("R", 1000, 0, 0), ("W", 601_000)],
        [("R", 1000, 0, 2), ("W", 95_000)],
        [("R", 1000, 0, 10), ("R", 2000, 1, 10), ("R", 3000, 2, 11), ("R", 4000, 3, 12), ("W", 950_000)],
        [("R", 1000, 0, 1), ("W", 5_000_000), ("W", 9_000_000)],
    ]
    for evs in sync_corpus:
        run_sync(chk, D, evs)
    for _ in range(300 if thorough else 40):
        run_sync(chk, D, gen_sync_events(rnd))
    score_sync_model(chk, D)
    chk.sample({"pattern": corpus[1][:3] + ["..."], "what": "30 long frames then 3 short ones 1 ms later"})
    D.run()
    chk.assumptions.append("asyncio timers fire in deadline order and a writer whose wait ended runs before an offer made at a later instant "
                           "(the sub-iteration race between a due timer and an offer in the same loop iteration is not modelled)")


def replay(chk: Check, path: str) -> int:
    r = json.load(open(path))
    print(json.dumps(r, indent=1)[:3000])
    rnd = random.Random(0)
    consts = model_consts()
    D = Diff(chk)
    if r.get("op") == "port":
        run_port(chk, D, [tuple(x) for x in r["pattern"]], rnd, consts)
    elif r.get("op") == "mqtt":
        run_mqtt(chk, [tuple(x) for x in r["pattern"]], r["forced"], rnd, consts, [tuple(x) for x in r.get("status", [])])
    elif r.get("op") == "sync":
        run_sync(chk, D, [tuple(x) for x in r["events"]])
        score_sync_model(chk, D)
    else:
        run(chk)
    return chk.finish()
