"""C06 — request and reply correlate: echo/reply headers match, distinct contexts differ."""

from __future__ import annotations

import json
import random
import re
from datetime import datetime as dt
from types import SimpleNamespace

from .. import gen, regen, rt
from ..common import Check, Diff, call, esc, exn_tag

GWY = "18:006402"
IDX_SIMPLE: set = set()
NULL_0418 = "000000B0000000000000000000007FFFFF7000000000"


def ctx_slices(code: str) -> list[tuple[int, int]]:
    """Where the index/context lives in a payload (spec-level knowledge, from the property text)."""
    if code in ("0005", "000C"):
        return [(0, 4)]
    if code == "0404":
        return [(0, 4), (10, 12)]  # zone idx + zone/DHW marker, fragment number
    if code in ("0418", "3220"):
        return [(4, 6)]
    return [(0, 2)]


def opt(s) -> str:
    return "None" if s is None else esc(s)


class FakeCtx:
    def __init__(self, g: str) -> None:
        self._protocol = SimpleNamespace(hgi_id=g)
        self._state = SimpleNamespace(_sent_cmd=None, _echo_pkt=None)
        self.calls: list = []

    def set_state(self, cls, **kw) -> None:
        self.calls.append((cls.__name__, kw))

    def __repr__(self) -> str:
        return "<FakeCtx>"


def run(chk: Check) -> None:
    rt.quiet()
    from ramses_tx import exceptions as exc
    from ramses_tx import protocol_fsm as F
    from ramses_tx.command import Command
    from ramses_tx.packet import Packet

    from ramses_tx.ramses import CODE_IDX_ARE_SIMPLE

    global IDX_SIMPLE
    IDX_SIMPLE = {str(c) for c in CODE_IDX_ARE_SIMPLE} - {"1FC9"}    # (a binding exchange is not correlated by the first byte of its triples)
    rnd = random.Random(chk.seed)
    thorough = chk.tier == "thorough"
    N = 100000 if thorough else 6000
    pairs = gen.schema_pairs()
    by_cv = {(c, v): p for c, v, p in pairs}
    D = Diff(chk)
    stamp = dt(2024, 1, 1, 12, 0, 0)
    chk.rule = (
        "schema-regex-generated frames for every verb/code (all address shapes) + repo log frames: tx/rx headers of the "
        "real Command/Packet vs the model; request/echo/reply/near-miss triples driven through real WantEcho/WantRply "
        "state objects; non-trivial = distinct (request, packet) pair on which a real state object was exercised"
    )

    def mk_pkt(fr: str):
        try:
            return Packet(stamp, "... " + fr)
        except Exception:  # noqa: BLE001  (C01's business)
            return None

    # ---- 1. headers of arbitrary schema-valid frames ------------------------------------------------------
    frames = gen.repo_log_frames(4000 if not thorough else 20000)
    for _ in range(N):
        fr = gen.gen_schema_frame(rnd, pairs, extreme=rnd.random() < 0.3)
        if fr:
            frames.append(fr)
    n_hdr = 0
    for fr in frames:
        chk.evaluations += 1
        try:
            cmd = Command(fr)
        except Exception:  # noqa: BLE001
            continue
        tx = call(lambda: cmd.tx_header, show=esc)
        D.add("hdr.tx", [esc(fr)], tx)
        # NB: rx_header evaluates tx_header first; use a fresh object to see the same first-access behaviour
        cmd2 = Command(fr)
        D.add("hdr.rx", [esc(fr)], call(lambda: cmd2.rx_header, show=opt))
        p = mk_pkt(fr)
        if p is not None:
            D.add("hdr.tx", [esc(fr)], call(lambda: p._hdr, show=esc))
        n_hdr += 1
        chk.count("hdr." + ("ok" if tx.startswith("ok") else tx[4:]))
    chk.extra["frames_with_headers_compared"] = n_hdr

    # ---- 2. request / echo / reply / near misses ------------------------------------------------------------
    def drive_echo(cmd_fr: str, pkt_fr: str, g: str):
        """Returns ('early'|'echo'|'none', exception tag or None) from a real WantEcho object."""
        ctx = FakeCtx(g)
        cmd = Command(cmd_fr)
        try:
            idle = F.IsInIdle(ctx)
            idle.cmd_sent(cmd, is_retry=False)
            ctx._state = SimpleNamespace(_sent_cmd=cmd, _echo_pkt=None)
            st = F.WantEcho(ctx)
        except (AttributeError, TypeError):
            # the state objects want more of their context than this stand-in has (the FSM's internals were rearranged): they
            # are not driven directly then - the same triples go through the real protocol in section 3
            chk.count("fsm_state_objects.not_drivable_directly")
            return None
        ctx.calls.clear()
        pkt = mk_pkt(pkt_fr)
        if pkt is None:
            return None
        try:
            st.pkt_rcvd(pkt)
        except Exception as e:  # noqa: BLE001
            return ("raise", exn_tag(e))
        if st._rply_pkt is pkt:
            return ("early", None)
        if st._echo_pkt is pkt:
            return ("echo", None)
        return ("none", None)

    def drive_reply(cmd_fr: str, echo_fr: str, pkt_fr: str, g: str):
        ctx = FakeCtx(g)
        cmd = Command(cmd_fr)
        F.IsInIdle(ctx).cmd_sent(cmd, is_retry=False)
        echo = mk_pkt(echo_fr)
        pkt = mk_pkt(pkt_fr)
        if echo is None or pkt is None:
            return None
        ctx._state = SimpleNamespace(_sent_cmd=cmd, _echo_pkt=echo)
        try:
            st = F.WantRply(ctx)
        except (AttributeError, TypeError):
            chk.count("fsm_state_objects.not_drivable_directly")
            return None
        ctx.calls.clear()
        try:
            st.pkt_rcvd(pkt)
        except Exception as e:  # noqa: BLE001
            return ("raise", exn_tag(e))
        return ("reply" if st._rply_pkt is pkt else "none", None)

    def with_ctx(code: str, payload: str, src_payload: str) -> str:
        p = list(payload)
        for a, b in ctx_slices(code):
            if len(src_payload) >= b and len(p) >= b:
                p[a:b] = src_payload[a:b]
        return "".join(p)

    def other_ctx(code: str, payload: str) -> str | None:
        """the same payload in another context: one character of one of the context fields changed (any field, any
        position; for 0404 also the zone <-> DHW marker)"""
        p = list(payload)
        slices = [(a, b) for a, b in ctx_slices(code) if len(p) >= b]
        if not slices:
            return None
        if code == "0404" and "".join(p[2:4]) == "23":
            slices = [x for x in slices if x != (0, 4)]  # the DHW schedule: there is one, the index byte is no context
        if not slices:
            return None
        if code == "0404" and len(p) >= 4 and rnd.random() < 0.4:
            p[2:4] = "23" if "".join(p[2:4]) == "20" else "20"
            p[0:2] = "00" if rnd.random() < 0.7 else p[0:2]
            return "".join(p) if "".join(p) != payload else None
        a, b = slices[-1] if rnd.random() < 0.5 else rnd.choice(slices)
        i = b - 1 if rnd.random() < 0.6 else rnd.randrange(a, b)
        if code == "0404" and i in (2, 3):
            i = 1  # the marker is swapped as a whole (above)
        p[i] = rnd.choice([c for c in "0123456789AB" if c != p[i]])
        return "".join(p)

    req_pairs = [(c, v, p) for c, v, p in pairs if v in ("RQ", " W")]
    M = 40000 if thorough else 2500
    done = 0
    for _ in range(M * 3):
        if done >= M:
            break
        code, verb, pat = rnd.choice(req_pairs)
        rverb = "RP" if verb == "RQ" else " I"
        if (code, rverb) not in by_cv:
            continue
        payload = regen.gen_payload(pat, rnd)
        dst = rnd.choice(["01:145038", "01:223036", "10:067219", "13:237335", "07:045960", "04:056053", "30:082155", "32:206250"])
        src = rnd.choice([gen.HGI, gen.HGI, GWY, "30:082155"])
        if payload is None or src == dst:
            continue
        q = f"{verb} --- {src} {dst} --:------ {code} {len(payload) // 2:03d} {payload}"
        try:
            qc = Command(q)
            q_tx, q_rx = qc.tx_header, qc.rx_header
        except Exception:  # noqa: BLE001 -- a request whose own header cannot be computed is not sendable
            chk.count("request.unsendable")
            continue
        g = GWY
        echo = q.replace(gen.HGI, g) if src == gen.HGI else q
        done += 1
        chk.evaluations += 1
        chk.count(f"request.{verb.strip()}")

        # (a) the echo is recognised
        r = drive_echo(q, echo, g)
        if r is not None:
            chk.nontrivial.add((q, echo))
            D.add("match.early", [g, esc(q), esc(echo)], "ok\t" + str(r[0] == "early") if r[0] != "raise" else "err\t" + r[1])
            if r[0] not in ("echo",):
                # an echo that is *also* a valid early reply cannot happen (verbs differ)
                chk.violation(f"echo.unrecognised:{code}|{verb}", f"echo {echo!r} of {q!r} not recognised ({r})",
                              {"op": "echo", "request": q, "packet": echo, "gwy": g})
            else:
                D.add("match.echo", [g, esc(q), esc(echo)], "ok\tTrue")

        # (b) the proper reply is recognised (same code, context; from the addressed device; to the gateway)
        rp_payload = regen.gen_payload(by_cv[(code, rverb)], rnd)
        reply = None
        if rp_payload is not None:
            rp_payload = with_ctx(code, rp_payload, payload)
            if re.match(by_cv[(code, rverb)], rp_payload):
                rdst = g if src == gen.HGI else src
                reply = f"{rverb} --- {dst} {rdst} --:------ {code} {len(rp_payload) // 2:03d} {rp_payload}"
        if reply is not None:
            rp = mk_pkt(reply)
            try:
                if rp is None or (code != "1FC9" and rp._has_array):  # the proper reply to a one-context request is a single element
                    reply = None
            except AssertionError:
                reply = None
        tag = ":placeholder-src" if (code == "1FC9" and src == gen.HGI) else ""
        if reply is not None and q_rx is not None:
            r = drive_reply(q, echo, reply, g)
            if r is not None:
                chk.nontrivial.add((q, reply))
                D.add("match.reply", [g, esc(q), esc(echo), esc(reply)], "ok\t" + str(r[0] == "reply") if r[0] != "raise" else "err\t" + r[1])
                if r[0] != "reply":
                    chk.violation(f"reply.unrecognised:{code}|{verb}{tag}", f"reply {reply!r} to {q!r} not recognised ({r})",
                                  {"op": "reply", "request": q, "echo": echo, "packet": reply, "gwy": g})
                # ... also when what was taken for the echo is another device's identical request (the sender compares headers: the
                # recorded C07 finding) - the proper reply, addressed to us, is still the reply
                if verb == "RQ" and src in (gen.HGI, GWY):
                    other = rnd.choice([x for x in ("30:082155", "01:223036", "12:010740") if x != dst])
                    foreign_rq = f"{verb} --- {other} {dst} --:------ {code} {len(payload) // 2:03d} {payload}"
                    try:
                        same_hdr = Command(foreign_rq).tx_header == q_tx
                    except Exception:  # noqa: BLE001
                        same_hdr = False
                    if same_hdr:
                        r3 = drive_reply(q, foreign_rq, reply, g)
                        if r3 is not None:
                            chk.evaluations += 1
                            chk.count("reply.after_foreign_echo")
                            if r3[0] != "reply":
                                chk.violation(f"reply.unrecognised.after-foreign-echo:{code}|{verb}{tag}", f"reply {reply!r} to {q!r} not recognised ({r3}) when the "
                                              f"packet taken for the echo was {foreign_rq!r}", {"op": "reply", "request": q, "echo": foreign_rq, "packet": reply, "gwy": g})
                # reply before echo
                r2 = drive_echo(q, reply, g)
                if r2 is not None:
                    D.add("match.early", [g, esc(q), esc(reply)], "ok\t" + str(r2[0] == "early") if r2[0] != "raise" else "err\t" + r2[1])
                    if r2[0] != "early":
                        chk.violation(f"early.unrecognised:{code}|{verb}{tag}", f"early reply {reply!r} to {q!r} not recognised ({r2})",
                                      {"op": "early", "request": q, "packet": reply, "gwy": g})
        elif reply is not None and q_rx is None:
            chk.violation(f"reply.unrecognised:{code}|{verb}", f"{verb}|{code} has no reply header: its {rverb} can never be recognised ({q!r})",
                          {"op": "rx_header", "request": q, "packet": reply})

        # (c) near misses are rejected, both as reply and as echo
        if reply is not None and q_rx is not None:
            misses = []
            has_ctx = q_tx.count("|") == 3  # the library itself regards this request as contextual
            oc = other_ctx(code, rp_payload) if has_ctx else None
            if not has_ctx and code in IDX_SIMPLE and len(rp_payload) >= 2 and rp_payload[:2] == payload[:2]:
                # the library regards the request as index-less (e.g. index 00 to a relay, an OTB, a DHW sensor, a HVAC unit), but
                # the code is one whose first byte is a zone / domain index: the same reply under another index
                oc = rnd.choice(("01", "02", "0B", "15", "21", "F9", "FC"))
                oc = None if oc == rp_payload[:2] else oc + rp_payload[2:]
            if oc and re.match(by_cv[(code, rverb)], oc) and not (code == "0418" and oc == NULL_0418):
                misses.append(("ctx", f"{rverb} --- {dst} {reply[17:26]} --:------ {code} {len(oc) // 2:03d} {oc}"))
            # the extreme member: the same reply in context 00 (for 0418 that is where a *null* entry is reported; a real
            # entry 00 is not the answer to a request for another entry)
            if has_ctx:
                a, b = ctx_slices(code)[-1]
                if len(rp_payload) >= b and rp_payload[a:b] != "0" * (b - a):
                    oz = rp_payload[:a] + "0" * (b - a) + rp_payload[b:]
                    if re.match(by_cv[(code, rverb)], oz) and not (code == "0418" and oz == NULL_0418):
                        misses.append(("ctx", f"{rverb} --- {dst} {reply[17:26]} --:------ {code} {len(oz) // 2:03d} {oz}"))
            osrc = "01:999999" if dst != "01:999999" else "01:888888"
            misses.append(("src", reply[:7] + osrc[:2].replace("01", dst[:2]) + osrc[2:] + reply[16:]))
            if code == "0418" and verb == "RQ":
                # the null entry (any index reads so beyond the end of the log) - from another device
                misses.append(("src", f"RP --- {osrc[:2].replace('01', dst[:2]) + osrc[2:]} {reply[17:26]} --:------ 0418 022 {NULL_0418}"))
            overb = " I" if rverb == "RP" else "RP"
            misses.append(("verb", overb + reply[2:]))
            ocode = rnd.choice([c for c, v, _ in pairs if v == rverb and c != code])
            misses.append(("code", reply[:37] + ocode + reply[41:]))
            for kind, m in misses:
                r = drive_reply(q, echo, m, g)
                if r is None:
                    continue
                chk.nontrivial.add((q, m))
                chk.evaluations += 1
                D.add("match.reply", [g, esc(q), esc(echo), esc(m)], "ok\t" + str(r[0] == "reply") if r[0] != "raise" else "err\t" + r[1])
                if r[0] == "reply":
                    chk.violation(f"nearmiss.{kind}:{code}|{verb}", f"{m!r} (differs in {kind}) taken for the reply to {q!r}",
                                  {"op": "reply", "request": q, "echo": echo, "packet": m, "gwy": g})
                r = drive_echo(q, m, g)
                if r is not None and r[0] in ("echo", "early"):
                    chk.violation(f"nearmiss.{kind}:{code}|{verb}", f"{m!r} (differs in {kind}) taken for the {r[0]} of {q!r}",
                                  {"op": "echo", "request": q, "packet": m, "gwy": g})
        # echo near misses
        oq = other_ctx(code, payload) if q_tx.count("|") == 3 else None
        if q_tx.count("|") != 3 and code in IDX_SIMPLE and len(payload) > 2:
            oq = rnd.choice(("01", "02", "0B", "15", "21", "F9", "FC"))
            oq = None if oq == payload[:2] else oq + payload[2:]
        if oq and re.match(pat, oq):
            m = f"{verb} --- {echo[7:16]} {dst} --:------ {code} {len(oq) // 2:03d} {oq}"
            try:
                same = Command(m).tx_header == q_tx
            except Exception:  # noqa: BLE001
                same = None
            r = drive_echo(q, m, g)
            if r is not None:
                D.add("match.echo", [g, esc(q), esc(m)], "ok\t" + str(r[0] == "echo") if r[0] != "raise" else "err\t" + r[1])
                ctx_differs = any(oq[a:b] != payload[a:b] for a, b in ctx_slices(code) if len(payload) >= b)
                if r[0] == "echo" and ctx_differs and len(payload) > 2:
                    chk.violation(f"nearmiss.echoctx:{code}|{verb}", f"{m!r} (another context) taken for the echo of {q!r}",
                                  {"op": "echo", "request": q, "packet": m, "gwy": g})
        if done <= 3:
            chk.sample({"request": q, "echo": echo, "reply": reply, "tx_header": q_tx, "rx_header": q_rx})
    # ---- 3. through the real protocol: the sender is handed the echo / the proper reply of every command of the pool, also of
    #         those whose echo or reply the message layer (its schema of verbs, indexes and shapes) does not accept ---------------
    from .. import qos

    for i in [k for k in range(len(qos.POOL)) if qos.is_plain(k) and qos.POOL[k][1] is not None]:
        for wfr in (None, True):
            ep = qos.Episode()
            ep.probe = False
            ep.mode = False        # (QoS on: a caller who asks to wait for the reply is given the reply)
            ep.calls = [{"t": 0.0, "cmd": i, "prio": 0, "max_retries": 3, "timeout": 20.0, "wfr": wfr}]
            res = qos.run_episode(ep)
            chk.evaluations += 1
            chk.nontrivial.add(("protocol", i, wfr))
            q, reply = qos.POOL[i]
            want = reply if (wfr or q[:2] == "RQ" and wfr is None and False) else q.replace(qos.HGI, qos.GWY)
            got = res.outcomes.get(0, (None, "none", ""))
            chk.count("protocol.exchange." + ("msg-layer-rejects" if i in qos.MSG_REJECTED else "plain"))
            if got[1] != "ok" or want not in got[2]:
                chk.violation(("protocol.reply_not_recognised:" if wfr else "protocol.echo_not_recognised:") + q[37:41] + ("" if i not in qos.MSG_REJECTED else ".msg-layer-rejects"),
                              f"send_cmd({q!r}, wait_for_reply={wfr}) with the echo and the reply {reply!r} delivered ended with {got[1]} {got[2][:90]!r}, "
                              f"not with {'the reply' if wfr else 'the echo'}", {"op": "protocol", "episode": ep.to_json()})
    # ---- 3b. two gateways in one process send at the same moment (default QoS, each returning on its echo; the two echoes
    #          arrive in the same pass of the loop): each caller is handed the echo of its own command
    two_protocols(chk)
    D.run()


def two_protocols(chk: Check) -> None:
    import asyncio

    from ramses_tx.command import Command
    from ramses_tx.packet import Packet
    from ramses_tx.protocol import protocol_factory

    from .. import qos, vloop

    pairs = [(0, 3), (1, 4), (3, 8), (0, 1), (2, 0)]
    for ia, ib in pairs:
        for skew in (0.0, 0.0, 1e-9, 0.005):
            out: dict = {}

            async def main(loop, ia=ia, ib=ib, skew=skew):
                qos.VClockDt._loop = loop
                qos.VClockDt._n = 0
                protos = {}

                def mk(name, gwy_id):
                    class T:
                        closing = False

                        def get_extra_info(self, k, default=None):
                            return {"active_gwy": gwy_id, "is_evofw3": True}.get(k, default)

                        def _dt_now(self):
                            return qos.VClockDt.now()

                        def is_closing(self):
                            return self.closing

                        def close(self):
                            self.closing = True

                        async def write_frame(self, frame, disable_tx_limits=False):
                            pkt = Packet.from_port(qos.VClockDt.now(), "000 " + str(frame).replace(qos.HGI, gwy_id))
                            loop.call_at(loop.time() + 0.02 + (skew if name == "B" else 0.0), protos[name].pkt_received, pkt)

                    pr = protocol_factory(lambda m: None, disable_qos=None)
                    pr.connection_made(T(), ramses=True)
                    pr.resume_writing()
                    protos[name] = pr
                    return pr

                pa, pb = mk("A", qos.GWY), mk("B", "18:111111")

                async def send(name, pr, i):
                    try:
                        pkt = await pr.send_cmd(Command(qos.POOL[i][0]))
                        out[name] = ("ok", str(pkt))
                    except Exception as e:  # noqa: BLE001
                        out[name] = ("err", type(e).__name__)

                await asyncio.wait([loop.create_task(send("A", pa, ia)), loop.create_task(send("B", pb, ib))], timeout=60)

            try:
                vloop.run(main)
            except Exception as e:  # noqa: BLE001
                out["rig"] = ("err", repr(e))
            chk.evaluations += 1
            chk.nontrivial.add(("two-protocols", ia, ib, skew))
            for name, i, gid in (("A", ia, qos.GWY), ("B", ib, "18:111111")):
                want = qos.POOL[i][0].replace(qos.HGI, gid)
                got = out.get(name, ("none", ""))
                if got[0] != "ok" or want not in got[1]:
                    chk.violation("protocol.two_gateways.echo_of_another:" + name, f"gateway {name} sent {qos.POOL[i][0]!r} while another gateway of the process sent "
                                  f"{qos.POOL[ib if name == 'A' else ia][0]!r}; its send_cmd ended with {got[0]} {got[1][:90]!r}, not with its own echo",
                                  {"op": "protocol.two", "a": ia, "b": ib, "skew": skew})


def replay(chk: Check, path: str) -> int:
    r = json.load(open(path))
    print(json.dumps(r, indent=1))
    run(chk)
    return chk.finish()
