"""C20 — binding handshakes complete under duplicates, and always end and can be retried.

Two real gateways (one hosting a faked respondent, one a faked supplicant) share an in-memory RF
ether on one virtual-time loop.  Each scenario is a per-frame, per-listener delivery policy
(repeats, loss, delays around the 3 s / 5 s waits) plus third-party binding traffic, for each
pairing flow the API supports; attempts are repeated after each outcome.

Oracle (on the implementation): every attempt ends within its stated waits, with the packet tuple
or a BindingError; with nothing lost both ends succeed with the same offer/accept/confirm
(/addenda); afterwards neither device is binding, the loop's exception handler saw nothing, and a
clean attempt succeeds.  Correspondence: the events each binding context saw (packets by phase,
commands by phase, wait ends, state timers) are logged by a harness-side wrapper and replayed
through the Lean model `Bind`, which must predict the state after every event and the outcome.
"""

from __future__ import annotations

import asyncio
import json
import random

from .. import gwrig, rt
from ..common import Check, Model

FLOWS = {
    "RND>CTL": ({"01:220768": {"class": "CTL"}}, {"34:259472": {"class": "RND", "faked": True}}, (
        " I --- 34:259472 --:------ 34:259472 1FC9 024 0023098BF5900030C98BF5900000088BF590001FC98BF590",
        " W --- 01:220768 34:259472 --:------ 1FC9 006 012309075E60",
        " I --- 34:259472 01:220768 --:------ 1FC9 006 0123098BF590")),
    # ... and with the device information a T87RF casts right after its Confirm (the four-frame variant of the same pairing)
    "RND>CTL+": ({"01:220768": {"class": "CTL"}}, {"34:259472": {"class": "RND", "faked": True}}, (
        " I --- 34:259472 --:------ 34:259472 1FC9 030 0023098BF5900030C98BF5900000088BF5900010E08BF590001FC98BF590",
        " W --- 01:220768 34:259472 --:------ 1FC9 006 012309075E60",
        " I --- 34:259472 01:220768 --:------ 1FC9 006 0123098BF590",
        " I --- 34:259472 63:262142 --:------ 10E0 038 000001C8380F0100F1FF070B07E6030507E15438375246323032350000000000000000000000")),
    "DHW>CTL": ({"01:145038": {"class": "CTL"}}, {"07:045960": {"class": "DHW", "faked": True}}, (
        " I --- 07:045960 --:------ 07:045960 1FC9 012 0012601CB388001FC91CB388",
        " W --- 01:145038 07:045960 --:------ 1FC9 006 0010A006368E",
        " I --- 07:045960 01:145038 --:------ 1FC9 006 0012601CB388")),
    "CO2>FAN": ({"18:126620": {"class": "FAN", "scheme": "itho"}}, {"37:154011": {"class": "CO2", "scheme": "itho", "faked": True}}, (
        " I --- 37:154011 --:------ 37:154011 1FC9 030 0031E096599B00129896599B002E1096599B0110E096599B001FC996599B",
        " W --- 18:126620 37:154011 --:------ 1FC9 012 0031D949EE9C0031DA49EE9C",
        " I --- 37:154011 18:126620 --:------ 1FC9 001 00",
        " I --- 37:154011 63:262142 --:------ 10E0 038 000001002809010"
        "1FEFFFFFFFFFF140107E5564D532D31324333390000000000000000000000")),
    "REM>FAN": ({"30:098165": {"class": "FAN", "scheme": "nuaire"}}, {"32:208628": {"class": "REM", "scheme": "nuaire", "faked": True}}, (
        " I --- 32:208628 --:------ 32:208628 1FC9 018 0022F1832EF46C10E0832EF4001FC9832EF4",
        " W --- 30:098165 32:208628 --:------ 1FC9 006 2131DA797F75",
        " I --- 32:208628 30:098165 --:------ 1FC9 001 21",
        " I --- 32:208628 63:262142 --:------ 10E0 030 000001C85A01016CFFFFFFFFFFFF010607E0564D4E2D32334C4D48323300")),
}
THIRD = [
    " I --- 29:158183 --:------ 29:158183 1FC9 024 0022F17669E70022F37669E76710E07669E7001FC97669E7",   # an Offer (to self)
    " I --- 29:158183 63:262142 --:------ 1FC9 024 0022F17669E70022F37669E76710E07669E7001FC97669E7",   # an Offer (broadcast)
    " W --- 32:155617 29:158183 --:------ 1FC9 012 0031D9825FE10031DA825FE1",                           # an Accept
    " I --- 29:158183 32:155617 --:------ 1FC9 001 00",                                                 # a Confirm
    " I --- 29:158183 63:262142 --:------ 10E0 038 000001C8270901 67FFFFFFFFFFFF0D0207E3564D4E2D31354C46303100000000000000000000".replace(" 67", "67"),
]
GWY_R, GWY_S = "18:111111", "18:222222"


def ensure_fakeable(dev) -> None:
    from ramses_rf.binding_fsm import BindContext
    from ramses_rf.device import Fakeable

    if not isinstance(dev, Fakeable):
        class _Fakeable(dev.__class__, Fakeable):
            pass

        dev.__class__ = _Fakeable
        dev._bind_context = BindContext(dev)
    dev._make_fake()


def phase_of(pkt) -> str:
    from ramses_rf.binding_fsm import BindPhase, BindStateBase

    for ph, tag in ((BindPhase.TENDER, "offer"), (BindPhase.ACCEPT, "accept"), (BindPhase.AFFIRM, "confirm"), (BindPhase.RATIFY, "addenda")):
        try:
            if BindStateBase.is_phase(pkt, ph):
                # an Offer to 63:262142 is both `offer` and nothing else; a Confirm is I to another device
                return tag
        except Exception:  # noqa: BLE001
            pass
    return "other"


class BindLog:
    """Harness-side wrapper of the binding context: logs what each context saw, in order, as events of the
    Lean model's trace validator (lean/Driver/OpsBind.lean)."""

    def __init__(self) -> None:
        self.rows: dict[str, list[str]] = {}

    def install(self):
        import ramses_rf.binding_fsm as B

        log = self
        self._orig = (B.BindContextBase.rcvd_msg, B.BindContextBase.sent_cmd, B.BindStateBase._wait_for_fut_result,
                      B.BindStateBase._handle_wait_timer_expired, B.BindContextBase.set_state, B.BindStateBase._set_context_state,
                      B._DevIsWaitingForMsg._set_context_state)
        o_rcvd, o_sent, o_wait, o_timer, o_set, o_sc, o_sc2 = self._orig
        auto = [0]

        def st(ctx):
            return type(ctx._state).__name__

        def add(ctx, line):
            log.rows.setdefault(ctx._dev.id, []).append(line)

        def rcvd(ctx, msg):
            if str(msg.code) not in ("1FC9", "10E0"):
                return o_rcvd(ctx, msg)
            s_ = ctx._state
            echo = bool(getattr(s_, "_cmd", None) is not None and msg._pkt == s_._cmd)
            before = st(ctx)
            try:
                o_rcvd(ctx, msg)
            except Exception as e:  # noqa: BLE001
                add(ctx, f"R:{phase_of(msg._pkt)}:{int(echo)}:{before}:{type(e).__name__}")
                raise
            add(ctx, f"R:{phase_of(msg._pkt)}:{int(echo)}:{before}:ok")

        def sent(ctx, cmd):
            if str(cmd.code) not in ("1FC9", "10E0"):
                return o_sent(ctx, cmd)
            before = st(ctx)
            try:
                o_sent(ctx, cmd)
            except Exception as e:  # noqa: BLE001
                add(ctx, f"S:{phase_of(cmd)}:{before}:{type(e).__name__}")
                raise
            add(ctx, f"S:{phase_of(cmd)}:{before}:ok")

        async def wait(state, timeout):
            ctx = state._context
            before = type(state).__name__
            state._verif_timed_out = 0
            try:
                res = await o_wait(state, timeout)
            except BaseException as e:  # noqa: BLE001
                if isinstance(e, asyncio.CancelledError):
                    raise
                add(ctx, f"W:{before}:{state._verif_timed_out}:{type(e).__name__}:{st(ctx)}")
                raise
            add(ctx, f"W:{before}:{state._verif_timed_out}:msg:{st(ctx)}")
            return res

        def timer(state, timeout):
            ctx = state._context
            if timeout != 5.1:
                state._verif_timed_out = 1          # wait_for timed out: part of the wait's end, not an event of its own
                return o_timer(state, timeout)
            before = type(state).__name__
            if state is not ctx._state:
                before = "stale-" + before
            try:
                o_timer(state, timeout)
            except Exception as e:  # noqa: BLE001
                add(ctx, f"T:{before}:{type(e).__name__}")
                raise
            add(ctx, f"T:{before}:{st(ctx)}")

        def set_state(ctx, state, result=None):
            o_set(ctx, state, result)
            if getattr(ctx, "_dev", None) is not None and not auto[0]:
                add(ctx, f"E:{state.__name__}")      # a transition asked for by the flow itself (not by a state object)

        def sc(state, next_state):
            auto[0] += 1
            try:
                return o_sc(state, next_state)
            finally:
                auto[0] -= 1

        def sc2(state, next_state):
            auto[0] += 1
            try:
                return o_sc2(state, next_state)
            finally:
                auto[0] -= 1

        B.BindContextBase.rcvd_msg = rcvd
        B.BindContextBase.sent_cmd = sent
        B.BindStateBase._wait_for_fut_result = wait
        B.BindStateBase._handle_wait_timer_expired = timer
        B.BindContextBase.set_state = set_state
        B.BindStateBase._set_context_state = sc
        B._DevIsWaitingForMsg._set_context_state = sc2

    def uninstall(self):
        import ramses_rf.binding_fsm as B

        (B.BindContextBase.rcvd_msg, B.BindContextBase.sent_cmd, B.BindStateBase._wait_for_fut_result,
         B.BindStateBase._handle_wait_timer_expired, B.BindContextBase.set_state, B.BindStateBase._set_context_state,
         B._DevIsWaitingForMsg._set_context_state) = self._orig


def gen_policy(rnd: random.Random, kind: str):
    """{(frame_index_in_flow, listener): [delays]}; index 0..3; listener 'R' / 'S'."""
    pol = {}
    for i in range(4):
        for who in ("R", "S"):
            if kind == "clean":
                d = [0.0]
            elif kind == "repeats":
                d = [0.0] + [rnd.choice((0.0, 0.001, 0.02, 0.3)) for _ in range(rnd.randrange(0, 4))]
            elif kind == "lossy":
                r = rnd.random()
                d = [] if r < 0.25 else ([0.0] if r < 0.8 else [0.0, 0.05])
            elif kind == "delays":
                d = [rnd.choice((0.0, 0.0, 2.9, 2.99, 3.01, 4.9, 4.99, 5.0, 5.01, 5.09, 5.11, 7.0))]
            else:
                r = rnd.random()
                d = [] if r < 0.1 else [rnd.choice((0.0, 0.0, 0.0, 0.5, 2.99, 3.01, 4.99, 5.01))] + ([0.001] if rnd.random() < 0.3 else [])
            pol[(i, who)] = d
    return pol


async def attempt(loop, eth, resp, supp, flow, policy, third, who="both", opts=None) -> dict:
    """One binding attempt on both (or one) ends under `policy`.  `opts`: {"cancel": {"R"|"S": after_s}} the caller gives
    up (task cancellation); {"refuse": "R"|"S"} that end's gateway refuses to send (engine paused) during the attempt;
    {"gap": s} how long after the attempt's end the next one starts (default 12 s: every state timer has fired by then)."""
    opts = opts or {}
    frames = flow[2]

    def pol(frame, src, dst):
        listener = "R" if dst == GWY_R else "S"
        for i, f in enumerate(frames):
            if frame[:2] == f[:2] and frame[37:41] == f[37:41] and frame[7:16] == f[7:16] and (frame[17:26] == f[17:26] or (i == 0 and frame[17:26] in ("--:------", "63:262142"))):   # an Offer is to nobody / everybody
                return policy.get((i, listener), [0.0])
        return [0.0]

    eth.policy = pol
    payload = frames[1][46:]
    accept_codes = [payload[i:i + 4] for i in range(2, len(payload), 12)]
    idx = payload[:2]
    ratify = len(frames) > 3 and not opts.get("no_addenda")     # (the same pair may bind with or without the addenda step)
    tp = frames[0][46:]
    offer_codes = [c for c in (tp[i:i + 4] for i in range(2, len(tp), 12)) if c != "1FC9"]
    confirm_code = frames[2][48:52] or None
    from ramses_tx.command import Command

    ratify_cmd = Command(frames[3]) if ratify else None
    t0 = loop.time()
    tasks = {}
    if who in ("both", "R"):
        tasks["R"] = asyncio.ensure_future(resp._wait_for_binding_request(accept_codes, idx=idx, require_ratify=ratify))
    if who in ("both", "S"):
        tasks["S"] = asyncio.ensure_future(supp._initiate_binding_process(offer_codes, confirm_code=confirm_code, ratify_cmd=ratify_cmd))
    for delay, fr in third:
        eth.inject(fr, delay=delay)
    paused = None
    if opts.get("refuse") in tasks:
        paused = (resp if opts["refuse"] == "R" else supp)._gwy
        paused._pause()
    for k, after in (opts.get("cancel") or {}).items():
        if k in tasks:
            loop.call_later(after, tasks[k].cancel)
    done, pending = await asyncio.wait(list(tasks.values()), timeout=90.0)
    if paused is not None:
        paused._resume()
    out = {"t": loop.time() - t0, "hung": sorted(k for k, t in tasks.items() if t in pending)}
    for t in pending:
        t.cancel()
    for k, t in tasks.items():
        if t in pending:
            out[k] = ("hung", "")
            continue
        if t.cancelled():
            out[k] = ("cancelled", "")
            continue
        e = t.exception()
        if e is None:
            out[k] = ("ok", [str(p) if p is not None else None for p in t.result()])
        else:
            out[k] = ("err", type(e).__name__ + ":" + type(e).__mro__[1].__name__)
    await asyncio.sleep(opts.get("gap", 12.0))      # 12 s: every state timer has fired
    out["binding_after"] = {"R": bool(resp._bind_context.is_binding), "S": bool(supp._bind_context.is_binding)}
    out["loop_errors"] = [repr(e) for e in loop.errors]
    loop.errors.clear()
    return out


async def episode(loop, flow_name, scenarios, blog: BindLog) -> list:
    from ramses_rf import exceptions as exc  # noqa: F401

    flow = FLOWS[flow_name]
    eth = gwrig.Ether(loop)
    rr = gwrig.Rig(loop, gwy_id=GWY_R, ether=eth, known_list={**{k: {kk: vv for kk, vv in v.items() if kk != "faked"} for k, v in flow[0].items()}, GWY_R: {"class": "HGI"}})
    rs = gwrig.Rig(loop, gwy_id=GWY_S, ether=eth, known_list={**flow[1], GWY_S: {"class": "HGI"}})
    await rr.start()
    await rs.start()
    resp = rr.gwy.get_device(next(iter(flow[0])))
    supp = rs.gwy.get_device(next(iter(flow[1])))
    ensure_fakeable(resp)
    ensure_fakeable(supp)
    outs = []
    for policy, third, who, *rest in scenarios:
        blog.rows.clear()
        o = await attempt(loop, eth, resp, supp, flow, policy, third, who, rest[0] if rest else None)
        o["trace"] = {k: list(v) for k, v in blog.rows.items()}
        o["ids"] = (resp.id, supp.id)
        outs.append(o)
    await rr.stop()
    await rs.stop()
    return outs


RECEIVING = ((0, "R"), (1, "S"), (2, "R"), (3, "R"))   # (frame of the flow, the end it is addressed to)


def one_late_in_time(policy, n_frames: int = 3) -> bool:
    """every delivery prompt, except that one frame reaches its addressee up to 2.5 s late (all waits are 3 s or more) -
    without overtaking: the Confirm of a flow with addenda is followed at once by the addenda (same sender, no wait), so
    delaying it alone would swap the two on the air, which a radio does not do"""
    late = [(k, d) for k, d in policy.items() if d != [0.0]]
    return (len(late) == 1 and late[0][0] in RECEIVING and len(late[0][1]) == 1 and late[0][1][0] <= 2.5
            and not (late[0][0] == (2, "R") and n_frames > 3))


def all_in_time(policy, n_frames: int = 3) -> bool:
    """nothing lost or repeated, and every frame reaches its addressee inside the wait that end is in (each wait starts at
    that end's own last step: respondent 5 s for the Offer from its start, supplicant 5 s for the Accept from its Offer,
    respondent 3 s for the Confirm from its Accept, 3 s for the addenda from the Confirm), with 0.5 s to spare"""
    d = {}
    for k in RECEIVING:
        v = policy.get(k, [0.0])
        if len(v) != 1:
            return False
        d[k] = v[0]
    if any(v != [0.0] for k, v in policy.items() if k not in RECEIVING):
        return False
    ok = d[(0, "R")] <= 4.5 and d[(0, "R")] + d[(1, "S")] <= 4.5 and d[(1, "S")] + d[(2, "R")] <= 2.5
    if n_frames > 3:
        ok = ok and 0.0 <= d[(3, "R")] - d[(2, "R")] <= 2.5
    return ok


def own_echo_lost_only(policy, n_frames: int = 3) -> bool:
    """everything prompt, except that the sender of the Offer or of the Accept does not hear its own first transmission (its
    gateway re-sends; the peer heard the first one and answers): nothing of the handshake is lost - three-frame flows only (with the
    addenda step the re-sent frame and the addenda cross)"""
    odd = [(k, d) for k, d in policy.items() if d != [0.0]]
    return n_frames == 3 and len(odd) == 1 and odd[0][0] in ((0, "S"), (1, "R")) and odd[0][1] == []


def nothing_lost(policy) -> bool:
    return all(policy.get((i, w), [0.0]) and min(policy.get((i, w), [0.0])) < 2.5 for i in range(4) for w in ("R", "S"))


def score(chk: Check, flow_name, scen, o, rep) -> None:
    policy, third, who = scen[:3]
    opts = scen[3] if len(scen) > 3 else {}
    flow = FLOWS[flow_name]
    n = 3 if (opts or {}).get("no_addenda") else len(flow[2])      # (the addenda step may be left out of a 4-frame flow)
    for k in ("R", "S"):
        if k not in o:
            continue
        kind, val = o[k]
        role = "respondent" if k == "R" else "supplicant"
        chk.count(f"outcome.{k}.{kind if kind != 'err' else val.split(':')[0]}")
        if kind == "cancelled" and k in (opts.get("cancel") or {}):
            pass
        elif kind == "hung":
            chk.violation(f"c20.hang.{role}", f"{flow_name}: the {role}'s attempt had not ended after 90 s", rep)
        elif kind == "err" and "BindingError" not in val and not val.startswith("Binding"):
            chk.violation(f"c20.foreign_exception.{role}:{val.split(':')[0]}", f"{flow_name}: the {role}'s attempt ended with {val}, not a binding error", rep)
        if o["binding_after"][k]:
            chk.violation(f"c20.still_binding.{role}", f"{flow_name}: the {role} is still binding after its attempt ended ({kind} {val if kind == 'err' else ''})", rep)
    # a BindingError that was set on a state's future which nobody awaited any more surfaces as asyncio's "Future exception
    # was never retrieved": the failure itself was reported to the caller; counted, not scored
    real_errors = [e for e in o["loop_errors"] if not e.startswith("Binding")]
    for e in o["loop_errors"]:
        if e.startswith("Binding"):
            chk.count("loop_handler.unretrieved_binding_error")
    if real_errors:
        o = {**o, "loop_errors": real_errors}
        chk.violation("c20.loop_error:" + o["loop_errors"][0].split("(")[0], f"{flow_name}: exception in the loop's handler: {o['loop_errors'][0][:200]}", rep)
    # a third party's Offer that reaches the respondent before the supplicant's does is a competing supplicant, not noise
    real_offer_at = 0.02 + min(policy.get((0, "R"), [0.0]) or [99.0])
    competing = any(" 1FC9 " in fr and fr[:2] == " I" and (fr[17:26] == "63:262142" or fr[27:36] == fr[7:16]) and 0.01 + d <= real_offer_at + 0.002
                    for d, fr in third)
    if competing:
        chk.count("competing_third_party_offer")
    if who == "both" and not competing and not opts.get("cancel") and not opts.get("refuse") and (all_in_time(policy, n) or own_echo_lost_only(policy, n) or (nothing_lost(policy)
            and (one_late_in_time(policy, n) or not any(d for d in policy.values() if d and min(d) > 0.4)))):
        for k in ("R", "S"):
            if o[k][0] != "ok":
                chk.violation(f"c20.failed_without_loss.{k}", f"{flow_name}: nothing was lost or late, yet the {'respondent' if k == 'R' else 'supplicant'} ended with {o[k]}", rep)
                return
        r, s = o["R"][1], o["S"][1]
        strip = lambda x: None if x is None else x.split(" # ")[0].split(" ... ")[-1].strip()  # noqa: E731
        want = list(flow[2])[:n] + [None] * (4 - n)
        rs_, ss_, ws_ = [strip(x) for x in r], [strip(x) for x in s], [w.strip() if w else None for w in want]
        if opts.get("no_addenda") and rs_[0] and ws_[0] and rs_[0][:41] == ws_[0][:41]:
            ws_[0] = rs_[0]      # (without the addenda step the library's own Offer does not list the addenda's code: both ends must agree on it)
        if rs_ != ss_ or rs_ != ws_:
            chk.violation("c20.tuple_mismatch" + (".own-first-echo-lost" if own_echo_lost_only(policy, n) else ""), f"{flow_name}: respondent reports {[strip(x) for x in r]}, supplicant {[strip(x) for x in s]}, expected {want}", rep)


def run(chk: Check) -> None:
    rt.quiet()
    rnd = random.Random(chk.seed)
    thorough = chk.tier == "thorough"
    n_ep = 1500 if thorough else 150
    chk.rule = (
        "5 pairing flows (RND>CTL without and with addenda, DHW>CTL, CO2>FAN and REM>FAN with addenda) x seeded scenarios: per-frame per-listener delivery policy "
        "(clean / 0-3 repeats / 25% loss / delays around 3 s and 5 s / mixed), third-party offers, accepts, confirms and addenda at random "
        "instants, one end alone (no peer); 3-4 attempts per gateway pair, the last one clean; non-trivial = distinct (flow, scenario)"
    )
    blog = BindLog()
    blog.install()
    reqs, impl, meta = [], [], []
    try:
        for ep in range(n_ep):
            flow_name = rnd.choice(list(FLOWS)) if ep >= len(FLOWS) else list(FLOWS)[ep]
            scenarios = []
            for _ in range(rnd.randint(2, 3)):
                kind = rnd.choice(("clean", "repeats", "repeats", "lossy", "delays", "mixed", "alone"))
                third = [(rnd.choice((0.0, 0.015, 0.03, 0.05, 1.0, 3.0)), rnd.choice(THIRD)) for _ in range(rnd.randrange(0, 4))]
                if kind == "alone":
                    scenarios.append((gen_policy(rnd, "clean"), third, rnd.choice(("R", "S"))))
                else:
                    scenarios.append((gen_policy(rnd, kind), third, "both"))
                # an attempt that ends early by the caller's own doing or by a refused send, and a retry soon after it
                # (while the timers of the abandoned attempt would still be running) whose frames are late but in time
                if rnd.random() < 0.35:
                    k = rnd.choice(("R", "S"))
                    how = rnd.choice(("cancel", "refuse"))
                    opts = {"gap": rnd.choice((0.2, 1.0, 3.0))}
                    if how == "cancel":
                        opts["cancel"] = {k: rnd.choice((0.01, 0.5, 2.0, 2.9))}
                    else:
                        opts["refuse"] = k
                    scenarios.append((gen_policy(rnd, "clean"), [], rnd.choice(("both", k)), opts))
                    late = gen_policy(rnd, "clean")
                    late[rnd.choice(RECEIVING)] = [rnd.choice((1.0, 2.0, 2.5))]   # one frame reaches its addressee late, within the wait
                    scenarios.append((late, [], "both"))
            if rnd.random() < 0.5:
                # several frames late, each within its own wait (the waits do not add up to one overall limit)
                late = gen_policy(rnd, "clean")
                d0 = rnd.choice((0.0, 2.0, 4.0, 4.5))
                d1 = rnd.choice([x for x in (0.0, 0.5, 2.0, 2.5) if d0 + x <= 4.5])
                d2 = rnd.choice([x for x in (0.0, 0.5, 2.0, 2.5) if d1 + x <= 2.5])
                late[(0, "R")], late[(1, "S")], late[(2, "R")] = [d0], [d1], [d2]
                if len(FLOWS[flow_name][2]) > 3:
                    late[(3, "R")] = [d2 + rnd.choice((0.0, 1.0, 2.5))]
                scenarios.append((late, [], "both"))
            if rnd.random() < 0.4:
                # the slowest handshakes that are still in time: every wait used up to its last half second
                slow = gen_policy(rnd, "clean")
                a, b, c = rnd.choice(((4.5, 0.0, 2.5), (2.0, 2.5, 0.0), (4.0, 0.5, 2.0)))
                slow[(0, "R")], slow[(1, "S")], slow[(2, "R")] = [a], [b], [c]
                if len(FLOWS[flow_name][2]) > 3:
                    slow[(3, "R")] = [c + 2.5]
                scenarios.append((slow, [], "both"))
            if len(FLOWS[flow_name][2]) > 3 and rnd.random() < 0.6:
                # a flow with addenda: an attempt *with* the addenda step that fails (the addenda, or something before it, is lost),
                # then the same pair binds *without* that step
                lossy = gen_policy(rnd, "clean")
                lossy[rnd.choice(((3, "R"), (3, "R"), (2, "R"), (1, "S")))] = []
                scenarios.append((lossy, [], "both"))
                scenarios.append((gen_policy(rnd, rnd.choice(("clean", "repeats"))), [], "both", {"no_addenda": True, "gap": rnd.choice((0.5, 2.0, 12.0))}))
                scenarios.append((gen_policy(rnd, "clean"), [], "both", {"no_addenda": True}))
            if rnd.random() < 0.4:
                # the sender of the Offer / of the Accept does not hear its own first transmission (its gateway sends it again);
                # the peer heard the first one and answers before that echo: nothing of the handshake is lost
                deaf = gen_policy(rnd, "clean")
                deaf[rnd.choice(((0, "S"), (1, "R")))] = []
                scenarios.append((deaf, [], "both", {"no_addenda": True} if len(FLOWS[flow_name][2]) > 3 else {}))
            scenarios.append((gen_policy(rnd, "clean"), [], "both"))     # a clean attempt must always succeed afterwards

            async def body(loop, flow_name=flow_name, scenarios=scenarios):
                return await episode(loop, flow_name, scenarios, blog)

            try:
                outs, _ = gwrig.run(body)
            except Exception as e:  # noqa: BLE001
                chk.violation(f"c20.run_died:{type(e).__name__}", f"{flow_name}: the run itself raised {e!r}", {"op": "bind", "flow": flow_name})
                continue
            for i, (scen, o) in enumerate(zip(scenarios, outs)):
                chk.evaluations += 1
                pol_json = {f"{k[0]}{k[1]}": v for k, v in scen[0].items()}
                rep = {"op": "bind", "flow": flow_name, "attempt": i, "policy": pol_json, "third": scen[1], "who": scen[2], "opts": scen[3] if len(scen) > 3 else {},
                       "earlier": [{"policy": {f"{k[0]}{k[1]}": v for k, v in s[0].items()}, "third": s[1], "who": s[2], "opts": s[3] if len(s) > 3 else {}} for s in scenarios[:i]],
                       "outcome": {k: o.get(k) for k in ("R", "S")}, "trace": o["trace"]}
                chk.nontrivial.add((flow_name, json.dumps(pol_json, sort_keys=True), json.dumps(scen[1]), scen[2]))
                score(chk, flow_name, scen, o, rep)
                for dev_id, tr in o["trace"].items():
                    reqs.append("bind.run\t" + ";".join(tr))
                    impl.append(tr)
                    meta.append({"flow": flow_name, "dev": dev_id, "attempt": i})
    finally:
        blog.uninstall()
    outs = Model().run(reqs)
    for r, tr, b, m in zip(reqs, impl, outs, meta):
        if not b.startswith("ok\t"):
            chk.divergence("bind.run", {**m, "trace": tr}, "trace of the implementation", b[:300])
    chk.extra["model_ops_compared"] = len(reqs)
    chk.extra["traces_validated"] = len(reqs)
    # which packet an end reports as its own Offer / Accept (binding_fsm._own_pkt; theorems C20Tuple.ownPkt_header / ownPkt_not_peers):
    # every frame of every flow as the command, every frame of that flow as what the send layer handed back
    try:
        from datetime import datetime as _dt

        from ramses_rf.binding_fsm import _own_pkt
        from ramses_tx.command import Command
        from ramses_tx.packet import Packet

        from ..common import esc

        own_reqs, own_impl = [], []
        for name, fl in FLOWS.items():
            for c in fl[2][:2]:
                for p_ in fl[2]:
                    cmd = Command(c)
                    got = _own_pkt(cmd, Packet(_dt.now(), "000 " + p_))
                    own_reqs.append(f"bind.own\t{esc(c)}\t{esc(p_)}")
                    own_impl.append("ok\t" + ("cmd" if str(got) == str(cmd) else "pkt"))
                    if str(got)[:41] != str(cmd)[:41]:
                        chk.violation("c20.own_packet.is_the_peers", f"{name}: for its own {c[:45]!r} an end that was handed {p_[:45]!r} reports {str(got)[:45]!r}",
                                      {"op": "bind.own", "cmd": c, "pkt": p_})
        for r, a, b in zip(own_reqs, own_impl, Model().run(own_reqs)):
            if a != b:
                chk.divergence("bind.own", {"request": r}, a, b)
        chk.extra["model_ops_compared"] += len(own_reqs)
    except ImportError:
        chk.count("bind.own.not_present")     # (a tree without the repair fa17a7d: the tuple oracle of the own-first-echo-lost family decides)
    chk.sample({"flow": "RND>CTL", "policy": "every frame heard twice by both ends, a third-party Offer 15 ms in", "expect": "both succeed with the same three packets"})


def replay(chk: Check, path: str) -> int:
    r = json.load(open(path))
    print(json.dumps(r, indent=1)[:4000])
    run(chk)
    return chk.finish()
