"""C16 — saved state restores: snapshot -> fresh gateway -> snapshot is a fixpoint.

Gateway A (real, mock transport, virtual clock) is fed a history derived from the repo's logs; at
checkpoints: snapshot (with/without expired) -> a NEW gateway B built from A's schema and started
with the saved packets -> snapshot again: packets must be identical, and (eavesdropping off) the
schema too; restoring the snapshot again into B, and into A itself, must change nothing; every saved
packet must decode, be no request, no write other than a 0404, and not expired unless asked for.
Correspondence with the Lean model: the stores every processed message landed in are logged by a
harness-side wrapper of `_MessageDB._handle_msg`; the model's `snapOf` over exactly that routing must
give the keys `get_state` returned, and `wanted` must agree message by message.
"""

from __future__ import annotations

import asyncio
import json
import random
from datetime import timedelta as td

from .. import gwrig, rt
from ..common import Check, Model
from . import c13

EPOCH = gwrig.BASE


def us(d) -> int:
    return round((d - EPOCH) / td(microseconds=1))


class StoreLog:
    """Logs, for one gateway, which stores each message landed in (wrapper installed harness-side)."""

    def __init__(self) -> None:
        self.gwy = None
        self.rows: dict[int, tuple] = {}       # id(msg) -> (msg, [slots])
        self.order: list = []

    def install(self):
        import ramses_rf.entity_base as EB

        log = self
        orig = EB._MessageDB._handle_msg
        self._orig = orig

        def wrapped(ent, msg):
            orig(ent, msg)
            if ent._gwy is not log.gwy:
                return
            try:
                stored = ent._msgz_[msg.code][msg.verb][msg._pkt._ctx] is msg
            except KeyError:
                stored = False
            if not stored:
                return
            row = log.rows.get(id(msg))
            if row is None:
                row = (msg, [])
                log.rows[id(msg)] = row
                log.order.append(msg)
            row[1].append((ent, "z", f"{ent.id}/z/{msg.code}/{msg.verb.strip()}/{msg._pkt._ctx}"))
            if msg.verb in (" I", "RP"):
                row[1].append((ent, "s", f"{ent.id}/s/{msg.code}"))

        EB._MessageDB._handle_msg = wrapped

    def uninstall(self):
        import ramses_rf.entity_base as EB

        EB._MessageDB._handle_msg = self._orig


def visible_slots(gwy, slots) -> list[str]:
    """Only the stores get_state reads: devices' _msgz, systems' and zones' _msgs."""
    from ramses_rf.device import Device
    from ramses_rf.system.zones import Zone

    out = []
    systems = set(map(id, gwy.systems))
    for ent, kind, name in slots:
        if isinstance(ent, Device):
            if kind == "z":
                out.append(name)
        elif id(ent) in systems or isinstance(ent, Zone):
            if kind == "s":
                out.append(name)
    return out


LIFE_Q: list = []
LIVE_Q: list = []


def judge_by_kind(chk: Check) -> None:
    """A default snapshot holds no packet older than twice the lifetime of its kind (+3 s) - the lifetime being what the
    model of pkt_lifespan gives the frame on its own, not what this process's library says of it now."""
    from datetime import datetime as dt

    from ..common import esc

    frames = sorted({f for f, *_ in LIFE_Q})
    outs = Model().run(["recv.file\tTrue\t" + esc("045 " + f) for f in frames])
    life = {}
    for f, o in zip(frames, outs):
        p = o.split("\t")
        if p[0] == "packet" and p[-1] not in ("False", "True"):
            life[f] = int(p[-1])
    seen = set()
    for f, k, now, rep in LIFE_Q:
        if f not in life:
            continue
        chk.count("snapshot.lifetime_by_kind.judged")
        age = (now - dt.fromisoformat(k)) / td(microseconds=1)
        if age >= 2 * life[f] + 3_000_000 and (f, k) not in seen:
            seen.add((f, k))
            key = "c16.snapshot.expired.313F" if f[37:41] == "313F" else "c16.snapshot.expired.by-kind"
            chk.violation(key, f"snapshot (include_expired=False) holds {k} {f!r}, {age / 1e6:.0f} s old: a packet of its kind lives {life[f] / 1e6:.0f} s "
                          f"(gone from a snapshot after twice that + 3 s)", rep)
    LIFE_Q.clear()
    frames = sorted({f for f, *_ in LIVE_Q})
    outs = Model().run(["recv.file\tTrue\t" + esc("045 " + f) for f in frames])
    for f, o in zip(frames, outs):
        p = o.split("\t")
        if p[0] == "packet" and p[-1] not in ("False", "True"):
            life[f] = int(p[-1])
    for f, k, now, rep in LIVE_Q:
        if f not in life:
            continue
        chk.count("snapshot.lifetime_by_kind.judged_absent")
        age = (now - dt.fromisoformat(k)) / td(microseconds=1)
        if 0 <= age < life[f] and (f, k) not in seen:
            seen.add((f, k))
            chk.violation("c16.snapshot.live-left-out.by-kind", f"the default snapshot leaves out {k} {f!r} (held: the complete snapshot has it), {age / 1e6:.0f} s old: "
                          f"a packet of its kind lives {life[f] / 1e6:.0f} s", rep)
    LIVE_Q.clear()


def check_packets(chk: Check, pkts: dict, inc: bool, now, rep) -> None:
    from ramses_tx.message import Message
    from ramses_tx.packet import Packet

    class G:
        def _dt_now(self):
            return now

    for k, v in pkts.items():
        try:
            pkt = Packet.from_dict(k, v)
            msg = Message(pkt)
        except Exception as e:  # noqa: BLE001
            chk.violation("c16.snapshot.undecodable", f"snapshot entry {k!r}: {v!r} is rejected by the decoder: {e!r}", rep)
            return
        if msg.verb == "RQ":
            chk.violation("c16.snapshot.request", f"snapshot contains a request: {v!r}", rep)
            return
        if msg.verb == " W" and str(msg.code) != "0404":
            chk.violation("c16.snapshot.write", f"snapshot contains a write other than a schedule fragment: {v!r}", rep)
            return
        if not inc:
            msg._gwy = G()
            if not (str(msg.code) == "1F09"):
                LIFE_Q.append((v[4:] if v[3:4] == " " else v, k, now, rep))     # judged by the lifetime of its kind, after the run
            if msg._expired:
                key = "c16.snapshot.expired.313F" if str(msg.code) == "313F" else "c16.snapshot.expired"
                chk.violation(key, f"snapshot (include_expired=False) contains an expired packet: {k} {v!r}", rep)
                if key == "c16.snapshot.expired":
                    return


def addressee_only(A1: dict, X: dict) -> str:
    """Key suffix of the recorded finding: the only difference is that replies are lost which A held for their *addressee* alone - a
    device of which the snapshot holds no packet of its own (A knew it by its requests, which are never saved): a fresh gateway has no
    such device.  (The source keeps a newer copy of the same reply, sent to someone else.)"""
    if set(X) - set(A1) or any(A1[k] != X[k] for k in set(A1) & set(X)):
        return ""
    fr = {k: (v[4:] if v[3:4] == " " else v) for k, v in A1.items()}
    srcs = {f[7:16] for f in fr.values() if f[:2] in (" I", "RP")}
    lost = set(A1) - set(X)
    from ramses_tx.address import dev_id_to_hex_id

    named = "".join(f[46:] for f in fr.values() if f[37:41] == "000C")      # (nor does the controller name it in a device list)
    if lost and all(fr[k][:2] == "RP" and fr[k][17:19] not in ("18", "--", "63") and fr[k][17:26] not in srcs and dev_id_to_hex_id(fr[k][17:26]) not in named
                    and any(k2 not in lost and fr[k2][:16] == fr[k][:16] and fr[k2][37:41] == fr[k][37:41] and k2 > k for k2 in fr) for k in lost):
        return ".reply-held-by-an-addressee-known-by-its-requests-only"
    return ""


def only_expired_lost(A1: dict, X: dict, inc: bool, now) -> bool:
    """True when X is A1 minus some packets that are all expired at `now` (and include_expired was asked for)."""
    from ramses_tx.message import Message
    from ramses_tx.packet import Packet

    if not inc or set(X) - set(A1) or any(X[k] != A1[k] for k in X):
        return False

    class G:
        def _dt_now(self):
            return now

    for k in set(A1) - set(X):
        try:
            m = Message(Packet.from_dict(k, A1[k]))
            m._gwy = G()
            if not m._expired:
                return False
        except Exception:  # noqa: BLE001
            return False
    return True


async def episode(loop, history, gaps, eavesdrop, checkpoints, slog: StoreLog) -> dict:
    out = {"cases": [], "model": []}
    rigA = gwrig.Rig(loop, config={"enable_eavesdrop": eavesdrop})
    await rigA.start()
    A = rigA.gwy
    slog.gwy = A
    for i, fr in enumerate(history):
        await asyncio.sleep(gaps[i])
        await rigA.feed(fr)
        if i not in checkpoints:
            continue
        for inc in (False, True):
            now = gwrig.vnow(loop)
            # what the model needs: every stored message, its visible slots, its expiry now
            evs = []
            for msg in slog.order:
                slots = visible_slots(A, slog.rows[id(msg)][1])
                try:
                    ex = bool(msg._expired)
                except Exception:  # noqa: BLE001
                    ex = False
                evs.append((us(msg.dtm), msg.verb.strip(), str(msg.code), msg._pkt._len, ex, slots))
            schemaA, pktsA = A.get_state(include_expired=inc)
            case = {"at": i, "inc": inc, "n": len(pktsA)}
            case["dev_held"] = sorted({m.dtm.isoformat(timespec="microseconds") for d_ in A.devices for vs in getattr(d_, "_msgz", {}).values()
                                       for cs in vs.values() for m in cs.values()})
            out["model"].append((inc, evs, list(pktsA)))
            case["pktsA"] = pktsA
            case["now"] = now
            # fresh gateway B from A's schema + packets
            rigB = gwrig.Rig(loop, config={"enable_eavesdrop": eavesdrop}, schema=schemaA)
            try:
                await rigB.start(cached_packets=dict(pktsA))
                B = rigB.gwy
                for _ in range(3):
                    await asyncio.sleep(0)
                schemaB, pktsB = B.get_state(include_expired=inc)
                case["pktsB"] = pktsB
                from ramses_rf.helpers import shrink   # the library's own normal form of a schema (drops None / empty)

                case["schema_equal"] = shrink(schemaA) == shrink(schemaB)
                case["schemaA"], case["schemaB"] = schemaA, schemaB
                # restore the same snapshot again into B
                await B._restore_cached_packets(dict(pktsA))
                for _ in range(3):
                    await asyncio.sleep(0)
                case["pktsB2"] = B.get_state(include_expired=inc)[1]
                await rigB.stop()
            except Exception as e:  # noqa: BLE001
                case["errorB"] = repr(e)
            # fresh gateway C from A's packets alone (a client that restores the state but not the schema)
            rigC = gwrig.Rig(loop, config={"enable_eavesdrop": eavesdrop})
            try:
                await rigC.start(cached_packets=dict(pktsA))
                for _ in range(3):
                    await asyncio.sleep(0)
                case["pktsC"] = rigC.gwy.get_state(include_expired=inc)[1]
                await rigC.stop()
            except Exception as e:  # noqa: BLE001
                case["errorC"] = repr(e)
            # restore into A itself: nothing changes
            try:
                await A._restore_cached_packets(dict(pktsA))
                for _ in range(3):
                    await asyncio.sleep(0)
                case["pktsA2"] = A.get_state(include_expired=inc)[1]
            except Exception as e:  # noqa: BLE001
                case["errorA"] = repr(e)
            out["cases"].append(case)
    await rigA.stop()
    return out


def run(chk: Check) -> None:
    rt.quiet()
    rnd = random.Random(chk.seed)
    thorough = chk.tier == "thorough"
    logs = gwrig.load_logs()
    n_ep = 300 if thorough else 36
    chk.rule = (
        "seeded histories (<=80/120 packets) from the repo's logs by prefix/deletion/duplication/reordering/splicing (+ a few "
        "regex-respecting field mutations), eavesdropping on/off; at 2-3 checkpoints x include_expired on/off: A.get_state -> new gateway B "
        "from A's schema + packets -> B.get_state; restore again into B; restore into A; every saved packet decoded and classified; "
        "non-trivial = distinct (history, checkpoint, include_expired) with a non-empty snapshot"
    )
    from ramses_tx.ramses import CODES_SCHEMA

    regex_of = {(str(c), v): sch[v] for c, sch in CODES_SCHEMA.items() for v in (" I", "RQ", "RP", " W") if v in sch}
    slog = StoreLog()
    slog.install()
    reqs, impl, meta = [], [], []
    wanted_rows: set = set()
    try:
        # corpus: stretches of the real system logs with their own timing (run first)
        corpus = []
        for name, a, b in (("tests/tests/systems/_heat_trv_00/packet.log", 255, 430), ("tests/tests/systems/heat_ufc_00/packet.log", 0, 200),
                           ("tests/tests/systems/heat_otb_00/packet.log", 0, 162), ("tests/tests/systems/heat_zxdavb/packet.log", 0, 200)):
            rows = logs.get(name, [])[a:b]
            if rows:
                gs = [0.5] + [min(max((rows[i][0] - rows[i - 1][0]).total_seconds(), 0.001), 600.0) for i in range(1, len(rows))]
                corpus.append(([f for _, f in rows], gs))
        for name in ("tests/tests/schedules/sched_001/packet.log", "tests/tests/schedules/sched_dhw/packet.log", "tests/tests/schedules/_sched_002/packet.log"):
            rows = logs.get(name, [])[:60]
            tail = logs.get("tests/tests/systems/heat_otb_00/packet.log", [])[:12]
            if rows and tail:
                gs = [0.5] + [min(max((rows[i][0] - rows[i - 1][0]).total_seconds(), 0.001), 600.0) for i in range(1, len(rows))]
                gs += [260_000.0] + [1.0] * (len(tail) - 1)       # three days later
                corpus.append(([f for _, f in rows] + [f for _, f in tail], gs))
        # the same reply to two addressees, the first of them a known device that keeps its (older) copy
        corpus.append((["RP --- 01:078710 18:199952 --:------ 000C 006 000D001C4456", " I --- 07:017494 --:------ 07:017494 1260 003 0013F4",
                        "RP --- 01:078710 07:017494 --:------ 10A0 006 0013880003E8", " I --- 01:078710 --:------ 01:078710 1F09 003 FF0532",
                        "RP --- 01:078710 18:199952 --:------ 10A0 006 0013880003E8"], [0.5, 0.2, 0.8, 7.6, 6.1]))
        # ... the first addressee being a device the gateway knows of only through the controller's RP|000C (its own packets come
        # later, or never): a thermostat asking for its zone's configuration, a DHW sensor asking for the DHW parameters
        corpus.append((["RP --- 01:145038 18:006402 --:------ 000C 006 010400896853", "RP --- 01:145038 34:092243 --:------ 000A 006 011001F40DAC",
                        " I --- 34:092243 --:------ 34:092243 30C9 003 0007C3", "RP --- 01:145038 18:006402 --:------ 000A 006 011001F40DAC"],
                       [0.5, 59.9, 60.0, 60.1]))
        corpus.append((["RP --- 01:145038 18:006402 --:------ 000C 006 010400896853", "RP --- 01:145038 34:092243 --:------ 000A 006 011001F40DAC",
                        "RP --- 01:145038 18:006402 --:------ 000A 006 011001F40DAC"], [0.5, 59.9, 120.1]))
        corpus.append((["RP --- 01:078710 18:006402 --:------ 000C 006 000D001C4456", "RP --- 01:078710 07:017494 --:------ 10A0 006 0013880003E8",
                        " I --- 01:078710 --:------ 01:078710 1F09 003 FF0532", "RP --- 01:078710 18:006402 --:------ 10A0 006 0013880003E8"],
                       [0.5, 0.8, 7.6, 6.1]))
        # devices whose only own traffic is requests / writes (a thermostat polling its relay, one writing a setpoint): a snapshot
        # carries none of their packets
        corpus.append((["RQ --- 22:054901 13:133379 --:------ 3EF1 002 0000", "RP --- 13:133379 22:054901 --:------ 3EF1 007 0000EF00EFC8FF",
                        " I --- 13:133379 --:------ 13:133379 3EF0 003 00C8FF", " W --- 12:010740 01:145038 --:------ 2309 003 0107D0",
                        " I --- 01:145038 12:010740 --:------ 2309 003 0107D0", "RQ --- 34:092243 01:145038 --:------ 000A 001 01",
                        " I --- 01:145038 --:------ 01:145038 1F09 003 FF0532"], [0.5, 0.1, 1.0, 3.0, 0.1, 2.0, 5.0]))
        # a one-zone setpoint / temperature right after the controller's sync-cycle array of the same code (a schedule switchpoint at
        # hh:30:00 after the hh:29:58 sync), an earlier one-zone packet of that zone still held
        for code, a, b in (("2309", "07D0", "0898"), ("30C9", "07C3", "07D1")):
            corpus.append(([f" I --- 01:145038 --:------ 01:145038 {code} 003 01{a}", " I --- 01:145038 --:------ 01:145038 1F09 003 FF0532",
                            f" I --- 01:145038 --:------ 01:145038 {code} 009 00{a}01{a}02{a}", f" I --- 01:145038 --:------ 01:145038 {code} 003 01{b}",
                            " I --- 01:145038 --:------ 01:145038 000A 006 011001F40DAC"], [0.5, 30.0, 0.1, 2.0, 20.0]))
        # the controller announces one zone's configuration (an edit), and half a minute later the whole array: both are held,
        # both are in the snapshot, and a fresh gateway - of this same process - holds both after the restore
        corpus.append(([" I --- 01:145038 --:------ 01:145038 000A 006 011001F40DAC", " I --- 01:145038 --:------ 01:145038 1F09 003 FF0532",
                        " I --- 01:145038 --:------ 01:145038 000A 018 001001F40DAC011001F40BB8021001F40DAC", " I --- 01:145038 --:------ 01:145038 2309 003 0107D0"],
                       [0.5, 25.0, 5.0, 20.0]))
        # an OpenTherm bridge answers with its configuration (good for hours), then its status and a temperature (good for minutes);
        # 25 minutes on the short-lived replies are gone from a default snapshot, the configuration is not
        def ot(i: int) -> str:
            par = (bin(0x40).count("1") + bin(i).count("1")) % 2
            return f"RP --- 10:067219 18:006402 --:------ 3220 005 00{(0x40 | (0x80 if par else 0)):02X}{i:02X}0000"

        corpus.append(([ot(0x03), ot(0x00), ot(0x19), " I --- 01:145038 --:------ 01:145038 1F09 003 FF0532"], [0.5, 1.0, 1.0, 1500.0]))
        corpus.append(([ot(0x00), ot(0x03), ot(0x19), " I --- 01:145038 --:------ 01:145038 1F09 003 FF0532"], [0.5, 1.0, 1.0, 1500.0]))
        n_plain_corpus = len(corpus)
        for ep in range(n_ep + len(corpus)):
            fixed_gaps = None
            if ep < len(corpus):
                h, fixed_gaps = list(corpus[ep][0]), corpus[ep][1]
            else:
                h = gwrig.mutate_history(rnd, logs, max_len=120 if thorough else 80)
            if fixed_gaps is None and rnd.random() < 0.4:
                h = [c13.mutate_fields(rnd, f, regex_of) if rnd.random() < 0.08 else f for f in h]
            if not h:
                continue
            # the same reply sent to two addressees (e.g. RP|10A0 to the DHW sensor, then to the gateway): the source keeps
            # the newer one, the first addressee its (older) copy
            for _ in range(rnd.randrange(0, 4) if fixed_gaps is None else 1):
                cands = [i for i, f in enumerate(h) if f[:2] == "RP" and f[17:19] == "18"]
                if fixed_gaps is not None:
                    # (corpus stretches: one such copy each, at the first reply some other device is known to ask for)
                    cands = [i for i in cands if any(f[:2] == "RQ" and f[37:41] == h[i][37:41] and f[7:9] not in ("18", "--", "63")
                                                     for rows in logs.values() for _, f in rows)][:1]
                if not cands:
                    break
                i = rnd.choice(cands)
                # only devices that really ask this controller for this code (RQ seen in the repo's logs) are plausible addressees
                askers = sorted({f[7:16] for rows in logs.values() for _, f in rows
                                 if f[:2] == "RQ" and f[37:41] == h[i][37:41] and f[7:9] not in ("18", "--", "63")})
                if not askers:
                    continue
                other = rnd.choice(askers)
                at = rnd.randrange(0, i + 1) if fixed_gaps is None else i
                h.insert(at, h[i][:17] + other + h[i][26:])
                if fixed_gaps is not None:
                    fixed_gaps = fixed_gaps[:at] + [0.3] + fixed_gaps[at:]
            cps = sorted(set(rnd.sample(range(len(h)), min(len(h), rnd.randint(1, 2))) + [len(h) - 1]))
            eav = rnd.random() < 0.35
            slog.rows.clear()
            slog.order.clear()

            gaps = fixed_gaps or [rnd.choice((0.05, 0.5, 2.0, 30.0, 400.0)) if i % 9 else 3.2 for i in range(len(h))]
            if fixed_gaps is None and rnd.random() < 0.3:
                # days go by somewhere in the history: the long-lived packets (schedule fragments, device info, ...) expire too
                gaps[rnd.randrange(len(gaps))] = rnd.choice((90_000.0, 180_000.0, 400_000.0))
            if fixed_gaps is not None:
                cps = [len(h) - 1]

            async def body(loop, h=h, eav=eav, cps=cps, gaps=gaps):
                return await episode(loop, h, gaps, eav, set(cps), slog)

            try:
                res, _ = gwrig.run(body)
            except Exception as e:  # noqa: BLE001
                chk.violation(f"c16.run_died:{type(e).__name__}", f"the run itself raised {e!r}", {"op": "history", "history": h, "eavesdrop": eav})
                continue
            rep0 = {"op": "history", "history": h, "gaps": gaps, "eavesdrop": eav, "checkpoints": cps}
            for case in res["cases"]:
                # a packet is its timestamp and frame; the trailing ` # header (context)` annotation that repr() adds is not
                # part of it (it can differ when a two-packet array was merged the first time round) - compared separately
                for key in ("pktsA", "pktsB", "pktsB2", "pktsA2", "pktsC"):
                    if isinstance(case.get(key), dict):
                        raw = case[key]
                        case[key] = {k: v.split(" # ")[0].rstrip() for k, v in raw.items()}
                        case[key + "_raw"] = raw
                if isinstance(case.get("pktsB_raw"), dict) and case["pktsB_raw"] != case["pktsA_raw"] and case["pktsB"] == case["pktsA"]:
                    chk.count("annotation_differs_only")
                chk.evaluations += 1
                rep = {**rep0, "at": case["at"], "include_expired": case["inc"]}
                A1 = case["pktsA"]
                if case["inc"]:
                    # ... and the converse: what the complete snapshot holds and the default one (taken just before) does not
                    # is past the lifetime of its kind
                    prev = next((c for c in res["cases"] if c["at"] == case["at"] and not c["inc"]), None)
                    if prev is not None and isinstance(prev.get("pktsA"), dict):
                        for k, v in A1.items():
                            if k not in prev["pktsA"] and v[41:45] != "1F09":
                                LIVE_Q.append((v[4:] if v[3:4] == " " else v, k, prev["now"], {**rep, "include_expired": False}))
                if A1:
                    chk.nontrivial.add((tuple(h), case["at"], case["inc"]))
                chk.count("snapshot_packets", len(A1))
                check_packets(chk, A1, case["inc"], case["now"], rep)
                if "errorB" in case:
                    chk.violation("c16.restore_fresh.raises:" + case["errorB"].split("(")[0], f"building B from A's schema + packets raised {case['errorB']}", rep)
                    continue
                B1 = case["pktsB"]
                if B1 != A1:
                    lost = sorted(set(A1) - set(B1))[:3]
                    extra = sorted(set(B1) - set(A1))[:3]
                    changed = [(k, A1[k], B1[k]) for k in sorted(set(A1) & set(B1)) if A1[k] != B1[k]][:2]
                    chk.violation("c16.expired_purged_on_replay" if only_expired_lost(A1, B1, case["inc"], case["now"]) else
                                  "c16.fixpoint.packets" + addressee_only(A1, B1), f"snapshot -> fresh gateway -> snapshot differs: lost {[(k, A1[k]) for k in lost]} extra {[(k, B1[k]) for k in extra]} changed {changed}", rep)
                elif not eav and not case["schema_equal"]:
                    sa, sb = case["schemaA"], case["schemaB"]
                    core = lambda x: {k: v for k, v in x.items() if not k.startswith("orphans_")}  # noqa: E731
                    only_orphans = core(sa) == core(sb)   # presence of an orphan depends on _msgs_, the snapshot on _msgz_ (either direction)
                    def strip_empty_dhw(x):
                        x = json.loads(json.dumps(x))
                        for v in x.values():
                            if isinstance(v, dict) and isinstance(v.get("stored_hotwater"), dict) and not any(v["stored_hotwater"].values()):
                                v["stored_hotwater"] = {}
                        return x
                    empty_dhw = sa != sb and strip_empty_dhw(sa) == strip_empty_dhw(sb)
                    def strip_circuits(x):
                        # a UFC's circuit -> zone map is learnt from its RP|000C only: load_schema() takes the UFC, not its circuits
                        x = json.loads(json.dumps(x))
                        for v in x.values():
                            if isinstance(v, dict) and isinstance(v.get("underfloor_heating"), dict):
                                for u in v["underfloor_heating"].values():
                                    if isinstance(u, dict) and isinstance(u.get("circuits"), dict):
                                        u["circuits"] = {k: {} for k in u["circuits"]}
                        return x
                    not_loadable = None
                    if not only_orphans and not empty_dhw:
                        if strip_circuits(sa) == strip_circuits(sb):
                            not_loadable = "ufc_circuits"
                        elif strip_circuits(strip_empty_dhw(sa)) == strip_circuits(strip_empty_dhw(sb)):
                            not_loadable = "ufc_circuits+empty_dhw"
                    if not_loadable:
                        # only when the packets that taught A those parts are not in the snapshot (expired and not asked for)
                        chk.violation("c16.fixpoint.schema.not_loadable." + not_loadable, f"schema differs after restore into a fresh gateway (parts of the reported schema that load_schema does not take, their packets having expired): {json.dumps(case['schemaA'])[:300]} vs {json.dumps(case['schemaB'])[:300]}", rep)
                    elif only_orphans:
                        # the recorded finding: presence is judged on _msgs_ (latest I/RP per code), the snapshot is taken from _msgz_ - the
                        # two gateways disagree about a device *from which the snapshot holds an I/RP packet* (either direction: the
                        # earlier restore into A itself re-orders A's _msgs_).  A device listed by one side from which the snapshot
                        # holds no I/RP packet is something else.
                        oa = {d for k, v in sa.items() if k.startswith("orphans_") for d in v}
                        ob = {d for k, v in sb.items() if k.startswith("orphans_") for d in v}
                        srcs = {v[11:20] for v in A1.values() if v[4:6] in (" I", "RP")}      # a value is "<rssi> <frame>"
                        if (oa - ob) - srcs:
                            chk.violation("c16.fixpoint.schema.orphan_only_in_source", f"the source gateway's schema lists {sorted((oa - ob) - srcs)} among the orphans although its "
                                          f"snapshot holds no I/RP packet from them; the gateway restored from the snapshot does not know them: {json.dumps(sa)[:200]} vs {json.dumps(sb)[:200]}", rep)
                        elif not (ob - oa) <= srcs:
                            chk.violation("c16.fixpoint.schema.orphan_without_packet", f"the restored gateway lists {sorted(ob - oa - srcs)} among the orphans although the snapshot holds no I/RP packet from them", rep)
                        else:
                            chk.violation("c16.fixpoint.schema.orphan_presence", f"schema differs after restore into a fresh gateway: {json.dumps(case['schemaA'])[:300]} vs {json.dumps(case['schemaB'])[:300]}", rep)
                    else:
                      chk.violation("c16.fixpoint.schema.orphan_presence" if only_orphans else "c16.fixpoint.schema.empty_dhw" if empty_dhw else "c16.fixpoint.schema", f"schema differs after restore into a fresh gateway: {json.dumps(case['schemaA'])[:300]} vs {json.dumps(case['schemaB'])[:300]}", rep)
                if "errorC" in case:
                    chk.violation("c16.restore_fresh_no_schema.raises:" + case["errorC"].split("(")[0], f"building a gateway from A's packets alone raised {case['errorC']}", rep)
                elif case.get("pktsC") is not None and case["pktsC"] != A1 and (
                        set(case["pktsC"]) - set(A1) or (set(A1) - set(case["pktsC"])) & set(case.get("dev_held", A1))):
                    # (without the schema a fresh gateway has only the systems / zones the packets themselves give rise to: a packet
                    #  that A holds in a zone or DHW object only - e.g. an older array, for the zones a newer array no longer names -
                    #  has no holder there.  What devices hold is what the packets alone must reproduce.)
                    C1 = case["pktsC"]
                    lost = sorted((set(A1) - set(C1)) & set(case.get("dev_held", A1)))[:3]
                    extra = sorted(set(C1) - set(A1))[:3]
                    chk.violation("c16.expired_purged_on_replay" if only_expired_lost(A1, C1, case["inc"], case["now"]) else "c16.fixpoint.packets_no_schema" + addressee_only(A1, C1),
                                  f"snapshot -> fresh gateway (packets only, no schema) -> snapshot differs: lost {[(k, A1[k]) for k in lost]} extra {[(k, C1[k]) for k in extra]}", rep)
                if case.get("pktsB2") is not None and case["pktsB2"] != B1:
                    chk.violation("c16.expired_purged_on_replay" if only_expired_lost(B1, case["pktsB2"], case["inc"], case["now"]) else "c16.restore_twice", "restoring the same snapshot a second time changed the snapshot", rep)
                if "errorA" in case:
                    chk.count("restore_into_self_raised")
                elif case.get("pktsA2") != A1:
                    lost = sorted(set(A1) - set(case["pktsA2"]))[:3]
                    extra = sorted(set(case["pktsA2"]) - set(A1))[:3]
                    chk.violation("c16.expired_purged_on_replay" if only_expired_lost(A1, case["pktsA2"], case["inc"], case["now"]) else "c16.restore_into_self", f"restoring a snapshot into the gateway it came from changed it: lost {lost} extra {extra}", rep)
            for inc, evs, keys in res["model"]:
                line = ";".join("%d,%s,%s,%d,%s,%s" % (s, v, c, ln, "True" if ex else "False", "|".join(sl)) for s, v, c, ln, ex, sl in evs)
                if len({e[0] for e in evs}) != len(evs):
                    chk.count("model_skipped_duplicate_stamps")
                    continue
                try:
                    stamps = ",".join(str(us(gwrig.real_dt.fromisoformat(k))) for k in keys)
                except ValueError as e:
                    chk.violation("c16.snapshot.undecodable", f"a snapshot key is not a timestamp: {e}", rep0)
                    continue
                reqs.append(f"snap.run\t{inc}\t{line}")
                impl.append(stamps)
                meta.append(rep0)
                for s, v, c, ln, ex, sl in evs:
                    wanted_rows.add((inc, v, c, min(ln, 9), ex))
    finally:
        slog.uninstall()
    # the snapshot's own text format: the key of an entry is the ISO form of the packet's time stamp (model: LogLine.fmtIso,
    # theorem C02Log.snapEntry_restores); real packets at the extremes of the calendar and of the fraction
    from datetime import datetime as _dt

    from ramses_tx.packet import Packet

    key_reqs, key_impl = [], []
    for y, us_ in ((1, 0), (999, 1), (1000, 999999), (9999, 0), (2024, 0), (2024, 500000)) + tuple((rnd.randrange(1, 10000), rnd.choice((0, rnd.randrange(10**6)))) for _ in range(60)):
        d = _dt(y, rnd.randrange(1, 13), rnd.randrange(1, 29), rnd.randrange(24), rnd.randrange(60), rnd.randrange(60), us_)
        p = Packet(d, "...  I --- 01:145038 --:------ 01:145038 1F09 003 FF073F")
        r = repr(p)
        key_reqs.append(f"log.iso\t{d.year}\t{d.month}\t{d.day}\t{d.hour}\t{d.minute}\t{d.second}\t{d.microsecond}")
        key_impl.append("ok\t" + r[:26].replace(" ", "%20;") if " " in r[:26] else "ok\t" + r[:26])
        try:
            restored = Packet.from_dict(r[:26], r[27:]).dtm if r[26:27] == " " else None
        except Exception:  # noqa: BLE001  (the cut does not give a time stamp and a packet)
            restored = None
        if restored != d:
            chk.violation("c16.snapshot.key_format", f"repr(pkt) = {r!r}: cut at columns 26/27 it does not restore to {d.isoformat()}", {"op": "key", "dtm": d.isoformat()})
    for r, a, b in zip(key_reqs, key_impl, Model().run(key_reqs)):
        if a != b:
            chk.divergence("log.iso", {"req": r}, a, b)
    judge_by_kind(chk)
    outs = Model().run(reqs)
    for r, a, b, m in zip(reqs, impl, outs, meta):
        got = b.split("\t")
        if got[0] != "ok" or got[1] != a:
            ia, ib = set(a.split(",")), set(got[1].split(",") if len(got) > 1 else [])
            chk.divergence("snap.run", {**m, "only_impl": sorted(ia - ib)[:5], "only_model": sorted(ib - ia)[:5]}, a[:300], b[:300])
        elif got[2] != "True":
            chk.divergence("snap.run", m, "fixpoint", "model snapshot is not a fixpoint?!")
    chk.extra["model_ops_compared"] = len(reqs)
    chk.extra["distinct_wanted_inputs"] = len(wanted_rows)
    chk.sample({"history": "heat_otb_00 log[10:90], checkpoint at packet 79, include_expired False", "expect": "A's packets == B's packets"})


def replay(chk: Check, path: str) -> int:
    r = json.load(open(path))
    print(json.dumps(r, indent=1)[:3000])
    run(chk)
    return chk.finish()
