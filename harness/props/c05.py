"""C05 — decoded payloads are JSON-able, deterministic, element-wise and index-consistent."""

from __future__ import annotations

import json
import os
import random
import re
from datetime import datetime as dt, timedelta as td

from .. import gen, regen, rt
from ..common import Check, Diff, Model, esc, exn_tag, frac_str

MODELLED: tuple = ()  # the codes whose parser is in the Lean model: asked of the driver (decode.codes) at the start of a run
ARRAY_CODES = {"0009": 3, "000A": 6, "2309": 3, "30C9": 3, "2249": 7, "22C9": 6, "3150": 2}
STAMP = dt(2024, 1, 1, 12, 0, 0)


def jesc(s: str) -> str:
    out = []
    for ch in s:
        if (ch.isascii() and ch.isalnum()) or ch in "_ .-":
            out.append(ch)
        else:
            out.append("%%%02X;" % ord(ch))
    return "".join(out)


def canon(v) -> str:
    if v is None:
        return "null"
    if v is True:
        return "true"
    if v is False:
        return "false"
    if isinstance(v, int):
        return f"i{v}"
    if isinstance(v, float):
        return "f" + frac_str(v)
    if isinstance(v, str):
        return "s" + jesc(v)
    if isinstance(v, (list, tuple)):
        return "[" + ",".join(canon(x) for x in v) + "]"
    if isinstance(v, dict):
        return "{" + ",".join(f"{k}:{x}" for k, x in sorted((jesc(str(k)), canon(x)) for k, x in v.items())) + "}"
    return f"?{type(v).__name__}"


def strip_clock(code: str, payload, pkt_dtm):
    """Remove (after checking) the fields that are a function of the packet's own timestamp."""
    bad = []

    def one(d):
        if not isinstance(d, dict):
            return d
        d = dict(d)
        if code == "2249" and "_next_setpoint" in d:
            want = (pkt_dtm + td(minutes=d["minutes_remaining"])).strftime("%H:%M:%S")
            if d.pop("_next_setpoint") != want:
                bad.append("_next_setpoint")
        if code == "1F09" and "_next_sync" in d:
            want = (pkt_dtm + td(seconds=d["remaining_seconds"])).strftime("%H:%M:%S")
            if d.pop("_next_sync") != want:
                bad.append("_next_sync")
        return d

    if isinstance(payload, list):
        return [one(x) for x in payload], bad
    return one(payload), bad


IDX_KEYS = ("zone_idx", "domain_id", "ufh_idx", "ufx_idx", "dhw_idx", "hvac_id")


def run(chk: Check) -> None:
    rt.quiet()
    from ramses_tx import exceptions as exc
    from ramses_tx.address import id_to_address, pkt_addrs
    from ramses_tx.message import Message, re_compile_re_match
    from ramses_tx.packet import Packet

    global MODELLED
    MODELLED = tuple(Model().run(["decode.codes"])[0].split(","))
    chk.extra["modelled_codes"] = list(MODELLED)
    rnd = random.Random(chk.seed)
    thorough = chk.tier == "thorough"
    N = 200000 if thorough else 14000
    pairs = gen.schema_pairs()
    by_code: dict = {}
    for c, v, p in pairs:
        by_code.setdefault(c, []).append((c, v, p))
    D = Diff(chk)
    chk.rule = (
        "frames from every verb/code payload regex under all legal address shapes (extreme class members 30 %), repo log "
        "frames, and arrays of 1-8 elements for the 7 array-capable codes; each decoded fresh, again after the whole "
        "corpus in a shuffled order, and again after clearing the library's lru caches; modelled codes are compared with "
        "the history-free Lean decode; non-trivial = distinct frame that decoded to a payload"
    )

    def decode(fr: str):
        """(canonical text or 'err\\tTag', raw payload, packet)"""
        try:
            p = Packet(STAMP, "... " + fr)
        except exc.PacketInvalid:
            return "err\tPacketInvalid", None, None
        except Exception as e:  # noqa: BLE001
            return "err\t" + exn_tag(e), None, None
        try:
            m = Message(p)
        except exc.PacketInvalid:
            return "err\tPacketInvalid", None, p
        except Exception as e:  # noqa: BLE001
            return "err\t" + exn_tag(e), None, p
        pl, bad = strip_clock(p.code, m.payload, p.dtm)
        if bad:
            chk.violation(f"clockfield:{p.code}", f"{fr!r}: {bad} is not (packet time + payload value)", {"frame": fr})
        return "ok\t" + canon(pl), m.payload, p

    frames = gen.repo_log_frames(3000 if not thorough else 20000)
    for _ in range(N):
        # bias to modelled + array codes
        if rnd.random() < 0.5:
            code = rnd.choice(MODELLED)
            fr = gen.gen_schema_frame(rnd, by_code[code], extreme=rnd.random() < 0.3)
        else:
            fr = gen.gen_schema_frame(rnd, pairs, extreme=rnd.random() < 0.3)
        if fr:
            frames.append(fr)
    # every temperature-bearing code at the ends of the 16-bit word: sentinels, the sign boundary, absolute zero
    WORDS = ("0000", "0001", "7FFE", "7FFF", "7EFF", "7EFE", "8000", "8001", "954D", "954E", "954C", "FFFF", "31FF", "3200", "09F6", "FF9C")
    for w in WORDS:
        for fr in (f" I --- 01:145038 --:------ 01:145038 30C9 003 00{w}", f" I --- 04:111111 --:------ 04:111111 30C9 003 00{w}",
                   f" I --- 01:145038 --:------ 01:145038 30C9 006 00{w}01{w}", f" I --- 01:145038 --:------ 01:145038 2309 003 02{w}",
                   f"RP --- 01:145038 18:006402 --:------ 2309 003 02{w}", f" I --- 07:045960 --:------ 07:045960 1260 003 00{w}",
                   f"RP --- 01:145038 18:006402 --:------ 10A0 006 00{w}00{w}", f"RP --- 10:067219 18:006402 --:------ 3200 003 00{w}",
                   f"RP --- 10:067219 18:006402 --:------ 3210 003 00{w}", f"RP --- 10:067219 18:006402 --:------ 22D9 003 00{w}",
                   f"RP --- 10:067219 18:006402 --:------ 1300 003 00{w}", f"RP --- 10:067219 18:006402 --:------ 12F0 003 00{w}",
                   f"RP --- 10:067219 18:006402 --:------ 1290 003 00{w}", f" I --- 32:155617 --:------ 32:155617 1290 003 00{w}",
                   f"RP --- 01:145038 18:006402 --:------ 000A 006 0110{w}{w}", f"RP --- 01:145038 18:006402 --:------ 2349 007 01{w}00FFFFFF",
                   f" I --- 17:005567 --:------ 17:005567 0002 004 00{w}01", f"RP --- 13:237335 18:006402 --:------ 1100 008 00180400007FFF01"[:57] + f"{w}01",
                   f" I --- 01:145038 --:------ 01:145038 2249 007 00{w}{w}0000", f" I --- 02:044328 --:------ 02:044328 22C9 006 00{w}{w}01"):
            frames.append(fr)
    # arrays of 1..8 elements, from the proper senders and from others
    elems_of: dict = {}
    for code, el in ARRAY_CODES.items():
        pat = dict((v, p) for c, v, p in by_code[code]).get(" I")
        for _ in range(150 if not thorough else 3000):
            n = rnd.randint(1, 8)
            els = []
            for k in range(n):
                e = None
                for _t in range(20):
                    cand = regen.gen_payload(pat, rnd, extreme=rnd.random() < 0.3) if pat else None
                    if cand and len(cand) >= 2 * el:
                        e = f"{k:02X}" + cand[2:2 * el]
                        if code == "22C9":
                            e = e[:10] + rnd.choice(("01", "02"))
                        break
                if e is None:
                    e = f"{k:02X}" + "".join(rnd.choice(rt.HEX) for _ in range(2 * el - 2))
                els.append(e)
            payload = "".join(els)
            if len(payload) > 96:
                continue
            src = {"22C9": "02:044328", "3150": "02:044328", "2249": "23:100224"}.get(code, rnd.choice(("01:145038", "01:223036")))
            if rnd.random() < 0.1:
                src = rnd.choice(("04:056053", "12:126457", "13:237335"))
            fr = f" I --- {src} --:------ {src} {code} {len(payload) // 2:03d} {payload}"
            frames.append(fr)
            elems_of[fr] = (code, src, els)

    # ---- pass 1: fresh decode (+ model for modelled codes) -------------------------------------------------------
    first: dict[str, str] = {}
    raw: dict[str, object] = {}
    for fr in frames:
        if fr in first:
            continue
        chk.evaluations += 1
        out, payload, p = decode(fr)
        first[fr] = out
        raw[fr] = payload
        code = fr[37:41]
        chk.count(("modelled." if code in MODELLED else "other.") + out.split("\t")[0] + (":" + out.split("\t")[1] if out.startswith("err") else ""))
        if out.startswith("err") and out != "err\tPacketInvalid":
            chk.violation(f"decode.escape:{out[4:]}:{code}", f"decoding {fr!r} raised {out[4:]}", {"frame": fr})
        if code in MODELLED:
            D.add("decode", [esc(fr)], out)
            chk.count(f"modelled.{code}." + ("ok" if out.startswith("ok") else "err"))
        if not out.startswith("ok"):
            continue
        chk.nontrivial.add(fr)
        # JSON-able
        try:
            txt = json.dumps(payload)
            back = json.loads(txt)
            if canon(_tuples_to_lists(payload)) != canon(back):
                chk.violation(f"json.roundtrip:{code}", f"{fr!r}: payload does not survive json dumps/loads", {"frame": fr})
        except (TypeError, ValueError) as e:
            chk.violation(f"json:{code}", f"{fr!r}: payload is not JSON-serialisable: {e}", {"frame": fr})
        # ranges and index consistency
        for d in payload if isinstance(payload, list) else [payload]:
            if not isinstance(d, dict):
                continue
            for k, v in d.items():
                if isinstance(v, float) and ("demand" in k or k in ("relay_demand", "battery_level", "modulation_level")) and not 0 <= v <= 1:
                    chk.violation(f"range.ratio:{code}:{k}", f"{fr!r}: {k}={v}", {"frame": fr})
                if isinstance(v, float) and ("temp" in k or k in ("setpoint",)) and code in MODELLED and not -273.15 <= v <= 327.67:
                    chk.violation(f"range.temp:{code}:{k}", f"{fr!r}: {k}={v}", {"frame": fr})
        _check_idx(chk, fr, payload)

    # ---- arrays are element-wise ------------------------------------------------------------------------------------
    from ramses_tx.ramses import CODES_WITH_ARRAYS

    senders = {str(c): v[1] for c, v in CODES_WITH_ARRAYS.items()}
    for fr, (code, src, els) in elems_of.items():
        if not first[fr].startswith("ok") or not isinstance(raw[fr], list):
            continue
        chk.evaluations += 1
        got, _b = strip_clock(code, raw[fr], STAMP)
        # the model's element decoder against the k-th element of the real array decode
        if len(got) == len(els):
            for e, g in zip(els, got):
                D.add("decode.elem", [code, str(src[:2] == "02"), e], "ok\t" + canon(g))
        else:
            chk.violation(f"array.length:{code}", f"{fr!r}: {len(els)} elements decoded to {len(got)}", {"frame": fr})
        if src[:2] not in senders.get(code, ()):
            chk.count("array.improper_sender_skipped")
            continue
        # the property itself: each element on its own (a one-element packet from the same sender)
        want = []
        ok = True
        for e in els:
            single = f" I --- {src} --:------ {src} {code} {len(e) // 2:03d} {e}"
            o, pl, _ = decode(single)
            if not o.startswith("ok"):
                ok = False
                break
            want.append(pl[0] if isinstance(pl, list) and len(pl) == 1 else pl)
        if not ok:
            chk.count("array.element_alone_rejected")
            continue
        want = [strip_clock(code, w, STAMP)[0] for w in want]
        if canon(got) != canon(want):
            chk.violation(f"array.elementwise:{code}", f"{fr!r} decodes to {canon(got)} but its elements one by one to {canon(want)}",
                          {"frame": fr, "elements": els})
        chk.count("array.checked." + code)

    # ---- pass 2/3: same packets, other histories -----------------------------------------------------------------------
    order = list(first)
    rnd.shuffle(order)
    for phase in ("shuffled", "cache-cleared"):
        if phase == "cache-cleared":
            for fn in (pkt_addrs, id_to_address, re_compile_re_match):
                fn.cache_clear()
            order.reverse()
        for fr in order:
            chk.evaluations += 1
            out, _, _ = decode(fr)
            if out != first[fr]:
                chk.violation(f"determinism:{fr[37:41]}", f"{fr!r} decoded to {first[fr]!r} at first and {out!r} later ({phase})",
                              {"frame": fr, "phase": phase, "order_seed": chk.seed})
    chk.sample({"frame": frames[0], "decoded": first[frames[0]]})
    arrs = [f for f in elems_of if first[f].startswith("ok")]
    if arrs:
        chk.sample({"frame": arrs[0], "decoded": first[arrs[0]][:300]})
    D.run()
    # where the history-free model and the implementation part, the search for a failing input starts: the same frame decoded
    # by a fresh process (no packet before it) - if that differs from what this process made of it, the decode depends on what
    # was decoded before, and the frame (after this run's frames) is the failing input
    import subprocess
    import sys as _sys

    from ..common import REPO, unesc

    tried = 0
    for dv in list(chk.corr_divergences):
        if dv.get("op") != "decode" or tried >= 6:
            continue
        fr = unesc(str(dv["input"]).split("\t")[1]) if "\t" in str(dv["input"]) else None
        if fr is None or fr not in first:
            continue
        tried += 1
        code = ("import sys; sys.path.insert(0, '/verif'); from harness import common; common.import_repo(); from harness import rt; rt.quiet();"
                "from ramses_tx.packet import Packet; from ramses_tx.message import Message; from harness.props.c05 import canon, strip_clock, STAMP;"
                "p = Packet(STAMP, '... ' + sys.argv[1]); m = Message(p); print('ok\\t' + canon(strip_clock(p.code, m.payload, p.dtm)[0]))")
        try:
            r = subprocess.run([_sys.executable, "-c", code, fr], capture_output=True, text=True, timeout=60, env={**os.environ, "VERIF_REPO": str(REPO)})
        except Exception:  # noqa: BLE001
            continue
        alone = r.stdout.strip().splitlines()[-1] if r.returncode == 0 and r.stdout.strip() else None
        if alone is not None and alone.startswith("ok\t") and alone != first[fr]:
            chk.violation(f"determinism.fresh_process:{fr[37:41]}", f"{fr!r} decodes to {alone[:200]!r} in a fresh process and to {first[fr][:200]!r} after the "
                          f"other frames of this run", {"frame": fr, "phase": "fresh-process", "order_seed": chk.seed})


def _tuples_to_lists(v):
    if isinstance(v, (list, tuple)):
        return [_tuples_to_lists(x) for x in v]
    if isinstance(v, dict):
        return {k: _tuples_to_lists(x) for k, x in v.items()}
    return v


def _check_idx(chk: Check, fr: str, payload) -> None:
    code, pl = fr[37:41], fr[46:]
    ds = payload if isinstance(payload, list) else [payload]
    if isinstance(payload, list) and code in ARRAY_CODES:
        el = ARRAY_CODES[code] * 2
        carried = [pl[i:i + 2] for i in range(0, len(pl), el)]
    else:
        carried = None
    for n, d in enumerate(ds):
        if not isinstance(d, dict):
            continue
        for k in IDX_KEYS:
            if k in d and isinstance(d[k], str):
                if carried is not None:
                    ok = n < len(carried) and d[k] == carried[n]
                elif code == "000C":
                    ok = True  # complex index, derived from payload[0:4] (checked in C06's header model)
                elif code == "0404":
                    ok = d[k] in (pl[:2], "HW")
                else:
                    ok = d[k] == pl[:2]
                if not ok:
                    chk.violation(f"idx:{code}:{k}", f"{fr!r}: reports {k}={d[k]!r}, not the index carried in the frame", {"frame": fr})


def replay(chk: Check, path: str) -> int:
    r = json.load(open(path))
    print(json.dumps(r, indent=1)[:3000])
    run(chk)
    return chk.finish()
