"""C15 — the schema is always well-formed, re-loadable and structurally consistent.

(A) `Child.set_parent` on real entities of a real gateway (2 controllers, a UFH controller, TRVs,
    relays, an OTB, DHW sensors, thermostats, an outdoor sensor, an HVAC device) under seeded call
    sequences over every kind of parent object and child id; result classes and the resulting
    parent / child_id / controller / zone sensors vs the Lean model `Topo.setParent`.
(B) histories (as C13) with eavesdropping on/off and max_zones 1..16: at checkpoints the library's
    own validator must accept shrink(gwy.schema); a fresh gateway built from it must report the
    same schema; a walk over devices / systems / zones must find every device under at most one
    parent and controller, every zone with at most one sensor and an index below max_zones, and
    parents and children agreeing about each other.  Validator-accepted generated schemas are
    loaded and must come back unchanged.
"""

from __future__ import annotations

import asyncio
import json
import random

from .. import gen, gwrig, rt
from ..common import Check, Model
from . import c13

CTLS = ["01:145038", "01:223036"]
UFC = "02:000001"
DEVS = {
    "04:000001": "trv", "04:000002": "trv", "04:000003": "trv", "13:000001": "bdr", "13:000002": "bdr", "13:000003": "bdr",
    "10:000001": "otb", "07:000001": "dhwSensor", "07:000002": "dhwSensor", "34:000001": "thm", "34:000002": "thm",
    "22:000001": "thm", "17:000001": "outSensor", "30:000001": "other", UFC: "ufc", CTLS[0]: "ctl", CTLS[1]: "ctl",
}
PRE_ZONES = ["00", "01", "02"]
CHILD_IDS = [None, "00", "01", "02", "03", "0B", "0C", "0F", "F9", "FA", "FC", "FF", "HW", ""]


def par_str(p) -> str:
    from ramses_rf.device import UfhController
    from ramses_rf.system import DhwZone, Evohome, Zone

    if p is None:
        return "None"
    if isinstance(p, Evohome):
        return f"T:{p.ctl.id}"
    if isinstance(p, DhwZone):
        return f"D:{p.ctl.id}"
    if isinstance(p, Zone):
        return f"Z:{p.ctl.id}/{p.idx}"
    if isinstance(p, UfhController):
        return f"U:{p.id}"
    return f"?{type(p).__name__}"


def res_class(e: BaseException | None) -> str:
    from ramses_rf import exceptions as exc

    if e is None:
        return "ok"
    if isinstance(e, exc.SystemSchemaInconsistent):
        return "SSI"
    for cls, tag in ((AssertionError, "AssertionError"), (TypeError, "TypeError"), (ValueError, "ValueError")):
        if isinstance(e, cls):
            return tag
    return "Other:" + type(e).__name__


async def part_a_episode(loop, calls, max_zones) -> dict:
    rig = gwrig.Rig(loop, config={"max_zones": max_zones})
    await rig.start()
    g = rig.gwy
    dev = {d: g.get_device(d) for d in DEVS}
    tcs_of = {c: dev[c].tcs for c in CTLS}   # (set_parent overwrites a controller's own .tcs when it becomes another's zone sensor)
    for c in CTLS:
        tcs = tcs_of[c]
        for z in PRE_ZONES:
            if int(z, 16) < max_zones:
                tcs.get_htg_zone(z)
        tcs.get_dhw_zone()
    results = []
    silent = []
    for d, req, cid, sen in calls:
        kind, _, rest = req.partition(":")
        try:
            if kind == "O":
                parent = dev["04:000003"]
            elif kind == "C":
                parent = dev[rest]
            elif kind == "T":
                parent = tcs_of[rest]
            elif kind == "D":
                parent = tcs_of[rest].get_dhw_zone()
            elif kind == "U":
                parent = dev[rest]
            else:
                c, idx = rest.split("/")
                parent = tcs_of[c].zone_by_idx[idx]
            dev[d].set_parent(parent, child_id=cid, is_sensor=sen)
            results.append("ok")
            # the property, directly: a call that was NOT refused must have put the device under the parent asked for
            got = par_str(dev[d]._parent)
            want = par_str(parent)
            if kind in ("C", "T"):
                c_eff = parent.tcs.ctl.id if kind == "C" else parent.ctl.id
                cid_eff = "FF" if DEVS[d] == "ufc" else cid
                if cid_eff in ("F9", "FA"):
                    want = f"D:{c_eff}"
                elif cid_eff and int(cid_eff, 16) < max_zones:
                    want = f"Z:{c_eff}/{cid_eff}"
                else:
                    want = f"T:{c_eff}"
            if got != want:
                silent.append((len(results) - 1, d, req, cid, sen, got, want))
        except Exception as e:  # noqa: BLE001
            results.append(res_class(e))
    state = []
    for d in DEVS:
        x = dev[d]
        ctl = getattr(x, "ctl", None)
        state.append(f"{d}={par_str(x._parent)}/{x._child_id if x._child_id is not None else '-'}/{ctl.id if ctl is not None else '-'}")
    sensors = {}
    for c in CTLS:
        tcs = tcs_of[c]
        for z in tcs.zones:
            if z.sensor:
                sensors[f"Z:{c}/{z.idx}"] = z.sensor.id
        if tcs.dhw and tcs.dhw._dhw_sensor:
            sensors[f"D:{c}"] = tcs.dhw._dhw_sensor.id
    # the walk: children lists agree with the children's own view
    walk_errors = graph_walk(g, max_zones)
    await rig.stop()
    return {"results": results, "state": state, "sensors": sensors, "walk": walk_errors, "silent": silent}


def graph_walk(g, max_zones) -> list[str]:
    """Structural consistency, read off the live objects."""
    errs = []
    owner: dict[str, set] = {}
    for tcs in g.systems:
        for z in tcs.zones:
            try:
                if int(z.idx, 16) >= max_zones:
                    errs.append(f"zone {z.id} has index >= max_zones {max_zones}")
            except ValueError:
                errs.append(f"zone {z.id} has a non-hex index")
            if z.sensor is not None:
                owner.setdefault(z.sensor.id + "/sensor", set()).add(z.id)
                if z.sensor._parent is not z and z.sensor is not tcs.ctl:
                    # a controller (or a device that is also an actuator elsewhere) may be a zone's sensor
                    if z.sensor._parent is not None and getattr(z.sensor._parent, "ctl", None) is not tcs.ctl:
                        errs.append(f"sensor {z.sensor.id} of zone {z.id} belongs to another controller's {par_str(z.sensor._parent)}")
            for a in z.actuators:
                owner.setdefault(a.id + "/actuator", set()).add(z.id)
                if a._parent is not z:
                    errs.append(f"actuator {a.id} is listed by zone {z.id} but its parent is {par_str(a._parent)}")
    for k, v in owner.items():
        if len(v) > 1 and k.endswith("/actuator"):
            errs.append(f"{k} is listed by {sorted(v)}")
    from ramses_rf.device import Controller

    # domain roles: appliance control, DHW sensor, hot-water valve, heating valve
    claimed: dict[str, list[str]] = {}
    for tcs in g.systems:
        roles = [("appliance_control", tcs, getattr(tcs, "_app_cntrl", None))]
        if tcs.dhw:
            roles += [("dhw_sensor", tcs.dhw, tcs.dhw._dhw_sensor), ("hotwater_valve", tcs.dhw, tcs.dhw._dhw_valve), ("heating_valve", tcs.dhw, tcs.dhw._htg_valve)]
        for role, parent, dev_ in roles:
            if dev_ is None:
                continue
            claimed.setdefault(dev_.id, []).append(f"{role} of {tcs.id}")
            if dev_._parent is not parent:
                errs.append(f"role {role} of {tcs.id} is held by {dev_.id}, whose own parent is {par_str(dev_._parent)}")
    for dev_id, cl in claimed.items():
        if len({c.split(' of ')[1] for c in cl}) > 1:
            errs.append(f"device {dev_id} is claimed by two controllers: {cl}")
    for d in g.devices:
        if isinstance(d, Controller) and (d.tcs is None or d.tcs.ctl is not d):
            errs.append(f"controller {d.id} lost its own system: .tcs is {getattr(d.tcs, 'id', None)}'s (it was given a parent)")
    # the parents' own lists of children are the inverse of the children's `_parent` (the model keeps the latter only)
    parents = []
    for tcs in g.systems:
        parents += [tcs, *tcs.zones] + ([tcs.dhw] if tcs.dhw else [])
    parents += [d for d in g.devices if hasattr(d, "childs") and hasattr(d, "child_by_id")]
    seen_parents = set()
    for p in parents:
        if id(p) in seen_parents:
            continue
        seen_parents.add(id(p))
        kids = list(getattr(p, "childs", []))
        # (a device that is both sensor and actuator of a zone is appended twice: the same child, no second parent)
        for k in kids:
            if getattr(k, "_parent", None) is not p and hasattr(k, "_parent") and not par_str(p).startswith("U:"):
                errs.append(f"children: {par_str(p)} lists {k.id} as a child, but {k.id}'s parent is {par_str(k._parent)}")
        if set(getattr(p, "child_by_id", {})) != {k.id for k in kids}:
            errs.append(f"children: {par_str(p)}: child_by_id {sorted(p.child_by_id)} != childs {sorted(k.id for k in kids)}")
    for d in g.devices:
        p = d._parent
        if p is not None and hasattr(p, "childs") and d not in p.childs:
            errs.append(f"children: {d.id} has parent {par_str(p)}, which does not list it among its children")
    # a device whose parent is a zone holds a role in that zone: it is the zone's sensor or one of its actuators
    from ramses_rf.system.zones import Zone

    for d in g.devices:
        p = d._parent
        if isinstance(p, Zone) and d is not p.sensor and d not in p.actuators:
            errs.append(f"stray: {d.id} has zone {p.id} as its parent, whose sensor is {getattr(p.sensor, 'id', None)} and whose actuators are {sorted(a.id for a in p.actuators)}")
    for d in g.devices:
        p = d._parent
        if p is not None:
            ctl = p if par_str(p).startswith("U:") else p.ctl
            if getattr(d, "ctl", None) is not ctl and d is not ctl:
                errs.append(f"device {d.id}: parent {par_str(p)} but controller {getattr(d.ctl, 'id', None)}")
    return errs


def part_a(chk: Check, rnd: random.Random, thorough: bool) -> None:
    n = 400 if thorough else 60
    reqs, impl, meta = [], [], []
    for _ in range(n):
        max_zones = rnd.choice((12, 12, 12, 2, 3, 16, 1))
        calls = []
        for _ in range(rnd.randint(3, 14)):
            d = rnd.choice(list(DEVS))
            c = rnd.choice(CTLS)
            r = rnd.random()
            if r < 0.35:
                req = f"C:{c}"
            elif r < 0.5:
                req = f"T:{c}"
            elif r < 0.75:
                zs = [z for z in PRE_ZONES if int(z, 16) < max_zones]
                req = f"Z:{c}/{rnd.choice(zs)}" if zs else f"T:{c}"
            elif r < 0.87:
                req = f"D:{c}"
            elif r < 0.95:
                req = f"U:{UFC}"
            else:
                req = "O"
            cid = rnd.choice(CHILD_IDS)
            sen = rnd.choice((None, False, True, True))
            if calls and rnd.random() < 0.3:
                # the same claim made again through the other controller / another zone (a second parent for the device)
                d0, req0, cid0, sen0 = rnd.choice(calls)
                other = CTLS[1] if CTLS[0] in req0 else CTLS[0]
                d, cid, sen = d0, cid0, sen0
                req = req0.replace(CTLS[0], "@").replace(CTLS[1], CTLS[0]).replace("@", CTLS[1]) if rnd.random() < 0.7 else f"C:{other}"
            calls.append((d, req, cid, sen))
        zs = [z for z in PRE_ZONES if int(z, 16) < max_zones]
        if len(zs) >= 2 and rnd.random() < 0.3:
            # directed: a controller (its built-in sensor) is named sensor of one of its own zones - and then of another one
            c = rnd.choice(CTLS)
            z1, z2 = rnd.sample(zs, 2)
            k = rnd.randrange(len(calls) + 1)
            calls.insert(k, (c, f"Z:{c}/{z1}", z1, True))
            calls.insert(rnd.randrange(k + 1, len(calls) + 1), (c, f"Z:{c}/{z2}", z2, True))

        async def body(loop, calls=calls, max_zones=max_zones):
            return await part_a_episode(loop, calls, max_zones)

        res, _ = gwrig.run(body)
        chk.evaluations += 1
        chk.nontrivial.add(("A", max_zones, tuple(calls)))
        rep = {"op": "set_parent", "max_zones": max_zones, "calls": calls}
        for r in res["results"]:
            chk.count("set_parent." + r)
        if any(r.startswith("Other") for r in res["results"]):
            chk.violation("c15.set_parent.unexpected:" + next(r for r in res["results"] if r.startswith("Other")), f"set_parent raised {res['results']}", rep)
        for w in res["walk"][:1]:
            chk.violation("c15.walk:" + w.split(" ")[0], f"after {len(calls)} set_parent calls: {w}", rep)
        for k, d, req, cid, sen, got, want in res["silent"][:1]:
            chk.violation("c15.set_parent.silent", f"call {k}: {d}.set_parent({req}, child_id={cid!r}, is_sensor={sen}) was accepted without error, "
                          f"but the device is under {got}, not {want}: the conflicting claim was neither applied nor reported", rep)
        devs = ";".join(f"{d}={k}" for d, k in DEVS.items())
        zones = ";".join(f"{c}/{z}" for c in CTLS for z in PRE_ZONES if int(z, 16) < max_zones)
        line = ";".join(f"{d}|{req}|{'-' if cid is None else cid}|{'True' if sen else 'False'}" for d, req, cid, sen in calls)
        reqs.append(f"topo.run\t{max_zones}\t{devs}\t{zones}\t{line}")
        impl.append("ok\t" + ",".join(res["results"]) + "\t" + ";".join(res["state"]) + "\t" + ";".join(f"{k}={v}" for k, v in sorted(res["sensors"].items())))
        meta.append(rep)
    outs = Model().run(reqs)
    for a, b, m in zip(impl, outs, meta):
        pa, pb = a.split("\t"), b.split("\t")
        if len(pb) >= 4:
            pb[3] = ";".join(sorted(pb[3].split(";"))) if pb[3] else ""
        if len(pb) == 3:
            pb.append("")
        if pa != pb:
            k = next((i for i, (x, y) in enumerate(zip(pa[1].split(","), (pb[1] if len(pb) > 1 else "").split(","))) if x != y), None)
            chk.divergence("topo.run", {**m, "first_diff_call": k}, "\t".join(pa)[:1500], "\t".join(pb)[:1500])
    chk.extra["model_ops_compared"] = chk.extra.get("model_ops_compared", 0) + len(reqs)


# ---------------------------------------------------------------------------------------------


async def part_b_episode(loop, history, gaps, eavesdrop, max_zones, checkpoints) -> dict:
    from ramses_rf.helpers import shrink
    from ramses_rf.schemas import SCH_GLOBAL_SCHEMAS

    rig = gwrig.Rig(loop, config={"enable_eavesdrop": eavesdrop, "max_zones": max_zones})
    await rig.start()
    g = rig.gwy
    out = {"cases": []}
    for i, fr in enumerate(history):
        await asyncio.sleep(gaps[i])
        await rig.feed(fr)
        if i not in checkpoints:
            continue
        case = {"at": i}
        try:
            schema = g.schema
        except Exception as e:  # noqa: BLE001
            case["schema_error"] = repr(e)
            out["cases"].append(case)
            continue
        case["schema"] = schema
        try:
            SCH_GLOBAL_SCHEMAS(shrink(json.loads(json.dumps(schema))))
        except Exception as e:  # noqa: BLE001
            case["validator"] = repr(e)[:300]
        case["walk"] = graph_walk(g, max_zones)
        rigB = gwrig.Rig(loop, config={"enable_eavesdrop": False, "max_zones": max_zones}, schema=json.loads(json.dumps(schema)))
        try:
            await rigB.start()
            case["schemaB"] = rigB.gwy.schema
            await rigB.stop()
        except Exception as e:  # noqa: BLE001
            case["reload_error"] = repr(e)[:300]
        out["cases"].append(case)
    await rig.stop()
    return out


def strip_orphans(s: dict) -> dict:
    """Orphans appear in a schema only while they are `present` (recently heard); a gateway rebuilt from a schema has
    heard nothing yet, so the orphan lists are compared by inclusion (B may list what A listed)."""
    from ramses_rf.helpers import shrink

    s = json.loads(json.dumps(s))
    for v in s.values():
        if isinstance(v, dict):
            v.pop("underfloor_heating", None)     # UFH controllers/circuits are not in the property's reload list (and load_tcs does not load circuits)
            v.pop("orphans", None)                # nor is a controller's orphans list (a UFC listed there is adopted as a UFH controller on loading)
    s = shrink(s)
    return {k: v for k, v in s.items() if not k.startswith("orphans_")}


def part_b(chk: Check, rnd: random.Random, thorough: bool) -> None:
    from ramses_tx.ramses import CODES_SCHEMA

    logs = gwrig.load_logs()
    regex_of = {(str(c), v): sch[v] for c, sch in CODES_SCHEMA.items() for v in (" I", "RQ", "RP", " W") if v in sch}
    pairs = gen.schema_pairs()
    n = 400 if thorough else 45
    # corpus (runs first): what a controller says of one zone over time - a sensor, "no sensor" (the empty reply), another
    # sensor; actuators, none, others - each device keeps one parent and each zone lists what points at it
    C0 = "01:145038"
    mk = [f"RP --- {C0} 18:006402 --:------ 000C 006 0108001099C3", f"RP --- {C0} 18:006402 --:------ 000C 006 0208001099C5"]   # (zones 01, 02 exist)
    corpus = [
        mk + [f"RP --- {C0} 18:006402 --:------ 000C 006 010400896853", f"RP --- {C0} 18:006402 --:------ 000C 006 01047FFFFFFF",
         f"RP --- {C0} 18:006402 --:------ 000C 006 01040089685A", f" I --- {C0} --:------ {C0} 1F09 003 FF0532"],
        mk + [f"RP --- {C0} 18:006402 --:------ 000C 006 01040089685A", f"RP --- {C0} 18:006402 --:------ 000C 006 020400896853",
         f"RP --- {C0} 18:006402 --:------ 000C 006 02047FFFFFFF", f"RP --- {C0} 18:006402 --:------ 000C 006 010400896853"],
        [f"RP --- {C0} 18:006402 --:------ 000C 012 0108001099C30108001099C4", f"RP --- {C0} 18:006402 --:------ 000C 006 01087FFFFFFF",
         f"RP --- {C0} 18:006402 --:------ 000C 006 0208001099C3"],
    ]
    # ... and an underfloor controller answering for its circuits: two bound to zones, one not bound
    corpus.append(["RP --- 02:044328 18:006402 --:------ 0005 004 00090007", "RP --- 02:044328 18:006402 --:------ 000C 006 0009080520F8",
                   "RP --- 02:044328 18:006402 --:------ 000C 006 0109070520F8", "RP --- 02:044328 18:006402 --:------ 000C 006 03097FFFFFFF",
                   " I --- 01:073976 --:------ 01:073976 1F09 003 FF0532"])
    for ep in range(n + len(corpus)):
        h = gwrig.mutate_history(rnd, logs, max_len=120 if thorough else 80) if ep >= len(corpus) else list(corpus[ep])
        rate = rnd.choice((0.0, 0.05, 0.15, 0.4)) if ep >= len(corpus) else 0.0
        h = [c13.mutate_fields(rnd, f, regex_of) if rnd.random() < rate else f for f in h]
        for _ in range(rnd.randrange(0, 4) if ep >= len(corpus) else 0):
            h.insert(rnd.randrange(len(h) + 1), rnd.choice(c13.SPECIALS))
        for _ in range(rnd.randrange(0, 4) if ep >= len(corpus) else 0):
            f = gen.gen_schema_frame(rnd, pairs, extreme=True)
            if f:
                h.insert(rnd.randrange(len(h) + 1), f)
        if not h:
            continue
        gaps = [rnd.choice((0.05, 0.5, 2.0, 30.0)) for _ in h]
        cps = sorted(set(rnd.sample(range(len(h)), min(len(h), rnd.randint(2, 4))) + [len(h) - 1]))
        eav = rnd.random() < 0.5
        max_zones = rnd.choice((12, 12, 12, 12, 8, 4, 1, 16, 13))
        if ep < len(corpus):
            cps, eav, max_zones = list(range(len(h))), False, 12

        async def body(loop, h=h, gaps=gaps, eav=eav, max_zones=max_zones, cps=cps):
            return await part_b_episode(loop, h, gaps, eav, max_zones, set(cps))

        try:
            res, _ = gwrig.run(body)
        except Exception as e:  # noqa: BLE001
            chk.violation(f"c15.run_died:{type(e).__name__}", f"the run itself raised {e!r}", {"op": "history", "history": h})
            continue
        rep0 = {"op": "history", "history": h, "gaps": gaps, "eavesdrop": eav, "max_zones": max_zones, "checkpoints": cps}
        for case in res["cases"]:
            chk.evaluations += 1
            rep = {**rep0, "at": case["at"]}
            chk.nontrivial.add(("B", tuple(h), case["at"], max_zones, eav))
            chk.count(f"max_zones.{max_zones}")
            if "schema_error" in case:
                chk.violation("c15.schema.raises:" + case["schema_error"].split("(")[0], f"gwy.schema raised {case['schema_error']}", rep)
                continue
            if "validator" in case:
                big = max_zones > 12
                chk.violation("c15.validator.max_zones_gt_12" if big and ("0C" in json.dumps(case["schema"]) or "0D" in json.dumps(case["schema"]) or "0E" in json.dumps(case["schema"]) or "0F" in json.dumps(case["schema"]) or "length" in case["validator"]) else "c15.validator",
                              f"the library's validator rejects the reported schema: {case['validator']}", {**rep, "schema": case["schema"]})
                continue
            for w in case["walk"][:1]:
                chk.violation("c15.walk:" + w.split(" ")[0], f"after packet {case['at']}: {w}", rep)
            if "reload_error" in case:
                js = json.dumps(case["schema"])
                big = max_zones > 12 and any(f'"{z}":' in js for z in ("0C", "0D", "0E", "0F")) and "MultipleInvalid" in case["reload_error"]
                chk.violation("c15.validator.max_zones_gt_12" if big else "c15.reload.raises:" + case["reload_error"].split("(")[0], f"a fresh gateway refuses the reported schema: {case['reload_error']}", {**rep, "schema": case["schema"]})
            elif strip_orphans(case["schema"]) != strip_orphans(case["schemaB"]):
                chk.violation("c15.reload.differs", f"a fresh gateway built from the reported schema reports another one: {json.dumps(strip_orphans(case['schema']))[:400]} vs {json.dumps(strip_orphans(case['schemaB']))[:400]}", rep)


# ---------------------------------------------------------------------------------------------
# (C) generated schemas, loaded as configuration


def gen_schema(rnd: random.Random) -> dict:
    """1-3 controllers, 0-12 zones each (any class, sensor of a permitted type incl. the controller, 0-4 actuators),
    DHW parts, appliance control, orphans; a device is used once."""
    n = [0]

    def dev(t: str) -> str:
        n[0] += 1
        return f"{t}:{n[0]:06d}"

    schema: dict = {}
    # (a controller is an 01: or - the validator's ^(01|23): - a 23: programmer)
    ctls = [f"{rnd.choice(('01', '01', '01', '23'))}:{100000 + 1111 * k:06d}" for k in range(rnd.choice((1, 1, 2, 3)))]
    schema["main_tcs"] = ctls[0]
    for c in ctls:
        tcs: dict = {}
        r = rnd.random()
        if r < 0.6:
            tcs["system"] = {"appliance_control": dev(rnd.choice(("10", "13")))}
        zones = {}
        ctl_is_sensor = False
        for idx in sorted(rnd.sample(range(12), rnd.choice((0, 1, 2, 4, 8, 12)))):
            cls = rnd.choice(("radiator_valve", "zone_valve", "electric_heat", "mixing_valve", "underfloor_heating"))
            z: dict = {"class": cls}
            rs = rnd.random()
            if rs < 0.25 and not ctl_is_sensor:
                z["sensor"] = c            # (the controller can be the sensor of one zone only)
                ctl_is_sensor = True
            elif rs < 0.8:
                z["sensor"] = dev(rnd.choice(("34", "22", "12", "04", "03")))
            acts_t = {"radiator_valve": "04", "zone_valve": "13", "electric_heat": "13", "mixing_valve": "30", "underfloor_heating": "02"}[cls]
            if cls == "mixing_valve":
                acts_t = "13"
            if cls != "underfloor_heating":
                z["actuators"] = [dev(acts_t) for _ in range(rnd.choice((0, 1, 1, 2, 4)))]
            zones[f"{idx:02X}"] = z
        tcs["zones"] = zones
        if rnd.random() < 0.5:
            hw = {}
            if rnd.random() < 0.8:
                hw["sensor"] = dev("07")
            if rnd.random() < 0.6:
                hw["hotwater_valve"] = dev("13")
            if rnd.random() < 0.4:
                hw["heating_valve"] = dev("13")
            tcs["stored_hotwater"] = hw
        if rnd.random() < 0.1:
            tcs["orphans"] = [dev(rnd.choice(("13", "04", "34", "02"))) for _ in range(rnd.randint(1, 2))]
        schema[c] = tcs
    if rnd.random() < 0.4:
        schema["orphans_heat"] = [dev(rnd.choice(("04", "13", "22"))) for _ in range(rnd.randint(1, 3))]
    if rnd.random() < 0.3:
        schema["orphans_hvac"] = [dev(rnd.choice(("32", "37", "29"))) for _ in range(rnd.randint(1, 2))]
    return schema


def part_c(chk: Check, rnd: random.Random, thorough: bool) -> None:
    from ramses_rf.helpers import shrink
    from ramses_rf.schemas import SCH_GLOBAL_SCHEMAS

    n = 300 if thorough else 40
    for _ in range(n):
        schema = gen_schema(rnd)
        try:
            SCH_GLOBAL_SCHEMAS(json.loads(json.dumps(schema)))
        except Exception:  # noqa: BLE001  (the generator's business, not the library's)
            chk.count("generated_schema.rejected_by_validator")
            continue

        async def body(loop, schema=schema):
            rig = gwrig.Rig(loop, config={"enable_eavesdrop": False}, schema=json.loads(json.dumps(schema)))
            out = {}
            try:
                await rig.start()
            except Exception as e:  # noqa: BLE001
                return {"load_error": repr(e)[:300]}
            try:
                out["schema"] = rig.gwy.schema
            except Exception as e:  # noqa: BLE001
                out["schema_error"] = repr(e)[:300]
            out["walk"] = graph_walk(rig.gwy, 12)
            await rig.stop()
            return out

        try:
            res, _ = gwrig.run(body)
        except Exception as e:  # noqa: BLE001
            chk.violation(f"c15.config.run_died:{type(e).__name__}", f"loading a validator-accepted schema made the run raise {e!r}", {"op": "config", "schema": schema})
            continue
        chk.evaluations += 1
        chk.nontrivial.add(("config", json.dumps(schema, sort_keys=True)))
        rep = {"op": "config", "schema": schema}
        if "load_error" in res:
            if res["load_error"].split("(")[0] in ("SystemSchemaInconsistent", "SchemaInconsistent", "SystemInconsistent"):
                chk.count("config.refused_as_inconsistent")     # reported, not loaded: allowed
                continue
            ctl_orphans = any(isinstance(v, dict) and any(d[:2] != "02" for d in v.get("orphans", [])) for v in schema.values())
            chk.violation("c15.config.load_raises" + (".ctl_orphans:" if ctl_orphans and res["load_error"].startswith("TypeError") else ":") + res["load_error"].split("(")[0],
                          f"a validator-accepted schema cannot be loaded: {res['load_error']}", rep)
            continue
        if "schema_error" in res:
            chk.violation("c15.config.schema_raises", f"gwy.schema raised after loading a configuration: {res['schema_error']}", rep)
            continue
        for w in res["walk"][:1]:
            chk.violation("c15.config.walk:" + w.split(" ")[0], f"after loading a configuration: {w}", rep)
        try:
            SCH_GLOBAL_SCHEMAS(shrink(json.loads(json.dumps(res["schema"]))))
        except Exception as e:  # noqa: BLE001
            chk.violation("c15.config.validator", f"the schema reported after loading a configuration is rejected by the validator: {e!r}"[:300], rep)
            continue
        want = strip_orphans(schema)
        got = strip_orphans(res["schema"])
        if want != got:
            diff = [k for k in set(want) | set(got) if want.get(k) != got.get(k)]
            chk.violation("c15.config.not_reproduced", f"loaded {json.dumps(want.get(diff[0]))[:200]} for {diff[0]}, the gateway reports {json.dumps(got.get(diff[0]))[:200]}", rep)
        chk.count("config.zones", sum(len(v.get("zones", {})) for v in schema.values() if isinstance(v, dict)))


def run(chk: Check) -> None:
    rt.quiet()
    rnd = random.Random(chk.seed)
    thorough = chk.tier == "thorough"
    chk.rule = (
        "(A) seeded sequences of 3-14 set_parent calls over 17 real devices x {controller device, system, 3 zones, DHW zone, UFH controller, "
        "a non-parent object} x 14 child ids x is_sensor in {None, False, True}, max_zones in {1,2,3,12,16}; (B) seeded histories as C13 "
        "(logs, splices, regex-respecting mutation, specials, foreign traffic), eavesdropping on/off, max_zones in {1,4,8,12,13,16}, at 3-5 "
        "checkpoints: validator on shrink(schema), reload into a fresh gateway, graph walk; (C) generated validator-accepted schemas (1-3 "
        "controllers, 0-12 zones of any class with sensors incl. the controller and 0-4 actuators, DHW parts, appliance control, orphans) loaded as "
        "configuration: loads, reports a valid schema, the same one, graph walk; non-trivial = distinct call sequence / (history, checkpoint) / schema"
    )
    part_a(chk, rnd, thorough)
    part_b(chk, rnd, thorough)
    part_c(chk, rnd, thorough)
    chk.sample({"calls": [["04:000001", "C:01:145038", "01", None], ["04:000001", "C:01:223036", "01", None]], "expect": ["ok", "SSI"]})


def replay(chk: Check, path: str) -> int:
    r = json.load(open(path))
    print(json.dumps(r, indent=1)[:3000])
    run(chk)
    return chk.finish()
