"""C01 — reception is total: bad input is rejected cleanly and never stops the stream."""

from __future__ import annotations

import asyncio
import json
import random
from datetime import datetime as dt

from .. import gen, rt
from ..common import Check, Diff, esc, exn_tag

STAMP = "2024-01-01T12:00:00.000000"


def outcome_of_from_file(P, exc, stamp: str, line: str):
    """(canonical outcome string, exception or None) of Packet.from_file as _frame_read uses it."""
    if not line.strip():
        return "skipped", None
    try:
        p = P.from_file(stamp, line)
    except ValueError as e:
        return "ValueError", e
    except exc.PacketInvalid as e:
        return "PacketInvalid", e
    except Exception as e:  # noqa: BLE001
        return "escaped\t" + exn_tag(e), e
    ls = p._lifespan
    ls_s = "False" if ls is False else str(round(ls.total_seconds() * 1_000_000))
    return f"packet\t{esc(p._rssi)}\t{esc(str(p))}\t{ls_s}", p


def run(chk: Check) -> None:
    rt.quiet()
    from ramses_tx import exceptions as exc
    from ramses_tx import message as M
    from ramses_tx.packet import Packet
    from ramses_tx.transport import _normalise, _str

    rnd = random.Random(chk.seed)
    thorough = chk.tier == "thorough"
    N = 300000 if thorough else 12000
    pairs = gen.schema_pairs()
    D = Diff(chk)
    chk.rule = (
        "lines = RSSI + frames from the repo logs and from every verb/code payload regex (all address shapes), each also "
        "under 1-3 field-aware edits (hex flip, address digit, length field, truncation, junk), plus a malformed stream "
        "(random printable, non-ASCII, unicode digits, evofw3 chatter); file/dict/port entry points; streams through the "
        "real FileTransport and the real PortTransport._read_ready under many partitions; non-trivial = distinct line "
        "that produced a Packet on the implementation"
    )

    # record what the real parser (and the _idx merge) raised, before the fence turns it into PacketInvalid
    rec: dict = {}
    real_parse = M.parse_payload

    def parse_spy(msg):
        try:
            r = real_parse(msg)
        except Exception as e:  # noqa: BLE001
            rec["parser"] = e
            raise
        rec["parser"] = None
        rec["parsed"] = True
        return r

    M.parse_payload = parse_spy
    real_idx = M.MessageBase._idx

    def idx_spy(self):
        try:
            return real_idx.fget(self)
        except Exception as e:  # noqa: BLE001
            rec["idx"] = e
            raise

    M.MessageBase._idx = property(idx_spy)

    def check_line(stamp: str, stamp_ok: bool, line: str, kind: str) -> None:
        chk.evaluations += 1
        try:
            dt.fromisoformat(stamp)
            stamp_ok = True
        except ValueError:
            stamp_ok = False
        out, obj = outcome_of_from_file(Packet, exc, stamp, line)
        D.add("recv.file", [str(stamp_ok), esc(line)], out)
        chk.count(kind + "." + out.split("\t")[0])
        if out.startswith("escaped"):
            chk.violation(f"recv.escape:{out[8:]}:{line[4:] if kind != 'junk' else line}",
                          f"Packet.from_file({line!r}) raised {type(obj).__name__}: {obj}",
                          {"op": "recv.file", "stamp": stamp, "line": line})
            return
        if out == "ValueError":
            frame = list(Packet._partition(line))[0]
            if frame and stamp_ok:
                chk.violation(f"recv.valueerror:{line}", f"ValueError for a non-empty, datable line {line!r}: {obj}",
                              {"op": "recv.file", "stamp": stamp, "line": line})
            return
        if not out.startswith("packet"):
            return
        chk.nontrivial.add(line)
        # ---- the message stage
        rec.clear()
        try:
            M.Message(obj)
            mout = "ok"
        except exc.PacketInvalid:
            mout = "err\tPacketInvalid"
        except Exception as e:  # noqa: BLE001
            mout = "err\t" + exn_tag(e)
            chk.violation(f"msg.escape:{exn_tag(e)}:{obj.code}", f"Message({line!r}) raised {type(e).__name__}: {e}",
                          {"op": "recv.msg", "line": line})
        inner = rec.get("parser") or rec.get("idx")
        reached = "parser" in rec
        if reached:
            pout = "ok" if inner is None else exn_tag(inner)
            chk.monitor("ParserClosed (parser exceptions are inside the fence)",
                        inner is not None and exn_tag(inner) not in ("PacketInvalid", "AssertionError", "AttributeError", "LookupError", "TypeError", "ValueError", "NotImplementedError"))
        else:
            pout = "ok"  # not reached: irrelevant to the model
        D.add("recv.msg", [esc(str(obj)), pout], mout)
        chk.count("msg." + mout.replace("\t", ":"))

    # ---- corpus of lines -----------------------------------------------------------------------------------
    base = gen.repo_log_frames(3000)
    for _ in range(N // 2):
        fr = gen.gen_schema_frame(rnd, pairs, extreme=rnd.random() < 0.3)
        if fr:
            base.append(fr)
    # array-capable codes with every kind of source (the known weak spot)
    for code, el in (("0009", 3), ("000A", 6), ("2309", 3), ("30C9", 3), ("2249", 7), ("22C9", 6), ("3150", 2), ("0005", 4)):
        for _ in range(60 if not thorough else 600):
            n = rnd.choice((1, 2, 3, 4, 8))
            payload = "".join(f"{rnd.randrange(12):02X}" + "".join(rnd.choice(rt.HEX) for _ in range(2 * el - 2)) for _ in range(n))
            a0, a1, a2 = gen.gen_addr_set(rnd, " I", code)
            base.append(f" I --- {a0} {a1} {a2} {code} {len(payload) // 2:03d} {payload}")
    for n in (1, 2, 3, 4, 5, 6):
        base.append(f"RP --- 10:067219 18:006402 --:------ 3220 {n:03d} " + "00C01101AA7F"[: 2 * n])
    for fr in base:
        rssi = rnd.choice(("045", "000", "...", "099", "---"))
        check_line(STAMP, True, f"{rssi} {fr}", "valid")
        k = rnd.random()
        if k < 0.6:
            m = fr
            for _ in range(rnd.choice((1, 1, 2, 3))):
                m = rt.mutate(rnd, m)
            check_line(STAMP, True, f"{rssi} {m}", "mutant")
        elif k < 0.7:
            check_line(STAMP, True, f"{rssi} {fr} * Checksum error", "annotated")
            check_line(STAMP, True, f"{rssi} {fr} # a comment < hint", "annotated")
            check_line(STAMP, True, f"{rssi} {fr} < parser hint", "annotated")
        elif k < 0.75:
            check_line(rnd.choice(("", "garbage", "2024-13-01T00:00:00.000000", "2024-01-01 12:00", STAMP[:-1] + "x")), False, f"{rssi} {fr}", "badstamp")
    # whole-address edits: every field replaced by the null / broadcast / gateway address, a copy of another field or a
    # fresh id (all 27 null/other patterns occur, the all-null set among them)
    SPECIAL = ("--:------", "--:------", "63:262142", "18:000730")
    for fr in base[:: 7 if not thorough else 2]:
        if len(fr) < 41 or fr[16] != " " or fr[26] != " ":
            continue
        a = [fr[7:16], fr[17:26], fr[27:36]]
        for _ in range(2):
            b = list(a)
            for i in range(3):
                k = rnd.random()
                if k < 0.45:
                    b[i] = rnd.choice(SPECIAL)
                elif k < 0.6:
                    b[i] = rnd.choice(a)
                elif k < 0.7:
                    b[i] = rt.gen_id(rnd)
            check_line(STAMP, True, f"045 {fr[:7]}{b[0]} {b[1]} {b[2]}{fr[36:]}", "addrmut")
    for v in (" I", "RQ", "RP", " W"):
        check_line(STAMP, True, f"045 {v} --- --:------ --:------ --:------ 0001 005 00FFFF02FF", "addrmut")
    junk = ["", " ", "#", "# evofw3 0.7.1", "!V", "!C", "* Checksum error", "045", "045 ", "045  I", "\x00\x01", "٣٣٣  I --- 01:145038 --:------ 01:145038 1F09 003 FF073F",
            "045  I --- ٠١:145038 --:------ 01:145038 1F09 003 FF073F", "045  I --- 01:145038 --:------ 01:145038 1F09 ٠٠٣ FF073F", "< # *", "045 RQ --- 18:000730 01:145038 --:------ 0418 003 00003F *"]
    for j in junk:
        check_line(STAMP, True, j, "junk")
    for _ in range(N // 10):
        s = "".join(rnd.choice(" 0123456789ABCDEFIRPQW-:.#*<abc\t") for _ in range(rnd.randint(0, 70)))
        check_line(STAMP, True, s, "junk")

    # ---- serial: _str/_normalise and line splitting vs the model; partitions through the real _read_ready ----
    def hx(b: bytes) -> str:
        return b.hex().upper()

    def norm_of(raw: bytes) -> str:
        """the clean-up both the serial and the MQTT path apply to a line; it is total (whatever the bytes)"""
        try:
            return "ok\t" + esc(_normalise(_str(raw)))
        except Exception as e:  # noqa: BLE001
            chk.violation(f"recv.normalise.raises:{type(e).__name__}", f"_normalise(_str({raw!r})) raised {e!r}", {"op": "recv.norm", "bytes": raw.hex()})
            return "err\t" + exn_tag(e)

    for fr in base[:2000]:
        raw = f"045 {fr}".encode()
        for variant in (raw + b"\r\n", b"\r" + raw + b"\r\n", raw + b"\r\r\n", b" 000 " + fr.encode() + b"\r\n", fr.encode() + b"\r\n",
                        raw[:10] + bytes([rnd.randrange(256)]) + raw[10:] + b"\r\n", b"\x00" + raw + b"\x07\r\n"):
            chk.evaluations += 1
            D.add("recv.norm", [hx(variant)], norm_of(variant))
    for v in (b"045  I --- 08:000001 --:------ 01:145038 0008 002 0000 * Checksum error\r\n", b"\r\r\r\n", b"   \r\n", b"\xff\xfe\r\n",
              b"045 \x80 I --- 08:000001 --:------ 01:145038 0008 002 0000\r\n", b"\x80\r\n", b"", b"\r\n"):
        D.add("recv.norm", [hx(v)], norm_of(v))

    async def serial_part() -> None:
        rig_ro = rt.PortRig()
        await rig_ro.start()
        # a second port, opened the way a sending gateway opens it (signature written, first echo answered by the rig)
        rig_tx = rt.PortRig(sending=True)
        try:
            await rig_tx.start()
        except Exception as e:  # noqa: BLE001
            chk.violation(f"serial.open_sending:{type(e).__name__}", f"opening a serial port with sending enabled raised {e!r}", {"op": "serial.open"})
            rig_tx = None
        chk.extra["signature_frame"] = getattr(rig_tx, "signature", None)
        n_streams = 40 if not thorough else 600
        for si in range(n_streams):
            rig = rig_tx if (rig_tx is not None and rig_tx.signature and si % 3 == 2) else rig_ro
            lines = []
            if rig is rig_tx:
                # the stick echoes the further copies of the signature it was sent before the first echo got through
                for _ in range(rnd.randint(1, 3)):
                    lines.append(f"000 {rig.signature}".encode())
            # every fourth stream is about the one piece of state the serial receive path keeps across lines: the sync
            # cycles it tracks from I|1F09 (whole, truncated to 1-2 bytes, zero countdown; three controllers)
            sync_biased = si % 4 == 3
            for _ in range(rnd.randint(3, 7)):
                r = rnd.random()
                fr = rnd.choice(base)
                if sync_biased and r < 0.7:
                    c = rnd.choice(("01:145038", "01:223036", "01:078710"))
                    pl = rnd.choice(("FF073F", "FF073F", "FF0000", "FF", "FF07", "F8", "00FFFF", "FF073F00"))
                    lines.append(f"045  I --- {c} --:------ {c} 1F09 {len(pl) // 2:03d} {pl}".encode())
                elif r < 0.55:
                    lines.append(f"{rnd.choice(('045', '000', '067'))} {fr}".encode())
                elif r < 0.7:
                    lines.append(f"045 {rt.mutate(rnd, fr)}".encode().replace(b"\n", b"").replace(b"\r", b""))
                elif r < 0.8:
                    lines.append(rnd.choice((b"# evofw3 0.7.1", b"", b"!V", b"\xff\xfe\x80", b"045", b"\r")))
                else:
                    lines.append(f"045 {fr} * Checksum error".encode())
            stream = b"".join(x + b"\r\n" for x in lines)
            ref, esc_ref = await rig.replay([stream])
            ref_s = [str(m._pkt) for m in ref]
            if esc_ref:
                chk.violation(f"serial.escape:{type(esc_ref[0]).__name__}", f"reading {stream!r} in one read let {esc_ref[0]!r} escape",
                              {"op": "serial", "stream": stream.hex(), "chunks": [len(stream)]})
            # model: same lines, and each line's own outcome
            n = len(stream)
            parts = [("1-byte", [stream[i:i + 1] for i in range(n)]),
                     ("in-crlf", None)]
            ends = [i + 2 for i in range(n) if stream[i:i + 2] == b"\r\n"]
            cuts = [e - 1 for e in ends]
            parts[1] = ("in-crlf", [stream[a:b] for a, b in zip([0] + cuts, cuts + [n])])
            for _ in range(6 if not thorough else 20):
                k = rnd.randint(1, 4)
                cs = sorted(rnd.sample(range(1, n), min(k, n - 1)))
                parts.append((f"cuts{cs}", [stream[a:b] for a, b in zip([0] + cs, cs + [n])]))
            parts.append(("empty-reads", [c for i in range(0, n, 11) for c in (stream[i:i + 11], b"")]))
            for name, chunks in parts:
                chk.evaluations += 1
                got, esc_g = await rig.replay(chunks)
                got_s = [str(m._pkt) for m in got]
                D.add("recv.feed", [hx(c) for c in chunks], "ok\t" + "|".join(hx(x) for x in lines) + "\t")
                if got_s != ref_s or esc_g:
                    chk.violation(f"serial.partition:{name.split('[')[0]}", f"stream of {len(lines)} lines delivered {len(got_s)} frames when read as {name} "
                                  f"but {len(ref_s)} in one read" + (f"; escaped {esc_g[0]!r}" if esc_g else ""),
                                  {"op": "serial", "stream": stream.hex(), "chunks": [len(c) for c in chunks]})
                    break
            chk.nontrivial.add(stream)
            if si % 5 == 1:
                # the same stream while the engine is paused (what Engine._pause does to the stack while a saved state is
                # restored: writing paused, reading paused, the message handler parked): a serial port goes on delivering,
                # and nothing escapes
                pr, tr = rig.protocol, rig.transport
                parked = pr._msg_handler
                try:
                    if rig is rig_tx:
                        pr.pause_writing()
                    tr.pause_reading()
                    pr._msg_handler = None
                    _got, esc_p = await rig.replay([stream])
                finally:
                    pr._msg_handler = parked
                    tr.resume_reading()
                    if rig is rig_tx:
                        pr.resume_writing()
                chk.evaluations += 1
                chk.count("serial.streams_while_paused")
                if esc_p:
                    chk.violation(f"serial.paused.escape:{type(esc_p[0]).__name__}", f"reading {stream[:80]!r}... while the engine is paused let {esc_p[0]!r} escape",
                                  {"op": "serial.paused", "stream": stream.hex(), "chunks": [len(stream)]})
            # a rejected / junk line must not affect its neighbours: every good line alone == in the stream
            alone = []
            for x in lines:
                g, e2 = await rig.replay([x + b"\r\n"])
                alone += [str(m._pkt) for m in g]
            if alone != ref_s:
                chk.violation("serial.independence", f"stream delivered {ref_s}, its lines one by one {alone}",
                              {"op": "serial", "stream": stream.hex()})
        chk.extra["serial_streams"] = n_streams
        rig_ro.stop()
        if rig_tx is not None:
            rig_tx.stop()

    asyncio.run(serial_part())

    # ---- MQTT: the same lines wrapped as the gateway's JSON messages, through the real MqttTransport._on_message -------
    async def mqtt_part() -> None:
        import json as _json
        from types import SimpleNamespace

        import ramses_tx.transport as T
        from ramses_tx.protocol import protocol_factory

        from .c11 import StubClient

        loop = asyncio.get_running_loop()
        got: list = []
        real_client = T.mqtt.Client
        T.mqtt.Client = StubClient
        try:
            proto = protocol_factory(got.append, disable_sending=True)
            tr = T.MqttTransport("mqtt://user:pw@localhost:1883/RAMSES/GATEWAY", proto, loop=loop)
        finally:
            T.mqtt.Client = real_client
        tr._topic_sub = "RAMSES/GATEWAY/18:006402/rx"
        tr._extra["active_gwy"] = "18:006402"
        proto.connection_made(tr, ramses=True)
        await asyncio.sleep(0)

        def deliver(payload: bytes):
            try:
                tr._on_message(None, None, SimpleNamespace(topic="RAMSES/GATEWAY/18:006402/rx", payload=payload, timestamp=0))
                return None
            except Exception as e:  # noqa: BLE001
                return e

        n_m = 60 if not thorough else 900
        for si in range(n_m):
            lines = []
            for _ in range(rnd.randint(3, 6)):
                fr = rnd.choice(base)
                r = rnd.random()
                text = f"{rnd.choice(('045', '000', '067'))} {fr}" if r < 0.6 else (f"045 {rt.mutate(rnd, fr)}" if r < 0.8 else rnd.choice(("", "# evofw3", "!V", "045")))
                ts = rnd.choice((STAMP, STAMP[:19], STAMP + "+01:00", "2024-01-01T12:00:00.5", "garbage", ""))
                kind = rnd.random()
                if kind < 0.8:
                    env = _json.dumps({"msg": text, "ts": ts}).encode()
                elif kind < 0.9:
                    env = rnd.choice((b"{", b"not json", b"", b"\xff\xfe", _json.dumps({"msg": text, "ts": ts})[:-3].encode()))
                elif kind < 0.94:
                    env = rnd.choice((_json.dumps({"msg": text}), _json.dumps({"ts": ts}), _json.dumps([text, ts]), _json.dumps(text), "null", "5",
                                      _json.dumps({"msg": None, "ts": ts}), _json.dumps({"msg": text, "ts": None}))).encode()
                else:
                    env = _json.dumps({"msg": text, "ts": ts, "extra": [1, {"a": None}]}).encode()
                lines.append((text, ts, env))
            # all in a row ...
            got.clear()
            escaped = [e for e in (deliver(env) for _t, _s, env in lines) if e is not None]
            for _ in range(3):
                await asyncio.sleep(0)
            row = [str(m._pkt) for m in got]
            chk.count("mqtt.delivered", len(row))
            # ... and each on its own
            alone = []
            for _t, _s, env in lines:
                got.clear()
                deliver(env)
                for _ in range(3):
                    await asyncio.sleep(0)
                alone += [str(m._pkt) for m in got]
            chk.evaluations += 1
            chk.count("mqtt.streams")
            for e in escaped:
                if not isinstance(e, ValueError):
                    chk.violation(f"mqtt.escape:{type(e).__name__}", f"an MQTT message made {e!r} escape the receive path",
                                  {"op": "mqtt", "messages": [env.decode("latin1") for _t, _s, env in lines]})
                    break
                chk.count("mqtt.valueerror")
            if row != alone:
                chk.violation("mqtt.independence", f"{len(lines)} MQTT messages in a row delivered {row}, one by one {alone}",
                              {"op": "mqtt", "messages": [env.decode("latin1") for _t, _s, env in lines]})

    asyncio.run(mqtt_part())

    # ---- file replay: bad lines interleaved with good ones --------------------------------------------------------
    n_files = 25 if not thorough else 300
    for fi in range(n_files):
        lines, expect = [], []
        t = 0
        for _ in range(rnd.randint(5, 30)):
            t += 1
            stamp = f"2024-01-01T12:00:{t % 60:02d}.{rnd.randrange(10**6):06d}"
            r = rnd.random()
            fr = rnd.choice(base)
            if r < 0.5:
                ln = f"{stamp} 045 {fr}"
            elif r < 0.7:
                ln = f"{stamp} 045 {rt.mutate(rnd, fr)}".replace("\n", "").replace("\r", "")
            elif r < 0.8:
                ln = rnd.choice(("", "# comment", "   ", stamp, stamp + " ", "garbage line", stamp + " # evofw3", "2024-99-99T00:00:00.000000 045 " + fr))
            else:
                ln = f"{stamp} 045 {fr} * Checksum error"
            lines.append(ln)
        got, err = rt.replay_lines(lines)
        chk.evaluations += 1
        got_s = [(m._pkt.dtm.isoformat(timespec="microseconds"), str(m._pkt)) for m in got]
        # expectation: each line on its own
        for ln in lines:
            g1, e1 = rt.replay_lines([ln])
            expect += [(m._pkt.dtm.isoformat(timespec="microseconds"), str(m._pkt)) for m in g1]
        if err is not None:
            chk.violation(f"file.escape:{type(err).__name__}", f"replaying a {len(lines)}-line log raised {err!r}", {"op": "file", "lines": lines})
        elif got_s != expect:
            chk.violation("file.independence", f"log delivered {len(got_s)} packets, its lines one by one {len(expect)}", {"op": "file", "lines": lines})
        for ln in lines:
            D.add("recv.fileline", ["True" if _datable(ln) else "False", esc(ln)], _fileline_outcome(Packet, exc, ln))
        # the same lines as a saved-state dict {time stamp: rest of the line} (also with undatable keys)
        d = {}
        for k, ln in enumerate(lines):
            key, rest = (ln[:26], ln[27:]) if len(ln) > 27 else (ln, "")
            if key in d:
                continue
            # a saved-state dict written elsewhere (another version, another tool): time stamps with a UTC offset or a 'Z',
            # alone or among naive ones
            if fi % 3 == 0 and rnd.random() < 0.3 and len(ln) > 27:
                key = key + rnd.choice(("+01:00", "+00:00", "-05:30", "Z"))
            d[key] = rest
        gotd, errd = rt.replay_dict(d)
        chk.evaluations += 1
        if errd is not None:
            chk.violation(f"dict.escape:{type(errd).__name__}", f"replaying a {len(d)}-entry saved-state dict raised {errd!r}", {"op": "dict", "packets": d})
        else:
            exp_d = []
            for key, rest in d.items():
                g1, _e1 = rt.replay_dict({key: rest})
                exp_d += [(m._pkt.dtm.isoformat(timespec="microseconds"), str(m._pkt)) for m in g1]
            if [(m._pkt.dtm.isoformat(timespec="microseconds"), str(m._pkt)) for m in gotd] != exp_d:
                chk.violation("dict.independence", f"saved-state dict delivered {len(gotd)} packets, its entries one by one {len(exp_d)}", {"op": "dict", "packets": d})
    chk.extra["file_streams"] = n_files
    M.parse_payload = real_parse
    M.MessageBase._idx = real_idx
    chk.sample({"line": "045  I --- 04:000001 --:------ 01:000002 2309 006 0001F40101F4", "impl": outcome_of_from_file(Packet, exc, STAMP, "045  I --- 04:000001 --:------ 01:000002 2309 006 0001F40101F4")[0]})
    chk.sample({"line": "045 RP --- 10:067219 18:006402 --:------ 3220 001 00", "impl": outcome_of_from_file(Packet, exc, STAMP, "045 RP --- 10:067219 18:006402 --:------ 3220 001 00")[0]})
    D.run()


def _datable(ln: str) -> bool:
    s = ln.strip()
    try:
        dt.fromisoformat(s[:26])
        return True
    except ValueError:
        return False


def _fileline_outcome(Packet, exc, ln: str) -> str:
    s = ln.strip()
    if not s or s[:1] == "#":
        return "skipped"
    return outcome_of_from_file(Packet, exc, s[:26], s[27:])[0]


def replay(chk: Check, path: str) -> int:
    r = json.load(open(path))
    print(json.dumps(r, indent=1)[:3000])
    run(chk)
    return chk.finish()
