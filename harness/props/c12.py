"""C12 — active discovery reconstructs the controller's configuration, whatever it is.

A real Gateway with discovery ENABLED and no prior schema runs against a scripted controller (RQ|0005
zone masks, RQ|000C device lists) through the real protocol/QoS path under virtual time.  Generated
configurations: any subset of zones 00-0B, classes radiator / zone-valve / electric / mixing,
sensors of every permitted type (incl. the controller itself), 0-8 actuators, DHW with any subset
of sensor / hot-water valve / heating valve, appliance control absent / relay / OTB.  Loss patterns:
the replies to chosen requests are dropped for the whole of chosen polling rounds (days).

Oracle: after the lossy days plus one clean day the reported schema equals the configuration; at
the end of every day everything reported is true of the configuration (nothing learned is lost or
invented).  Correspondence: the schema at the end of every day equals the Lean model's
`Disc.rounds` under the same per-day losses, and the set of distinct RQs written equals the model's
request closure.
"""

from __future__ import annotations

import asyncio
import json
import os
import random

from .. import gwrig, rt
from ..common import Check, Model

CTL = "01:145038"
GWY = gwrig.GWY_ID
CLASSES = {"08": "radiator_valve", "0A": "zone_valve", "0B": "mixing_valve", "11": "electric_heat"}
DAY = 24 * 3600.0


def hex_id(dev_id: str) -> str:
    t, n = dev_id.split(":")
    return f"{(int(t) << 18) + int(n):06X}"


def gen_cfg(rnd: random.Random) -> dict:
    n_z = rnd.choice((0, 1, 2, 3, 5, 8, 12))
    idxs = sorted(rnd.sample([f"{i:02X}" for i in range(12)], n_z))
    zones = {}
    serial = [100]

    def dev(t: str) -> str:
        serial[0] += 1
        return f"{t}:{serial[0]:06d}"

    for i in idxs:
        cls = rnd.choice(list(CLASSES))
        if cls == "08":
            acts = [dev("04") for _ in range(rnd.choice((0, 1, 2, 3, 8)))]
        elif cls == "0B":
            acts = [dev("13") for _ in range(rnd.choice((0, 1, 2)))]       # HM80 mixing valves appear as relays here
        else:
            acts = [dev("13") for _ in range(rnd.choice((0, 1, 1, 2)))]
        r = rnd.random()
        if r < 0.15:
            sensor = None
        elif r < 0.3 and not any(z["sensor"] == CTL for z in zones.values()):
            sensor = CTL           # (a device has one parent: the controller can be the sensor of one zone only)
        elif r < 0.5 and cls == "08" and acts:
            sensor = acts[0]
        else:
            sensor = dev(rnd.choice(("34", "22", "12", "03", "04")))
        zones[i] = {"class": cls, "sensor": sensor, "actuators": acts}
    dhw = {"sensor": dev("07") if rnd.random() < 0.5 else None,
           "hotwater_valve": dev("13") if rnd.random() < 0.4 else None,
           "heating_valve": dev("13") if rnd.random() < 0.3 else None}
    app = rnd.choice((None, dev("13"), dev("10")))
    return {"zones": zones, "dhw": dhw, "app": app}


class Controller:
    def __init__(self, loop, cfg: dict, lost_by_day: list[set]) -> None:
        self.loop, self.cfg, self.lost = loop, cfg, lost_by_day
        self.asked: dict[str, int] = {}
        self.t0 = None

    @staticmethod
    def _mask(idxs) -> str:
        m = sum(1 << int(i, 16) for i in idxs)
        return f"{m & 0xFF:02X}{m >> 8:02X}"

    def respond(self, frame: str):
        if frame[:2] != "RQ" or frame[17:26] != CTL:
            return []
        code, payload, src = frame[37:41], frame[46:], frame[7:16]
        if code not in ("0005", "000C"):
            return []
        key = f"{code}/{payload[:4]}"
        self.asked[key] = self.asked.get(key, 0) + 1
        day = int((self.loop.time() - self.t0) // DAY) if self.t0 is not None else 0
        if day < len(self.lost) and key in self.lost[day]:
            return []
        zones = self.cfg["zones"]
        ii, tt = payload[:2], payload[2:4]
        if code == "0005":
            if tt in CLASSES:
                idxs = [i for i, z in zones.items() if z["class"] == tt]
            elif tt == "09":
                idxs = []
            elif tt == "04":
                idxs = [i for i, z in zones.items() if z["sensor"]]
            else:
                return []
            p = f"00{tt}{self._mask(idxs)}"
        else:
            z = zones.get(ii)
            if tt in CLASSES or tt in ("00", "09"):
                devs = z["actuators"] if z and tt in ("00", z["class"]) else []
            elif tt == "04":
                devs = [z["sensor"]] if z and z["sensor"] else []
            elif (ii, tt) == ("00", "0D"):
                devs = [self.cfg["dhw"]["sensor"]]
            elif (ii, tt) == ("00", "0E"):
                devs = [self.cfg["dhw"]["hotwater_valve"]]
            elif (ii, tt) == ("01", "0E"):
                devs = [self.cfg["dhw"]["heating_valve"]]
            elif (ii, tt) == ("00", "0F"):
                devs = [self.cfg["app"]]
            else:
                return []
            devs = [d for d in devs if d]
            p = "".join(f"{ii}{tt}00{hex_id(d)}" for d in devs) if devs else f"{ii}{tt}7FFFFFFF"
        return [(0.03, f"RP --- {CTL} {src} --:------ {code} {len(p) // 2:03d} {p}")]


def canon_schema(schema: dict) -> str:
    """The part of gwy.schema the property is about, in the model's text form."""
    tcs = schema.get(CTL) or {}
    zs = []
    inv = {v: k for k, v in CLASSES.items()}
    inv["underfloor_heating"] = "09"
    for i, z in sorted((tcs.get("zones") or {}).items()):
        cls = inv.get(z.get("class"), "-") if z.get("class") else "-"
        zs.append(f"{i}={cls},{z.get('sensor') or '-'},{'+'.join(sorted(z.get('actuators') or []))}")
    hw = tcs.get("stored_hotwater") or {}
    app = (tcs.get("system") or {}).get("appliance_control")
    return ";".join(zs) + f"|{hw.get('sensor') or '-'}|{hw.get('hotwater_valve') or '-'}|{hw.get('heating_valve') or '-'}|{app or '-'}"


def canon_cfg(cfg: dict) -> str:
    zs = [f"{i}={z['class']},{z['sensor'] or '-'},{'+'.join(sorted(z['actuators']))}" for i, z in sorted(cfg["zones"].items())]
    d = cfg["dhw"]
    return ";".join(zs) + f"|{d['sensor'] or '-'}|{d['hotwater_valve'] or '-'}|{d['heating_valve'] or '-'}|{cfg['app'] or '-'}"


def cfg_for_model(cfg: dict) -> str:
    zs = [f"{i}={z['class']},{z['sensor'] or '-'},{'+'.join(z['actuators'])}" for i, z in sorted(cfg["zones"].items())]
    d = cfg["dhw"]
    return ";".join(zs) + f"|{d['sensor'] or '-'}|{d['hotwater_valve'] or '-'}|{d['heating_valve'] or '-'}|{cfg['app'] or '-'}"


async def episode(loop, cfg, lost_by_day, n_days, announce="after") -> dict:
    """`announce`: the controller is first heard one second after start() has returned ("after"), or as soon as the
    transport is open, while start() is still under way ("during")"""
    import ramses_rf.entity_base as EB

    EB.random.uniform = lambda a, b: (a + b) / 2            # the poll jitter: deterministic
    ctl = Controller(loop, cfg, lost_by_day)
    hello = f" I --- {CTL} --:------ {CTL} 1F09 003 FF0532"     # the controller announces itself
    mute = 0.0
    if announce.startswith("mute:"):
        # the stick is deaf and dumb for so many seconds, from the moment discovery starts (nothing sent is echoed or answered)
        mute, announce = float(announce[5:]), "after"
    muted = [0.0]

    def respond(frame):
        return [] if loop.time() < muted[0] else ctl.respond(frame)

    rig = gwrig.Rig(loop, responder=respond, disable_discovery=False, config={"enable_eavesdrop": False},
                    early_frames=[hello] if announce == "during" else None)
    await rig.start()
    if mute:
        muted[0] = loop.time() + 1.0 + mute
        rig.transport.lose_echo = lambda frame: loop.time() < muted[0]
    ctl.t0 = loop.time()
    await asyncio.sleep(1.0)
    if announce != "during":
        rig.transport.inject(hello)
    days = []
    for d in range(n_days):
        await asyncio.sleep(ctl.t0 + (d + 1) * DAY - 60.0 - loop.time())
        try:
            days.append(canon_schema(rig.gwy.schema))
        except Exception as e:  # noqa: BLE001
            days.append("ERR:" + repr(e))
    out = {"days": days, "asked": dict(ctl.asked), "loop_errors": [repr(e) for e in loop.errors][:5],
           "writes": len(rig.transport.written)}
    await rig.stop()
    return out


def _worker(args):
    """One episode in a worker process (episodes simulate days of polling: run them on all cores)."""
    cfg, lost_by_day, n_days, *rest = args
    announce = rest[0] if rest else "after"
    from .. import common

    common.import_repo()
    rt.quiet()

    async def body(loop):
        return await episode(loop, cfg, lost_by_day, n_days, announce)

    try:
        o, _ = gwrig.run(body)
        return ("ok", o)
    except Exception as e:  # noqa: BLE001
        return ("died", repr(e))


def subsumes(cfg_txt: str, sch_txt: str) -> str | None:
    """None if everything in the reported schema is true of the configuration, else what is not."""
    cz, *cr = cfg_txt.split("|")
    sz, *sr = sch_txt.split("|")
    cfgz = {x.split("=")[0]: x.split("=")[1].split(",") for x in cz.split(";") if x}
    for x in (sz.split(";") if sz else []):
        i, rest = x.split("=")
        cls, sen, acts = rest.split(",")
        if i not in cfgz:
            return f"zone {i} does not exist on the controller"
        c = cfgz[i]
        if cls != "-" and cls != c[0]:
            return f"zone {i} class {cls}, controller says {c[0]}"
        if sen != "-" and sen != c[1]:
            return f"zone {i} sensor {sen}, controller says {c[1]}"
        if acts and not set(acts.split("+")) <= set(c[2].split("+") if c[2] else []):
            return f"zone {i} actuators {acts}, controller says {c[2]}"
    for name, a, b in zip(("dhw sensor", "hot-water valve", "heating valve", "appliance control"), cr, sr):
        if b != "-" and b != a:
            return f"{name} {b}, controller says {a}"
    return None


def run(chk: Check) -> None:
    rt.quiet()
    rnd = random.Random(chk.seed)
    thorough = chk.tier == "thorough"
    n_ep = 200 if thorough else 28
    chk.rule = (
        "seeded controller configurations (0-12 zones out of 00-0B; radiator / zone-valve / electric / mixing; sensors of types 34, 22, 12, "
        "03, 04, an actuator of the zone, the controller itself, or none; 0-8 actuators; DHW sensor / hot-water valve / heating valve in any "
        "combination; appliance control none / relay / OTB) x per-day loss patterns over the first 0-3 polling rounds (replies to chosen "
        "requests dropped for the whole day, QoS retries included), then one clean day; non-trivial = distinct (configuration, loss pattern)"
    )
    reqs, impl, meta = [], [], []
    jobs = []
    # corpus (runs first): the class reply of day 1 is lost while the sensor-mask reply arrives - zones are created
    # un-typed and promoted a day later
    base = {"zones": {"00": {"class": "08", "sensor": "34:000901", "actuators": ["04:000902", "04:000903"]},
                      "02": {"class": "0A", "sensor": "04:000904", "actuators": ["13:000905"]},
                      "07": {"class": "11", "sensor": CTL, "actuators": ["13:000906"]}},
            "dhw": {"sensor": "07:000907", "hotwater_valve": "13:000908", "heating_valve": None}, "app": "13:000909"}
    jobs.append((base, [{"0005/0008"}], 2))
    jobs.append((base, [{"0005/0008", "0005/000A", "0005/0011"}, {"000C/0008", "000C/0204"}], 3))
    jobs.append((base, [{"0005/0004", "000C/000D"}], 2))
    # every (zone index, zone class) pair, each zone with a sensor and an actuator or two: four 12-zone configurations
    for k in range(4):
        zs = {}
        for i in range(12):
            cls = list(CLASSES)[(i + k) % 4]
            acts = [f"{'04' if cls == '08' else '13'}:{2000 + 100 * k + 10 * i + j:06d}" for j in range(1 + (i + k) % 2)]
            zs[f"{i:02X}"] = {"class": cls, "sensor": f"34:{3000 + 100 * k + i:06d}", "actuators": acts}
        jobs.append(({"zones": zs, "dhw": {"sensor": None, "hotwater_valve": None, "heating_valve": None}, "app": None}, [], 1))
    # a relay-heavy installation: twelve zone-valve / electric zones of four relays each, both DHW valves and a relay as
    # appliance control - more pollers than the send buffer holds (32); a refused request is only a late one
    zs = {f"{i:02X}": {"class": ("0A", "11")[i % 2], "sensor": f"34:{4000 + i:06d}", "actuators": [f"13:{4100 + 10 * i + j:06d}" for j in range(4)]}
          for i in range(12)}
    big = {"zones": zs, "dhw": {"sensor": "07:004500", "hotwater_valve": "13:004501", "heating_valve": "13:004502"}, "app": "13:004503"}
    # the stick falls silent for half a minute just as discovery begins: everything is learnt at a later round all the same
    for m in (25, 40):
        jobs.append((base, [set()], 2, f"mute:{m}", "big"))
    jobs.append((big, [set()], 2, "after", "big"))
    jobs.append((big, [{"000C/0508", "000C/000D"}, set()], 3, "after", "big"))
    for ep in range(n_ep):
        cfg = gen_cfg(rnd)
        n_lossy = rnd.choice((0, 0, 1, 1, 2, 3))
        keys = ["0005/0008", "0005/000A", "0005/000B", "0005/0011", "0005/0004", "000C/000F", "000C/000D", "000C/000E", "000C/010E"]
        for i, z in cfg["zones"].items():
            keys += [f"000C/{i}{z['class']}", f"000C/{i}04", f"000C/{i}00"]
        lost_by_day = [set(rnd.sample(keys, rnd.randint(1, min(6, len(keys))))) for _ in range(n_lossy)]
        jobs.append((cfg, lost_by_day, n_lossy + 1, "during" if len(jobs) % 3 == 1 else "after"))
    import multiprocessing as mp

    with mp.get_context("fork").Pool(min(14, max(1, (os.cpu_count() or 2) - 2))) as pool:
        results = pool.map(_worker, jobs, chunksize=1)
    for (cfg, lost_by_day, n_days, *_ann), (status, o) in zip(jobs, results):
        n_lossy = n_days - 1
        if status != "ok":
            chk.violation("c12.run_died", f"the run itself raised {o}", {"op": "discovery", "cfg": cfg})
            continue
        chk.evaluations += 1
        chk.nontrivial.add((canon_cfg(cfg), json.dumps([sorted(x) for x in lost_by_day])))
        rep = {"op": "discovery", "cfg": cfg, "lost_by_day": [sorted(x) for x in lost_by_day], "days": o["days"], "asked": o["asked"], "announce": (_ann[0] if _ann else "after")}
        chk.count("zones", len(cfg["zones"]))
        chk.count("lossy_days", n_lossy)
        chk.count("frames_written", o["writes"])
        want = canon_cfg(cfg)
        for d, sch in enumerate(o["days"]):
            if sch.startswith("ERR:"):
                chk.violation("c12.schema_raises", f"gwy.schema raised at the end of day {d + 1}: {sch[4:]}", rep)
                break
            bad = subsumes(want, sch)
            if bad:
                chk.violation("c12.learned_something_false", f"day {d + 1}: {bad}", rep)
                break
        else:
            # monotone: nothing learned is lost
            for a, b in zip(o["days"], o["days"][1:]):
                if subsumes(b, a):
                    chk.violation("c12.learned_then_lost", f"something reported at the end of one day is gone a day later: {a} -> {b}", rep)
                    break
            if o["days"] and o["days"][-1] != want:
                chk.violation("c12.not_reconstructed", f"after {n_lossy} lossy day(s) and one clean day the schema is {o['days'][-1]!r}, the configuration is {want!r}", rep)
        if o["loop_errors"]:
            chk.count("loop_handler_exception." + o["loop_errors"][0].split("(")[0])
        # correspondence: the schema at the end of every day
        # (the model has no send buffer: where requests are refused for want of room the days before the last are the
        # implementation's alone, judged above - nothing false, nothing lost again - and the last day must agree)
        for d in (range(len(o["days"])) if "big" not in _ann else range(len(o["days"]) - 1, len(o["days"]))):
            losses = ";".join(",".join(sorted(lost_by_day[k])) if k < len(lost_by_day) and lost_by_day[k] else "-" for k in range(d + 1))
            reqs.append(f"disc.run\t{cfg_for_model(cfg)}\t{losses}")
            impl.append("ok\t" + o["days"][d])
            meta.append({**rep, "day": d + 1})
    outs = Model().run(reqs)
    for r, a, b, m in zip(reqs, impl, outs, meta):
        if a != b:
            chk.divergence("disc.run", {k: m[k] for k in ("cfg", "lost_by_day", "day")}, a, b)
    chk.extra["model_ops_compared"] = len(reqs)
    chk.sample({"cfg": "zones 00 (radiator, sensor 34:, 2 TRVs), 01 (zone valve, sensor = controller, 1 relay); DHW sensor + hot-water valve; relay as appliance control",
                "losses": "day 1: replies to 0005/0008 and 000C/0104 dropped", "expect": "complete at the end of day 2"})


def replay(chk: Check, path: str) -> int:
    r = json.load(open(path))
    print(json.dumps(r, indent=1)[:4000])
    run(chk)
    return chk.finish()
