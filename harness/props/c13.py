"""C13 — no traffic can break the gateway: views always answer, engine keeps running.

A real Gateway (mock transport, virtual clock) is fed histories built from the repo's logs by
deletion, duplication, reordering, splicing and field mutation inside the schema regexes (extreme
values); at checkpoints every public view is read, a snapshot is taken (with and without expired
packets), restored, and the engine's observable state (handler installed, sending enabled, reading,
discovery flag, not paused) is compared with the Lean model of Engine/Gateway _pause/_resume/
get_state/_restore_cached_packets — also with faults injected into the snapshot filter and the
restore reader, because the property holds "whether or not the operation itself succeeded".
"""

from __future__ import annotations

import asyncio
import json
import random

from .. import gen, gwrig, regen, rt
from ..common import Check, Model

PROBE_SRC = "01:099999"


def eng_state(gwy) -> str:
    p = gwy._protocol
    t = gwy._transport
    return "|".join(str(x) for x in (
        gwy._engine_state is None,
        p._msg_handler is not None,
        bool(gwy._disable_sending),
        bool(gwy.config.disable_discovery),
        # (the serial-port transport never consults its `_reading` flag - it starts False and reads all the same - so for it
        #  the flag is no observable of "still receiving"; the probe packet below is)
        (True if type(t).__name__ == "PortTransport" else bool(t.is_reading())) if t else None,
        bool(getattr(p, "_pause_writing", False)),
        bool(gwy._engine_lock.locked()),
    ))


def all_views(gwy) -> list[tuple[str, BaseException]]:
    bad = []

    def tryit(name, fn):
        try:
            v = fn()
            json.dumps(v, default=str)
        except Exception as e:  # noqa: BLE001
            import traceback

            e._verif_tb = "".join(traceback.format_exception(e)[-4:])
            bad.append((name, e))

    tryit("gwy.schema", lambda: gwy.schema)
    tryit("gwy.params", lambda: gwy.params)
    tryit("gwy.status", lambda: gwy.status)
    tryit("gwy.known_list", lambda: dict(gwy.known_list))
    tryit("gwy._config", lambda: gwy._config)
    for d in list(gwy.devices):
        for a in ("schema", "params", "status", "traits"):
            tryit(f"{d.id}.{a}", lambda d=d, a=a: getattr(d, a))
    for tcs in list(gwy.systems):
        for a in ("schema", "params", "status", "traits"):
            tryit(f"tcs {tcs.id}.{a}", lambda a=a: getattr(tcs, a))
        for z in list(tcs.zones):
            for a in ("schema", "params", "status", "traits"):
                tryit(f"zone {z.id}.{a}", lambda z=z, a=a: getattr(z, a))
        if tcs.dhw:
            for a in ("schema", "params", "status", "traits"):
                tryit(f"dhw {tcs.dhw.id}.{a}", lambda a=a: getattr(tcs.dhw, a))
    return bad


def mutate_fields(rnd: random.Random, frame: str, regex_of: dict) -> str:
    """Replace the payload by another one accepted by the same schema regex, biased to extremes."""
    key = (frame[37:41], frame[:2])
    pat = regex_of.get(key)
    if pat is None:
        return frame
    pl = regen.gen_payload(pat, rnd, extreme=True)
    if pl is None:
        return frame
    if rnd.random() < 0.6 and len(frame) > 48:          # keep the index byte: stay on the same zone/domain
        pl = frame[46:48] + pl[2:]
        import re as _re
        if not _re.match(pat, pl):
            return frame
    return f"{frame[:41]} {len(pl) // 2:03d} {pl}"


SPECIALS = [
    " I --- 01:145038 --:------ 01:145038 1F09 003 FF0000",     # sync countdown 0
    " I --- 01:145038 --:------ 01:145038 1F09 003 FFFFFF",
    " I --- 01:145038 --:------ 01:145038 30C9 003 007FFF",
    " I --- 01:145038 --:------ 01:145038 30C9 003 0B7FFF",
    " I --- 01:145038 --:------ 01:145038 2309 003 0F7FFF",
    " I --- 01:145038 --:------ 01:145038 000A 006 0B107FFF7FFF",
    "RP --- 01:145038 18:006402 --:------ 0005 004 000FFFFF",
    "RP --- 01:145038 18:006402 --:------ 0005 004 0008FFFF",
    "RP --- 01:145038 18:006402 --:------ 000C 006 0B08007FFFFF",
    " I --- 10:067219 --:------ 10:067219 3220 005 00C00500FF",
    " I --- 01:145038 --:------ 01:145038 3150 002 FCFF",
    " I --- 01:145038 --:------ 01:145038 0008 002 FAFF",
    "RP --- 01:145038 18:006402 --:------ 10A0 006 00FFFF00FFFF",
    "RP --- 01:145038 18:006402 --:------ 1260 003 007FFF",
    " I --- 01:145038 --:------ 01:145038 2E04 008 07FFFFFFFFFFFF00",
    " I --- 32:155617 --:------ 32:155617 31DA 029 00EF007FFFEFEF7FFF7FFF7FFF7FFFF000EF0100007FFF0000EFEF7FFF7FFF",
    # schedule traffic without a fragment: the controller's ack of a written fragment (ours, an RFG100's), the 'no such fragment' forms
    " I --- 01:145038 18:006402 --:------ 0404 007 01200008290105",
    " I --- 01:145038 30:082155 --:------ 0404 007 00200008290303",
    " I --- 01:145038 18:006402 --:------ 0404 007 00230008290101",
    "RP --- 01:145038 18:006402 --:------ 0404 007 002000080001FF",
    "RP --- 01:145038 18:006402 --:------ 0404 007 00200008000100",
    " W --- 18:006402 01:145038 --:------ 0404 048 0120000829010568816DCEB10D80300C44D1EFEBDFA33C0E8E8B0D05DB0D0DC1B5B1B1B1B1B1B1B1B1B1B1B1B1",
]


async def episode(loop, history, eavesdrop, checkpoints, faults, rnd, port=False) -> dict:
    """`port`: the gateway runs on the library's real serial-port transport (on a pty), so that the transmit path's own
    regulation (duty cycle, avoidance of the controllers' sync cycles, which is driven by received I|1F09) is in play"""
    rig = gwrig.Rig(loop, config={"enable_eavesdrop": eavesdrop}, port=port)
    await rig.start()
    gwy = rig.gwy
    seen: list = []
    gwy.add_msg_handler(seen.append)
    out = {"view_errors": [], "op_errors": [], "engine": [], "handled": [], "send": [], "model_ops": [], "n_devices": 0}
    for i, fr in enumerate(history):
        await asyncio.sleep(rnd.choice((0.05, 0.3, 1.0, 2.0, 30.0, 150.0 if port else 400.0)) if i % 7 else 3.1)
        await rig.feed(fr)
        if i not in checkpoints:
            continue
        for name, e in all_views(gwy)[:3]:
            out["view_errors"].append((i, name, repr(e), getattr(e, "_verif_tb", "")))
        await asyncio.sleep(0)
        # --- snapshot, with and without expired, optionally with a fault in the filter
        fault = faults.get(i)
        before = eng_state(gwy)
        ops = []
        pkts = None
        for inc in (False, True):
            restore_attr = None
            if fault == "filter" and inc:
                from ramses_tx.message import Message

                restore_attr = Message._expired
                Message._expired = property(lambda self: (_ for _ in ()).throw(LookupError("injected")))
            try:
                _, pkts_ = gwy.get_state(include_expired=inc)
                ops.append("snap:ok")
                if not inc:
                    pkts = pkts_
            except Exception as e:  # noqa: BLE001
                ops.append("snap:raise")
                if restore_attr is None:
                    out["op_errors"].append((i, f"get_state(include_expired={inc})", repr(e)))
            finally:
                if restore_attr is not None:
                    from ramses_tx.message import Message

                    Message._expired = restore_attr
            out["engine"].append((i, f"get_state({inc})", before, eng_state(gwy)))
            if eng_state(gwy) != before:
                break
        # --- restore what was just saved (optionally a snapshot the reader chokes on)
        if pkts is not None and eng_state(gwy) == before:
            snap = dict(pkts)
            if fault == "restore":
                snap["not-a-timestamp"] = "garbage"
            try:
                await gwy._restore_cached_packets(snap)
                ops.append("restore:ok")
            except Exception as e:  # noqa: BLE001
                ops.append("restore:raise")     # allowed by the property ("whether or not the operation itself succeeded")
                out.setdefault("restore_raised", []).append(repr(e).split("(")[0])
            out["engine"].append((i, "restore", before, eng_state(gwy)))
        # --- a restore during which a state-saver keeps asking for snapshots (each must be refused, nothing may change)
        extra = ""
        if fault == "nested" and pkts is not None and eng_state(gwy) == before:
            taken, refused, other = 0, 0, []
            done = False

            async def saver():
                nonlocal taken, refused
                while not done:
                    try:
                        gwy.get_state()
                        taken += 1
                    except RuntimeError:
                        refused += 1
                    except Exception as e:  # noqa: BLE001
                        other.append(repr(e))
                    await asyncio.sleep(0)

            st = asyncio.ensure_future(saver())
            try:
                await gwy._restore_cached_packets(dict(pkts))
                r = "ok"
            except Exception as e:  # noqa: BLE001
                r = "raise"
                out.setdefault("restore_raised", []).append(repr(e).split("(")[0])
            done = True
            await st
            ops.append(f"nested:{refused}:{r}")
            extra = f"\tRamses.Eng.Res.{'ok' if r == 'ok' else 'raised'}/{refused}/{refused}"
            out["engine"].append((i, f"restore with {refused} refused + {taken} granted snapshot attempts inside", before, eng_state(gwy)))
            if other:
                out["op_errors"].append((i, "get_state() during a restore", other[0]))
        out["model_ops"].append((before, ops, eng_state(gwy) + extra))
        # --- is a packet received after the operation still handled?  can we still send?
        from ramses_tx.command import Command

        if port:   # a send as things stand (whatever sync announcements were heard, however long ago)
            cmd = Command.from_attrs("RQ", "01:145038", "0006", "00", from_id=gwrig.HGI_ID)
            try:
                await asyncio.wait_for(gwy.async_send_cmd(cmd, wait_for_reply=False, max_retries=0, timeout=2.0), timeout=5.0)
                out["send"].append((i, True, ""))
            except Exception as e:  # noqa: BLE001
                out["send"].append((i, False, repr(e)))
        seen.clear()
        await rig.feed(f" I --- {PROBE_SRC} --:------ {PROBE_SRC} 1F09 003 FF0514")
        out["handled"].append((i, any(str(m.src.id) == PROBE_SRC for m in seen)))
        from ramses_tx.command import Command

        cmd = Command.from_attrs("RQ", "01:145038", "0006", "00", from_id=gwrig.HGI_ID)
        try:
            await asyncio.wait_for(gwy.async_send_cmd(cmd, wait_for_reply=False, max_retries=0, timeout=2.0), timeout=5.0)
            out["send"].append((i, True, ""))
        except Exception as e:  # noqa: BLE001
            out["send"].append((i, False, repr(e)))
        if eng_state(gwy) != before:
            break
    out["n_devices"] = len(gwy.devices)
    out["loop_errors"] = [repr(e) for e in loop.errors]
    await rig.stop()
    return out


ADDR = __import__("re").compile(r"\d\d:\d{6}")
REGEX_OF: dict = {}


def addr_ids(frame: str) -> set:
    return set(ADDR.findall(frame[7:36]))


def own_views(gwy, own: set) -> dict:
    """every public view of the systems / zones / devices whose ids are in `own`, canonical JSON text each"""
    out = {}

    def put(name, fn):
        try:
            out[name] = json.dumps(fn(), default=str, sort_keys=True)
        except Exception as e:  # noqa: BLE001
            out[name] = "raised " + repr(e).split("(")[0]

    for d in list(gwy.devices):
        if d.id in own:
            for a in ("schema", "params", "status"):
                put(f"{d.id}.{a}", lambda d=d, a=a: getattr(d, a))
    for tcs in list(gwy.systems):
        if tcs.id in own:
            for a in ("schema", "params", "status"):
                put(f"tcs {tcs.id}.{a}", lambda tcs=tcs, a=a: getattr(tcs, a))
    return out


async def neighbour_episode(loop, timeline, own: set, eavesdrop: bool, schema=None) -> dict:
    rig = gwrig.Rig(loop, config={"enable_eavesdrop": eavesdrop}, schema=schema)
    await rig.start()
    for t, fr in timeline:
        d = t - loop.time()
        if d > 0:
            await asyncio.sleep(d)
        await rig.feed(fr)
    await asyncio.sleep(max(0.0, timeline[-1][0] + 1.0 - loop.time()))
    v = own_views(rig.gwy, own)
    await rig.stop()
    return v


async def predecessor_episode(loop, timeline, known: dict) -> None:
    if not known:
        return
    rig = gwrig.Rig(loop, config={"enforce_known_list": True}, known_list={**known, gwrig.GWY_ID: {"class": "HGI"}})
    await rig.start()
    for t, fr in timeline:
        d = t - loop.time()
        if d > 0:
            await asyncio.sleep(d)
        await rig.feed(fr)
    await rig.stop()


def neighbours(chk: Check, rnd: random.Random, logs: dict, n: int) -> None:
    """"Packets that are valid for other systems never stop the gateway from continuing to track the ones it knows": the same
    own traffic at the same instants, once alone and once with a neighbour's traffic (another log, no device id in common, never
    addressed to or from our devices) between its packets - every view of our systems, zones and devices must be the same."""
    names = sorted(logs)
    done = 0
    tries = 0
    while done < n and tries < 20 * n:
        tries += 1
        a, b = rnd.sample(names, 2)
        own_rows = [f for _, f in logs[a]]
        s0 = rnd.randrange(0, max(1, len(own_rows) - 60))
        own_rows = own_rows[s0:s0 + rnd.randint(10, 60)]
        own = set().union(*(addr_ids(f) for f in own_rows)) if own_rows else set()
        own = {i for i in own if not i.startswith("18:") and i != "63:262142"}
        ctls = sorted(i for i in own if i.startswith("01:"))
        schema = None
        if ctls and tries % 4 == 0:
            # our controller's periodic announcements in array form (few of the repo's logs hold any): zone configuration in
            # one or two parts, setpoints, temperatures
            c = rnd.choice(ctls)
            nz = rnd.randint(2, 10)
            cfg = [f"{z:02X}{rnd.choice((0x10, 0x00, 0x13)):02X}{rnd.choice((500, 1000)):04X}{rnd.choice((2500, 3000, 3500)):04X}" for z in range(nz)]
            cut = rnd.choice((nz, nz, max(1, nz - 1), max(1, nz - 2)))
            extra = [f" I --- {c} --:------ {c} 000A {6 * cut:03d} " + "".join(cfg[:cut])]
            if cut < nz:
                extra.append(f" I --- {c} --:------ {c} 000A {6 * (nz - cut):03d} " + "".join(cfg[cut:]))
            extra.append(f" I --- {c} --:------ {c} 2309 {3 * nz:03d} " + "".join(f"{z:02X}{rnd.choice((1500, 1900, 2100)):04X}" for z in range(nz)))
            extra.append(f" I --- {c} --:------ {c} 30C9 {3 * nz:03d} " + "".join(f"{z:02X}{rnd.randint(1400, 2400):04X}" for z in range(nz)))
            k = rnd.randrange(len(own_rows) + 1)
            own_rows[k:k] = extra
            if rnd.random() < 0.7:      # the zones are configured (a known schema), as in an installation that has been running
                schema = {"main_tcs": c, c: {"zones": {f"{z:02X}": {"class": "radiator_valve"} for z in range(nz)}}}
        foreign_all = [f for _, f in logs[b]]
        foreign_ids = set().union(*(addr_ids(f) for f in foreign_all))
        foreign_ids = {i for i in foreign_ids if not i.startswith("18:") and i != "63:262142"}
        # a neighbour: no id in common, in the address fields or inside the payloads (000C / 1FC9 carry device ids)
        if not own or not any(i.startswith("01:") for i in own) or (own & foreign_ids):
            continue
        from ramses_tx.address import dev_id_to_hex_id

        own_hex = {dev_id_to_hex_id(i) for i in own}
        if tries % 3 == 0:
            # our controller names the devices of a zone or two (what it answers to RQ|000C; few of the repo's logs hold one)
            c0 = sorted(i for i in own if i.startswith("01:"))[0]
            kit = sorted(i for i in own if i[:2] in ("04", "34", "22", "12"))
            for z, dv in enumerate(kit[:2]):
                role = "00" if dv[:2] == "04" else "04"
                own_rows.insert(min(len(own_rows), 1 + z), f"RP --- {c0} {gwrig.GWY_ID} --:------ 000C 006 {z:02X}{role}00{dev_id_to_hex_id(dv)}")
        foreign = [f for f in foreign_all if " 18:" not in f[:36] and not any(h in f[46:] for h in own_hex)]
        if twin_turn := (tries % 2 == 0):
            # the neighbour is a twin of our own system: the same kit (so the same verbs and codes, arrays included) under other
            # device ids - in the address fields and inside the payloads - reporting other values
            b = a + " (twin: other ids, other values)"
            mp = {}
            for i in sorted(own):
                num = (int(i[3:]) + 7001) % 262144
                while f"{i[:3]}{num:06d}" in own or f"{i[:3]}{num:06d}" in mp.values():
                    num = (num + 1) % 262144
                mp[i] = f"{i[:3]}{num:06d}"
            foreign = []
            for fr in own_rows:
                if " 18:" in fr[:36] or fr[37:41] in ("000C", "1FC9", "0418", "10E1", "1FCA"):
                    continue        # (payloads that name devices: a twin naming *our* devices would be claiming them, not a neighbour)
                g = fr
                for i, j in mp.items():
                    g = g.replace(i, j).replace(dev_id_to_hex_id(i), dev_id_to_hex_id(j))
                g2 = mutate_fields(rnd, g, REGEX_OF) if rnd.random() < 0.7 else g
                foreign.append(g2 if not any(h in g2[46:] for h in own_hex) else g)
        if len(foreign) < 5:
            continue
        t = 0.0
        tl_own = []
        for fr in own_rows:
            t += rnd.choice((0.05, 0.3, 1.0, 2.0, 3.1, 30.0))
            tl_own.append((round(t, 3), fr))
        k0 = rnd.randrange(0, max(1, len(foreign) - 40))
        fsel = foreign[k0:k0 + rnd.randint(3, 40)]
        tl_for = []
        for fr in fsel:
            i = rnd.randrange(len(tl_own))
            # right after an own packet (0.01 s: the very next packet the gateway sees), or anywhere before the next one
            nxt = tl_own[i + 1][0] if i + 1 < len(tl_own) else tl_own[i][0] + 5.0
            tt = tl_own[i][0] + (0.01 + 0.001 * len(tl_for) if rnd.random() < 0.5 else rnd.uniform(0.02, max(0.03, nxt - tl_own[i][0] - 0.01)))
            tl_for.append((round(tt, 4), fr))
        # ... and, directed: a neighbour's packet of the same verb and code just before one of ours (nothing in between)
        by_vc: dict = {}
        for fr in foreign:
            by_vc.setdefault((fr[:2], fr[37:41]), []).append(fr)
        for i, (t_own, fr) in enumerate(tl_own):
            cands = by_vc.get((fr[:2], fr[37:41]))
            if cands and rnd.random() < 0.5:
                lo = tl_own[i - 1][0] if i else 0.0
                gap = min(t_own - lo, 2.9)
                if gap > 0.02:
                    long_ones = [c for c in cands if int(c[42:45]) > 8] or cands      # (arrays first)
                    tl_for.append((round(t_own - rnd.uniform(0.005, gap - 0.01), 4), rnd.choice(long_ones if rnd.random() < 0.7 else cands)))
        both = sorted(tl_own + tl_for, key=lambda x: x[0])
        eav = False     # (eavesdropping *infers* zone sensors from every temperature it hears, a neighbour's included: not scored here)
        try:
            va, _ = gwrig.run(lambda loop: neighbour_episode(loop, tl_own, own, eav, schema))
            if tries % 3 == 0:
                # ... another gateway object of this very process heard everything first, its known list enforced and narrower
                # than ours (the neighbour's devices and the controllers only - an earlier configuration, a second integration):
                # it refuses what is not on its list, e.g. the zone devices our controller's RP|000C names
                def _pred(loop):
                    kn = {i: {} for f in foreign for i in addr_ids(f) if not i.startswith("18:") and i != "63:262142"}
                    kn.update({i: {} for i in own if i[:2] in ("01", "23")})
                    return predecessor_episode(loop, both, kn)

                gwrig.run(_pred)
                chk.count("neighbour.cases_after_a_neighbours_gateway_in_the_process")
            vb, _ = gwrig.run(lambda loop: neighbour_episode(loop, both, own, eav, schema))
        except Exception as e:  # noqa: BLE001
            chk.violation(f"c13.neighbour.gateway_died:{type(e).__name__}", f"the gateway run itself raised {e!r}", {"op": "neighbour", "own": tl_own, "foreign": tl_for})
            continue
        done += 1
        chk.evaluations += 1
        chk.nontrivial.add(("nb", tuple(both)))
        chk.count("neighbour.cases")
        chk.count("neighbour.views_compared", len(va))
        diff = sorted(k for k in set(va) | set(vb) if va.get(k) != vb.get(k))
        if diff:
            k = diff[0]
            chk.violation("c13.neighbour.views_differ:" + k.split(".")[-1] + (".eavesdrop" if eav else ""),
                          f"with a neighbour's traffic ({b}) between the packets of {a}, view {k} of our own system reads {vb.get(k, '<absent>')[:300]} "
                          f"instead of {va.get(k, '<absent>')[:300]} ({len(diff)} views differ)", {"op": "neighbour", "eavesdrop": eav, "schema": schema, "own": tl_own, "foreign": tl_for, "views": diff[:10]})


def merge_corr(chk: Check, rnd: random.Random, n: int) -> None:
    """Correspondence for Model/ArrayMerge.lean (theorem C13Merge.own_independent): streams of controller / UFC arrays in one or
    two parts, single elements, replies and other devices' packets at gaps around the 3 s window, through a real Gateway; what
    each message is delivered as (the indexes of its payload after merging) against the model."""
    from datetime import datetime as real_dt

    from ramses_tx.packet import Packet

    ctls = ["01:145038", "01:078710"]
    ufcs = ["02:017205", "02:044328"]
    reqs, impl, meta = [], [], []
    for _ in range(n):
        frames = []
        for _k in range(rnd.randint(3, 12)):
            r = rnd.random()
            if r < 0.45:
                c = rnd.choice(ctls)
                z0 = rnd.randrange(0, 8)
                k = rnd.choice((1, 1, 2, 3, 5, 8))
                frames.append(f" I --- {c} --:------ {c} 000A {6 * k:03d} " + "".join(f"{(z0 + i) % 12:02X}1001F40{rnd.choice('89AB')}98" for i in range(k)))
            elif r < 0.6:
                u = rnd.choice(ufcs)
                k = rnd.choice((1, 2, 4))
                z0 = rnd.randrange(0, 4)
                frames.append(f" I --- {u} --:------ {u} 22C9 {6 * k:03d} " + "".join(f"{z0 + i:02X}07D00A2801" for i in range(k)))
            elif r < 0.7:
                c = rnd.choice(ctls)
                k = rnd.choice((1, 3))
                frames.append(f" I --- {c} --:------ {c} {rnd.choice(('2309', '30C9'))} {3 * k:03d} " + "".join(f"{i:02X}07D0" for i in range(k)))
            elif r < 0.8:
                c = rnd.choice(ctls)
                frames.append(f"RP --- {c} {gwrig.GWY_ID} --:------ 000A 006 {rnd.randrange(8):02X}1001F40898")
            else:
                d = rnd.choice(("04:111111", "04:222222"))
                frames.append(f" I --- {d} --:------ {d} 30C9 003 0007D0")
        gaps = [rnd.choice((0.01, 0.5, 1.4, 2.9, 2.999, 3.0, 3.001, 10.0)) for _ in frames]

        async def body(loop, frames=frames, gaps=gaps):
            rig = gwrig.Rig(loop, config={"enable_eavesdrop": False})
            await rig.start()
            seen = []
            rig.gwy.add_msg_handler(seen.append)
            stamps = []
            for fr, g in zip(frames, gaps):
                await asyncio.sleep(g)
                stamps.append(gwrig.vnow(loop))
                await rig.feed(fr)
            await asyncio.sleep(1.0)
            out = []
            for m in seen:
                pl = m.payload
                els = pl if isinstance(pl, list) else [pl]
                out.append((str(m._pkt)[:60], [int(e.get("zone_idx") or e.get("ufh_idx") or "0", 16) if isinstance(e, dict) else 0 for e in els]))
            await rig.stop()
            return out, stamps

        try:
            (out, stamps), _ = gwrig.run(body)
        except Exception as e:  # noqa: BLE001
            chk.violation(f"c13.merge.gateway_died:{type(e).__name__}", f"the gateway run itself raised {e!r}", {"op": "amerge", "frames": frames, "gaps": gaps})
            continue
        if len(out) != len(frames):
            chk.count("amerge.skipped_not_all_delivered")
            continue
        evs = []
        ids: dict = {}
        for fr, st in zip(frames, stamps):
            p = Packet(real_dt(2024, 1, 1), "... " + fr)
            pl_idx = [int(fr[46:][i:i + 2], 16) for i in range(0, len(fr[46:]), {"000A": 12, "22C9": 12, "2309": 6, "30C9": 6}[fr[37:41]])]
            src = ids.setdefault(fr[7:16], len(ids) + 1)
            t = round((st - gwrig.BASE).total_seconds() * 1_000_000)
            try:
                ha = bool(p._has_array)
            except Exception:  # noqa: BLE001
                ha = False
            if not ha:
                pl_idx = pl_idx[:1]
            evs.append(f"{src}:{int(fr[37:41], 16)}:{fr[:2] == ' I'}:{ha}:{t}:{fr[37:41] in ('000A', '22C9')}:{','.join(map(str, pl_idx))}")
        reqs.append("amerge.run\t" + ";".join(evs))
        impl.append("ok\t" + ";".join(",".join(map(str, e)) for _, e in out))
        meta.append({"frames": frames, "gaps": gaps})
        chk.evaluations += 1
        chk.nontrivial.add(("am", tuple(frames), tuple(gaps)))
        chk.count("amerge.streams")
        chk.count("amerge.merged", sum(1 for (f, e), fr in zip(out, frames) if len(e) > len(fr[46:]) // {"000A": 12, "22C9": 12, "2309": 6, "30C9": 6}[fr[37:41]]))
    outs = Model().run(reqs)
    for r, a, b, m in zip(reqs, impl, outs, meta):
        if a != b:
            chk.divergence("amerge.run", {"req": r, **m}, a, b)
    chk.extra["model_ops_compared"] = chk.extra.get("model_ops_compared", 0) + len(reqs)


def model_engine(before: str, ops: list[str]) -> str:
    """Run the Lean model of the engine on the same operation outcomes."""
    return Model().run(["eng.run\t" + before + "\t" + ",".join(ops)])[0]


def run(chk: Check) -> None:
    rt.quiet()
    from ramses_tx.ramses import CODES_SCHEMA

    rnd = random.Random(chk.seed)
    thorough = chk.tier == "thorough"
    logs = gwrig.load_logs()
    regex_of = {(str(c), v): sch[v] for c, sch in CODES_SCHEMA.items() for v in (" I", "RQ", "RP", " W") if v in sch}
    REGEX_OF.update(regex_of)
    pairs = gen.schema_pairs()
    import itertools

    shuffled = list(pairs)
    rnd.shuffle(shuffled)
    pair_cycle = itertools.cycle(shuffled)
    n_ep = 4000 if thorough else 150
    chk.rule = (
        "seeded histories (<=120 packets) built from the repo's 37 logs by prefix/deletion/duplication/reordering/splicing between "
        "systems, field mutation inside the schema regex (extreme values), special packets (zero countdown, 7FFF/FF sentinels, max "
        "indexes) and schema-regex-generated foreign traffic; eavesdropping on/off; at 3-5 checkpoints per history: every public view "
        "of gateway, devices, systems, zones, DHW; get_state(+-expired); restore; then a probe packet and a send; faults injected into "
        "the snapshot filter / the restore reader at some checkpoints; non-trivial = distinct history"
    )
    reqs, impl, meta = [], [], []
    for ep in range(n_ep):
        h = gwrig.mutate_history(rnd, logs, max_len=120 if thorough else 80)
        rate = rnd.choice((0.0, 0.05, 0.12, 0.3, 0.6))
        h = [mutate_fields(rnd, f, regex_of) if rnd.random() < rate else f for f in h]
        for _ in range(rnd.randrange(0, 4)):
            h.insert(rnd.randrange(len(h) + 1), rnd.choice(SPECIALS))
        for _ in range(rnd.randrange(0, 6)):
            f = gen.gen_schema_frame(rnd, pairs, extreme=True)
            if f:
                h.insert(rnd.randrange(len(h) + 1), f)
        # ... and, round-robin over every verb/code of the schema table (so that each is met several times per run, in
        # several of its payload shapes), six more
        for _ in range(6):
            f = gen.gen_schema_frame(rnd, [next(pair_cycle)], extreme=rnd.random() < 0.5)
            if f:
                h.insert(rnd.randrange(len(h) + 1), f)
        if not h:
            continue
        cps = sorted(set(rnd.sample(range(len(h)), min(len(h), rnd.randint(3, 5))) + [len(h) - 1]))
        faults = {}
        for c in cps:
            r = rnd.random()
            if r < 0.15:
                faults[c] = "filter"
            elif r < 0.3:
                faults[c] = "restore"
            elif r < 0.5:
                faults[c] = "nested"
        eav = rnd.random() < 0.5
        port = rnd.random() < 0.2

        async def body(loop, h=h, eav=eav, cps=cps, faults=faults, port=port):
            return await episode(loop, h, eav, set(cps), faults, rnd, port=port)

        try:
            res, _ = gwrig.run(body)
        except Exception as e:  # noqa: BLE001
            chk.violation(f"c13.gateway_died:{type(e).__name__}", f"the gateway run itself raised {e!r}", {"op": "history", "history": h, "eavesdrop": eav})
            continue
        chk.evaluations += 1
        chk.nontrivial.add(tuple(h))
        rep = {"op": "history", "history": h, "eavesdrop": eav, "checkpoints": cps, "faults": faults, "port": port}
        chk.count("checkpoints", len(res["engine"]))
        chk.count("devices_seen", res["n_devices"])
        chk.count("eavesdrop_on" if eav else "eavesdrop_off")
        chk.count("transport.real_port" if port else "transport.mock")
        for i, name, e, tb in res["view_errors"][:1]:
            chk.violation(f"c13.view:{name.split('.')[-1]}:{e.split('(')[0]}", f"after packet {i} ({h[i]!r}) view {name} raised {e}", {**rep, "at": i, "traceback": tb})
        for i, what, e in res["op_errors"][:1]:
            chk.violation(f"c13.op:{what.split('(')[0]}:{e.split('(')[0]}", f"after packet {i}: {what} raised {e}", {**rep, "at": i})
        for e in res.get("restore_raised", []):
            chk.count("restore_raised." + e)
        for i, what, before, after in res["engine"]:
            if before != after:
                chk.violation(f"c13.engine_changed:{what.split('(')[0]}", f"after packet {i}: {what} left the engine as {after}, was {before} "
                              "(not-paused|handler|disable_sending|disable_discovery|reading|write-paused|lock-held)", {**rep, "at": i})
                break
        for i, ok in res["handled"]:
            if not ok:
                chk.violation("c13.not_handled", f"a packet received after the operations at checkpoint {i} was not handled", {**rep, "at": i})
                break
        for i, ok, e in res["send"]:
            if not ok:
                chk.violation("c13.cannot_send:" + e.split("(")[0], f"a send after the operations at checkpoint {i} failed: {e}", {**rep, "at": i})
                break
        # exceptions out of the deferred entity handlers reach asyncio's exception handler (they are logged, the loop
        # and the gateway go on): the property does not forbid them; they are counted, not scored
        for e in res["loop_errors"]:
            chk.count("loop_handler_exception." + e.split("(")[0])
        for before, ops, after in res["model_ops"]:
            reqs.append("eng.run\t" + before + "\t" + ",".join(ops))
            impl.append("ok\t" + after)
            meta.append(rep)
            for o in ops:
                chk.count("op." + (o if not o.startswith("nested") else "nested:k:" + o.split(":")[2]))
    neighbours(chk, rnd, logs, 600 if thorough else 80)
    merge_corr(chk, rnd, 3000 if thorough else 200)
    outs = Model().run(reqs)
    for r, a, b, m in zip(reqs, impl, outs, meta):
        if a != b:
            chk.divergence("eng.run", {"req": r, **{k: m[k] for k in ("eavesdrop", "checkpoints", "faults")}}, a, b)
    chk.extra["model_ops_compared"] = chk.extra.get("model_ops_compared", 0) + len(reqs)
    chk.sample({"history": "heat_ufc_00 log[0:80] with 2 splices, ' I 1F09 FF0000' inserted, 3 checkpoints, restore fault at the 2nd"})


def replay(chk: Check, path: str) -> int:
    r = json.load(open(path))
    print(json.dumps(r, indent=1)[:3000])
    run(chk)
    return chk.finish()
