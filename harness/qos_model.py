"""Correspondence of the Lean QoS model with the implementation (macro-step traces)."""

from __future__ import annotations

import random

from . import qos
from .common import Check, Diff

CODES_QOS = ("0006", "0404", "0418", "1FC9")


def us(t: float) -> int:
    return round(t * 1_000_000)


def need_reply(mode, frame: str, wfr) -> bool:
    code = frame[37:41]
    if mode is True:
        eff = False
    elif mode is None and code not in CODES_QOS:
        eff = False
    else:
        eff = wfr
    return bool(eff)


def correspond(chk: Check) -> None:
    rnd = random.Random(chk.seed * 104729 + 17)
    n = 6000 if chk.tier == "thorough" else 400
    D = Diff(chk)
    traces = 0
    for _ in range(n):
        ep = qos.gen_jam(rnd) if _ % 4 == 3 else qos.gen_coarse(rnd)
        res = qos.run_episode(ep)
        if res.deadlock:
            continue
        evs = []
        by_pool = {c["cmd"]: i for i, c in enumerate(ep.calls)}
        for i, c in enumerate(ep.calls):
            q, r = qos.POOL[c["cmd"]]
            t0 = res.started.get(i, c["t"])
            evs.append((us(t0), res.seq.get(i, i), f"{us(t0)}:call:{i}:{c['prio']}:{res.seq.get(i, i)}:{c['max_retries']}:"
                        f"{need_reply(ep.mode, q, c['wfr']) and r is not None}:{r is not None}:{us(t0) + us(min(c['timeout'], 20.0))}"))
        k = 100
        for t, kind, idx in res.pkts:
            k += 1
            if idx in by_pool:
                evs.append((us(t), k, f"{us(t)}:{kind}:{by_pool[idx]}"))
        for t, kind in res.conn:
            k += 1
            evs.append((us(t), k, f"{us(t)}:{kind}"))
        evs.sort()
        fails = ",".join(f"{by_pool[c]}/{nn}" for (c, nn), sc in ep.tx.items() if sc["fail"] and c in by_pool)
        # implementation observables
        w = ",".join(f"{by_pool[i]}@{us(t)}" for t, fr in res.writes for i in [next((j for j, (q, _) in enumerate(qos.POOL) if q == fr), None)] if i in by_pool)
        outs = []
        for i, (t, kind, txt) in sorted(res.outcomes.items(), key=lambda kv: (kv[1][0], kv[0])):
            q, r = qos.POOL[ep.calls[i]["cmd"]]
            o = "failed" if kind == "err" else ("reply" if txt[:2] in ("RP", " I") and txt[37:41] == q[37:41] and r is not None and txt[:2] == r[:2] else "echo")
            outs.append(f"{i}={o}@{us(t)}")
        impl = "ok\t" + w + "\t" + ",".join(outs) + "\t" + res.final_state
        D.add("qos.run", [fails, ";".join(e[2] for e in evs), str(us(60.0))], impl, meta=ep.to_json())
        traces += 1
    # canonicalise the order of simultaneous outcomes on both sides
    bad = _run_sorted(D)
    chk.extra["traces_validated"] = chk.extra.get("traces_validated", 0) + traces
    chk.extra["qos_model_traces_divergent"] = bad


def _run_sorted(D: Diff) -> int:
    from .common import Model

    outs = Model().run(D.reqs)
    bad = 0

    def canon(s: str) -> str:
        parts = s.split("\t")
        if len(parts) == 4:
            parts[2] = ",".join(sorted(parts[2].split(","), key=lambda x: (int(x.split("@")[1]) if "@" in x else 0, x)))
        return "\t".join(parts)

    for req, a, b, m in zip(D.reqs, D.impl, outs, D.meta):
        if canon(a) != canon(b):
            bad += 1
            D.chk.divergence("qos.run", {"request": req, "episode": m}, a, b)
            # the search for a failing input starts at the episode on which model and implementation part: the implementation's
            # run of it is scored by this property's own oracle (a violation found there is the replay)
            try:
                from . import qos_checks

                ep = qos.Episode.from_json(m)
                res = qos.run_episode(ep)
                scorer = {"C07": qos_checks.score_c07, "C08": qos_checks.score_c08, "C09": qos_checks.score_c09}.get(D.chk.id)
                if scorer is not None and not res.deadlock:
                    scorer(D.chk, ep, res)
            except Exception:  # noqa: BLE001  (the divergence itself stands)
                pass
    D.chk.extra["model_ops_compared"] = D.chk.extra.get("model_ops_compared", 0) + len(D.reqs)
    return bad
