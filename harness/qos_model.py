"""Correspondence of the Lean QoS model with the implementation (macro-step traces)."""

from __future__ import annotations

from .common import Check


def correspond(chk: Check) -> None:
    chk.notes.append("model correspondence: not yet wired")
