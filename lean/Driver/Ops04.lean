import Driver.Wire
namespace Driver
open Ramses

def parseBits (s : String) : List Nat := (s.splitOn ",").filterMap (·.toNat?)

def showBits (l : List Nat) : String := ",".intercalate (l.map toString)

/-- ops of the scalar codecs (property C04) -/
def ops04 (op : String) (a : List String) : Option String :=
  match op, a with
  | "temp.dec", [h] => some (showPy showTemp (hexToTemp (unesc h)))
  | "temp.enc", [v] => (parseTemp v).map fun t => showPy esc (hexFromTemp t)
  | "pct.dec", [h, hr] => (parseBool hr).map fun hr => showPy (showOpt showDy) (hexToPercent (unesc h) hr)
  | "pct.enc", [v, hr] => (parseBool hr).bind fun hr =>
      if v = "None" then some (showPy esc (hexFromPercent none hr))
      else if v.startsWith "-" then some "err\tValueError"
      else (parseDy v).map fun x => showPy esc (hexFromPercent (some x) hr)
  | "dbl.dec", [h, f] => f.toNat?.map fun f => showPy (showOpt showDy) (hexToDouble (unesc h) f)
  | "dbl.enc", [v, f] => f.toNat?.bind fun f =>
      if v = "None" then some (showPy esc (hexFromDouble none f))
      else if v.startsWith "-" then some "err\tValueError"
      else (parseDy v).map fun x => showPy esc (hexFromDouble (some x) f)
  | "bool.dec", [h] => some (showPy (showOpt showBool) (hexToBool (unesc h)))
  | "bool.enc", [v] => if v = "None" then some ("ok\t" ++ esc (hexFromBool none))
      else (parseBool v).map fun b => "ok\t" ++ esc (hexFromBool (some b))
  | "flag.dec", [h, lsb] => (parseBool lsb).map fun lsb => showPy showBits (hexToFlag8 (unesc h) lsb)
  | "flag.enc", [bits, lsb] => (parseBool lsb).map fun lsb => showPy esc (hexFromFlag8 (parseBits bits) lsb)
  | "str.dec", [h] => some (showPy esc (hexToStr (unesc h)))
  | "str.enc", [s] => some (showPy esc (hexFromStr (unesc s)))
  | "dtm.dec", [h] => some (showPy (showOpt showDT) (hexToDtm (unesc h)))
  | "dtm.enc", [d, dst, secs] => (parseBool dst).bind fun dst => (parseBool secs).bind fun secs =>
      if d = "None" then some ("ok\t" ++ esc (hexFromDtm none dst secs))
      else (parseDT d).map fun d => "ok\t" ++ esc (hexFromDtm (some d) dst secs)
  | "dts.dec", [h] => some (showPy (showOpt showDT) (hexToDts (unesc h)))
  | "dts.enc", [d] => if d = "None" then some ("ok\t" ++ esc (hexFromDts none))
      else (parseDT d).map fun d => "ok\t" ++ esc (hexFromDts (some d))
  | "id.dec", [h] => some (showPy showDevId (hexIdToDevId (unesc h)))
  | "id.enc", [t, n] => t.toNat?.bind fun t => n.toNat?.map fun n => "ok\t" ++ esc (devIdToHexId t n)
  | _, _ => none

end Driver
