import Driver.Wire
import Ramses.Model.Topo
namespace Driver
open Ramses Ramses.Topo

def parseKind (s : String) : Kind :=
  match s with
  | "ctl" => .ctl | "ufc" => .ufc | "trv" => .trv | "dhwSensor" => .dhwSensor | "otb" => .otb
  | "thm" => .thm | "bdr" => .bdr | "outSensor" => .outSensor | _ => .other

def parseReq (s : String) : Option Req :=
  if s = "O" then some .otherObj else
  match s.splitOn ":" with
  | ["C", c1, c2] => some (.ctlDev (c1 ++ ":" ++ c2))
  | ["T", c1, c2] => some (.par (.tcs (c1 ++ ":" ++ c2)))
  | ["D", c1, c2] => some (.par (.dhw (c1 ++ ":" ++ c2)))
  | ["U", c1, c2] => some (.par (.ufc (c1 ++ ":" ++ c2)))
  | ["Z", c1, rest] => match rest.splitOn "/" with
    | [c2, idx] => some (.par (.zone (c1 ++ ":" ++ c2) idx))
    | _ => none
  | _ => none

def showPar : Par → String
  | .tcs c => "T:" ++ c | .zone c i => "Z:" ++ c ++ "/" ++ i | .dhw c => "D:" ++ c | .ufc u => "U:" ++ u

def showRes : Res → String
  | .ok => "ok" | .inconsistent => "SSI" | .typeError => "TypeError" | .valueError => "ValueError"
  | .assertionError => "AssertionError"

def opsTopo (op : String) (a : List String) : Option String :=
  match op, a with
  | "topo.run", [mz, devs, zones, calls] =>
    mz.toNat?.bind fun mz =>
      let ds := (if devs = "" then [] else devs.splitOn ";").filterMap fun x =>
        match x.splitOn "=" with
        | [id, k] => some (id, (⟨parseKind k, none,
            (if k = "otb" then some "FC" else if k = "dhwSensor" then some "FA" else none),   -- preset by the classes
            none, if k = "ctl" then some id else none⟩ : Dev))
        | _ => none
      let zs := (if zones = "" then [] else zones.splitOn ";").filterMap fun x =>
        match x.splitOn "/" with
        | [c, i] => some (c, i)
        | _ => none
      let cs := (if calls = "" then [] else calls.splitOn ";").map fun x =>
        match x.splitOn "|" with
        | [d, req, cid, sen] => (parseReq req).bind fun r => (parseBool sen).map fun sn =>
            (⟨d, r, if cid = "-" then none else some cid, sn⟩ : Call)
        | _ => none
      if cs.any (·.isNone) then none else
      let t0 : Topo := ⟨mz, ds, zs, [], ⟨[], [], [], [], [], []⟩⟩
      let (t, rs) := runCalls t0 (cs.filterMap id)
      some ("ok\t" ++ ",".intercalate (rs.map showRes) ++ "\t" ++
        ";".intercalate (t.devs.map fun e => s!"{e.1}={showOpt showPar e.2.parent}/{e.2.childId.getD "-"}/{e.2.ctl.getD "-"}") ++ "\t" ++
        ";".intercalate (t.roles.sensor.map fun e => s!"{showPar e.1}={e.2}"))
  | _, _ => none

end Driver
