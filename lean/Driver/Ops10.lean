import Driver.Wire
import Ramses.Model.Filter
namespace Driver
open Ramses

def parseIdList (s : String) : List DevIdT := if s = "" then [] else (s.splitOn ",").map (·.toList)

def ops10 (op : String) (a : List String) : Option String :=
  match op, a with
  | "filter.wanted", [excl, known, enforce, active, src, dst, sending] =>
    (parseBool enforce).bind fun e => (parseBool sending).map fun sd =>
      let c0 : FCfg := ⟨parseIdList excl, parseIdList known, e, none⟩
      let c := if active = "None" then c0 else setActiveHgi c0 active.toList
      "ok\t" ++ showBool (isWanted c src.toList dst.toList sd)
  | "filter.active", [excl, known, enforce, reported] => (parseBool enforce).map fun e =>
      let c := connectionMade ⟨parseIdList excl, parseIdList known, e, none⟩ (if reported = "None" then none else some reported.toList)
      "ok\t" ++ (match c.active with | none => "None" | some a => String.ofList a)
  | "filter.mode", [enforce, known] => (parseBool enforce).map fun e => "ok\t" ++ showBool (selectFilterMode e (parseIdList known))
  | "filter.create", [excl, known, enforce, unwanted, hgi, gd, id] => (parseBool enforce).map fun e =>
      "ok\t" ++ showBool (canCreateDevice ⟨parseIdList excl, parseIdList known, e, none⟩ (parseIdList unwanted) hgi.toList
        (if gd = "None" then none else some gd.toList) id.toList)
  | _, _ => none

end Driver
