import Driver.Wire
import Driver.Ops06
import Ramses.Model.Parsers
namespace Driver
open Ramses

def jEscChar (c : Char) : List Char :=
  if c.isAlphanum || c = '_' || c = ' ' || c = '.' || c = '-' then [c]
  else '%' :: (toHexW (max 2 (hexLen c.toNat)) c.toNat ++ [';'])

def jEsc (s : List Char) : String := String.ofList (s.flatMap jEscChar)

def insertSorted (kv : String × String) : List (String × String) → List (String × String)
  | [] => [kv]
  | x :: xs => if kv.1 < x.1 then kv :: x :: xs else x :: insertSorted kv xs

partial def showJson : Json → String
  | .null => "null"
  | .bool b => if b then "true" else "false"
  | .int n => "i" ++ toString n
  | .num neg v => "f" ++ (if neg ∧ v.m ≠ 0 then "-" else "") ++ showDy v
  | .str s => "s" ++ jEsc s
  | .arr xs => "[" ++ ",".intercalate (xs.map showJson) ++ "]"
  | .obj kvs =>
    let rendered := kvs.foldl (fun acc kv => insertSorted (jEsc kv.1.toList, showJson kv.2) acc) []
    "{" ++ ",".intercalate (rendered.map fun kv => kv.1 ++ ":" ++ kv.2) ++ "}"

def ops05 (op : String) (a : List String) : Option String :=
  match op, a with
  | "decode", [s] => some (
      match mkPacket ("... ".toList ++ unesc s) [] [] with
      | .error e => "err\t" ++ e.tag
      | .ok pk =>
      let f := pk.frame
      match msgValidate f (fun _ => .ok ()) with
      | .error e => "err\t" ++ e.tag
      | .ok () =>
        if ¬ hasPayload f.core && (f.verb = vRQ && ¬ inS Gen.rqIdxComplex f.code) then "ok\t{}"
        else showPy showJson (decode f))
  | "decode.codes", [] => some (",".intercalate (modelledCodes ++ modelledCodesB' ++ modelledCodesC ++ modelledCodesD'))
  | "decode.elem", [code, ufc, e] => (parseBool ufc).map fun ufc =>
      showPy (fun d => showJson (.obj d)) (decodeElem (unesc code) ufc (unesc e))
  | _, _ => none

end Driver
