import Driver.Wire
import Ramses.Model.Limiter
import Ramses.Gen.Consts
import Ramses.Model.SyncAvoid
namespace Driver
open Ramses Ramses.Lim

/-- "t:n;t:n;..." -/
def parsePairs (s : String) : List (Nat × Nat) :=
  (if s = "" then [] else s.splitOn ";").filterMap fun x =>
    match x.splitOn ":" with
    | [a, b] => a.toNat?.bind fun a => b.toNat?.map fun b => (a, b)
    | _ => none

def dutyTrace (R C : Nat) : Bucket → List (Nat × Nat) → List String
  | _, [] => []
  | b, (t, chars) :: rest =>
    let b' := debit R C b t (frameBits chars * nano)
    s!"{b'.lvl}@{waitNs R b'}" :: dutyTrace R C b' rest

def parseSemEvs (s : String) : List SemEv :=
  (if s = "" then [] else s.splitOn ";").filterMap fun x =>
    if x = "T" then some .tick
    else if x.startsWith "A" then (x.drop 1).toString.toNat?.map .arrive
    else none

def mqTrace (M W : Nat) : Tok → List (Nat × Nat) → List String
  | k, [] => [s!"n={k.n};mx={k.mx}"]
  | k, (t, f) :: rest =>
    let (k', o) := mqOffer M W k t (f = 1)
    -- distance of the topped-up level from the drop threshold (units; 1 token = W * 10^9):
    -- the harness does not compare float and exact arithmetic on the knife edge
    let n1 := min (k.n + (((t - k.stamp : Nat) : Int)) * (M : Int)) k.mx
    let margin := n1 - (tokUnit W - (M : Int) * (nano : Int))
    (match o with
      | .dropped => s!"D:{margin}"
      | .written u => s!"W{u / M}:{margin}") :: mqTrace M W k' rest

def natList (xs : List Nat) : String := ",".intercalate (xs.map toString)

def opsLim (op : String) (a : List String) : Option String :=
  match op, a with
  | "lim.duty", [r, c, t0, reqs] =>
    r.toNat?.bind fun R => c.toNat?.bind fun C => t0.toNat?.map fun t0 =>
      "ok\t" ++ ",".intercalate (dutyTrace R (C * nano) ⟨(C * nano : Nat), t0⟩ (parsePairs reqs))
  | "lim.sem", [evs] =>
    let s := semRun Sem.init (parseSemEvs evs)
    some ("ok\t" ++ natList s.out ++ "\t" ++ natList s.q ++ "\t" ++ showBool s.tok)
  | "lim.mqtt", [m, w, t0, offers] =>
    m.toNat?.bind fun M => w.toNat?.bind fun W => t0.toNat?.map fun t0 =>
      "ok\t" ++ ",".intercalate (mqTrace M W (Tok.init M W t0) (parsePairs offers))
  | "sync.run", [evs] =>
    -- "R:t:src:sync" an announcement heard at t; "W:t" a write offered at t  ->  per write "exit:polls"
    let step (acc : List (Nat × Nat) × List String) (e : String) : List (Nat × Nat) × List String :=
      match e.splitOn ":" with
      | ["R", t, src, sync] =>
        match t.toNat?, src.toNat?, sync.toNat? with
        | some t, some src, some sync => (Sync.track t acc.1 src sync, acc.2)
        | _, _, _ => acc
      | ["W", t] =>
        match t.toNat? with
        | some t =>
          match Sync.waitN 400 t (acc.1.map (·.2)) with
          | some x => (acc.1, acc.2 ++ [s!"{x}:{(x - t) / Sync.waitShort}"])
          | none => (acc.1, acc.2 ++ ["never"])
        | none => acc
      | _ => acc
    let r := (if evs = "" then [] else evs.splitOn ";").foldl step ([], [])
    some ("ok\t" ++ ",".intercalate r.2 ++ s!"\t{Sync.waitShort},{Sync.waitLong},{Sync.winLower},{Sync.winUpper}")
  | "lim.consts", [] =>
    some s!"ok\t{Gen.dutyFillRate}\t{Gen.dutyCapacity}\t{Gen.dutyWindow}\t{Gen.mqttMaxTokens}\t{Gen.mqttTimeWindow}\t{Gen.minInterWriteGapNs}"
  | _, _ => none

end Driver
