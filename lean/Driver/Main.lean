import Ramses.Model.Hex
def main : IO Unit := IO.println "ok"
