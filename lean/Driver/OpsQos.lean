import Driver.Wire
import Ramses.Model.Qos
namespace Driver
open Ramses Ramses.Qos

def parseQEv (s : String) : Option (Nat × Ev) :=
  match s.splitOn ":" with
  | [t, "call", id, prio, seq, mr, need, hasrx, dl] =>
    t.toNat?.bind fun t => id.toNat?.bind fun id => prio.toInt?.bind fun prio => seq.toNat?.bind fun seq =>
    mr.toNat?.bind fun mr => (parseBool need).bind fun need => (parseBool hasrx).bind fun hasrx => dl.toNat?.map fun dl =>
      (t, Ev.call ⟨id, prio, seq, mr, need, hasrx, dl⟩)
  | [t, "echo", id] => t.toNat?.bind fun t => id.toNat?.map fun id => (t, Ev.echo id)
  | [t, "reply", id] => t.toNat?.bind fun t => id.toNat?.map fun id => (t, Ev.reply id)
  | [t, "lost"] => t.toNat?.map fun t => (t, Ev.connLost)
  | [t, "made"] => t.toNat?.map fun t => (t, Ev.connMade)
  | _ => none

def showOut : Out → String
  | .echo => "echo" | .reply => "reply" | .failed => "failed"

def showSt : St → String
  | .inactive => "Inactive" | .idle => "IsInIdle" | .wantEcho => "WantEcho" | .wantRply => "WantRply"

def opsQos (op : String) (a : List String) : Option String :=
  match op, a with
  | "qos.run", [fails, evs, tend] =>
    let fl := (if fails = "" then [] else fails.splitOn ",").filterMap fun x =>
      match x.splitOn "/" with
      | [i, n] => i.toNat?.bind fun i => n.toNat?.map fun n => (i, n)
      | _ => none
    let es := (if evs = "" then [] else evs.splitOn ";").filterMap parseQEv
    tend.toNat?.map fun te =>
      let s := advance 512 (run (init fl) es) te
      "ok\t" ++ ",".intercalate (s.writes.map fun w => s!"{w.1}@{w.2}") ++ "\t" ++
        ",".intercalate (s.outcomes.map fun o => s!"{o.1}={showOut o.2.1}@{o.2.2}") ++ "\t" ++ showSt s.st
  | _, _ => none

end Driver
