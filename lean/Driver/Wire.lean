/-
  Driver.Wire — text encoding of the line protocol between the Python harness and the model.

  One request per line, TAB-separated fields: `<op> TAB <arg> TAB <arg> ...`.
  Strings are percent-escaped: characters U+0020..U+007E other than `%` are literal, every other
  code point is `%<hex>;`.  One reply per line.
-/
import Ramses.Model.Codec
namespace Driver
open Ramses

def escChar (c : Char) : List Char :=
  if 0x20 ≤ c.toNat ∧ c.toNat ≤ 0x7E ∧ c ≠ '%' then [c]
  else '%' :: (toHexW (max 2 (hexLen c.toNat)) c.toNat ++ [';'])

def esc (s : List Char) : String := String.ofList (s.flatMap escChar)

partial def unescAux : List Char → List Char → List Char
  | [], acc => acc.reverse
  | '%' :: rest, acc =>
    let hex := rest.takeWhile (· ≠ ';')
    let rest' := (rest.dropWhile (· ≠ ';')).drop 1
    match ofHex hex with
    | some n => unescAux rest' (Char.ofNat n :: acc)
    | none => unescAux rest' ('?' :: acc)
  | c :: rest, acc => unescAux rest (c :: acc)

def unesc (s : String) : List Char := unescAux s.toList []

def natGcd : Nat → Nat → Nat := Nat.gcd

/-- canonical text of a non-negative dyadic: reduced fraction `n/d` -/
def showDy (x : Dy) : String :=
  let (n, d) := x.frac
  let g := Nat.gcd n d
  if g = 0 then "0/1" else s!"{n / g}/{d / g}"

/-- parse `n/d` (d a power of two) into a dyadic -/
def parseDy (s : String) : Option Dy :=
  match s.splitOn "/" with
  | [n, d] => match n.toNat?, d.toNat? with
    | some n, some d => if d = 0 then none else some ⟨n, -(Nat.log2 d : Int)⟩
    | _, _ => none
  | _ => none

def showPy {α} (f : α → String) : Py α → String
  | .ok v => "ok\t" ++ f v
  | .error e => "err\t" ++ e.tag

def showOpt {α} (f : α → String) : Option α → String
  | none => "None"
  | some v => f v

def showDT (d : DateTime) : String :=
  s!"{d.year}-{d.month}-{d.day}T{d.hour}:{d.minute}:{d.second}"

def parseDT (s : String) : Option DateTime :=
  match (s.splitOn "T").map (fun p => p.splitOn (if p.contains ':' then ":" else "-")) with
  | [[y, mo, d], [h, mi, se]] =>
    match y.toNat?, mo.toNat?, d.toNat?, h.toNat?, mi.toNat?, se.toNat? with
    | some y, some mo, some d, some h, some mi, some se => some ⟨y, mo, d, h, mi, se⟩
    | _, _, _, _, _, _ => none
  | _ => none

def parseBool (s : String) : Option Bool :=
  if s = "True" then some true else if s = "False" then some false else none

def showBool (b : Bool) : String := if b then "True" else "False"

def showTemp : TempV → String
  | .none => "None"
  | .false_ => "False"
  | .num neg v => (if neg ∧ v.m ≠ 0 then "-" else "") ++ showDy v

def parseTemp (s : String) : Option TempV :=
  if s = "None" then some .none
  else if s = "False" then some .false_
  else if s.startsWith "-" then (parseDy (s.drop 1).toString).map (TempV.num true)
  else (parseDy s).map (TempV.num false)

def showDevId : DevId → String
  | .non => "--:------"
  | .dev t n => String.ofList (toDecW 2 t ++ [':'] ++ toDecW 6 n)

end Driver
