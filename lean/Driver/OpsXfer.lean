import Driver.Wire
import Ramses.Model.SchedXfer
namespace Driver
open Ramses Ramses.Xfer

def parseExch (s : String) : Option Exch :=
  if s = "f" then some .fail else if s = "c" then some .cancel else
  match s.splitOn ":" with
  | ["r", v, n, t] => v.toInt?.bind fun v => n.toNat?.bind fun n => t.toNat?.map fun t => Exch.reply ⟨v.toNat, n, t⟩
  | _ => none

def showResult : Result → String
  | .sched v => s!"sched:{v}" | .error => "error" | .cancelled => "cancelled" | .lockTimeout => "lockTimeout"

def opsXfer (op : String) (a : List String) : Option String :=
  match op, a with
  | "xfer.run", [z, holder, toks] =>
    let es := (if toks = "" then [] else toks.splitOn ";").map parseExch
    if es.any (·.isNone) then none else
    let es := es.filterMap id
    -- the version query (0006) comes first when the fetch had not just done one: it is the reply with num = 0
    let (ver, frags) := match es with
      | .reply f :: rest => if f.num = 0 then (Exch.reply f, rest) else (Exch.reply ⟨0, 0, 0⟩, es)
      | .fail :: rest => (Exch.fail, rest)
      | .cancel :: rest => (Exch.cancel, rest)
      | [] => (Exch.cancel, [])
    let t0 : Tcs := ⟨if holder = "-" then none else some holder⟩
    let (t, _, r) := getSchedule true t0 z true ver [none] frags
    some ("ok\t" ++ (if t.lockIdx = none then "released" else "kept") ++ "\t" ++ showResult r)
  | "xfer.set", [z, holder, cacheS, cacheV, new, toks, ver] =>
    -- a write: the W exchanges ("a" / "f" / "c" separated by ;) then the 0006 read
    let ws := (if toks = "" then [] else toks.splitOn ";").filterMap fun x =>
      if x = "a" then some WExch.ack else if x = "f" then some WExch.fail else if x = "c" then some WExch.cancel else none
    let cs : Option Nat := if cacheS = "-" then none else cacheS.toNat?
    match cacheV.toNat?, new.toNat?, (if ver = "-" then some Exch.cancel else parseExch ver) with
    | some cv, some nw, some ve =>
      let t0 : Tcs := ⟨if holder = "-" then none else some holder⟩
      let (t, c, r) := setSchedule false t0 z true ⟨cs, cv⟩ nw ws ve
      some ("ok\t" ++ (if t.lockIdx = none then "released" else "kept") ++ "\t" ++ showResult r ++ "\t" ++
        (match c.sched with | some x => toString x | none => "-") ++ ":" ++ toString c.ver)
    | _, _, _ => none
  | _, _ => none

end Driver
