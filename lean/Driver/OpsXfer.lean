import Driver.Wire
import Ramses.Model.SchedXfer
namespace Driver
open Ramses Ramses.Xfer

def parseExch (s : String) : Option Exch :=
  if s = "f" then some .fail else if s = "c" then some .cancel else
  match s.splitOn ":" with
  | ["r", v, n, t] => v.toInt?.bind fun v => n.toNat?.bind fun n => t.toNat?.map fun t => Exch.reply ⟨v.toNat, n, t⟩
  | _ => none

def showResult : Result → String
  | .sched v => s!"sched:{v}" | .error => "error" | .cancelled => "cancelled" | .lockTimeout => "lockTimeout"

def opsXfer (op : String) (a : List String) : Option String :=
  match op, a with
  | "xfer.run", [z, holder, toks] =>
    let es := (if toks = "" then [] else toks.splitOn ";").map parseExch
    if es.any (·.isNone) then none else
    let es := es.filterMap id
    -- the version query (0006) comes first when the fetch had not just done one: it is the reply with num = 0
    let (ver, frags) := match es with
      | .reply f :: rest => if f.num = 0 then (Exch.reply f, rest) else (Exch.reply ⟨0, 0, 0⟩, es)
      | .fail :: rest => (Exch.fail, rest)
      | .cancel :: rest => (Exch.cancel, rest)
      | [] => (Exch.cancel, [])
    let t0 : Tcs := ⟨if holder = "-" then none else some holder⟩
    let (t, _, r) := getSchedule true t0 z true ver [none] frags
    some ("ok\t" ++ (if t.lockIdx = none then "released" else "kept") ++ "\t" ++ showResult r)
  | _, _ => none

end Driver
