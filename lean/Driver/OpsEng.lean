import Driver.Wire
import Ramses.Model.Engine
import Ramses.Model.ArrayMerge
namespace Driver
open Ramses Ramses.Eng

/-- one message of `amerge.run`: src:code:verbI:hasArray:t:mergeable:e1,e2,... -/
def parseAMsg (s : String) : Option AM.AMsg :=
  match s.splitOn ":" with
  | [src, code, vi, ha, t, mg, es] =>
    match src.toNat?, code.toNat?, parseBool vi, parseBool ha, t.toNat?, parseBool mg with
    | some src, some code, some vi, some ha, some t, some mg =>
      some ⟨src, code, vi, ha, t, (if es = "" then [] else es.splitOn ",").filterMap (·.toNat?), mg⟩
    | _, _, _, _, _, _ => none
  | _ => none

/-- state text: notPaused|handler|disableSending|disableDiscovery|reading|writePaused -/
def parseEng (s : String) : Option Eng :=
  match (s.splitOn "|").map parseBool with
  | [some np, some h, some ds, some dd, some rd, some wp, some lk] =>
    some ⟨if np then none else some ⟨true, false, false⟩, h, ds, dd, rd, wp, lk⟩
  | _ => none

def showEng (e : Eng) : String :=
  "|".intercalate ([e.saved.isNone, e.handler, e.disableSending, e.disableDiscovery, e.reading, e.writePaused, e.locked].map showBool)

def opsEng (op : String) (a : List String) : Option String :=
  match op, a with
  | "eng.run", [st, ops] =>
    (parseEng st).map fun e =>
      -- "snap:ok" / "restore:raise" ...: one guarded operation; "nested:<k>:<ok|raise>": a restore during which k
      -- snapshot attempts are made
      let (e', outs) := (if ops = "" then [] else ops.splitOn ",").foldl (fun (acc : Eng × List String) o =>
        match o.splitOn ":" with
        | ["nested", k, r] =>
          let (x, res, rs) := guardedWithNested (r = "raise") (List.replicate (k.toNat?.getD 0) false) acc.1
          (x, acc.2 ++ [s!"{repr res}/{rs.length}/{(rs.filter (· = Res.runtimeError)).length}"])
        | _ => ((guarded (o.endsWith ":raise") acc.1).1, acc.2)) (e, [])
      "ok\t" ++ showEng e' ++ (if outs.isEmpty then "" else "\t" ++ ";".intercalate outs)
  | "amerge.run", [evs] =>
    let ms := (if evs = "" then [] else evs.splitOn ";").map parseAMsg
    if ms.any (·.isNone) then some "bad-arg" else
    let out := AM.run AM.St.init (ms.filterMap id)
    some ("ok\t" ++ ";".intercalate (out.map fun m => ",".intercalate (m.elems.map toString)))
  | _, _ => none

end Driver
