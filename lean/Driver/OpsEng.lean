import Driver.Wire
import Ramses.Model.Engine
namespace Driver
open Ramses Ramses.Eng

/-- state text: notPaused|handler|disableSending|disableDiscovery|reading|writePaused -/
def parseEng (s : String) : Option Eng :=
  match (s.splitOn "|").map parseBool with
  | [some np, some h, some ds, some dd, some rd, some wp, some lk] =>
    some ⟨if np then none else some ⟨true, false, false⟩, h, ds, dd, rd, wp, lk⟩
  | _ => none

def showEng (e : Eng) : String :=
  "|".intercalate ([e.saved.isNone, e.handler, e.disableSending, e.disableDiscovery, e.reading, e.writePaused, e.locked].map showBool)

def opsEng (op : String) (a : List String) : Option String :=
  match op, a with
  | "eng.run", [st, ops] =>
    (parseEng st).map fun e =>
      -- "snap:ok" / "restore:raise" ...: one guarded operation; "nested:<k>:<ok|raise>": a restore during which k
      -- snapshot attempts are made
      let (e', outs) := (if ops = "" then [] else ops.splitOn ",").foldl (fun (acc : Eng × List String) o =>
        match o.splitOn ":" with
        | ["nested", k, r] =>
          let (x, res, rs) := guardedWithNested (r = "raise") (List.replicate (k.toNat?.getD 0) false) acc.1
          (x, acc.2 ++ [s!"{repr res}/{rs.length}/{(rs.filter (· = Res.runtimeError)).length}"])
        | _ => ((guarded (o.endsWith ":raise") acc.1).1, acc.2)) (e, [])
      "ok\t" ++ showEng e' ++ (if outs.isEmpty then "" else "\t" ++ ";".intercalate outs)
  | _, _ => none

end Driver
