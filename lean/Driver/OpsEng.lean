import Driver.Wire
import Ramses.Model.Engine
namespace Driver
open Ramses Ramses.Eng

/-- state text: notPaused|handler|disableSending|disableDiscovery|reading|writePaused -/
def parseEng (s : String) : Option Eng :=
  match (s.splitOn "|").map parseBool with
  | [some np, some h, some ds, some dd, some rd, some wp] =>
    some ⟨if np then none else some ⟨true, false, false⟩, h, ds, dd, rd, wp⟩
  | _ => none

def showEng (e : Eng) : String :=
  "|".intercalate ([e.saved.isNone, e.handler, e.disableSending, e.disableDiscovery, e.reading, e.writePaused].map showBool)

def opsEng (op : String) (a : List String) : Option String :=
  match op, a with
  | "eng.run", [st, ops] =>
    (parseEng st).map fun e =>
      let bs := (if ops = "" then [] else ops.splitOn ",").map fun o => o.endsWith ":raise"
      "ok\t" ++ showEng (runOps e bs)
  | _, _ => none

end Driver
