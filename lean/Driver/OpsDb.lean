import Driver.Wire
import Ramses.Model.MsgDb
namespace Driver
open Ramses Ramses.Db

def parseLife (s : String) : Option Life :=
  if s = "C" then some .cant else s.toNat?.map .dur

def parseVerb (s : String) : String :=
  if s = "I" then " I" else if s = "W" then " W" else s

def parseElems (s : String) : List (String × Int) :=
  (if s = "" then [] else s.splitOn "|").filterMap fun x =>
    match x.splitOn "=" with
    | [k, v] => v.toInt?.map fun v => (k, v)
    | _ => none

def parseDbEv (s : String) : Option Ev :=
  match s.splitOn "," with
  | ["M", seq, src, dst, verb, code, dtm, life, elems] =>
    seq.toNat?.bind fun seq => dtm.toInt?.bind fun dtm => (parseLife life).map fun life =>
      Ev.msg ⟨seq, src, dst, parseVerb verb, code, dtm, life, parseElems elems⟩
  | ["R", now, z, codes] => now.toInt?.map fun now => Ev.read now z (codes.splitOn "+")
  | _ => none

def showOptInt : Option Int → String
  | none => "None"
  | some v => toString v

def opsDb (op : String) (a : List String) : Option String :=
  match op, a with
  | "db.run", [ctl, zones, evs] =>
    let es := (if evs = "" then [] else evs.splitOn ";").map parseDbEv
    if es.any (·.isNone) then none else
    let (t, outs) := runEvs ctl (zones.splitOn ",") (es.filterMap id)
    some ("ok\t" ++ ",".intercalate (outs.map showOptInt) ++ "\t" ++
      ";".intercalate (t.map fun e => e.1 ++ "/" ++ ",".intercalate (e.2.map fun x => s!"{x.1}:{x.2.m.seq}")))
  | "db.expired", [dtm, life, nows] =>
    dtm.toInt?.bind fun dtm => (parseLife life).map fun life =>
      let ts := (if nows = "" then [] else nows.splitOn ",").filterMap (·.toInt?)
      let s : Slot := ⟨⟨0, "", "", "", "", dtm, life, []⟩, false⟩
      "ok\t" ++ ",".intercalate ((s.reads ts).1.map showBool)
  | _, _ => none

end Driver
