import Driver.Wire
import Ramses.Model.Snapshot
namespace Driver
open Ramses Ramses.Snap

/-- "stamp,verb,code,len,expired,slot|slot|..."; verb tokens I RQ RP W -/
def parseSnapEv (s : String) : Option (P × List String) :=
  match s.splitOn "," with
  | [stamp, verb, code, len, ex, slots] =>
    stamp.toNat?.bind fun stamp => len.toNat?.bind fun len => (parseBool ex).map fun ex =>
      let v := if verb = "I" then " I" else if verb = "W" then " W" else verb
      (⟨stamp, v, code, len, ex⟩, if slots = "" then [] else slots.splitOn "|")
  | _ => none

def opsSnap (op : String) (a : List String) : Option String :=
  match op, a with
  | "snap.wanted", [inc, verb, code, len, ex] =>
    (parseBool inc).bind fun inc => len.toNat?.bind fun len => (parseBool ex).map fun ex =>
      let v := if verb = "I" then " I" else if verb = "W" then " W" else verb
      "ok\t" ++ showBool (wanted inc ⟨0, v, code, len, ex⟩)
  | "snap.run", [inc, evs] =>
    (parseBool inc).bind fun inc =>
      let es := (if evs = "" then [] else evs.splitOn ";").map parseSnapEv
      if es.any (·.isNone) then none else
      let es := es.filterMap id
      -- routing table: stamp ↦ slots (stamps are unique in a history)
      let route : P → List String := fun p => ((es.find? (fun e => e.1.stamp = p.stamp)).map (·.2)).getD []
      let h := es.map (·.1)
      let s1 := snapOf route inc h
      let s2 := snapOf route inc s1
      some ("ok\t" ++ ",".intercalate (s1.map fun p => toString p.stamp) ++ "\t" ++ showBool (s1 == s2))
  | _, _ => none

end Driver
