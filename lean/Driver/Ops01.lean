import Driver.Wire
import Driver.Ops02
import Ramses.Model.Recv
namespace Driver
open Ramses

def hexToBytes (s : String) : List Nat := (bytesOfHex s.toList).getD []

def bytesToHex (bs : List Nat) : String := String.ofList (bs.flatMap (toHexW 2))

def showOutcome : Outcome → String
  | .skipped => "skipped"
  | .valueError => "ValueError"
  | .invalid => "PacketInvalid"
  | .packet p => s!"packet\t{esc p.rssi}\t{esc (printFrame p.frame)}\t{match p.lifespan with | none => "False" | some u => toString u}"
  | .escaped e => "escaped\t" ++ e.tag

def parseTag (s : String) : PyExn :=
  match s with
  | "PacketInvalid" => .pktInvalid
  | "ValueError" => .valueError
  | "TypeError" => .typeError
  | "AssertionError" => .assertionError
  | "LookupError" => .keyError
  | "AttributeError" => .attributeError
  | "NotImplementedError" => .notImplemented
  | "ZeroDivisionError" => .zeroDivision
  | "OverflowError" => .overflowError
  | _ => .other

def ops01 (op : String) (a : List String) : Option String :=
  match op, a with
  | "recv.file", [ok, line] => (parseBool ok).map fun ok => showOutcome (frameRead ok (unesc line))
  | "recv.fileline", [ok, raw] => (parseBool ok).map fun ok => showOutcome (fileLine ok (unesc raw))
  | "recv.dict", [ok, line] => (parseBool ok).map fun ok =>
      match pktFromDict ok (unesc line) with
      | .ok p => showOutcome (.packet p)
      | .error e => "err\t" ++ e.tag
  | "recv.port", [hex] => some (showOutcome (portLine (hexToBytes hex)))
  | "recv.norm", [hex] => some ("ok\t" ++ esc (normalise (strOfBytes (hexToBytes hex))))
  | "recv.feed", chunks =>
      let (buf, lines) := feedAll [] (chunks.map hexToBytes)
      some ("ok\t" ++ "|".intercalate (lines.map bytesToHex) ++ "\t" ++ bytesToHex buf)
  | "recv.msg", [frame, parserOut] =>
      some (withFrameS frame fun f =>
        match msgValidate f (fun _ => if parserOut = "ok" then .ok () else .error (parseTag parserOut)) with
        | .ok () => "ok"
        | .error e => "err\t" ++ e.tag)
  | _, _ => none
where
  withFrameS (s : String) (k : Frame → String) : String :=
    match parseFrame (unesc s) with
    | .ok f => k f
    | .error e => "err\tparse:" ++ e.tag

end Driver
