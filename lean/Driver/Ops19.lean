import Driver.Wire
import Ramses.Model.FaultLog
namespace Driver
open Ramses

def parseFMsg (s : String) : Option FMsg :=
  if s.startsWith "N" then (s.drop 1).toString.toNat?.map fun i => ⟨i, none⟩
  else if s.startsWith "E" then
    match (s.drop 1).toString.splitOn ":" with
    | [i, d] => i.toNat?.bind fun i => d.toNat?.map fun d => ⟨i, some d⟩
    | _ => none
  else none

def showFMap (m : FMap) : String := ",".intercalate (m.map fun kv => s!"{kv.1}:{kv.2}")

def ops19 (op : String) (a : List String) : Option String :=
  match op, a with
  | "flog.run", [evs] =>
    let msgs := (if evs = "" then [] else evs.splitOn ";").filterMap parseFMsg
    let states := msgs.foldl (fun (acc : FLog × List String) m =>
      let s' := processMsg acc.1 m
      (s', acc.2 ++ [showFMap s'.map ++ "/" ++ ",".intercalate (s'.log.map toString)])) (FLog.empty, [])
    some ("ok\t" ++ "|".intercalate states.2)
  | "flog.get", [evs, ctl, start, limit] =>
    -- events so far, then a real read-through (start, limit) against the controller's log `ctl`
    let msgs := (if evs = "" then [] else evs.splitOn ";").filterMap parseFMsg
    let L := (if ctl = "" then [] else ctl.splitOn ",").filterMap (·.toNat?)
    match start.toNat?, limit.toNat? with
    | some st, some li =>
      let s' := getFaultlog L (processAll FLog.empty msgs) st li
      some ("ok\t" ++ showFMap s'.map ++ "/" ++ ",".intercalate (s'.log.map toString))
    | _, _ => none
  | _, _ => none

end Driver
