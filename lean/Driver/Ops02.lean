import Driver.Wire
import Ramses.Model.Frame
import Ramses.Model.LogLine
import Ramses.Gen.Tables
namespace Driver
open Ramses

def showFrame (f : Frame) : String :=
  esc (printFrame f) ++ "\t" ++ "|".intercalate ([f.verb, f.seqn, f.a0, f.a1, f.a2, f.code, f.len, f.payload].map esc)

def ops02 (op : String) (a : List String) : Option String :=
  match op, a with
  | "frame.shape", [s] =>
    let s := unesc s
    some s!"ok\t{showBool (isFrameShape s)}\t{showBool (Gen.cmdRegex.matches s)}"
  | "frame.parse", [s] => some (showPy showFrame (parseFrame (unesc s)))
  | "cmd.parse", [s] => some (showPy showFrame (parseCommand (unesc s)))
  | "cli.parse", [s] => some (showPy showFrame (fromCli (unesc s)))
  | "attrs", [verb, code, payload, a0, a1, a2, seqn] =>
    some (showPy showFrame (fromAttrs (unesc verb) (unesc code) (unesc payload) (unesc a0) (unesc a1) (unesc a2)
      (if seqn = "None" then none else some (unesc (seqn.drop 1).toString))))
  | "log.write", [y, mo, d, h, mi, se, us, rssi, frame] =>
    match [y, mo, d, h, mi, se, us].map (·.toNat?) with
    | [some y, some mo, some d, some h, some mi, some se, some us] =>
      some ("ok\t" ++ esc (LogLine.writeLine ⟨⟨y, mo, d, h, mi, se⟩, us⟩ (unesc rssi) (unesc frame)))
    | _ => none
  | "log.iso", [y, mo, d, h, mi, se, us] =>
    match [y, mo, d, h, mi, se, us].map (·.toNat?) with
    | [some y, some mo, some d, some h, some mi, some se, some us] => some ("ok\t" ++ esc (LogLine.fmtIso ⟨⟨y, mo, d, h, mi, se⟩, us⟩))
    | _ => none
  | "log.read", [line] =>
    match LogLine.readLine (unesc line) with
    | none => some "err\tValueError"
    | some (t, rest) => some s!"ok\t{t.dt.year},{t.dt.month},{t.dt.day},{t.dt.hour},{t.dt.minute},{t.dt.second},{t.us}\t{esc rest}"
  | _, _ => none

end Driver
