import Driver.Wire
import Ramses.Model.Bind
namespace Driver
open Ramses Ramses.Bind

def parseS (s : String) : Option S :=
  match s with
  | "DevIsNotBinding" => some .notBinding | "DevHasFailedBinding" => some .failed
  | "RespHasBoundAsRespondent" => some .respBound | "SuppHasBoundAsSupplicant" => some .suppBound
  | "RespIsWaitingForOffer" => some .respWaitOffer | "RespSendAcceptWaitForConfirm" => some .respSendAcceptWaitConfirm
  | "RespIsWaitingForAddenda" => some .respWaitAddenda | "SuppSendOfferWaitForAccept" => some .suppSendOfferWaitAccept
  | "SuppIsReadyToSendConfirm" => some .suppReadyConfirm | "SuppIsReadyToSendAddenda" => some .suppReadyAddenda
  | _ => none

def showS : S → String
  | .notBinding => "DevIsNotBinding" | .failed => "DevHasFailedBinding"
  | .respBound => "RespHasBoundAsRespondent" | .suppBound => "SuppHasBoundAsSupplicant"
  | .respWaitOffer => "RespIsWaitingForOffer" | .respSendAcceptWaitConfirm => "RespSendAcceptWaitForConfirm"
  | .respWaitAddenda => "RespIsWaitingForAddenda" | .suppSendOfferWaitAccept => "SuppSendOfferWaitForAccept"
  | .suppReadyConfirm => "SuppIsReadyToSendConfirm" | .suppReadyAddenda => "SuppIsReadyToSendAddenda"

def parsePhase (s : String) : Phase :=
  match s with
  | "offer" => .offer | "accept" => .accept | "confirm" => .confirm | "addenda" => .addenda | _ => .other

def showExn : Option Exn → String
  | none => "ok"
  | some .invalidState => "InvalidStateError"
  | some .notImplemented => "NotImplementedError"
  | some .bindingFsmError => "BindingFsmError"
  | some .bindingFlowFailed => "BindingFlowFailed"

/-- replay one observed event; `some err` = the model disagrees with what was observed -/
def replayEv (c : Ctx) (line : String) : Ctx × Option String :=
  match line.splitOn ":" with
  | ["E", s] => match parseS s with
    | some s => (enter s, none)
    | none => (c, some s!"unknown state {s}")
  | ["R", ph, echo, before, res] =>
    if parseS before ≠ some c.st then (c, some s!"rcvd in state {before}, model is in {showS c.st}")
    else if res ≠ "ok" then (c, some s!"rcvd raised {res}, model: never raises")
    else (if c.st.isBinding then rcvd c (parsePhase ph) (echo = "1") else c, none)
  | ["S", ph, before, res] =>
    if parseS before ≠ some c.st then (c, some s!"sent in state {before}, model is in {showS c.st}")
    else
      let (c', e) := if c.st.isBinding then sentCmd c (parsePhase ph) else (c, none)
      if showExn e ≠ res then (c', some s!"sent -> {res}, model: {showExn e}") else (c', none)
  | ["W", before, timedOut, outcome, after] =>
    -- the waited-on state object may have been failed by its own timer already (the context is then in
    -- DevHasFailedBinding and `c.fut` is that object's failed future)
    if parseS before ≠ some c.st ∧ ¬ (c.st = .failed ∧ c.fut = .failed) then
      (c, some s!"wait ends in state {before}, model is in {showS c.st}")
    else
      let (c', e) := waitEnd c (timedOut = "1")
      let o := match e with | none => "msg" | some x => showExn (some x)
      if o ≠ outcome then (c', some s!"wait -> {outcome}, model: {o}")
      else if parseS after ≠ some c'.st then (c', some s!"after the wait the state is {after}, model: {showS c'.st}")
      else (c', none)
  | ["T", before, after] =>
    if parseS before ≠ some c.st then (c, none)      -- a stale state object's timer: must be harmless (checked by the oracle)
    else
      let c' := stateTimer c
      if parseS after ≠ some c'.st then (c', some s!"after the state timer the state is {after}, model: {showS c'.st}") else (c', none)
  | _ => (c, some s!"unparsable event {line}")

def opsBind (op : String) (a : List String) : Option String :=
  match op, a with
  | "bind.run", [evs] =>
    let lines := if evs = "" then [] else evs.splitOn ";"
    let (c, err, n) := lines.foldl (fun (acc : Ctx × Option String × Nat) ln =>
      match acc.2.1 with
      | some _ => acc
      | none => let (c', e) := replayEv acc.1 ln; (c', e.map (fun m => s!"event {acc.2.2} ({ln}): {m}"), acc.2.2 + 1))
      (enter .notBinding, none, 0)
    some (match err with
      | none => s!"ok\t{showS c.st}\t{n}"
      | some m => "mismatch\t" ++ m)
  | _, _ => none

end Driver
