import Driver.Wire
import Driver.Ops01
import Ramses.Model.Sched
namespace Driver
open Ramses

def showSched (s : Sched) : String :=
  s!"{s.idx}|" ++ ";".intercalate (s.days.map fun d =>
    s!"{d.dow}:" ++ ",".intercalate (d.sps.map fun sp => s!"{sp.tod}={sp.val}"))

/-- a zlib whose decompress is a lookup table supplied by the harness (real zlib results) -/
def tableZlib (tbl : List (List Nat × Option (List Nat))) : Zlib :=
  { compress := id, decompress := fun b => ((tbl.find? (·.1 = b)).map (·.2)).getD none }

def parseTable (s : String) : List (List Nat × Option (List Nat)) :=
  (if s = "" then [] else s.splitOn ";").filterMap fun kv =>
    match kv.splitOn "=" with
    | [k, v] => some (hexToBytes k, if v = "bad" then none else some (hexToBytes v))
    | _ => none

def parseFrag (s : String) : Option FragMsg :=
  match s.splitOn "/" with
  | [n, t, f] => n.toNat?.bind fun n => t.toNat?.map fun t => ⟨n, t, f.toList⟩
  | _ => none

def showSet (ps : PayloadSet) : String :=
  ",".intercalate (ps.map fun | none => "-" | some p => s!"{p.num}/{p.total}/{String.ofList p.frag}")

def ops17 (op : String) (a : List String) : Option String :=
  match op, a with
  | "sched.pack", [idx, dow, tod, val] =>
    idx.toNat?.bind fun idx => dow.toNat?.bind fun dow => tod.toNat?.bind fun tod =>
      (if val = "True" then some 1 else if val = "False" then some 0 else (parseDy val).map packSetpoint).map fun v =>
        "ok\t" ++ bytesToHex (structPack idx dow tod v)
  | "sched.raw", [hex] => some (match schedOfRaw (hexToBytes hex) with
      | some s => "ok\t" ++ showSched s
      | none => "err")
  | "sched.cut", [hex] => some ("ok\t" ++ ",".intercalate ((cutEvery 82 hex.toList).map String.ofList))
  | "sched.asm", [tbl, evs] =>
    let z := tableZlib (parseTable tbl)
    let msgs := (if evs = "" then [] else evs.splitOn ";").filterMap parseFrag
    let r := msgs.foldl (fun (acc : PayloadSet × List String) m =>
      let (set', s) := updateSet z acc.1 m
      (set', acc.2 ++ [showSet set' ++ "=>" ++ (match s with | some s => showSched s | none => "-")])) ([none], [])
    some ("ok\t" ++ "|".intercalate r.2)
  | "sched.feed", [tbl, evs] =>
    -- one Schedule object, the passive path: the set and the schedule held after every packet of the history
    let z := tableZlib (parseTable tbl)
    let msgs := (if evs = "" then [] else evs.splitOn ";").filterMap parseFrag
    let r := msgs.foldl (fun (acc : (PayloadSet × Option Sched) × List String) m =>
      let st := feedMsg z acc.1 m
      (st, acc.2 ++ [showSet st.1 ++ "=>" ++ (match st.2 with | some s => showSched s | none => "-")])) (([none], none), [])
    some ("ok\t" ++ "|".intercalate r.2)
  | _, _ => none

end Driver
