import Driver.Wire
import Ramses.Model.Match
namespace Driver
open Ramses

def showOptStr : Option (List Char) → String
  | none => "None"
  | some s => esc s

def withFrame (s : String) (k : Frame → String) : String :=
  match parseFrame (unesc s) with
  | .ok f => k f
  | .error e => "err\tparse:" ++ e.tag

def ops06 (op : String) (a : List String) : Option String :=
  match op, a with
  | "hdr.tx", [s] => some (withFrame s fun f => showPy esc (txHeader f))
  | "hdr.rx", [s] => some (withFrame s fun f => showPy showOptStr (rxHeader f))
  | "hdr.arr", [s] => some (withFrame s fun f => showPy showBool (hasArrayFirst f.core))
  | "hdr.ctl", [s] => some (withFrame s fun f => "ok\t" ++ showBool (hasCtl f.core))
  | "hdr.haspayload", [s] => some (withFrame s fun f => "ok\t" ++ showBool (hasPayload f.core))
  | "match.early", [g, c, p] => some (withFrame c fun cf => withFrame p fun pf =>
      showPy showBool (isEarlyReply (unesc g) cf pf))
  | "match.echo", [g, c, p] => some (withFrame c fun cf => withFrame p fun pf =>
      showPy showBool (isEchoOf (unesc g) cf pf))
  | "match.reply", [g, c, e, p] => some (withFrame c fun cf => withFrame e fun ef => withFrame p fun pf =>
      showPy showBool (isReplyOf (unesc g) cf ef pf))
  | "bind.own", [c, p] => some (withFrame c fun cf => withFrame p fun pf =>
      showPy (fun f => if f = cf then "cmd" else "pkt") (ownPkt cf pf))
  | _, _ => none

end Driver
