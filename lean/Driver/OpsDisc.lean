import Driver.Wire
import Ramses.Model.Discovery
namespace Driver
open Ramses Ramses.Disc

def parseCls (s : String) : Option ZClass :=
  match s with
  | "08" => some .rad | "09" => some .ufh | "0A" => some .val | "0B" => some .mix | "11" => some .ele | _ => none

def showCls : ZClass → String
  | .rad => "08" | .ufh => "09" | .val => "0A" | .mix => "0B" | .ele => "11"

def optS (s : String) : Option String := if s = "-" ∨ s = "" then none else some s

/-- cfg text: "idx=cls,sensor,act+act;...|dhwSensor|hwValve|htgValve|app" -/
def parseCfg (s : String) : Option Cfg :=
  match s.splitOn "|" with
  | [zs, a, b, c, d] =>
    let zl := (if zs = "" then [] else zs.splitOn ";").filterMap fun x =>
      match x.splitOn "=" with
      | [i, rest] => match rest.splitOn "," with
        | [cl, sen, acts] => (parseCls cl).map fun cl => (i, (⟨cl, optS sen, if acts = "" then [] else acts.splitOn "+"⟩ : ZoneCfg))
        | _ => none
      | _ => none
    some ⟨fun i => (zl.find? (fun e => e.1 = i)).map (·.2), optS a, optS b, optS c, optS d⟩
  | _ => none

/-- a request key as the harness names it: "0005/0008", "000C/0104", ... -/
def qKey : Q → String
  | .mask c => "0005/00" ++ showCls c
  | .maskSen => "0005/0004"
  | .zoneAct i none => "000C/" ++ i ++ "00"
  | .zoneAct i (some c) => "000C/" ++ i ++ showCls c
  | .zoneSen i => "000C/" ++ i ++ "04"
  | .app => "000C/000F" | .dhwSensor => "000C/000D" | .hwValve => "000C/000E" | .htgValve => "000C/010E"

def showSch (s : Sch) : String :=
  let zs := allIdx.filterMap fun i => (s.zone i).map fun z =>
    s!"{i}={(z.cls.map showCls).getD "-"},{z.sensor.getD "-"},{"+".intercalate (z.actuators.mergeSort (· ≤ ·))}"
  ";".intercalate zs ++ "|" ++ s.dhwSensor.getD "-" ++ "|" ++ s.hwValve.getD "-" ++ "|" ++ s.htgValve.getD "-" ++ "|" ++ s.app.getD "-"

def opsDisc (op : String) (a : List String) : Option String :=
  match op, a with
  | "disc.run", [cfg, losses] =>
    (parseCfg cfg).map fun cfg =>
      -- losses: one comma-separated list of request keys per round, rounds separated by ';'
      let ls := (if losses = "" then [] else losses.splitOn ";").map fun r =>
        let ks := if r = "" then [] else r.splitOn ","
        fun (q : Q) => ks.contains (qKey q)
      "ok\t" ++ showSch (rounds cfg ls Sch.empty)
  | _, _ => none

end Driver
