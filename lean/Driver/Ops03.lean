import Driver.Wire
import Driver.Ops02
import Ramses.Model.Builders
namespace Driver
open Ramses

def parseIdx (s : String) : Option IdxArg :=
  if s.startsWith "i" then (s.drop 1).toString.toInt?.map IdxArg.int
  else if s.startsWith "s" then some (.str (unesc (s.drop 1).toString))
  else none

def parseFloatArg (s : String) : Option FloatArg :=
  if s = "None" then some none
  else if s.startsWith "-" then (parseDy (s.drop 1).toString).map fun d => some (true, d)
  else (parseDy s).map fun d => some (false, d)

def parseFloat (s : String) : Option (Bool × Dy) := (parseFloatArg s).bind id

def showBuilt (r : Py Frame) : String := showPy (fun f => esc (printFrame f)) r

def ops03 (op : String) (a : List String) : Option String :=
  match op, a with
  | "build", ["get_zone_name", c, i] => (parseIdx i).map fun i => showBuilt (getZoneName (unesc c) i)
  | "build", ["get_zone_config", c, i] => (parseIdx i).map fun i => showBuilt (getZoneConfig (unesc c) i)
  | "build", ["get_zone_mode", c, i] => (parseIdx i).map fun i => showBuilt (getZoneMode (unesc c) i)
  | "build", ["get_zone_setpoint", c, i] => (parseIdx i).map fun i => showBuilt (getZoneSetpoint (unesc c) i)
  | "build", ["get_zone_temp", c, i] => (parseIdx i).map fun i => showBuilt (getZoneTemp (unesc c) i)
  | "build", ["get_zone_window_state", c, i] => (parseIdx i).map fun i => showBuilt (getZoneWindowState (unesc c) i)
  | "build", ["get_dhw_params", c, i] => (parseIdx i).map fun i => showBuilt (getDhwParams (unesc c) i)
  | "build", ["get_dhw_temp", c, i] => (parseIdx i).map fun i => showBuilt (getDhwTemp (unesc c) i)
  | "build", ["get_relay_demand", c, i] =>
      if i = "None" then some (showBuilt (getRelayDemand (unesc c) none))
      else (parseIdx i).map fun i => showBuilt (getRelayDemand (unesc c) (some i))
  | "build", ["set_zone_setpoint", c, i, t] => (parseIdx i).bind fun i => (parseFloat t).map fun t =>
      showBuilt (setZoneSetpoint (unesc c) i t)
  | "build", ["put_sensor_temp", d, t] => (parseFloatArg t).map fun t => showBuilt (putSensorTemp (unesc d) t)
  | "build", ["put_dhw_temp", d, t] => (parseFloatArg t).map fun t => showBuilt (putDhwTemp (unesc d) t)
  | "build", ["set_dhw_params", c, sp, ov, df] => (parseFloat sp).bind fun sp => ov.toInt?.bind fun ov => (parseFloat df).map fun df =>
      showBuilt (setDhwParams (unesc c) sp ov df)
  | "build", ["set_zone_config", c, i, lo, hi, a, b, m] => (parseIdx i).bind fun i => (parseFloat lo).bind fun lo => (parseFloat hi).bind fun hi =>
      (parseBool a).bind fun a => (parseBool b).bind fun b => (parseBool m).map fun m =>
      showBuilt (setZoneConfig (unesc c) i lo hi a b m)
  | _, _ => none

end Driver
