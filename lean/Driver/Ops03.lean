import Driver.Wire
import Driver.Ops02
import Ramses.Model.Builders
import Ramses.Model.OpenTherm
namespace Driver
open Ramses

def parseIdx (s : String) : Option IdxArg :=
  if s.startsWith "i" then (s.drop 1).toString.toInt?.map IdxArg.int
  else if s.startsWith "s" then some (.str (unesc (s.drop 1).toString))
  else none

def parseFloatArg (s : String) : Option FloatArg :=
  if s = "None" then some none
  else if s.startsWith "-" then (parseDy (s.drop 1).toString).map fun d => some (true, d)
  else (parseDy s).map fun d => some (false, d)

def parseFloat (s : String) : Option (Bool × Dy) := (parseFloatArg s).bind id

def parseMode (s : String) : Option ModeArg :=
  if s = "None" then some .none
  else if s.startsWith "i" then (s.drop 1).toString.toInt?.map ModeArg.int
  else if s.startsWith "s" then some (.str (unesc (s.drop 1).toString))
  else none

def parseOptDt (s : String) : Option (Option DateTime) :=
  if s = "None" then some none
  else match (s.splitOn ",").map (·.toNat?) with
    | [some y, some mo, some d, some h, some mi, some se] => some (some ⟨y, mo, d, h, mi, se⟩)
    | _ => none

def parseOptInt (s : String) : Option (Option Int) := if s = "None" then some none else s.toInt?.map some

def parseOptBool (s : String) : Option (Option Bool) := if s = "None" then some none else (parseBool s).map some

def parseOptIdx (s : String) : Option (Option IdxArg) := if s = "None" then some none else (parseIdx s).map some

def showBuilt (r : Py Frame) : String := showPy (fun f => esc (printFrame f)) r

def ops03 (op : String) (a : List String) : Option String :=
  match op, a with
  | "build", ["get_zone_name", c, i] => (parseIdx i).map fun i => showBuilt (getZoneName (unesc c) i)
  | "build", ["get_zone_config", c, i] => (parseIdx i).map fun i => showBuilt (getZoneConfig (unesc c) i)
  | "build", ["get_zone_mode", c, i] => (parseIdx i).map fun i => showBuilt (getZoneMode (unesc c) i)
  | "build", ["get_zone_setpoint", c, i] => (parseIdx i).map fun i => showBuilt (getZoneSetpoint (unesc c) i)
  | "build", ["get_zone_temp", c, i] => (parseIdx i).map fun i => showBuilt (getZoneTemp (unesc c) i)
  | "build", ["get_zone_window_state", c, i] => (parseIdx i).map fun i => showBuilt (getZoneWindowState (unesc c) i)
  | "build", ["get_dhw_params", c, i] => (parseIdx i).map fun i => showBuilt (getDhwParams (unesc c) i)
  | "build", ["get_dhw_temp", c, i] => (parseIdx i).map fun i => showBuilt (getDhwTemp (unesc c) i)
  | "build", ["get_relay_demand", c, i] =>
      if i = "None" then some (showBuilt (getRelayDemand (unesc c) none))
      else (parseIdx i).map fun i => showBuilt (getRelayDemand (unesc c) (some i))
  | "build", ["set_zone_setpoint", c, i, t] => (parseIdx i).bind fun i => (parseFloat t).map fun t =>
      showBuilt (setZoneSetpoint (unesc c) i t)
  | "build", ["put_sensor_temp", d, t] => (parseFloatArg t).map fun t => showBuilt (putSensorTemp (unesc d) t)
  | "build", ["put_dhw_temp", d, t] => (parseFloatArg t).map fun t => showBuilt (putDhwTemp (unesc d) t)
  | "build", ["put_outdoor_temp", d, t] => (parseFloatArg t).map fun t => showBuilt (putOutdoorTemp (unesc d) t)
  | "build", ["put_co2_level", d, t] => (parseFloatArg t).map fun t => showBuilt (putCo2Level (unesc d) t)
  | "build", ["put_indoor_humidity", d, t] => (parseFloatArg t).map fun t => showBuilt (putIndoorHumidity (unesc d) t)
  | "build", ["set_dhw_params", c, sp, ov, df] => (parseFloat sp).bind fun sp => ov.toInt?.bind fun ov => (parseFloat df).map fun df =>
      showBuilt (setDhwParams (unesc c) sp ov df)
  | "build", ["set_zone_config", c, i, lo, hi, a, b, m] => (parseIdx i).bind fun i => (parseFloat lo).bind fun lo => (parseFloat hi).bind fun hi =>
      (parseBool a).bind fun a => (parseBool b).bind fun b => (parseBool m).map fun m =>
      showBuilt (setZoneConfig (unesc c) i lo hi a b m)
  | "build", ["get_system_mode", c] => some (showBuilt (getSystemMode (unesc c)))
  | "build", ["get_system_time", c] => some (showBuilt (getSystemTime (unesc c)))
  | "build", ["get_schedule_version", c] => some (showBuilt (getScheduleVersion (unesc c)))
  | "build", ["get_system_language", c] => some (showBuilt (getSystemLanguage (unesc c)))
  | "build", ["get_dhw_mode", c, i] => (parseIdx i).map fun i => showBuilt (getDhwMode (unesc c) i)
  | "build", ["get_mix_valve_params", c, i] => (parseIdx i).map fun i => showBuilt (getMixValveParams (unesc c) i)
  | "build", ["get_tpi_params", d, dom] => (parseOptIdx dom).map fun dom => showBuilt (getTpiParams (unesc d) dom)
  | "build", ["set_system_mode", c, m, u] => (parseMode m).bind fun m => (parseOptDt u).map fun u => showBuilt (setSystemMode (unesc c) m u)
  | "build", ["set_system_time", c, d, dst] => (parseOptDt d).bind fun d => (parseBool dst).bind fun dst =>
      d.map fun d => showBuilt (setSystemTime (unesc c) d dst)
  | "build", ["set_dhw_mode", c, i, m, a, u, du] => (parseIdx i).bind fun i => (parseMode m).bind fun m => (parseOptBool a).bind fun a =>
      (parseOptDt u).bind fun u => (parseOptInt du).map fun du => showBuilt (setDhwMode (unesc c) i m a u du)
  | "build", ["set_zone_mode", c, i, m, sp, u, du] => (parseIdx i).bind fun i => (parseMode m).bind fun m => (parseFloatArg sp).bind fun sp =>
      (parseOptDt u).bind fun u => (parseOptInt du).map fun du => showBuilt (setZoneMode (unesc c) i m sp u du)
  | "build", ["set_mix_valve_params", c, i, a, b, v, pr, cc] => (parseIdx i).bind fun i => a.toInt?.bind fun a => b.toInt?.bind fun b =>
      v.toInt?.bind fun v => pr.toInt?.bind fun pr => cc.toInt?.map fun cc => showBuilt (setMixValveParams (unesc c) i a b v pr cc)
  | "build", ["set_tpi_params", c, dom, cr, on, off, pbw] => (parseOptIdx dom).bind fun dom => cr.toInt?.bind fun cr => on.toInt?.bind fun on =>
      off.toInt?.bind fun off => (parseFloatArg pbw).map fun pbw => showBuilt (setTpiParams (unesc c) dom cr on off pbw)
  | "build", ["set_zone_name", c, i, n] => (parseIdx i).map fun i => showBuilt (setZoneName (unesc c) i (unesc n))
  | "build", ["get_opentherm_data", c, i] => (parseIdx i).map fun i => showBuilt (OT.getOpenthermData (unesc c) i)
  | "build", ["get_system_log_entry", c, i] => (parseIdx i).map fun i => showBuilt (OT.getSystemLogEntry (unesc c) i)
  | "build", ["get_schedule_fragment", c, i, fn, tot] => (parseIdx i).bind fun i => fn.toInt?.bind fun fn => (parseOptInt tot).map fun tot =>
      showBuilt (OT.getScheduleFragment (unesc c) i fn tot)
  | "build", ["set_schedule_fragment", c, i, fn, cnt, fr] => (parseIdx i).bind fun i => fn.toInt?.bind fun fn => cnt.toInt?.map fun cnt =>
      showBuilt (OT.setScheduleFragment (unesc c) i fn cnt (unesc fr))
  | "ot.parity", [x] => x.toNat?.map fun x => s!"ok\t{OT.parity x}"
  | "ot.check", [fr] => some (showPy (fun _ => "ok") (OT.frameCheck (unesc fr)))
  | _, _ => none

end Driver
