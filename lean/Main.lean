import Driver.Ops04
import Driver.Ops02
import Driver.Ops06
import Driver.Ops01
import Driver.Ops05
import Driver.Ops03
import Driver.Ops10
import Driver.Ops19
import Driver.Ops17
import Driver.OpsQos
import Driver.OpsLim
import Driver.OpsDb
import Driver.OpsEng
import Driver.OpsSnap
import Driver.OpsTopo
import Driver.OpsBind
import Driver.OpsXfer
import Driver.OpsDisc
open Driver

def dispatch (line : String) : String :=
  match line.splitOn "\t" with
  | [] => "bad-op"
  | op :: args =>
    match (((ops04 op args).orElse (fun _ => ops02 op args)).orElse (fun _ => ops06 op args)).orElse (fun _ => ops01 op args) |>.orElse (fun _ => ops05 op args) |>.orElse (fun _ => ops03 op args) |>.orElse (fun _ => ops10 op args) |>.orElse (fun _ => ops19 op args) |>.orElse (fun _ => ops17 op args) |>.orElse (fun _ => opsQos op args) |>.orElse (fun _ => opsLim op args) |>.orElse (fun _ => opsDb op args) |>.orElse (fun _ => opsEng op args) |>.orElse (fun _ => opsSnap op args) |>.orElse (fun _ => opsTopo op args) |>.orElse (fun _ => opsBind op args) |>.orElse (fun _ => opsXfer op args) |>.orElse (fun _ => opsDisc op args) with
    | some r => r
    | none => "bad-op"

partial def loop (h : IO.FS.Stream) (out : IO.FS.Stream) : IO Unit := do
  let line ← h.getLine
  if line.isEmpty then return ()
  let line := if line.endsWith "\n" then (line.dropEnd 1).toString else line
  out.putStrLn (dispatch line)
  loop h out

def main : IO Unit := do
  let out ← IO.getStdout
  loop (← IO.getStdin) out
