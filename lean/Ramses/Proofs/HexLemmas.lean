import Ramses.Model.Codec
namespace Ramses

theorem hexLen_le (w n : Nat) (hw : 0 < w) (h : n < 16 ^ w) : hexLen n ≤ w := by
  unfold hexLen
  split
  · omega
  · rename_i hn
    have h2 : n < 2 ^ (4 * w) := by
      have : (16 : Nat) ^ w = 2 ^ (4 * w) := by
        rw [Nat.pow_mul]
      omega
    have := (Nat.log2_lt hn).2 h2
    omega

theorem fmtHex_eq (w n : Nat) (hw : 0 < w) (h : n < 16 ^ w) : fmtHex w n = toHexW w n := by
  unfold fmtHex
  rw [Nat.max_eq_left (hexLen_le w n hw h)]

theorem ofHex_fmtHex (w n : Nat) (hw : 0 < w) (h : n < 16 ^ w) : ofHex (fmtHex w n) = some n := by
  rw [fmtHex_eq w n hw h]; exact ofHex_toHexW w n hw h

theorem fmtHex_length (w n : Nat) (hw : 0 < w) (h : n < 16 ^ w) : (fmtHex w n).length = w := by
  rw [fmtHex_eq w n hw h]; exact toHexW_length w n

/-- two numbers that print the same are the same -/
theorem fmtHex_inj (w a b : Nat) (hw : 0 < w) (ha : a < 16 ^ w) (hb : b < 16 ^ w)
    (h : fmtHex w a = fmtHex w b) : a = b := by
  have h1 := ofHex_fmtHex w a hw ha
  have h2 := ofHex_fmtHex w b hw hb
  rw [h] at h1
  rw [h1] at h2
  exact Option.some.inj h2

theorem takeHex_fmtHex (w n : Nat) (rest : List Char) (hw : 0 < w) (h : n < 16 ^ w) :
    takeHex w (fmtHex w n ++ rest) = some (n, rest) := by
  unfold takeHex
  have hl := fmtHex_length w n hw h
  have h1 : ¬ ((fmtHex w n ++ rest).length < w) := by simp [hl]
  rw [if_neg h1]
  have h2 : (fmtHex w n ++ rest).take w = fmtHex w n := by
    exact List.take_left' hl
  have h3 : (fmtHex w n ++ rest).drop w = rest := by
    exact List.drop_left' hl
  rw [h2, h3, ofHex_fmtHex w n hw h]

end Ramses
