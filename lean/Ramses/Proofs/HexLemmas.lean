import Ramses.Model.Codec
namespace Ramses

theorem hexLen_le (w n : Nat) (hw : 0 < w) (h : n < 16 ^ w) : hexLen n ≤ w := by
  unfold hexLen
  split
  · omega
  · rename_i hn
    have h2 : n < 2 ^ (4 * w) := by
      have : (16 : Nat) ^ w = 2 ^ (4 * w) := by
        rw [Nat.pow_mul]
      omega
    have := (Nat.log2_lt hn).2 h2
    omega

theorem fmtHex_eq (w n : Nat) (hw : 0 < w) (h : n < 16 ^ w) : fmtHex w n = toHexW w n := by
  unfold fmtHex
  rw [Nat.max_eq_left (hexLen_le w n hw h)]

theorem ofHex_fmtHex (w n : Nat) (hw : 0 < w) (h : n < 16 ^ w) : ofHex (fmtHex w n) = some n := by
  rw [fmtHex_eq w n hw h]; exact ofHex_toHexW w n hw h

theorem fmtHex_length (w n : Nat) (hw : 0 < w) (h : n < 16 ^ w) : (fmtHex w n).length = w := by
  rw [fmtHex_eq w n hw h]; exact toHexW_length w n

/-- two numbers that print the same are the same -/
theorem fmtHex_inj (w a b : Nat) (hw : 0 < w) (ha : a < 16 ^ w) (hb : b < 16 ^ w)
    (h : fmtHex w a = fmtHex w b) : a = b := by
  have h1 := ofHex_fmtHex w a hw ha
  have h2 := ofHex_fmtHex w b hw hb
  rw [h] at h1
  rw [h1] at h2
  exact Option.some.inj h2

theorem takeHex_fmtHex (w n : Nat) (rest : List Char) (hw : 0 < w) (h : n < 16 ^ w) :
    takeHex w (fmtHex w n ++ rest) = some (n, rest) := by
  unfold takeHex
  have hl := fmtHex_length w n hw h
  have h1 : ¬ ((fmtHex w n ++ rest).length < w) := by simp [hl]
  rw [if_neg h1]
  have h2 : (fmtHex w n ++ rest).take w = fmtHex w n := by
    exact List.take_left' hl
  have h3 : (fmtHex w n ++ rest).drop w = rest := by
    exact List.drop_left' hl
  rw [h2, h3, ofHex_fmtHex w n hw h]


theorem toHexW_allHex (w n : Nat) : (toHexW w n).all isUpperHex = true := by
  induction w generalizing n with
  | zero => rfl
  | succ w ih =>
    simp only [toHexW, List.all_append, ih, List.all_cons, List.all_nil, Bool.and_true, Bool.true_and]
    exact isUpperHex_hexDigit _ (Nat.mod_lt _ (by decide))

theorem hexVal_lt (c : Char) (v : Nat) (h : hexVal c = some v) : v < 16 := by
  unfold hexVal at h
  simp only at h
  split at h
  · injection h with h; omega
  · split at h
    · injection h with h; omega
    · split at h
      · injection h with h; omega
      · cases h

theorem ofHexAux_lt (s : List Char) (acc r : Nat) (h : ofHexAux s acc = some r) :
    r < (acc + 1) * 16 ^ s.length := by
  induction s generalizing acc with
  | nil => simp [ofHexAux] at h; subst h; simp
  | cons c cs ih =>
    simp only [ofHexAux] at h
    split at h
    · rename_i v hv
      have hv16 := hexVal_lt c v hv
      have := ih _ h
      simp only [List.length_cons, Nat.pow_succ]
      have h2 : (acc * 16 + v + 1) * 16 ^ cs.length ≤ ((acc + 1) * 16) * 16 ^ cs.length :=
        Nat.mul_le_mul_right _ (by omega)
      calc r < (acc * 16 + v + 1) * 16 ^ cs.length := this
        _ ≤ ((acc + 1) * 16) * 16 ^ cs.length := h2
        _ = (acc + 1) * (16 ^ cs.length * 16) := by rw [Nat.mul_assoc, Nat.mul_comm 16]
    · cases h

theorem ofHex_lt (s : List Char) (n : Nat) (h : ofHex s = some n) : n < 16 ^ s.length := by
  unfold ofHex at h
  split at h
  · cases h
  · have := ofHexAux_lt s 0 n h
    simpa using this

end Ramses
