import Ramses.Model.Py
namespace Ramses

theorem len2 {α} (l : List α) (h : l.length = 2) : ∃ a b, l = [a, b] := by
  match l, h with
  | [a, b], _ => exact ⟨a, b, rfl⟩

theorem len3 {α} (l : List α) (h : l.length = 3) : ∃ a b c, l = [a, b, c] := by
  match l, h with
  | [a, b, c], _ => exact ⟨a, b, c, rfl⟩

theorem len4 {α} (l : List α) (h : l.length = 4) : ∃ a b c d, l = [a, b, c, d] := by
  match l, h with
  | [a, b, c, d], _ => exact ⟨a, b, c, d, rfl⟩

theorem len9 {α} (l : List α) (h : l.length = 9) :
    ∃ a b c d e f g h i, l = [a, b, c, d, e, f, g, h, i] := by
  match l, h with
  | [a, b, c, d, e, f, g, h, i], _ => exact ⟨a, b, c, d, e, f, g, h, i, rfl⟩

theorem slice_append_drop {α} (s : List α) (a b : Nat) (h : a ≤ b) :
    slice s a b ++ s.drop b = s.drop a := by
  unfold slice
  by_cases hl : a ≤ (s.take b).length
  · rw [← List.drop_append_of_le_length hl, List.take_append_drop]
  · have h1 : (s.take b).length = min b s.length := List.length_take
    have h2 : s.length < a := by omega
    rw [List.drop_eq_nil_of_le (by omega), List.drop_eq_nil_of_le (by omega),
      List.drop_eq_nil_of_le (by omega)]
    rfl

end Ramses
