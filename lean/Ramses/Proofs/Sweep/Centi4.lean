import Ramses.Proofs.Sweep.Defs
namespace Ramses
theorem centi_sweep_4 : allIn 12 (4 * 4096) centiOk = true := by decide +kernel
end Ramses
