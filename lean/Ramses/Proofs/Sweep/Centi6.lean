import Ramses.Proofs.Sweep.Defs
namespace Ramses
theorem centi_sweep_6 : allIn 12 (6 * 4096) centiOk = true := by decide +kernel
end Ramses
