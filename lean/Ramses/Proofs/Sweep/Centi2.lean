import Ramses.Proofs.Sweep.Defs
namespace Ramses
theorem centi_sweep_2 : allIn 12 (2 * 4096) centiOk = true := by decide +kernel
end Ramses
