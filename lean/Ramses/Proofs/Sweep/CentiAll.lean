import Ramses.Proofs.Sweep.Centi0
import Ramses.Proofs.Sweep.Centi1
import Ramses.Proofs.Sweep.Centi2
import Ramses.Proofs.Sweep.Centi3
import Ramses.Proofs.Sweep.Centi4
import Ramses.Proofs.Sweep.Centi5
import Ramses.Proofs.Sweep.Centi6
import Ramses.Proofs.Sweep.Centi7
namespace Ramses

theorem centi_last : centiOk 32768 = true := by decide +kernel

set_option maxRecDepth 100000 in
/-- `round((k/100)*100) = k` in binary64 for every hundredths value a 16-bit word can carry
    (complete kernel evaluation of all 32 769 points; no axioms). -/
theorem centi_all (k : Nat) (h : k ≤ 32768) : centiOk k = true := by
  by_cases h0 : k < 4096
  · exact allIn_spec 12 (0 * 4096) centiOk centi_sweep_0 k (by omega) (by simp only [Nat.reducePow, Nat.reduceMul, Nat.reduceAdd]; omega)
  by_cases h1 : k < 2 * 4096
  · exact allIn_spec 12 (1 * 4096) centiOk centi_sweep_1 k (by omega) (by simp only [Nat.reducePow, Nat.reduceMul, Nat.reduceAdd]; omega)
  by_cases h2 : k < 3 * 4096
  · exact allIn_spec 12 (2 * 4096) centiOk centi_sweep_2 k (by omega) (by simp only [Nat.reducePow, Nat.reduceMul, Nat.reduceAdd]; omega)
  by_cases h3 : k < 4 * 4096
  · exact allIn_spec 12 (3 * 4096) centiOk centi_sweep_3 k (by omega) (by simp only [Nat.reducePow, Nat.reduceMul, Nat.reduceAdd]; omega)
  by_cases h4 : k < 5 * 4096
  · exact allIn_spec 12 (4 * 4096) centiOk centi_sweep_4 k (by omega) (by simp only [Nat.reducePow, Nat.reduceMul, Nat.reduceAdd]; omega)
  by_cases h5 : k < 6 * 4096
  · exact allIn_spec 12 (5 * 4096) centiOk centi_sweep_5 k (by omega) (by simp only [Nat.reducePow, Nat.reduceMul, Nat.reduceAdd]; omega)
  by_cases h6 : k < 7 * 4096
  · exact allIn_spec 12 (6 * 4096) centiOk centi_sweep_6 k (by omega) (by simp only [Nat.reducePow, Nat.reduceMul, Nat.reduceAdd]; omega)
  by_cases h7 : k < 8 * 4096
  · exact allIn_spec 12 (7 * 4096) centiOk centi_sweep_7 k (by omega) (by simp only [Nat.reducePow, Nat.reduceMul, Nat.reduceAdd]; omega)
  have : k = 32768 := by omega
  subst this; exact centi_last

theorem pct200_all : allIn 8 0 pct200Ok = true := by decide +kernel
theorem pct100_all : allIn 7 0 pct100Ok = true := by decide +kernel

end Ramses
