import Ramses.Proofs.Sweep.Defs
namespace Ramses
theorem centi_sweep_0 : allIn 12 (0 * 4096) centiOk = true := by decide +kernel
end Ramses
