import Ramses.Proofs.Sweep.Defs
namespace Ramses
theorem centi_sweep_1 : allIn 12 (1 * 4096) centiOk = true := by decide +kernel
end Ramses
