import Ramses.Proofs.Sweep.Defs
namespace Ramses
theorem centi_sweep_3 : allIn 12 (3 * 4096) centiOk = true := by decide +kernel
end Ramses
