import Ramses.Model.Codec
namespace Ramses

/-- `round((k/100) * 100) == k` on Python floats -/
def centiOk (k : Nat) : Bool := ((divInt k 100).mulInt 100).roundHalfEven == k

/-- 16-bit schedule setpoints: same expression -/
def pct200Ok (k : Nat) : Bool := ((divInt k 200).mulInt 200).roundHalfEven == k
def pct100Ok (k : Nat) : Bool := ((divInt k 100).mulInt 100).roundHalfEven == k

end Ramses
