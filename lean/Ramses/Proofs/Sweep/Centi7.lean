import Ramses.Proofs.Sweep.Defs
namespace Ramses
theorem centi_sweep_7 : allIn 12 (7 * 4096) centiOk = true := by decide +kernel
end Ramses
