import Ramses.Proofs.Sweep.Defs
namespace Ramses
theorem centi_sweep_5 : allIn 12 (5 * 4096) centiOk = true := by decide +kernel
end Ramses
