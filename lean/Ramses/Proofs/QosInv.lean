/-
  Invariants of the QoS send machine model (Model/Qos.lean), preserved by every step.
-/
import Ramses.Model.Qos
namespace Ramses.Qos

/-! ### small facts -/

theorem countWrites_logWrite (s : S) (i j : Nat) :
    countWrites (logWrite s i) j = countWrites s j + (if i = j then 1 else 0) := by
  unfold countWrites logWrite
  simp only [List.filter_append, List.length_append, List.filter_cons, List.filter_nil]
  by_cases h : i = j <;> simp [h]

theorem best_mem : ∀ (l : List QCmd) (c : QCmd), best l = some c → c ∈ l := by
  intro l
  induction l with
  | nil => intro c h; cases h
  | cons x xs ih =>
    intro c h
    unfold best at h
    cases hb : best xs with
    | none => rw [hb] at h; injection h with h; simp [h]
    | some b =>
      rw [hb] at h
      simp only at h
      split at h
      · injection h with h; simp [h]
      · injection h with h; rw [← h]; exact List.mem_cons_of_mem _ (ih b hb)

theorem leKey_total (a b : QCmd) : leKey a b = true ∨ leKey b a = true := by
  unfold leKey
  simp only [Bool.or_eq_true, Bool.and_eq_true, decide_eq_true_eq]
  omega

theorem leKey_trans (a b c : QCmd) (h1 : leKey a b = true) (h2 : leKey b c = true) : leKey a c = true := by
  unfold leKey at *
  simp only [Bool.or_eq_true, Bool.and_eq_true, decide_eq_true_eq] at *
  omega

/-- the dequeued entry is least in (priority, enqueue order) -/
theorem best_le : ∀ (l : List QCmd) (c : QCmd), best l = some c → ∀ q ∈ l, leKey c q = true := by
  intro l
  induction l with
  | nil => intro c h; cases h
  | cons x xs ih =>
    intro c h q hq
    unfold best at h
    cases hb : best xs with
    | none =>
      rw [hb] at h; injection h with h
      have hxs : xs = [] := by
        cases xs with
        | nil => rfl
        | cons y ys =>
          unfold best at hb
          cases hy : best ys <;> rw [hy] at hb <;> simp at hb
          split at hb <;> cases hb
      subst hxs
      simp only [List.mem_singleton] at hq
      rw [hq, ← h]
      rcases leKey_total x x with h | h <;> exact h
    | some b =>
      rw [hb] at h
      simp only at h
      have ihb := ih b hb
      simp only [List.mem_cons] at hq
      split at h
      · rename_i hxb
        injection h with h
        rw [← h]
        rcases hq with hq | hq
        · rw [hq]; rcases leKey_total x x with h | h <;> exact h
        · exact leKey_trans x b q hxb (ihb q hq)
      · rename_i hxb
        injection h with h
        rw [← h]
        rcases hq with hq | hq
        · rw [hq]
          rcases leKey_total x b with h' | h'
          · exact absurd h' hxb
          · exact h'
        · exact ihb q hq

/-! ### the invariant -/

/-- the part of the invariant that does not mention the in-flight command -/
structure Pre (s : S) : Prop where
  que_ok : ∀ q ∈ s.que, q ∈ s.called ∧ countWrites s q.id = 0
  que_nodup : (s.que.map (·.id)).Nodup
  budget : ∀ c ∈ s.called, countWrites s c.id ≤ limOf c
  ids : (s.called.map (·.id)).Nodup
  dead_answered : ∀ id ∈ s.dead, ∃ o t, (id, o, t) ∈ s.outcomes
  writes_called : ∀ w ∈ s.writes, ∃ c ∈ s.called, c.id = w.1

structure Inv (s : S) : Prop extends Pre s where
  cur_ok : ∀ c, s.cur = some c → c ∈ s.called ∧ countWrites s c.id = s.txCount ∧ 1 ≤ s.txCount ∧
    s.txCount ≤ s.txLimit ∧ s.txLimit = limOf c ∧ (s.st = .wantEcho ∨ s.st = .wantRply) ∧
    (∀ q ∈ s.que, q.id ≠ c.id)
  idle_ok : s.cur = none → (s.st = .idle ∨ s.st = .inactive)

theorem same_id (s : S) (h : (s.called.map (·.id)).Nodup) (a b : QCmd) (ha : a ∈ s.called)
    (hb : b ∈ s.called) (hab : a.id = b.id) : a = b := by
  generalize s.called = l at h ha hb
  induction l with
  | nil => cases ha
  | cons x xs ih =>
    simp only [List.map_cons, List.nodup_cons, List.mem_map, not_exists, not_and] at h
    simp only [List.mem_cons] at ha hb
    rcases ha with ha | ha <;> rcases hb with hb | hb
    · rw [ha, hb]
    · subst ha; exact absurd hab.symm (h.1 b hb)
    · subst hb; exact absurd hab (h.1 a ha)
    · exact ih h.2 ha hb

theorem limOf_pos (c : QCmd) : 1 ≤ limOf c := by unfold limOf; omega

theorem init_inv (f : List (Nat × Nat)) : Inv (init f) := by
  refine { toPre := ⟨?_, ?_, ?_, ?_, ?_, ?_⟩, cur_ok := ?_, idle_ok := ?_ } <;> simp [init]

/-! ### goIdle -/

theorem goIdle_inv (fuel : Nat) (s : S) (h : Pre s) : Inv (goIdle fuel s) := by
  induction fuel generalizing s with
  | zero =>
    unfold goIdle
    exact { toPre := ⟨h.que_ok, h.que_nodup, h.budget, h.ids, h.dead_answered, h.writes_called⟩,
            cur_ok := (by intro c hc; cases hc), idle_ok := fun _ => Or.inl rfl }
  | succ fuel ih =>
    unfold goIdle
    simp only
    cases hb : best s.que with
    | none =>
      exact { toPre := ⟨h.que_ok, h.que_nodup, h.budget, h.ids, h.dead_answered, h.writes_called⟩,
              cur_ok := (by intro c hc; cases hc), idle_ok := fun _ => Or.inl rfl }
    | some c =>
      simp only
      have hcq : c ∈ s.que := best_mem _ _ hb
      have hcc := (h.que_ok c hcq).1
      have hc0 := (h.que_ok c hcq).2
      -- the queue without c
      have hsub : ∀ q, q ∈ s.que.filter (·.id ≠ c.id) → q ∈ s.que ∧ q.id ≠ c.id := by
        intro q hq
        have := List.mem_filter.1 hq
        exact ⟨this.1, by simpa using this.2⟩
      have hnd : ((s.que.filter (·.id ≠ c.id)).map (·.id)).Nodup :=
        (List.Nodup.sublist ((List.filter_sublist).map _) h.que_nodup)
      split
      · -- the caller already gave up: skip
        apply ih
        exact ⟨fun q hq => h.que_ok q (hsub q hq).1, hnd, h.budget, h.ids, h.dead_answered, h.writes_called⟩
      · split
        · -- the first write fails
          apply ih
          have hwc : ∀ w ∈ s.writes ++ [(c.id, s.now)], ∃ c' ∈ s.called, c'.id = w.1 := by
            intro w hw
            simp only [List.mem_append, List.mem_singleton] at hw
            rcases hw with hw | hw
            · exact h.writes_called w hw
            · exact ⟨c, hcc, by rw [hw]⟩
          refine ⟨?_, hnd, ?_, h.ids, ?_, hwc⟩
          · intro q hq
            obtain ⟨hq1, hq2⟩ := hsub q hq
            refine ⟨(h.que_ok q hq1).1, ?_⟩
            show countWrites (logWrite _ c.id) q.id = 0
            rw [countWrites_logWrite]
            have : c.id ≠ q.id := fun e => hq2 e.symm
            simp only [this, if_false, Nat.add_zero]
            exact (h.que_ok q hq1).2
          · intro c' hc'
            show countWrites (logWrite _ c.id) c'.id ≤ limOf c'
            rw [countWrites_logWrite]
            by_cases e : c.id = c'.id
            · have : c = c' := same_id s h.ids c c' hcc hc' e
              subst this
              simp only [if_true]
              have : countWrites s c.id = 0 := hc0
              have hp := limOf_pos c
              show countWrites s c.id + 1 ≤ limOf c
              omega
            · simp only [e, if_false, Nat.add_zero]
              exact h.budget c' hc'
          · intro id hid
            obtain ⟨o, t, ho⟩ := h.dead_answered id hid
            exact ⟨o, t, by simp [answer, logWrite, ho]⟩
        · -- the command starts
          have hwc : ∀ w ∈ s.writes ++ [(c.id, s.now)], ∃ c' ∈ s.called, c'.id = w.1 := by
            intro w hw
            simp only [List.mem_append, List.mem_singleton] at hw
            rcases hw with hw | hw
            · exact h.writes_called w hw
            · exact ⟨c, hcc, by rw [hw]⟩
          refine { toPre := ⟨?_, hnd, ?_, h.ids, h.dead_answered, hwc⟩, cur_ok := ?_, idle_ok := ?_ }
          · intro q hq
            obtain ⟨hq1, hq2⟩ := hsub q hq
            refine ⟨(h.que_ok q hq1).1, ?_⟩
            show countWrites (logWrite _ c.id) q.id = 0
            rw [countWrites_logWrite]
            have : c.id ≠ q.id := fun e => hq2 e.symm
            simp only [this, if_false, Nat.add_zero]
            exact (h.que_ok q hq1).2
          · intro c' hc'
            show countWrites (logWrite _ c.id) c'.id ≤ limOf c'
            rw [countWrites_logWrite]
            by_cases e : c.id = c'.id
            · have : c = c' := same_id s h.ids c c' hcc hc' e
              subst this
              simp only [if_true]
              have : countWrites s c.id = 0 := hc0
              have hp := limOf_pos c
              show countWrites s c.id + 1 ≤ limOf c
              omega
            · simp only [e, if_false, Nat.add_zero]
              exact h.budget c' hc'
          · intro c' hc'
            have : c' = c := by
              have : (some c : Option QCmd) = some c' := hc'
              injection this with this; exact this.symm
            subst this
            refine ⟨hcc, ?_, Nat.le_refl 1, limOf_pos c', rfl, Or.inl rfl, fun q hq => (hsub q hq).2⟩
            show countWrites (logWrite _ c'.id) c'.id = 1
            rw [countWrites_logWrite]
            simp only [if_true]
            show countWrites s c'.id + 1 = 1
            rw [hc0]
          · intro hnone
            cases hnone


/-! ### the other transitions -/

theorem pre_congr (s s' : S) (h : Pre s) (e1 : s'.que = s.que) (e2 : s'.called = s.called)
    (e3 : s'.writes = s.writes) (e4 : s'.dead = s.dead) (e5 : s'.outcomes = s.outcomes) : Pre s' := by
  have ec : ∀ id, countWrites s' id = countWrites s id := by intro id; unfold countWrites; rw [e3]
  exact ⟨by rw [e1, e2]; intro q hq; exact ⟨(h.que_ok q hq).1, by rw [ec]; exact (h.que_ok q hq).2⟩,
    by rw [e1]; exact h.que_nodup, by rw [e2]; intro c hc; rw [ec]; exact h.budget c hc, by rw [e2]; exact h.ids,
    by rw [e4, e5]; exact h.dead_answered, by rw [e3, e2]; exact h.writes_called⟩

theorem pre_answer (s : S) (id : Nat) (o : Out) (h : Pre s) : Pre (answer s id o) := by
  refine ⟨h.que_ok, h.que_nodup, h.budget, h.ids, ?_, h.writes_called⟩
  intro i hi
  obtain ⟨o', t, ho⟩ := h.dead_answered i hi
  exact ⟨o', t, by simp [answer, ho]⟩

/-- one more transmission of the in-flight command, within its budget -/
theorem pre_logWrite_cur (s : S) (c : QCmd) (h : Inv s) (hc : s.cur = some c) (hlt : s.txCount < s.txLimit) :
    Pre (logWrite s c.id) ∧ countWrites (logWrite s c.id) c.id = s.txCount + 1 := by
  obtain ⟨hcc, hcnt, h1, h2, h3, hst, hq⟩ := h.cur_ok c hc
  have hcw : countWrites (logWrite s c.id) c.id = s.txCount + 1 := by
    rw [countWrites_logWrite]; simp [hcnt]
  refine ⟨⟨?_, h.que_nodup, ?_, h.ids, h.dead_answered, ?_⟩, hcw⟩
  · intro q hqm
    refine ⟨(h.que_ok q hqm).1, ?_⟩
    rw [countWrites_logWrite]
    have : c.id ≠ q.id := fun e => hq q hqm e.symm
    simp only [this, if_false, Nat.add_zero]
    exact (h.que_ok q hqm).2
  · intro c' hc'
    rw [countWrites_logWrite]
    by_cases e : c.id = c'.id
    · have : c = c' := same_id s h.ids c c' hcc hc' e
      subst this
      simp only [if_true]
      rw [hcnt]; omega
    · simp only [e, if_false, Nat.add_zero]
      exact h.budget c' hc'
  · intro w hw
    show ∃ c' ∈ s.called, c'.id = w.1
    simp only [logWrite, List.mem_append, List.mem_singleton] at hw
    rcases hw with hw | hw
    · exact h.writes_called w hw
    · exact ⟨c, hcc, by rw [hw]⟩

theorem fireTimer_inv (s : S) (h : Inv s) : Inv (fireTimer s) := by
  unfold fireTimer
  split
  · rename_i hc
    exact { toPre := pre_congr s _ h.toPre rfl rfl rfl rfl rfl,
            cur_ok := (by intro c hcc; have : s.cur = some c := hcc; rw [hc] at this; cases this),
            idle_ok := fun _ => h.idle_ok hc }
  · rename_i c hc
    simp only
    obtain ⟨hcc, hcnt, h1, h2, h3, hst, hq⟩ := h.cur_ok c hc
    have hs1 : Inv { s with mult := min 3 (s.oldMult + 1), timerAt := none } :=
      { toPre := pre_congr s _ h.toPre rfl rfl rfl rfl rfl, cur_ok := h.cur_ok, idle_ok := h.idle_ok }
    split
    · rename_i hlt
      obtain ⟨hp, hcw⟩ := pre_logWrite_cur _ c hs1 hc hlt
      split
      · apply goIdle_inv
        exact pre_answer _ _ _ hp
      · refine { toPre := pre_congr _ _ hp rfl rfl rfl rfl rfl, cur_ok := ?_, idle_ok := ?_ }
        · intro c' hc'
          have : c' = c := by
            have : s.cur = some c' := hc'
            rw [hc] at this; injection this with this; exact this.symm
          subst this
          refine ⟨hcc, ?_, by show 1 ≤ s.txCount + 1; omega, by show s.txCount + 1 ≤ s.txLimit; omega, h3, Or.inl rfl, hq⟩
          exact hcw
        · intro hn
          have : s.cur = none := hn
          rw [hc] at this; cases this
    · apply goIdle_inv
      exact pre_answer _ _ _ hs1.toPre

theorem callerGivesUp_inv (s : S) (id : Nat) (h : Inv s) : Inv (callerGivesUp s id) := by
  unfold callerGivesUp
  split
  · exact h
  · have hdead : Inv (answer { s with dead := id :: s.dead } id .failed) := by
      refine { toPre := ⟨h.que_ok, h.que_nodup, h.budget, h.ids, ?_, h.writes_called⟩, cur_ok := h.cur_ok, idle_ok := h.idle_ok }
      intro i hi
      simp only [answer, List.mem_cons] at hi
      rcases hi with hi | hi
      · exact ⟨.failed, s.now, by simp [answer, hi]⟩
      · obtain ⟨o', t, ho⟩ := h.dead_answered i hi
        exact ⟨o', t, by simp [answer, ho]⟩
    split
    · split
      · exact goIdle_inv _ _ (pre_answer _ _ _ h.toPre)
      · exact hdead
    · exact hdead

/-- a `call` event offers a command whose id has never been used -/
def Fresh (s : S) : Ev → Prop
  | .call c => ∀ c' ∈ s.called, c'.id ≠ c.id
  | _ => True

theorem apply_inv (s : S) (e : Ev) (h : Inv s) (hf : Fresh s e) : Inv (apply s e) := by
  cases e with
  | call c =>
    unfold Fresh at hf
    have hids : ((s.called ++ [c]).map (·.id)).Nodup := by
      rw [List.map_append, List.nodup_append]
      refine ⟨h.ids, by simp, ?_⟩
      intro a ha b hb
      simp only [List.map_cons, List.map_nil, List.mem_singleton] at hb
      simp only [List.mem_map] at ha
      obtain ⟨x, hx, hxa⟩ := ha
      rw [hb, ← hxa]; exact hf x hx
    have hc0 : countWrites s c.id = 0 := by
      unfold countWrites
      simp only [List.length_eq_zero_iff, List.filter_eq_nil_iff, decide_eq_true_eq]
      intro w hw hwc
      obtain ⟨c', hc', hid⟩ := h.writes_called w hw
      exact hf c' hc' (by rw [hid, hwc])
    have hreg : Pre { s with called := s.called ++ [c] } := by
      refine ⟨fun q hq => ⟨List.mem_append_left _ (h.que_ok q hq).1, (h.que_ok q hq).2⟩, h.que_nodup, ?_, hids,
        h.dead_answered, fun w hw => ?_⟩
      · intro c' hc'
        simp only [List.mem_append, List.mem_singleton] at hc'
        rcases hc' with hc' | hc'
        · exact h.budget c' hc'
        · rw [hc']; show countWrites s c.id ≤ limOf c; rw [hc0]; omega
      · obtain ⟨c', hc', hid⟩ := h.writes_called w hw
        exact ⟨c', List.mem_append_left _ hc', hid⟩
    have hregI : Inv { s with called := s.called ++ [c] } :=
      { toPre := hreg,
        cur_ok := (by
          intro c' hc'
          obtain ⟨a1, a2, a3, a4, a5, a6, a7⟩ := h.cur_ok c' hc'
          exact ⟨List.mem_append_left _ a1, a2, a3, a4, a5, a6, a7⟩),
        idle_ok := h.idle_ok }
    show Inv (if s.st = .inactive then answer { s with called := s.called ++ [c] } c.id .failed
      else if s.que.length ≥ maxBuffer then answer { s with called := s.called ++ [c] } c.id .failed
      else (if ({ s with que := s.que ++ [c], called := s.called ++ [c] } : S).st = .idle
            then goIdle (fuelOf { s with que := s.que ++ [c], called := s.called ++ [c] }) { s with que := s.que ++ [c], called := s.called ++ [c] }
            else { s with que := s.que ++ [c], called := s.called ++ [c] }))
    split
    · exact { toPre := pre_answer _ _ _ hreg, cur_ok := hregI.cur_ok, idle_ok := hregI.idle_ok }
    · split
      · exact { toPre := pre_answer _ _ _ hreg, cur_ok := hregI.cur_ok, idle_ok := hregI.idle_ok }
      · -- queued
        have hq : Pre { s with que := s.que ++ [c], called := s.called ++ [c] } := by
          refine ⟨?_, ?_, hreg.budget, hids, h.dead_answered, hreg.writes_called⟩
          · intro q hq
            simp only [List.mem_append, List.mem_singleton] at hq
            rcases hq with hq | hq
            · exact ⟨List.mem_append_left _ (h.que_ok q hq).1, (h.que_ok q hq).2⟩
            · rw [hq]; exact ⟨by simp, hc0⟩
          · rw [List.map_append, List.nodup_append]
            refine ⟨h.que_nodup, by simp, ?_⟩
            intro a ha b hb
            simp only [List.map_cons, List.map_nil, List.mem_singleton] at hb
            simp only [List.mem_map] at ha
            obtain ⟨x, hx, hxa⟩ := ha
            rw [hb, ← hxa]; exact hf x (h.que_ok x hx).1
        split
        · exact goIdle_inv _ _ hq
        · refine { toPre := hq, cur_ok := ?_, idle_ok := h.idle_ok }
          intro c' hc'
          obtain ⟨a1, a2, a3, a4, a5, a6, a7⟩ := h.cur_ok c' hc'
          refine ⟨List.mem_append_left _ a1, a2, a3, a4, a5, a6, ?_⟩
          intro q hq
          simp only [List.mem_append, List.mem_singleton] at hq
          rcases hq with hq | hq
          · exact a7 q hq
          · rw [hq]; exact fun e => hf c' a1 e.symm
  | echo id =>
    simp only [apply]
    split
    · rename_i c hc
      split
      · split
        · exact { toPre := pre_congr s _ h.toPre rfl rfl rfl rfl rfl,
                  cur_ok := (by
                    intro c' hc'
                    obtain ⟨a1, a2, a3, a4, a5, a6, a7⟩ := h.cur_ok c' hc'
                    exact ⟨a1, a2, a3, a4, a5, Or.inr rfl, a7⟩),
                  idle_ok := (by intro hn; have : s.cur = none := hn; rw [hc] at this; cases this) }
        · exact goIdle_inv _ _ (pre_answer _ _ _ h.toPre)
      · exact h
    · exact h
  | reply id =>
    simp only [apply]
    split
    · split
      · exact goIdle_inv _ _ (pre_answer _ _ _ h.toPre)
      · exact h
    · exact h
  | connLost =>
    simp only [apply]
    split
    · exact h
    · exact { toPre := pre_answer _ _ _ (pre_congr s _ h.toPre rfl rfl rfl rfl rfl),
              cur_ok := (by intro c' hc'; cases hc'), idle_ok := fun _ => Or.inr rfl }
    · rename_i hnone hcn
      exact { toPre := pre_congr s _ h.toPre rfl rfl rfl rfl rfl,
              cur_ok := (by intro c' hc'; have : s.cur = some c' := hc'; rw [hnone] at this; cases this),
              idle_ok := fun _ => Or.inr rfl }
  | connMade =>
    simp only [apply]
    split
    · exact goIdle_inv _ _ h.toPre
    · exact h

theorem now_inv (s : S) (t : Nat) (h : Inv s) : Inv { s with now := t } :=
  { toPre := pre_congr s _ h.toPre rfl rfl rfl rfl rfl, cur_ok := h.cur_ok, idle_ok := h.idle_ok }

theorem advance_inv (fuel : Nat) (s : S) (t : Nat) (h : Inv s) : Inv (advance fuel s t) := by
  induction fuel generalizing s with
  | zero => exact now_inv s _ h
  | succ n ih =>
    unfold advance
    split
    · exact now_inv s _ h
    · exact ih _ (fireTimer_inv _ (now_inv s _ h))
    · exact ih _ (callerGivesUp_inv _ _ (now_inv s _ h))


/-! ### runs -/

/-- every `call` event of the run offers a command whose id is new at that moment -/
def FreshEvs : S → List (Nat × Ev) → Prop
  | _, [] => True
  | s, (t, e) :: rest => Fresh (advance 256 s t) e ∧ FreshEvs (step s t e) rest

theorem step_inv (s : S) (t : Nat) (e : Ev) (h : Inv s) (hf : Fresh (advance 256 s t) e) : Inv (step s t e) :=
  apply_inv _ e (advance_inv 256 s t h) hf

theorem run_inv (s : S) (evs : List (Nat × Ev)) (h : Inv s) (hf : FreshEvs s evs) : Inv (run s evs) := by
  induction evs generalizing s with
  | nil => exact h
  | cons te rest ih =>
    obtain ⟨t, e⟩ := te
    simp only [run, List.foldl_cons]
    exact ih (step s t e) (step_inv s t e h hf.1) hf.2

/-! ### who is answered, and with what -/

def answered (s : S) (id : Nat) : Prop := ∃ o t, (id, o, t) ∈ s.outcomes

/-- outcomes are only ever appended -/
def Grows (s s' : S) : Prop := ∀ x ∈ s.outcomes, x ∈ s'.outcomes

/-- every outcome of `s'` that `s` did not have is a failure -/
def NewFailed (s s' : S) : Prop := ∀ x ∈ s'.outcomes, x ∈ s.outcomes ∨ x.2.1 = Out.failed

theorem goIdle_newFailed (fuel : Nat) (s : S) : NewFailed s (goIdle fuel s) := by
  induction fuel generalizing s with
  | zero => intro x hx; exact Or.inl hx
  | succ n ih =>
    unfold goIdle
    simp only
    split
    · intro x hx; exact Or.inl hx
    · split
      · intro x hx
        rcases ih _ x hx with h | h
        · exact Or.inl h
        · exact Or.inr h
      · split
        · intro x hx
          rcases ih _ x hx with h | h
          · simp only [answer, logWrite, List.mem_append, List.mem_singleton] at h
            rcases h with h | h
            · exact Or.inl h
            · exact Or.inr (by rw [h])
          · exact Or.inr h
        · intro x hx; exact Or.inl hx

theorem newFailed_answer_failed (s : S) (id : Nat) (fuel : Nat) (s0 : S) (h0 : s0.outcomes = s.outcomes) :
    NewFailed s (goIdle fuel (answer s0 id .failed)) := by
  intro x hx
  rcases goIdle_newFailed fuel _ x hx with h | h
  · simp only [answer, List.mem_append, List.mem_singleton] at h
    rcases h with h | h
    · exact Or.inl (h0 ▸ h)
    · exact Or.inr (by rw [h])
  · exact Or.inr h

theorem fireTimer_newFailed (s : S) : NewFailed s (fireTimer s) := by
  unfold fireTimer
  split
  · intro x hx; exact Or.inl hx
  · simp only
    split
    · split
      · exact newFailed_answer_failed s _ _ _ rfl
      · intro x hx; exact Or.inl hx
    · exact newFailed_answer_failed s _ _ _ rfl

theorem callerGivesUp_newFailed (s : S) (id : Nat) : NewFailed s (callerGivesUp s id) := by
  unfold callerGivesUp
  split
  · intro x hx; exact Or.inl hx
  · have hd : NewFailed s (answer { s with dead := id :: s.dead } id .failed) := by
      intro x hx
      simp only [answer, List.mem_append, List.mem_singleton] at hx
      rcases hx with h | h
      · exact Or.inl h
      · exact Or.inr (by rw [h])
    split
    · split
      · exact newFailed_answer_failed s _ _ _ rfl
      · exact hd
    · exact hd

theorem advance_newFailed (fuel : Nat) (s : S) (t : Nat) : NewFailed s (advance fuel s t) := by
  induction fuel generalizing s with
  | zero => intro x hx; exact Or.inl hx
  | succ n ih =>
    unfold advance
    split
    · intro x hx; exact Or.inl hx
    · intro x hx
      rcases ih _ x hx with h | h
      · rcases fireTimer_newFailed _ x h with h' | h'
        · exact Or.inl h'
        · exact Or.inr h'
      · exact Or.inr h
    · intro x hx
      rcases ih _ x hx with h | h
      · rcases callerGivesUp_newFailed _ _ x h with h' | h'
        · exact Or.inl h'
        · exact Or.inr h'
      · exact Or.inr h

/-- a non-failure outcome produced by one event is the echo / reply *of that event's command* -/
theorem apply_outcome (s : S) (e : Ev) (x : Nat × Out × Nat) (hx : x ∈ (apply s e).outcomes) :
    x ∈ s.outcomes ∨ x.2.1 = Out.failed ∨ (e = .echo x.1 ∧ x.2.1 = .echo) ∨ (e = .reply x.1 ∧ x.2.1 = .reply) := by
  cases e with
  | call c =>
    have : NewFailed s (apply s (.call c)) := by
      show NewFailed s (if s.st = .inactive then answer { s with called := s.called ++ [c] } c.id .failed
        else if s.que.length ≥ maxBuffer then answer { s with called := s.called ++ [c] } c.id .failed
        else (if ({ s with que := s.que ++ [c], called := s.called ++ [c] } : S).st = .idle
              then goIdle (fuelOf { s with que := s.que ++ [c], called := s.called ++ [c] }) { s with que := s.que ++ [c], called := s.called ++ [c] }
              else { s with que := s.que ++ [c], called := s.called ++ [c] }))
      have ha : NewFailed s (answer { s with called := s.called ++ [c] } c.id .failed) := by
        intro y hy
        simp only [answer, List.mem_append, List.mem_singleton] at hy
        rcases hy with h | h
        · exact Or.inl h
        · exact Or.inr (by rw [h])
      split
      · exact ha
      · split
        · exact ha
        · split
          · intro y hy
            rcases goIdle_newFailed _ _ y hy with h | h
            · exact Or.inl h
            · exact Or.inr h
          · intro y hy; exact Or.inl hy
    rcases this x hx with h | h
    · exact Or.inl h
    · exact Or.inr (Or.inl h)
  | echo id =>
    simp only [apply] at hx
    split at hx
    · split at hx
      · split at hx
        · exact Or.inl hx
        · rcases goIdle_newFailed _ _ x hx with h | h
          · simp only [answer, List.mem_append, List.mem_singleton] at h
            rcases h with h | h
            · exact Or.inl h
            · exact Or.inr (Or.inr (Or.inl ⟨by rw [h], by rw [h]⟩))
          · exact Or.inr (Or.inl h)
      · exact Or.inl hx
    · exact Or.inl hx
  | reply id =>
    simp only [apply] at hx
    split at hx
    · split at hx
      · rcases goIdle_newFailed _ _ x hx with h | h
        · simp only [answer, List.mem_append, List.mem_singleton] at h
          rcases h with h | h
          · exact Or.inl h
          · exact Or.inr (Or.inr (Or.inr ⟨by rw [h], by rw [h]⟩))
        · exact Or.inr (Or.inl h)
      · exact Or.inl hx
    · exact Or.inl hx
  | connLost =>
    simp only [apply] at hx
    split at hx
    · exact Or.inl hx
    · simp only [answer, List.mem_append, List.mem_singleton] at hx
      rcases hx with h | h
      · exact Or.inl h
      · exact Or.inr (Or.inl (by rw [h]))
    · exact Or.inl hx
  | connMade =>
    simp only [apply] at hx
    split at hx
    · rcases goIdle_newFailed _ _ x hx with h | h
      · exact Or.inl h
      · exact Or.inr (Or.inl h)
    · exact Or.inl hx

/-- **a caller is only ever handed its own echo or its own reply**: every non-failure outcome of
    a run was produced by an echo / reply event for that very command -/
theorem run_outcome (s : S) (evs : List (Nat × Ev)) (x : Nat × Out × Nat) (hx : x ∈ (run s evs).outcomes) :
    x ∈ s.outcomes ∨ x.2.1 = Out.failed ∨
      (x.2.1 = .echo ∧ ∃ t, (t, Ev.echo x.1) ∈ evs) ∨ (x.2.1 = .reply ∧ ∃ t, (t, Ev.reply x.1) ∈ evs) := by
  induction evs generalizing s with
  | nil => exact Or.inl hx
  | cons te rest ih =>
    obtain ⟨t, e⟩ := te
    simp only [run, List.foldl_cons] at hx
    rcases ih (step s t e) hx with h | h | ⟨h1, t', h2⟩ | ⟨h1, t', h2⟩
    · unfold step at h
      rcases apply_outcome _ e x h with h' | h' | ⟨h1, h2⟩ | ⟨h1, h2⟩
      · rcases advance_newFailed 256 s t x h' with h'' | h''
        · exact Or.inl h''
        · exact Or.inr (Or.inl h'')
      · exact Or.inr (Or.inl h')
      · exact Or.inr (Or.inr (Or.inl ⟨h2, t, by rw [h1]; simp⟩))
      · exact Or.inr (Or.inr (Or.inr ⟨h2, t, by rw [h1]; simp⟩))
    · exact Or.inr (Or.inl h)
    · exact Or.inr (Or.inr (Or.inl ⟨h1, t', by simp [h2]⟩))
    · exact Or.inr (Or.inr (Or.inr ⟨h1, t', by simp [h2]⟩))

/-- the command `goIdle` starts is least in (priority, enqueue order) among everything still queued -/
theorem goIdle_starts_best (fuel : Nat) (s : S) (c : QCmd) (h : (goIdle fuel s).cur = some c) :
    ∀ q ∈ (goIdle fuel s).que, leKey c q = true := by
  induction fuel generalizing s with
  | zero => unfold goIdle at h; cases h
  | succ n ih =>
    unfold goIdle at h ⊢
    simp only at h ⊢
    cases hb : best s.que with
    | none => simp only [hb] at h; cases h
    | some b =>
      simp only [hb] at h ⊢
      by_cases hd : s.dead.contains b.id = true
      · rw [if_pos hd] at h ⊢; exact ih _ h
      · rw [if_neg hd] at h ⊢
        split at h
        · rename_i hw; rw [if_pos hw]; exact ih _ h
        · rename_i hw
          rw [if_neg hw]
          have : b = c := by
            have : (some b : Option QCmd) = some c := h
            injection this
          subst this
          intro q hq
          have hq' : q ∈ s.que.filter (·.id ≠ b.id) := hq
          exact best_le _ _ hb q (List.mem_filter.1 hq').1

end Ramses.Qos
