/-
  Ramses.Model.Discovery — what active discovery asks the controller and what it learns from the
  answers (ramses_rf/system/heat.py `_setup_discovery_cmds`, `MultiZone._handle_msg` 0005 / 000C,
  `SystemBase._handle_msg` 000C, `StoredHw._handle_msg`; ramses_rf/system/zones.py
  `Zone._setup_discovery_cmds`, `Zone._handle_msg` 000C, `DhwZone._handle_msg` 000C;
  ramses_tx/parsers.py `parser_0005`, `parser_000c`), against an abstract controller configuration.

  The polling machinery (`_poll_discovery_cmds`: every request is re-sent every 24 h; a lost
  request or reply is simply retried at the next round) is abstracted to *rounds*: in each round
  every request the entities have registered so far is asked once, and an arbitrary subset of the
  exchanges is lost.
-/
namespace Ramses.Disc

inductive ZClass where
  | rad | ufh | val | mix | ele            -- 08 09 0A 0B 11
  deriving DecidableEq, Repr

structure ZoneCfg where
  cls : ZClass
  sensor : Option String
  actuators : List String
  deriving DecidableEq, Repr

/-- the controller's actual configuration -/
structure Cfg where
  zone : String → Option ZoneCfg          -- by zone index "00" … "0B"
  dhwSensor : Option String
  hwValve : Option String
  htgValve : Option String
  app : Option String

/-- what the gateway has learned so far -/
structure ZoneSch where
  cls : Option ZClass
  sensor : Option String
  actuators : List String
  deriving DecidableEq, Repr

structure Sch where
  zone : String → Option ZoneSch
  dhwSensor : Option String
  hwValve : Option String
  htgValve : Option String
  app : Option String

def Sch.empty : Sch := ⟨fun _ => none, none, none, none, none⟩

/-- the requests -/
inductive Q where
  | mask (c : ZClass)                       -- RQ|0005|00<class>
  | maskSen                                 -- RQ|0005|0004
  | zoneAct (idx : String) (role : Option ZClass)   -- RQ|000C|ii<class>, or ii00 for an un-typed zone
  | zoneSen (idx : String)                  -- RQ|000C|ii04
  | app | dhwSensor | hwValve | htgValve    -- RQ|000C|000F, 000D, 000E, 010E
  deriving DecidableEq, Repr

/-- the replies (as decoded by parser_0005 / parser_000c) -/
inductive R where
  | mask (c : ZClass) (idxs : List String)
  | maskSen (idxs : List String)
  | zoneAct (idx : String) (role : Option ZClass) (devs : List String)
  | zoneSen (idx : String) (dev : Option String)
  | app (dev : Option String)
  | dhwSensor (dev : Option String)
  | hwValve (dev : Option String)
  | htgValve (dev : Option String)
  deriving DecidableEq, Repr

def allIdx : List String :=
  ["00", "01", "02", "03", "04", "05", "06", "07", "08", "09", "0A", "0B", "0C", "0D", "0E", "0F"]

def hasClass (cfg : Cfg) (c : ZClass) (i : String) : Bool :=
  match cfg.zone i with | some z => z.cls = c | none => false

def hasSensor (cfg : Cfg) (i : String) : Bool :=
  match cfg.zone i with | some z => z.sensor.isSome | none => false

/-- the (scripted) controller -/
def reply (cfg : Cfg) : Q → R
  | .mask c => .mask c (allIdx.filter (hasClass cfg c))
  | .maskSen => .maskSen (allIdx.filter (hasSensor cfg))
  | .zoneAct i role =>
    .zoneAct i role (match cfg.zone i with
      | some z => if role = none ∨ role = some z.cls then z.actuators else []
      | none => [])
  | .zoneSen i => .zoneSen i ((cfg.zone i).bind (·.sensor))
  | .app => .app cfg.app
  | .dhwSensor => .dhwSensor cfg.dhwSensor
  | .hwValve => .hwValve cfg.hwValve
  | .htgValve => .htgValve cfg.htgValve

def setZone (s : Sch) (i : String) (z : ZoneSch) : Sch :=
  { s with zone := fun j => if j = i then some z else s.zone j }

/-- "keep what is already known, else take the new value" -/
def keepC (a b : Option ZClass) : Option ZClass := match a with | some x => some x | none => b
def keepS (a b : Option String) : Option String := match a with | some x => some x | none => b

/-- the zone object after `get_htg_zone(idx, class=…)`: created if need be; an un-typed zone takes the class -/
def ensured (o : Option ZoneSch) (c : Option ZClass) : ZoneSch :=
  match o with
  | none => ⟨c, none, []⟩
  | some z => { z with cls := keepC z.cls c }

def ensureZone (s : Sch) (i : String) (c : Option ZClass) : Sch := setZone s i (ensured (s.zone i) c)

def addAll (l : List String) (ds : List String) : List String :=
  ds.foldl (fun acc d => if acc.contains d then acc else acc ++ [d]) l

/-- what a decoded reply teaches the gateway -/
def learn (s : Sch) : R → Sch
  | .mask c idxs => idxs.foldl (fun s i => ensureZone s i (some c)) s
  | .maskSen idxs => idxs.foldl (fun s i => ensureZone s i none) s
  | .zoneAct i role devs =>
    match s.zone i with
    | none => s                                  -- `zone_by_idx.get(idx)` is None and no devices: not created
    | some z =>
      if devs = [] then s
      else setZone s i { z with actuators := addAll z.actuators devs, cls := keepC z.cls role }
  | .zoneSen i dev =>
    match s.zone i, dev with
    | some z, some d => setZone s i { z with sensor := keepS z.sensor (some d) }
    | _, _ => s
  | .app dev => { s with app := keepS s.app dev }
  | .dhwSensor dev => { s with dhwSensor := keepS s.dhwSensor dev }
  | .hwValve dev => { s with hwValve := keepS s.hwValve dev }
  | .htgValve dev => { s with htgValve := keepS s.htgValve dev }

def allClasses : List ZClass := [.rad, .ufh, .val, .mix, .ele]

/-- the requests of the system entity (registered at start) -/
def sysQs : List Q := allClasses.map Q.mask ++ [.maskSen, .app, .dhwSensor, .hwValve, .htgValve]

/-- the requests of the zones known so far: actuators (by the zone's class, or generic) and sensor -/
def zoneQs (s : Sch) : List Q :=
  allIdx.flatMap fun i => match s.zone i with
    | some z => [Q.zoneAct i z.cls, Q.zoneSen i]
    | none => []

def ask (cfg : Cfg) (lost : Q → Bool) (s : Sch) (qs : List Q) : Sch :=
  qs.foldl (fun s q => if lost q then s else learn s (reply cfg q)) s

/-- one polling round (24 h): the system's requests, then the requests of the zones known by then (a
    zone's poller starts as soon as the zone exists; a promoted zone registers its class-specific
    request at once); `lost q` exchanges teach nothing -/
def round (cfg : Cfg) (lost : Q → Bool) (s : Sch) : Sch :=
  let s1 := ask cfg lost s sysQs
  ask cfg lost s1 (zoneQs s1)

def rounds (cfg : Cfg) : List (Q → Bool) → Sch → Sch
  | [], s => s
  | l :: ls, s => rounds cfg ls (round cfg l s)

end Ramses.Disc
