/-
  Ramses.Model.LogLine — the packet log's line format: what `ramses_tx.logger` writes
  (`_Formatter.formatTime`: `strftime("%Y-%m-%dT%H:%M:%S.%f")`, then ` <rssi> <frame>`) and what
  `FileTransport._reader` reads back (`line[:26]`, `line[27:]`, `dt.fromisoformat`).
-/
import Ramses.Model.Codec
namespace Ramses.LogLine
open Ramses

/-- a `datetime` with its microseconds -/
structure Stamp where
  dt : DateTime
  us : Nat
  deriving DecidableEq, Repr

def Stamp.valid (t : Stamp) : Bool := t.dt.valid && t.us < 1000000

/-- plain decimal, no padding (glibc's `%Y`) -/
def toDec (n : Nat) : List Char := if n < 10 then toDecW 1 n else if n < 100 then toDecW 2 n else if n < 1000 then toDecW 3 n else toDecW 4 n

/-- `dtm.strftime("%Y-%m-%dT%H:%M:%S.%f")` (years below 1000 come out unpadded) -/
def fmtStamp (t : Stamp) : List Char :=
  toDec t.dt.year ++ '-' :: toDecW 2 t.dt.month ++ '-' :: toDecW 2 t.dt.day ++ 'T' :: toDecW 2 t.dt.hour ++
    ':' :: toDecW 2 t.dt.minute ++ ':' :: toDecW 2 t.dt.second ++ '.' :: toDecW 6 t.us

/-- `dtm.isoformat(timespec="microseconds")` (the year is zero-padded): the key of a saved-state entry, `repr(pkt)[:26]` -/
def fmtIso (t : Stamp) : List Char :=
  toDecW 4 t.dt.year ++ '-' :: toDecW 2 t.dt.month ++ '-' :: toDecW 2 t.dt.day ++ 'T' :: toDecW 2 t.dt.hour ++
    ':' :: toDecW 2 t.dt.minute ++ ':' :: toDecW 2 t.dt.second ++ '.' :: toDecW 6 t.us

/-- a saved-state entry `{repr(pkt)[:26]: repr(pkt)[27:]}` and what restoring reads back (`Packet.from_dict(key, value)`) -/
def snapEntry (t : Stamp) (rest : List Char) : List Char × List Char :=
  let r := fmtIso t ++ ' ' :: rest
  (r.take 26, r.drop 27)

/-- read `w` decimal digits from the front -/
def takeDec (w : Nat) (s : List Char) : Option (Nat × List Char) :=
  if s.length < w then none else
  match ofDec (s.take w) with
  | some n => some (n, s.drop w)
  | none => none

def expect (p : Char → Bool) : List Char → Option (List Char)
  | c :: cs => if p c then some cs else none
  | [] => none

/-- `datetime.fromisoformat` on a 26-character string `YYYY-MM-DD?HH:MM:SS[.,:]ffffff` (any single
    character may stand between date and time; anything else of length 26 is refused) -/
def parseStamp (s : List Char) : Option Stamp :=
  if s.length ≠ 26 then none else
  (takeDec 4 s).bind fun (y, s) => (expect (· = '-') s).bind fun s =>
  (takeDec 2 s).bind fun (mo, s) => (expect (· = '-') s).bind fun s =>
  (takeDec 2 s).bind fun (d, s) => (expect (fun _ => true) s).bind fun s =>
  (takeDec 2 s).bind fun (h, s) => (expect (· = ':') s).bind fun s =>
  (takeDec 2 s).bind fun (mi, s) => (expect (· = ':') s).bind fun s =>
  (takeDec 2 s).bind fun (se, s) => (expect (fun c => c = '.' || c = ',' || c = ':') s).bind fun s =>
  (takeDec 6 s).bind fun (us, _) =>
  let t : Stamp := ⟨⟨y, mo, d, h, mi, se⟩, us⟩
  if t.valid then some t else none

/-- the log line of a packet: `"%(asctime)s%(frame)s..."` with frame = ` <rssi> <frame>` -/
def writeLine (t : Stamp) (rssi frame : List Char) : List Char := fmtStamp t ++ ' ' :: rssi ++ ' ' :: frame

/-- `FileTransport._reader`: `dtm_str, pkt_line = line[:26], line[27:]`; an unreadable time stamp drops the line -/
def readLine (line : List Char) : Option (Stamp × List Char) :=
  (parseStamp (line.take 26)).map fun t => (t, line.drop 27)

end Ramses.LogLine
