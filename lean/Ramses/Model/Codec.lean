/-
  Ramses.Model.Codec — the scalar wire codecs of ramses_tx/helpers.py (and the id codec of
  ramses_tx/address.py), with Python's exact float arithmetic (Dbl.lean).

  Each function mirrors the Python of the same name; every `raise` is an explicit `.error`.
-/
import Ramses.Model.Hex
import Ramses.Model.Dbl
namespace Ramses

/-! ## temperatures -/

/-- what `hex_to_temp` returns / `hex_from_temp` accepts: `None`, `False`, or a float with sign -/
inductive TempV where
  | none
  | false_
  | num (neg : Bool) (v : Dy)
  deriving DecidableEq, Repr

/-- the float `k / 100` for an integer `k` (sign symmetric) -/
def tempOfCenti (k : Int) : TempV :=
  .num (decide (k < 0)) (divInt k.natAbs 100)

def hexToTemp (s : List Char) : Py TempV :=
  if s.length ≠ 4 then .error .valueError else
  if s = "31FF".toList then .ok .none else
  if s = "7EFF".toList then .ok .false_ else
  if s = "7FFF".toList then .ok .none else
  match ofHex s with
  | none => .error .valueError
  | some n =>
    let k : Int := if n < 2 ^ 15 then n else (n : Int) - 2 ^ 16
    -- `temp < -273.15` on the floats is `k < -27315` on the integers (rounding is monotone
    -- and the literal -273.15 is the same double as -27315/100)
    if k < -27315 then .error .valueError else .ok (tempOfCenti k)

/-- `round(value * 100)` as a signed integer -/
def centiOfTemp (neg : Bool) (v : Dy) : Int :=
  let r := (v.mulInt 100).roundHalfEven
  if neg then -(r : Int) else r

def hexFromTemp : TempV → Py (List Char)
  | .none => .ok "7FFF".toList
  | .false_ => .ok "7EFF".toList
  | .num neg v =>
    let t := centiOfTemp neg v
    if t < -(2 ^ 15) ∨ t ≥ 2 ^ 15 then .error .valueError
    else .ok (fmtHex 4 (if t ≥ 0 then t.toNat else (t + 2 ^ 16).toNat))

/-! ## percentages (0.5 % and 1 % resolution) -/

def hexToPercent (s : List Char) (highRes : Bool) : Py (Option Dy) :=
  if s.length ≠ 2 then .error .valueError else
  if s = "EF".toList then .ok none else
  match ofHex s with
  | none => .error .valueError
  | some n =>
    if n / 16 = 15 then .ok none else
    let r := divInt n (if highRes then 200 else 100)
    if r.ltFrac 1 1 ∨ r.eqv ⟨1, 0⟩ then .ok (some r) else .error .valueError

/-- `value` is a float in the model; the `0 <= value <= 1` guard is explicit -/
def hexFromPercent (v : Option Dy) (highRes : Bool) : Py (List Char) :=
  match v with
  | none => .ok "EF".toList
  | some x =>
    if ¬ (x.leFrac 1 1) then .error .valueError
    else .ok (fmtHex 2 (x.mulInt (if highRes then 200 else 100)).roundHalfEven)

/-! ## "doubles" (unsigned 16-bit counters; the library only uses factor 1) -/

def hexToDouble (s : List Char) (factor : Nat) : Py (Option Dy) :=
  if s.length ≠ 4 then .error .valueError else
  if s = "7FFF".toList then .ok none else
  match ofHex s with
  | none => .error .valueError
  | some n => if factor = 0 then .error .zeroDivision else .ok (some (divInt n factor))

def hexFromDouble (v : Option Dy) (factor : Nat) : Py (List Char) :=
  match v with
  | none => .ok "7FFF".toList
  | some x =>
    let r := (x.mulInt factor).roundHalfEven
    if r ≥ 2 ^ 16 then .error .valueError else .ok (fmtHex 4 r)

/-! ## booleans and flag bytes -/

def hexToBool (s : List Char) : Py (Option Bool) :=
  if s.length ≠ 2 then .error .valueError else
  if s = "FF".toList then .ok none else
  if s = "00".toList then .ok (some false) else
  if s = "C8".toList then .ok (some true) else .error .keyError

def hexFromBool : Option Bool → List Char
  | none => "FF".toList
  | some false => "00".toList
  | some true => "C8".toList

def bitsMsb (n : Nat) : List Nat := [n / 128 % 2, n / 64 % 2, n / 32 % 2, n / 16 % 2, n / 8 % 2, n / 4 % 2, n / 2 % 2, n % 2]

def hexToFlag8 (s : List Char) (lsb : Bool) : Py (List Nat) :=
  if s.length ≠ 2 then .error .valueError else
  match ofHex s with
  | none => .error .valueError
  | some n => .ok (if lsb then (bitsMsb n).reverse else bitsMsb n)

/-- `sum(x << idx for idx, x in enumerate(bits))` -/
def sumBitsLsb : List Nat → Nat → Nat
  | [], _ => 0
  | x :: xs, i => x * 2 ^ i + sumBitsLsb xs (i + 1)

def hexFromFlag8 (flags : List Nat) (lsb : Bool) : Py (List Char) :=
  if flags.length ≠ 8 then .error .valueError else
  .ok (fmtHex 2 (sumBitsLsb (if lsb then flags else flags.reverse) 0))

/-! ## text -/

def hexFromStr (s : List Char) : Py (List Char) :=
  if s.all (fun c => 31 < c.toNat ∧ c.toNat < 127) then .ok (s.flatMap (fun c => fmtHex 2 c.toNat))
  else .error .valueError

def bytesOfHex : List Char → Option (List Nat)
  | [] => some []
  | [_] => none
  | a :: b :: rest => match ofHex [a, b], bytesOfHex rest with
    | some v, some vs => some (v :: vs)
    | _, _ => none

def hexToStr (s : List Char) : Py (List Char) :=
  match bytesOfHex s with
  | none => .error .valueError
  | some bs => .ok (strip ((bs.filter (fun x => 31 < x ∧ x < 127)).map Char.ofNat))

/-! ## date-times -/

structure DateTime where
  year : Nat
  month : Nat
  day : Nat
  hour : Nat
  minute : Nat
  second : Nat
  deriving DecidableEq, Repr

def isLeap (y : Nat) : Bool := (y % 4 = 0 ∧ y % 100 ≠ 0) ∨ y % 400 = 0

def daysInMonth (y m : Nat) : Nat :=
  if m = 2 then (if isLeap y then 29 else 28)
  else if m = 4 ∨ m = 6 ∨ m = 9 ∨ m = 11 then 30 else 31

/-- the domain of Python's `datetime(...)` constructor -/
def DateTime.valid (d : DateTime) : Bool :=
  1 ≤ d.year ∧ d.year ≤ 9999 ∧ 1 ≤ d.month ∧ d.month ≤ 12 ∧ 1 ≤ d.day ∧
  d.day ≤ daysInMonth d.year d.month ∧ d.hour < 24 ∧ d.minute < 60 ∧ d.second < 60

def mkDateTime (y mo d h mi s : Nat) : Py DateTime :=
  let x : DateTime := ⟨y, mo, d, h, mi, s⟩
  if x.valid then .ok x else .error .valueError

/-- read `w` hex digits from the front of `s` -/
def takeHex (w : Nat) (s : List Char) : Option (Nat × List Char) :=
  if s.length < w then none else
  match ofHex (s.take w) with
  | some n => some (n, s.drop w)
  | none => none

/-- `hex_to_dtm`: 12 or 14 hex chars `[SS]MMHHDDMMYYYY` -/
def hexToDtm (s : List Char) : Py (Option DateTime) :=
  if s.length ≠ 12 ∧ s.length ≠ 14 then .error .valueError else
  if s.drop (s.length - 12) = "FFFFFFFFFFFF".toList then .ok none else
  let v := if s.length = 12 then '0' :: '0' :: s else s
  match takeHex 2 v with
  | none => .error .valueError
  | some (sec, v) => match takeHex 2 v with
    | none => .error .valueError
    | some (mi, v) => match takeHex 2 v with
      | none => .error .valueError
      | some (hr, v) => match takeHex 2 v with
        | none => .error .valueError
        | some (dd, v) => match takeHex 2 v with
          | none => .error .valueError
          | some (mo, v) => match takeHex 4 v with
            | none => .error .valueError
            | some (yy, _) => (mkDateTime yy mo dd (hr % 32) mi (sec % 128)).map some

/-- `hex_from_dtm` on a datetime object (or None) -/
def hexFromDtm (d : Option DateTime) (isDst inclSeconds : Bool) : List Char :=
  match d with
  | none => if inclSeconds then "FFFFFFFFFFFFFF".toList else "FFFFFFFFFFFF".toList
  | some d =>
    let sec := if isDst then (if d.second / 128 % 2 = 1 then d.second else d.second + 128) else d.second
    let rest := fmtHex 2 d.minute ++ fmtHex 2 d.hour ++ fmtHex 2 d.day ++ fmtHex 2 d.month ++ fmtHex 4 d.year
    if inclSeconds then fmtHex 2 sec ++ rest else rest

/-! ### packed fault-log timestamps (48 bits) -/

def hexToDts (s : List Char) : Py (Option DateTime) :=
  if s.length ≠ 12 then .error .valueError else
  if s = "00000000007F".toList then .ok none else
  match ofHex s with
  | none => .error .valueError
  | some x =>
    (mkDateTime (2000 + x / 2 ^ 24 % 128) (x / 2 ^ 36 % 16) (x / 2 ^ 31 % 32)
      (x / 2 ^ 19 % 32) (x / 2 ^ 13 % 64) (x / 2 ^ 7 % 64)).map some

def hexFromDts : Option DateTime → List Char
  | none => "00000000007F".toList
  | some d => fmtHex 12 (d.year % 100 * 2 ^ 24 + d.month * 2 ^ 36 + d.day * 2 ^ 31 +
      d.hour * 2 ^ 19 + d.minute * 2 ^ 13 + d.second * 2 ^ 7)

/-! ## device ids -/

/-- `hex_id_to_dev_id` (un-friendly form): 6 hex chars -> (type, number) or one of the two
    special ids.  `FFFFFE` is 63:262142 anyway; blank is `--:------`. -/
inductive DevId where
  | non                       -- "--:------"
  | dev (t n : Nat)           -- "tt:nnnnnn"
  deriving DecidableEq, Repr

def hexIdToDevId (s : List Char) : Py DevId :=
  if s = "FFFFFE".toList then .ok (.dev 63 262142) else
  if strip s = [] then .ok .non else
  match ofHex s with
  | none => .error .valueError
  | some x => .ok (.dev (x / 2 ^ 18 % 64) (x % 2 ^ 18))

/-- `dev_id_to_hex_id` on a 9-char id `tt:nnnnnn` (decimal digits) -/
def devIdToHexId (t n : Nat) : List Char := fmtHex 6 (t * 2 ^ 18 + n)

end Ramses
