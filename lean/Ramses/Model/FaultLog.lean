/-
  Ramses.Model.FaultLog — ramses_rf/system/faultlog.py: `_insert_into_map`, `_process_msg`, the
  `faultlog` view.  Time stamps are natural numbers (order-isomorphic to the "yy-mm-ddTHH:MM:SS"
  strings the library compares); the OrderedDict is an association list with `|=` semantics.
-/
namespace Ramses

abbrev FMap := List (Nat × Nat)      -- log_idx ↦ time stamp, insertion-ordered, keys unique

def FMap.get? (m : FMap) (k : Nat) : Option Nat := (m.find? (·.1 = k)).map (·.2)

/-- `d |= {k: v}` for one pair: replace in place, or append -/
def fmSet (m : FMap) (k v : Nat) : FMap :=
  if m.any (·.1 = k) then m.map (fun kv => if kv.1 = k then (k, v) else kv) else m ++ [(k, v)]

/-- `d |= other` -/
def fmUpdate (m other : FMap) : FMap := other.foldl (fun d kv => fmSet d kv.1 kv.2) m

def maxLogIdx : Nat := 0x3E

def minList : List Nat → Nat
  | [] => 0
  | x :: xs => xs.foldl min x

/-- `FaultLog._insert_into_map(idx, dtm)` -/
def insertIntoMap (m : FMap) (idx : Nat) (dtm : Option Nat) : FMap :=
  match dtm with
  | none => fmUpdate [] (m.filter (fun kv => kv.1 < idx))
  | some d =>
    let new1 := fmUpdate [] (m.filter (fun kv => kv.1 < idx && kv.2 > d))
    let new2 := fmSet new1 idx d
    let idxs := (m.filter (fun kv => kv.2 < d)).map (·.1)
    if idxs = [] then new2 else
    let next := minList idxs
    let diff := if next > idx then 0 else if next = idx then 1 else idx + 1
    fmUpdate new2 ((m.filter (fun kv => (kv.1 ≥ idx || kv.2 < d) && kv.1 + diff ≤ maxLogIdx)).map
      (fun kv => (kv.1 + diff, kv.2)))

structure FLog where
  map : FMap
  log : List Nat          -- keys of `_log` (time stamps of the entries held), insertion order
  deriving Repr, DecidableEq

def FLog.empty : FLog := ⟨[], []⟩

/-- a processable 0418 message: its log_idx and the entry's time stamp (`none` = null entry) -/
structure FMsg where
  idx : Nat
  dtm : Option Nat
  deriving Repr, DecidableEq

/-- `FaultLog._process_msg(msg)` -/
def processMsg (s : FLog) (msg : FMsg) : FLog :=
  match msg.dtm with
  | none =>
    ⟨insertIntoMap s.map msg.idx none,
     s.log.filter (fun k => (insertIntoMap s.map msg.idx none).any (·.2 = k))⟩
  | some d =>
    if s.map.get? msg.idx = some d then s
    else
      ⟨insertIntoMap s.map msg.idx (some d),
       (if s.log.contains d then s.log else s.log ++ [d]).filter
         (fun k => (insertIntoMap s.map msg.idx (some d)).any (·.2 = k))⟩

def processAll (s : FLog) (msgs : List FMsg) : FLog := msgs.foldl processMsg s

/-- the controller's answer to `RQ|0418|idx`: the entry it has at that position, or the null entry -/
def ctlReply (L : List Nat) (idx : Nat) : FMsg := ⟨idx, L[idx]?⟩

/-- the loop of `FaultLog.get_faultlog(start, limit)` against a controller whose log is `L` (newest
    first): ask for `idx = start, start+1, …`, `n` requests at most; a null reply is processed and
    ends the loop -/
def readLoop (L : List Nat) : Nat → Nat → FLog → FLog
  | 0, _, s => s
  | n + 1, i, s =>
    let s' := processMsg s (ctlReply L i)
    if L[i]? = none then s' else readLoop L n (i + 1) s'

/-- the log positions a controller has: 0x00 … 0x3F -/
def logDepth : Nat := 64

/-- `get_faultlog(start=…, limit=…)`: `for idx in range(start, min(start + limit, 64))` -/
def getFaultlog (L : List Nat) (s : FLog) (start limit : Nat) : FLog :=
  readLoop L (min (start + limit) logDepth - start) start s

/-- the `faultlog` property: `{idx: self._log[dtm] ...}` raises KeyError iff some mapped stamp
    is not held in `_log` -/
def viewTotal (s : FLog) : Bool := s.map.all (fun kv => s.log.contains kv.2)

end Ramses
