/-
  Ramses.Model.SyncAvoid — `avoid_system_syncs` / `track_system_syncs` of ramses_tx/transport.py:
  before a frame is written to a serial gateway, wait while any remembered controller sync cycle
  is imminent.  Times are whole microseconds.
-/
import Ramses.Gen.Consts
namespace Ramses.Sync

/-- `SYNC_WAIT_SHORT` = DURATION_SYNC_PKT = 0.010 s -/
def waitShort : Nat := Gen.syncWaitShortUs
/-- `SYNC_WAIT_LONG` = (0.020 + 0.022) * 2 s -/
def waitLong : Nat := Gen.syncWaitLongUs
/-- `SYNC_WINDOW_LOWER` = 0.8 * SYNC_WAIT_SHORT -/
def winLower : Nat := Gen.syncWindowLowerUs
/-- `SYNC_WINDOW_UPPER` = LOWER + 1.2 * SYNC_WAIT_LONG -/
def winUpper : Nat := Gen.syncWindowUpperUs

/-- `is_imminent(p)`: `LOWER < next_sync - now < UPPER` (`next_sync` = the packet's time + its countdown) -/
def imminent (now sync : Nat) : Bool := now + winLower < sync && sync < now + winUpper

/-- the polling loop `while any(is_imminent(p) ...): await sleep(SYNC_WAIT_SHORT)`: the time at which it
    is left, if within `fuel` polls -/
def waitN : Nat → Nat → List Nat → Option Nat
  | 0, _, _ => none
  | fuel + 1, now, syncs => if syncs.any (imminent now) then waitN fuel (now + waitShort) syncs else some now

/-- the whole wrapper: when the loop took longer than one short wait, a long wait follows; then the write -/
def writeAt (start : Nat) (syncs : List Nat) (fuel : Nat) : Option Nat :=
  (waitN fuel start syncs).map fun t => if t - start > waitShort then t + waitLong else t

/-- `is_pending(p)` of `track_system_syncs`: the sync is still to come -/
def pending (now sync : Nat) : Bool := sync > now

def maxTracked : Nat := Gen.maxTrackedSyncs

/-- `track_system_syncs` on an `I|1F09` from controller `src` announcing `sync`: entries of that controller
    and entries no longer pending are dropped, the new one is appended, at most `_MAX_TRACKED_SYNCS` are kept -/
def track (now : Nat) (tracked : List (Nat × Nat)) (src sync : Nat) : List (Nat × Nat) :=
  let kept := tracked.filter (fun p => p.1 ≠ src && pending now p.2) ++ [(src, sync)]
  if kept.length > maxTracked then kept.drop 1 else kept

end Ramses.Sync
