/-
  Ramses.Model.Builders — command constructors of ramses_tx/command.py (a core of CODE_API_MAP):
  the zone/DHW-indexed requests, set_zone_setpoint, set_zone_config, set_dhw_params,
  put_sensor_temp, put_dhw_temp, get_relay_demand.  Floats are exact (Dbl.lean).
-/
import Ramses.Model.Parsers
namespace Ramses

/-- a `zone_idx` argument: int or str -/
inductive IdxArg where
  | int (n : Int)
  | str (s : List Char)
  deriving DecidableEq, Repr

/-- `_check_idx(zone_idx)` -/
def checkIdx : IdxArg → Py (List Char)
  | .int n =>
    if (0 ≤ n ∧ n ≤ 15) ∨ n = 0xF9 ∨ n = 0xFA ∨ n = 0xFC then .ok (fmtHex 2 n.toNat) else .error .cmdInvalid
  | .str t =>
    let t := if t = "HW".toList then "FA".toList else t
    match ofHex t with
    | none => .error .valueError
    | some n =>
      if n ≤ 15 ∨ n = 0xF9 ∨ n = 0xFA ∨ n = 0xFC then .ok (fmtHex 2 n) else .error .cmdInvalid

/-- `Command.from_attrs(verb, dest_id, code, payload)` (from_id defaults to 18:000730) -/
def fromAttrsDest (verb dest code payload : List Char) : Py Frame :=
  if dest = hgiId then fromAttrs verb code payload hgiId nonId dest none
  else fromAttrs verb code payload hgiId dest nonId none

/-- a float argument: `None`, or sign + exact value -/
abbrev FloatArg := Option (Bool × Dy)

def tempOfArg : FloatArg → TempV
  | none => .none
  | some (neg, v) => .num neg v

/-- exact comparison `lo ≤ x ≤ hi` for a (signed) float against integers -/
def floatBetween (x : Bool × Dy) (lo hi : Nat) : Bool :=
  if x.1 ∧ x.2.m ≠ 0 then false else (!(x.2.ltFrac lo 1)) && x.2.leFrac hi 1

/-- RQ|code with payload `idx` (+ suffix) -/
def getIndexed (code suffix : String) (ctl : List Char) (idx : IdxArg) : Py Frame :=
  match checkIdx idx with
  | .error e => .error e
  | .ok i => fromAttrsDest vRQ ctl code.toList (i ++ suffix.toList)

def getZoneName := getIndexed "0004" "00"
def getZoneConfig := getIndexed "000A" ""
def getZoneMode := getIndexed "2349" ""
def getZoneSetpoint := getIndexed "2309" ""
def getZoneTemp := getIndexed "30C9" ""
def getZoneWindowState := getIndexed "12B0" ""
def getDhwParams := getIndexed "10A0" ""
def getDhwTemp := getIndexed "1260" ""

def getRelayDemand (dev : List Char) (idx : Option IdxArg) : Py Frame :=
  match idx with
  | none => fromAttrsDest vRQ dev "0008".toList "00".toList
  | some i => match checkIdx i with
    | .error e => .error e
    | .ok p => fromAttrsDest vRQ dev "0008".toList p

/-- W|2309 -/
def setZoneSetpoint (ctl : List Char) (idx : IdxArg) (sp : Bool × Dy) : Py Frame :=
  match checkIdx idx with
  | .error e => .error e
  | .ok i => match hexFromTemp (.num sp.1 sp.2) with
    | .error e => .error e
    | .ok h => fromAttrsDest vW ctl "2309".toList (i ++ h)

/-- I|30C9 from a faked sensor -/
def putSensorTemp (dev : List Char) (t : FloatArg) : Py Frame :=
  if ¬ (["00", "03", "04", "12", "22", "34"].any (fun x => x.toList = dev.take 2)) then .error .cmdInvalid
  else match hexFromTemp (tempOfArg t) with
    | .error e => .error e
    | .ok h => fromAttrs vI "30C9".toList ("00".toList ++ h) dev [] dev none

/-- I|1260 from a faked DHW sensor -/
def putDhwTemp (dev : List Char) (t : FloatArg) : Py Frame :=
  if dev.take 2 ≠ Gen.devTypeDHW.toList then .error .cmdInvalid
  else match hexFromTemp (tempOfArg t) with
    | .error e => .error e
    | .ok h => fromAttrs vI "1260".toList ("00".toList ++ h) dev [] dev none

/-- W|10A0 -/
def setDhwParams (ctl : List Char) (sp : Bool × Dy) (overrun : Int) (diff : Bool × Dy) : Py Frame :=
  if ¬ floatBetween sp 30 85 then .error .cmdInvalid
  else if ¬ (0 ≤ overrun ∧ overrun ≤ 10) then .error .cmdInvalid
  else if ¬ floatBetween diff 1 10 then .error .cmdInvalid
  else match hexFromTemp (.num sp.1 sp.2), hexFromTemp (.num diff.1 diff.2) with
    | .error e, _ => .error e
    | _, .error e => .error e
    | .ok a, .ok b => fromAttrsDest vW ctl "10A0".toList ("00".toList ++ a ++ fmtHex 2 overrun.toNat ++ b)

/-- W|000A -/
def setZoneConfig (ctl : List Char) (idx : IdxArg) (lo hi : Bool × Dy) (localOverride openWindow multiRoom : Bool) : Py Frame :=
  match checkIdx idx with
  | .error e => .error e
  | .ok i =>
    if ¬ floatBetween lo 5 21 then .error .cmdInvalid
    else if ¬ floatBetween hi 21 35 then .error .cmdInvalid
    else
      let bitmap := (if localOverride then 0 else 1) + (if openWindow then 0 else 2) + (if multiRoom then 0 else 16)
      match hexFromTemp (.num lo.1 lo.2), hexFromTemp (.num hi.1 hi.2) with
      | .error e, _ => .error e
      | _, .error e => .error e
      | .ok a, .ok b => fromAttrsDest vW ctl "000A".toList (i ++ fmtHex 2 bitmap ++ a ++ b)

end Ramses
