/-
  Ramses.Model.Builders — command constructors of ramses_tx/command.py (a core of CODE_API_MAP):
  the zone/DHW-indexed requests, set_zone_setpoint, set_zone_config, set_dhw_params,
  put_sensor_temp, put_dhw_temp, get_relay_demand.  Floats are exact (Dbl.lean).
-/
import Ramses.Model.Parsers
namespace Ramses

/-- a `zone_idx` argument: int or str -/
inductive IdxArg where
  | int (n : Int)
  | str (s : List Char)
  deriving DecidableEq, Repr

/-- `_check_idx(zone_idx)` -/
def checkIdx : IdxArg → Py (List Char)
  | .int n =>
    if (0 ≤ n ∧ n ≤ 15) ∨ n = 0xF9 ∨ n = 0xFA ∨ n = 0xFC then .ok (fmtHex 2 n.toNat) else .error .cmdInvalid
  | .str t =>
    let t := if t = "HW".toList then "FA".toList else t
    match ofHex t with
    | none => .error .valueError
    | some n =>
      if n ≤ 15 ∨ n = 0xF9 ∨ n = 0xFA ∨ n = 0xFC then .ok (fmtHex 2 n) else .error .cmdInvalid

/-- `Command.from_attrs(verb, dest_id, code, payload)` (from_id defaults to 18:000730) -/
def fromAttrsDest (verb dest code payload : List Char) : Py Frame :=
  if dest = hgiId then fromAttrs verb code payload hgiId nonId dest none
  else fromAttrs verb code payload hgiId dest nonId none

/-- a float argument: `None`, or sign + exact value -/
abbrev FloatArg := Option (Bool × Dy)

def tempOfArg : FloatArg → TempV
  | none => .none
  | some (neg, v) => .num neg v

/-- exact comparison `lo ≤ x ≤ hi` for a (signed) float against integers -/
def floatBetween (x : Bool × Dy) (lo hi : Nat) : Bool :=
  if x.1 ∧ x.2.m ≠ 0 then false else (!(x.2.ltFrac lo 1)) && x.2.leFrac hi 1

/-- RQ|code with payload `idx` (+ suffix) -/
def getIndexed (code suffix : String) (ctl : List Char) (idx : IdxArg) : Py Frame :=
  match checkIdx idx with
  | .error e => .error e
  | .ok i => fromAttrsDest vRQ ctl code.toList (i ++ suffix.toList)

def getZoneName := getIndexed "0004" "00"
def getZoneConfig := getIndexed "000A" ""
def getZoneMode := getIndexed "2349" ""
def getZoneSetpoint := getIndexed "2309" ""
def getZoneTemp := getIndexed "30C9" ""
def getZoneWindowState := getIndexed "12B0" ""
def getDhwParams := getIndexed "10A0" ""
def getDhwTemp := getIndexed "1260" ""

def getRelayDemand (dev : List Char) (idx : Option IdxArg) : Py Frame :=
  match idx with
  | none => fromAttrsDest vRQ dev "0008".toList "00".toList
  | some i => match checkIdx i with
    | .error e => .error e
    | .ok p => fromAttrsDest vRQ dev "0008".toList p

/-- W|2309 -/
def setZoneSetpoint (ctl : List Char) (idx : IdxArg) (sp : Bool × Dy) : Py Frame :=
  match checkIdx idx with
  | .error e => .error e
  | .ok i => match hexFromTemp (.num sp.1 sp.2) with
    | .error e => .error e
    | .ok h => fromAttrsDest vW ctl "2309".toList (i ++ h)

/-- I|30C9 from a faked sensor -/
def putSensorTemp (dev : List Char) (t : FloatArg) : Py Frame :=
  if ¬ (["00", "03", "04", "12", "22", "34"].any (fun x => x.toList = dev.take 2)) then .error .cmdInvalid
  else match hexFromTemp (tempOfArg t) with
    | .error e => .error e
    | .ok h => fromAttrs vI "30C9".toList ("00".toList ++ h) dev [] dev none

/-- I|1260 from a faked DHW sensor -/
def putDhwTemp (dev : List Char) (t : FloatArg) : Py Frame :=
  if dev.take 2 ≠ Gen.devTypeDHW.toList then .error .cmdInvalid
  else match hexFromTemp (tempOfArg t) with
    | .error e => .error e
    | .ok h => fromAttrs vI "1260".toList ("00".toList ++ h) dev [] dev none

/-- I|1290 from a faked HVAC sensor (`put_outdoor_temp`) -/
def putOutdoorTemp (dev : List Char) (t : FloatArg) : Py Frame :=
  match hexFromTemp (tempOfArg t) with
  | .error e => .error e
  | .ok h => fromAttrs vI "1290".toList ("00".toList ++ h) dev [] dev none

/-- I|1298 from a faked CO2 sensor (`put_co2_level`; `hex_from_double` refuses what rounds below zero) -/
def putCo2Level (dev : List Char) (v : FloatArg) : Py Frame :=
  let arg : Py (Option Dy) := match v with
    | none => .ok none
    | some (neg, x) => if neg ∧ (x.mulInt 1).roundHalfEven ≠ 0 then .error .valueError else .ok (some (if neg then ⟨0, 0⟩ else x))
  match arg with
  | .error e => .error e
  | .ok a => match hexFromDouble a 1 with
    | .error e => .error e
    | .ok h => fromAttrs vI "1298".toList ("00".toList ++ h) dev [] dev none

/-- I|12A0 from a faked humidity sensor (`put_indoor_humidity`: 1 % resolution) -/
def putIndoorHumidity (dev : List Char) (v : FloatArg) : Py Frame :=
  let arg : Py (Option Dy) := match v with
    | none => .ok none
    | some (neg, x) => if neg ∧ x.m ≠ 0 then .error .valueError else .ok (some x)
  match arg with
  | .error e => .error e
  | .ok a => match hexFromPercent a false with
    | .error e => .error e
    | .ok h => fromAttrs vI "12A0".toList ("00".toList ++ h) dev [] dev none

/-- W|10A0 -/
def setDhwParams (ctl : List Char) (sp : Bool × Dy) (overrun : Int) (diff : Bool × Dy) : Py Frame :=
  if ¬ floatBetween sp 30 85 then .error .cmdInvalid
  else if ¬ (0 ≤ overrun ∧ overrun ≤ 10) then .error .cmdInvalid
  else if ¬ floatBetween diff 1 10 then .error .cmdInvalid
  else match hexFromTemp (.num sp.1 sp.2), hexFromTemp (.num diff.1 diff.2) with
    | .error e, _ => .error e
    | _, .error e => .error e
    | .ok a, .ok b => fromAttrsDest vW ctl "10A0".toList ("00".toList ++ a ++ fmtHex 2 overrun.toNat ++ b)

/-- W|000A -/
def setZoneConfig (ctl : List Char) (idx : IdxArg) (lo hi : Bool × Dy) (localOverride openWindow multiRoom : Bool) : Py Frame :=
  match checkIdx idx with
  | .error e => .error e
  | .ok i =>
    if ¬ floatBetween lo 5 21 then .error .cmdInvalid
    else if ¬ floatBetween hi 21 35 then .error .cmdInvalid
    else
      let bitmap := (if localOverride then 0 else 1) + (if openWindow then 0 else 2) + (if multiRoom then 0 else 16)
      match hexFromTemp (.num lo.1 lo.2), hexFromTemp (.num hi.1 hi.2) with
      | .error e, _ => .error e
      | _, .error e => .error e
      | .ok a, .ok b => fromAttrsDest vW ctl "000A".toList (i ++ fmtHex 2 bitmap ++ a ++ b)


/-! ### system mode / time, DHW and zone modes, mixing-valve and TPI parameters, zone name -/

/-- a `mode` argument: `None`, int or str -/
inductive ModeArg where
  | none
  | int (n : Int)
  | str (s : List Char)
  deriving DecidableEq, Repr

/-- `f"{n:02X}"` for any int -/
def fmtX (w : Nat) (n : Int) : List Char :=
  if n < 0 then '-' :: fmtHex (w - 1) n.natAbs else fmtHex w n.toNat

/-- `mode if mode in MAP else MAP._hex(mode)` for a str mode -/
def normModeStr (fwd slugs names : List (String × String)) (t : List Char) : Py (List Char) :=
  if inS (fwd.map (·.1)) t then .ok t
  else match lookupS slugs t with
    | some h => .ok h.toList
    | none => match lookupS names t with
      | some h => .ok h.toList
      | none => .error .keyError

/-- ... for a None / int / str mode (an int is first formatted `%02X`) -/
def normMode (fwd slugs names : List (String × String)) : ModeArg → Option (List Char) → Py (List Char)
  | .none, dflt => match dflt with | some d => .ok d | none => .error .other
  | .int n, _ => normModeStr fwd slugs names (fmtX 2 n)
  | .str t, _ => normModeStr fwd slugs names t

def getSystemMode (ctl : List Char) : Py Frame := fromAttrsDest vRQ ctl "2E04".toList Gen.domFF.toList
def getSystemTime (ctl : List Char) : Py Frame := fromAttrsDest vRQ ctl "313F".toList "00".toList
def getScheduleVersion (ctl : List Char) : Py Frame := fromAttrsDest vRQ ctl "0006".toList "00".toList
def getSystemLanguage (ctl : List Char) : Py Frame := fromAttrsDest vRQ ctl "0100".toList "00".toList
def getDhwMode := getIndexed "1F41" ""
def getMixValveParams := getIndexed "1030" ""

/-- RQ|1100: the domain defaults to 00 for a relay (13:) and to FC otherwise -/
def getTpiParams (dev : List Char) (dom : Option IdxArg) : Py Frame :=
  let d : IdxArg := match dom with
    | some x => x
    | none => .str (if dev.take 2 = Gen.devTypeBDR'.toList then "00".toList else Gen.domFC.toList)
  getIndexed "1100" "" dev d

/-- W|2E04 -/
def setSystemMode (ctl : List Char) (mode : ModeArg) (untl : Option DateTime) : Py Frame := do
  let m ← normMode Gen.sysModeMap Gen.sysModeSlugs Gen.sysModeNames mode (some Gen.sysModeAuto.toList)
  if untl.isSome && (m = Gen.sysModeAuto.toList || m = Gen.sysModeAutoWithReset.toList || m = Gen.sysModeHeatOff.toList) then
    throw .cmdInvalid
  fromAttrsDest vW ctl "2E04".toList (m ++ hexFromDtm untl false false ++ (if untl.isSome then "01".toList else "00".toList))

/-- W|313F -/
def setSystemTime (ctl : List Char) (d : DateTime) (isDst : Bool) : Py Frame :=
  fromAttrsDest vW ctl "313F".toList ("0060".toList ++ hexFromDtm (some d) isDst true)

/-- `_normalise_mode(mode, target, until, duration)`; `hasTarget` = the setpoint / active flag is not None -/
def durTruthy : Option Int → Bool
  | some d => d ≠ 0
  | none => false

def normaliseMode (mode : ModeArg) (hasTarget : Bool) (untl : Option DateTime) (duration : Option Int) : Py (List Char) :=
  if mode = .none && !hasTarget then .error .cmdInvalid
  else if untl.isSome && durTruthy duration then .error .cmdInvalid
  else
    let dflt := if untl.isSome then Gen.zonModeTEMPORARY else if durTruthy duration then Gen.zonModeCOUNTDOWN else Gen.zonModePERMANENT
    match normMode Gen.zonModeMap Gen.zonModeSlugs Gen.zonModeNames mode (some dflt.toList) with
    | .error e => .error e
    | .ok m => if m ≠ Gen.zonModeFOLLOW.toList && !hasTarget then .error .cmdInvalid else .ok m

/-- `_normalise_until(mode, _, until, duration)`: only refuses -/
def normaliseUntil (m : List Char) (untl : Option DateTime) (duration : Option Int) : Py Unit :=
  if m = Gen.zonModeTEMPORARY.toList then
    if duration.isSome then .error .cmdInvalid else .ok ()
  else if m = Gen.zonModeCOUNTDOWN.toList then
    if duration.isNone then .error .cmdInvalid else if untl.isSome then .error .cmdInvalid else .ok ()
  else if untl.isSome || duration.isSome then .error .cmdInvalid
  else .ok ()

def durHex : Option Int → List Char
  | none => "FFFFFF".toList
  | some d => fmtX 6 d

def untilHex : Option DateTime → List Char
  | none => []
  | some d => hexFromDtm (some d) false false

/-- W|1F41 (`active`: None / False / True) -/
def setDhwMode (ctl : List Char) (dhwIdx : IdxArg) (mode : ModeArg) (active : Option Bool) (untl : Option DateTime)
    (duration : Option Int) : Py Frame := do
  let i ← checkIdx dhwIdx
  let m ← normaliseMode mode active.isSome untl duration
  let active := if m = Gen.zonModeFOLLOW.toList then none else active
  normaliseUntil m untl duration
  if m = Gen.zonModeTEMPORARY.toList && untl.isNone then throw .cmdInvalid   -- (a W|1F41 with mode 04 needs an until)
  let a := match active with | none => "FF" | some true => "01" | some false => "00"
  fromAttrsDest vW ctl "1F41".toList (i ++ a.toList ++ m ++ durHex duration ++ untilHex untl)

/-- W|2349 -/
def setZoneMode (ctl : List Char) (idx : IdxArg) (mode : ModeArg) (setpoint : FloatArg) (untl : Option DateTime)
    (duration : Option Int) : Py Frame := do
  let m ← normaliseMode mode setpoint.isSome untl duration
  normaliseUntil m untl duration
  let i ← checkIdx idx
  let t ← hexFromTemp (tempOfArg setpoint)
  fromAttrsDest vW ctl "2349".toList (i ++ t ++ m ++ durHex duration ++ untilHex untl)

/-- W|1030 -/
def setMixValveParams (ctl : List Char) (idx : IdxArg) (maxFlow minFlow valveRun pumpRun booleanCc : Int) : Py Frame := do
  let i ← checkIdx idx
  if ¬ (0 ≤ maxFlow ∧ maxFlow ≤ 99) then throw .cmdInvalid
  if ¬ (0 ≤ minFlow ∧ minFlow ≤ 50) then throw .cmdInvalid
  if ¬ (0 ≤ valveRun ∧ valveRun ≤ 240) then throw .cmdInvalid
  if ¬ (0 ≤ pumpRun ∧ pumpRun ≤ 99) then throw .cmdInvalid
  fromAttrsDest vW ctl "1030".toList (i ++ "C801".toList ++ fmtX 2 maxFlow ++ "C901".toList ++ fmtX 2 minFlow ++
    "CA01".toList ++ fmtX 2 valveRun ++ "CB01".toList ++ fmtX 2 pumpRun ++ "CC01".toList ++ fmtX 2 booleanCc)

/-- W|1100 for int arguments (`cycle_rate * 4`, `int(min_on_time * 4)`, ...): nothing is validated -/
def setTpiParams (ctl : List Char) (dom : Option IdxArg) (cycleRate minOn minOff : Int) (pbw : FloatArg) : Py Frame := do
  let i ← checkIdx (match dom with | some d => d | none => .str "00".toList)
  let t ← hexFromTemp (tempOfArg pbw)
  fromAttrsDest vW ctl "1100".toList (i ++ fmtX 2 (cycleRate * 4) ++ fmtX 2 (minOn * 4) ++ fmtX 2 (minOff * 4) ++ "00".toList ++ t ++ "01".toList)

/-- W|0004: `f"{idx}00{hex_from_str(name)[:40]:0<40}"` -/
def setZoneName (ctl : List Char) (idx : IdxArg) (name : List Char) : Py Frame := do
  let i ← checkIdx idx
  let h ← hexFromStr name
  let h40 := h.take 40
  fromAttrsDest vW ctl "0004".toList (i ++ "00".toList ++ h40 ++ List.replicate (40 - h40.length) '0')

end Ramses
