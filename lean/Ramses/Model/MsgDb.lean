/-
  Ramses.Model.MsgDb — the state database of an entity and message expiry
  (ramses_tx/message.py `Message._expired`; ramses_rf/entity_base.py `_MessageDB._handle_msg`,
  `_msg_value_code`, `_msg_value_msg`, `_delete_msg`; ramses_rf/system/heat.py routing by zone_idx).

  Time is integer microseconds (timedelta arithmetic in CPython is exact integer µs arithmetic; the
  one float in the code is `age / lifespan >= 2.0`, which for lifespans below 2^52 µs (142 years) is
  exactly the rational comparison written here — see DESIGN.md §3 C14).
-/
import Ramses.Gen.Consts
namespace Ramses.Db

/-- `pkt._lifespan` (or, for 1F09, `td(seconds=payload["remaining_seconds"])`) -/
inductive Life where
  | cant               -- `False`: does not expire (also what `td(0) or False` gives for RQ/W)
  | dur (us : Nat)     -- a timedelta
  deriving DecidableEq, Repr

structure Msg where
  seq : Nat                       -- arrival number (identity of the Message object)
  src : String
  dst : String
  verb : String
  code : String
  dtm : Int                       -- µs
  life : Life
  elems : List (String × Int)     -- (zone_idx, value) pairs carried; a dict payload carries one
  deriving DecidableEq, Repr

/-! ## expiry -/

def grace : Int := (Gen.expiryGraceUs : Int)

/-- `fraction_expired >= HAS_EXPIRED` evaluated afresh at `now`:
    `(now - dtm - 3 s) / lifespan >= n/d`.  A zero lifespan expires at once. -/
def expiredAt (now : Int) (m : Msg) : Bool :=
  match m.life with
  | .cant => false
  | .dur l =>
    if l = 0 then true
    else decide ((Gen.hasExpiredNum : Int) * (l : Int) ≤ (now - m.dtm - grace) * (Gen.hasExpiredDen : Int))

/-- a stored message together with the sticky part of its `_fraction_expired` memo:
    `stuck` = an earlier evaluation reached HAS_EXPIRED -/
structure Slot where
  m : Msg
  stuck : Bool
  deriving DecidableEq, Repr

/-- `msg._expired` read at `now`: result and the updated memo -/
def Slot.expired (s : Slot) (now : Int) : Bool × Slot :=
  if s.stuck then (true, s)
  else
    let r := expiredAt now s.m
    (r, { s with stuck := r })

/-- a sequence of `_expired` reads at arbitrary clock values -/
def Slot.reads (s : Slot) : List Int → List Bool × Slot
  | [] => ([], s)
  | t :: ts =>
    let (r, s') := s.expired t
    let (rs, s'') := s'.reads ts
    (r :: rs, s'')

/-! ## the store of one zone: `_msgs_[code]` -/

abbrev Db := List (String × Slot)

def allId : String := "63:262142"

/-- the store rule of `_MessageDB._handle_msg` for an entity whose `id[:9]` is `id` -/
def storeOk (id : String) (m : Msg) : Bool :=
  m.src = id || (m.dst = id && m.verb != "RQ") || (m.dst = allId && m.code = "1FC9")

/-- only the latest I / RP is kept in `_msgs_` -/
def keep (m : Msg) : Bool := m.verb = " I" || m.verb = "RP"

/-- `MultiZone._handle_msg`: a controller's message is handed to every zone whose `zone_idx`
    occurs in its payload (dict or list form) -/
def routed (ctl z : String) (m : Msg) : Bool := m.src = ctl && m.elems.any (fun e => e.1 = z)

def put (db : Db) (m : Msg) : Db := (m.code, ⟨m, false⟩) :: db.filter (fun e => e.1 != m.code)

def relevant (ctl z : String) (m : Msg) : Bool := routed ctl z m && storeOk ctl m && keep m

def zoneHandle (ctl z : String) (db : Db) (m : Msg) : Db :=
  if relevant ctl z m then put db m else db

def lookup (db : Db) (code : String) : Option Slot := (db.find? (fun e => e.1 = code)).map (·.2)

/-- `max(msgs)` over the slots of the given codes: the greatest `dtm` (first wins a tie) -/
def pick (db : Db) : List String → Option Slot
  | [] => none
  | c :: cs =>
    match lookup db c, pick db cs with
    | none, r => r
    | some s, none => some s
    | some s, some r => if r.m.dtm > s.m.dtm then some r else some s

/-- the value the zone reports out of a message: the element for its own `zone_idx` (the dict
    comprehension of `_msg_value_msg` lets the *last* such element win — a merged two-packet
    array can carry a zone twice) -/
def elemOf (z : String) (m : Msg) : Option Int := (m.elems.reverse.find? (fun e => e.1 = z)).map (·.2)

/-- `_delete_msg(msg)` as far as this zone's `_msgs_` goes: drop the slot if it still holds that
    very message -/
def delete (db : Db) (m : Msg) : Db := db.filter (fun e => !(e.1 = m.code && e.2.m.seq = m.seq))

def setSlot (db : Db) (s : Slot) : Db := db.map (fun e => if e.1 = s.m.code && e.2.m.seq = s.m.seq then (e.1, s) else e)

/-- one attribute read (`_msg_value_code(codes, key=…, zone_idx=z)`) at `now`, followed by the
    deferred `_delete_msg` it may have scheduled.  **As the code stands the value of an expired
    message is still returned by the read that notices the expiry** (known finding, see Props). -/
def readAttr (now : Int) (db : Db) (codes : List String) (z : String) : Option Int × Db :=
  match pick db codes with
  | none => (none, db)
  | some s =>
    let (ex, s') := s.expired now
    let v := elemOf z s.m
    if ex then (v, delete db s.m) else (v, setSlot db s')

/-- what the property asks of a read: an expired message reads as unknown -/
def readSpec (now : Int) (db : Db) (codes : List String) (z : String) : Option Int :=
  match pick db codes with
  | none => none
  | some s => if (s.expired now).1 then none else elemOf z s.m

/-! ## the whole system: one store per zone; message objects (and their memo) are shared -/

abbrev Tcs := List (String × Db)

def tcsHandle (ctl : String) (t : Tcs) (m : Msg) : Tcs := t.map fun e => (e.1, zoneHandle ctl e.1 e.2 m)

/-- a read on zone `z`: like `readAttr`, but `_delete_msg` removes the (shared) message object from
    every zone's store, and the memo update is seen by every zone holding that object -/
def tcsRead (now : Int) (t : Tcs) (z : String) (codes : List String) : Option Int × Tcs :=
  match t.find? (fun e => e.1 = z) with
  | none => (none, t)
  | some e =>
    match pick e.2 codes with
    | none => (none, t)
    | some s =>
      let (ex, s') := s.expired now
      let v := elemOf z s.m
      if ex then (v, t.map fun e' => (e'.1, delete e'.2 s.m))
      else (v, t.map fun e' => (e'.1, setSlot e'.2 s'))

inductive Ev where
  | msg (m : Msg)
  | read (now : Int) (z : String) (codes : List String)
  deriving Repr

def step (ctl : String) (st : Tcs × List (Option Int)) : Ev → Tcs × List (Option Int)
  | .msg m => (tcsHandle ctl st.1 m, st.2)
  | .read now z codes =>
    let (v, t') := tcsRead now st.1 z codes
    (t', st.2 ++ [v])

def runEvs (ctl : String) (zones : List String) (evs : List Ev) : Tcs × List (Option Int) :=
  evs.foldl (step ctl) (zones.map fun z => (z, []), [])

end Ramses.Db
