/-
  Ramses.Model.Header — Frame._has_array / _has_ctl / _pkt_idx / _ctx / pkt_header
  (ramses_tx/frame.py), on parsed frames.  The tables come from Gen/Tables.lean.

  The Python caches `_has_array_` *before* its asserts run, so the first access may raise
  AssertionError while later accesses return True; both faces are modelled
  (`hasArrayRaw` / `hasArrayAssertOk`).
-/
import Ramses.Model.Frame
import Ramses.Gen.Tables
namespace Ramses

def inS (xs : List String) (c : List Char) : Bool := xs.any (fun x => x.toList = c)

def lookupS {α} (xs : List (String × α)) (c : List Char) : Option α :=
  (xs.find? (fun x => x.1.toList = c)).map (·.2)

def vI : List Char := " I".toList
def vRQ : List Char := "RQ".toList
def vRP : List Char := "RP".toList
def vW : List Char := " W".toList

/-- (src, dst) ids as `pkt_addrs` computes them (dst = `--:------` when there is one device) -/
def Frame.srcDst (f : Frame) : List Char × List Char :=
  match [f.a0, f.a1, f.a2].filter (fun a => a.take 2 ≠ "--".toList) with
  | [] => (nonId, nonId)
  | [s] => (s, nonId)
  | s :: d :: _ => (s, d)

def Frame.src (f : Frame) : List Char := f.srcDst.1
def Frame.dst (f : Frame) : List Char := f.srcDst.2
def Frame.srcType (f : Frame) : List Char := f.src.take 2
def Frame.dstType (f : Frame) : List Char := f.dst.take 2
/-- `self._len` = int(len(payload) / 2) -/
def Frame.blen (f : Frame) : Nat := f.payload.length / 2

/-- everything `_has_array` / `_has_ctl` / `_pkt_idx` / `_ctx` look at: the source only through
    its type and through "is it the destination" -/
structure HCore where
  verb : List Char
  code : List Char
  payload : List Char
  srcType : List Char
  dst : List Char
  same : Bool          -- src == dst
  deriving DecidableEq, Repr

def Frame.core (f : Frame) : HCore :=
  { verb := f.verb, code := f.code, payload := f.payload, srcType := f.srcType, dst := f.dst,
    same := decide (f.src = f.dst) }

def HCore.dstType (c : HCore) : List Char := c.dst.take 2
def HCore.blen (c : HCore) : Nat := c.payload.length / 2

def isCode (f : HCore) (c : String) : Bool := f.code = c.toList

/-- element length of an array-capable code -/
def arrElemLen (code : List Char) : Option Nat := (lookupS Gen.codesWithArrays code).map (·.1)

/-- the value the Python stores in `_has_array_` -/
def hasArrayRaw (f : HCore) : Bool :=
  if isCode f "1FC9" then f.verb ≠ vRQ
  else match arrElemLen f.code with
    | none => false
    | some el =>
      if f.verb ≠ vI then false
      else if f.blen ≠ el then (el ≠ 0 && f.blen / el > 0 && f.blen % el = 0)
      else if (isCode f "22C9" || isCode f "3150") && f.srcType = Gen.devTypeUFC.toList && f.same
              && f.payload.take 1 ≠ ['F'] then true
      else false

/-- do the three asserts that guard an array hold? (1FC9 is exempt) -/
def hasArrayAssertOk (f : HCore) : Bool :=
  if isCode f "1FC9" then true
  else if ¬ hasArrayRaw f then true
  else match arrElemLen f.code with
    | none => true
    | some el =>
      let dts := f.srcType = Gen.devTypeDTS.toList || f.srcType = Gen.devTypeDT2.toList
      (el ≠ 0 && f.blen % el = 0) && (dts || f.same) && (!dts || f.dst = nonId)

/-- first access of `pkt._has_array` -/
def hasArrayFirst (f : HCore) : Py Bool :=
  if hasArrayAssertOk f then .ok (hasArrayRaw f) else .error .assertionError

def hasCtl (f : HCore) : Bool :=
  let ctlTypes := [Gen.devTypeCTL.toList, Gen.devTypeUFC.toList, Gen.devTypePRG.toList]
  if ctlTypes.contains f.srcType || ctlTypes.contains f.dstType then true
  else if f.same then
    (isCode f "3B00" && f.payload.take 2 = "FC".toList) ||
      (inS Gen.codesOnlyFromCtl f.code || isCode f "31D9" || isCode f "31DA")
  else if f.dst = nonId then f.srcType ≠ Gen.devTypeOTB.toList
  else if f.dstType = Gen.devTypeDTS.toList || f.dstType = Gen.devTypeDT2.toList then true
  else false

/-- what `_pkt_idx` returns -/
inductive Idx where
  | none_ | false_ | true_
  | str (s : List Char)
  deriving DecidableEq, Repr

/-- `_pkt_idx(pkt)`; `arr` is how `pkt._has_array` answers (first or later access) -/
def pktIdxWith (f : HCore) (arr : Py Bool) : Py Idx :=
  let p := f.payload
  if isCode f "0005" then arr.map (fun b => if b then .true_ else .false_)
  else if isCode f "0009" && f.srcType = Gen.devTypeOTB.toList then .ok .false_
  else if isCode f "000C" then
    if slice p 2 4 = Gen.devRoleAPP.toList then .ok (.str "FC".toList)
    else if p.take 4 = ("01" ++ Gen.devRoleHTG).toList then .ok (.str "F9".toList)
    else if slice p 2 4 = Gen.devRoleDHW.toList || slice p 2 4 = Gen.devRoleHTG.toList then .ok (.str "FA".toList)
    else .ok (.str (p.take 2))
  else if isCode f "0404" then .ok (.str (if slice p 2 4 = "23".toList then "HW".toList else p.take 2))
  else if isCode f "0418" then .ok (.str (slice p 4 6))
  else if isCode f "1100" then .ok (if p.take 1 = ['F'] then .str (p.take 2) else .false_)
  else if isCode f "3220" then .ok (.str (slice p 4 6))
  else if inS Gen.codeIdxAreComplex f.code then .error .notImplemented
  else if inS Gen.codeIdxAreNone f.code then
    if Gen.schemaStarts00.any (fun cv => cv.1.toList = f.code && cv.2.toList = f.verb) && p.take 2 ≠ "00".toList
    then .error .pktInvalid else .ok .false_
  else match arr with
  | .error e => .error e
  | .ok true => .ok .true_
  | .ok false =>
    if ["F8", "F9", "FA", "FC"].any (fun d => d.toList = p.take 2) then
      if ¬ inS Gen.codeIdxDomain f.code then .error .pktInvalid else .ok (.str (p.take 2))
    else if hasCtl f then .ok (.str (p.take 2))
    else if isCode f "31D9" || isCode f "31DA" then .ok (.str (p.take 2))
    else if p.take 2 ≠ "00".toList then .error .pktInvalid
    else .ok .none_

/-- `pkt._idx` = `_pkt_idx(pkt) or False` -/
def idxOf (i : Idx) : Idx :=
  match i with
  | .none_ => .false_
  | .str [] => .false_
  | x => x

/-- `pkt._ctx` given `_idx` -/
def ctxWith (f : HCore) (idx : Py Idx) : Py Idx :=
  if isCode f "0005" || isCode f "000C" then .ok (.str (f.payload.take 4))
  else if isCode f "0404" then
    match idx with
    | .ok (.str i) => .ok (.str (i ++ slice f.payload 10 12))
    | .ok _ => .error .typeError
    | .error e => .error e
  else idx

def ctxFirst (f : HCore) : Py Idx := ctxWith f ((pktIdxWith f (hasArrayFirst f)).map idxOf)
/-- second and later accesses (the array flag is cached, asserts no longer run) -/
def ctxLater (f : HCore) : Py Idx := ctxWith f ((pktIdxWith f (.ok (hasArrayRaw f))).map idxOf)

def joinBar (xs : List (List Char)) : List Char := joinSep ['|'] xs

/-- `pkt_header(pkt, rx_header)` on first access; `none` = Python None -/
def pktHeaderWith (f : Frame) (rx : Bool) (ctx : Py Idx) : Py (Option (List Char)) :=
  if isCode f.core "1FC9" then
    if ¬ rx then
      .ok (some (joinBar [f.code, f.verb, if f.src = f.dst then allId else f.dst]))
    else if f.src = f.dst then .ok (some (joinBar [f.code, vW, f.src]))
    else if f.verb = vW then .ok (some (joinBar [f.code, vI, f.src]))
    else .ok none
  else
    let base : Option (List Char) :=
      if rx then
        if f.verb = vI || f.verb = vRP || f.src = f.dst then none
        else some (joinBar [f.code, if f.verb = vRQ then vRP else vI, f.dst])
      else if f.verb = vI || f.verb = vRP || f.src = f.dst then some (joinBar [f.code, f.verb, f.src])
      else some (joinBar [f.code, f.verb, f.dst])
    match base with
    | none => .ok none
    | some h =>
      match ctx with
      | .ok (.str c) => .ok (some (h ++ '|' :: c))
      | .ok _ => .ok (some h)
      | .error .assertionError => .ok (some h)
      | .error e => .error e

def pktHeader (f : Frame) (rx : Bool) : Py (Option (List Char)) := pktHeaderWith f rx (ctxFirst f.core)

/-- `cmd.tx_header` / `pkt._hdr` (first access) -/
def txHeader (f : Frame) : Py (List Char) :=
  match pktHeader f false with
  | .ok (some h) => .ok h
  | .ok none => .error .typeError   -- unreachable
  | .error e => .error e

/-- `cmd.rx_header`: evaluates `tx_header` first, so `_ctx` is on its second access here -/
def rxHeader (f : Frame) : Py (Option (List Char)) :=
  match txHeader f with
  | .error e => .error e
  | .ok _ => pktHeaderWith f true (ctxLater f.core)

/-- `Frame._has_payload` -/
def hasPayload (f : HCore) : Bool :=
  !(f.blen = 1 || (f.verb = vRQ && inS Gen.rqNoPayload f.code) ||
    (f.verb = vRQ && f.blen = 2 && ¬ isCode f "0016"))

end Ramses
