/-
  Ramses.Model.Frame — frame text: the COMMAND_REGEX shape, Frame.__init__ / _validate,
  address-set rules (pkt_addrs), printing, Command._from_attrs / from_attrs / from_cli.

  The shape recogniser `isFrameShape` is hand-written; that it accepts exactly what the
  *generated* `Gen.cmdRegex` accepts (and what CPython's `re` accepts) is a correspondence
  obligation checked by the harness on every generated string (op `frame.shape`).
-/
import Ramses.Model.Re
namespace Ramses

structure Frame where
  verb : List Char      -- 2 chars
  seqn : List Char      -- 3
  a0 : List Char        -- 9
  a1 : List Char
  a2 : List Char
  code : List Char      -- 4
  len : List Char       -- 3
  payload : List Char
  deriving DecidableEq, Repr, Inhabited

def uniDigit (c : Char) : Bool := Re.isUniDigit c.toNat

def allB (p : Char → Bool) (s : List Char) : Bool := s.all p

def verbs : List (List Char) := [" I".toList, "RP".toList, "RQ".toList, " W".toList]

def nonId : List Char := "--:------".toList
def hgiId : List Char := "18:000730".toList
def allId : List Char := "63:262142".toList

/-- `\d{2}:\d{6}` or `--:------` (9 chars) -/
def isAddrShape (a : List Char) : Bool :=
  a = nonId ||
  (a.length = 9 && allB uniDigit (a.take 2) && (a.drop 2).take 1 = [':'] && allB uniDigit (a.drop 3))

def isSeqnShape (s : List Char) : Bool :=
  s = "---".toList || s = "...".toList || (s.length = 3 && allB uniDigit s)

def isPayloadShape (p : List Char) : Bool :=
  2 ≤ p.length && p.length ≤ 96 && p.length % 2 = 0 && allB isUpperHex p

/-- the structure COMMAND_REGEX demands (without the optional trailing newline) -/
def isFrameShapeCore (s : List Char) : Bool :=
  verbs.contains (s.take 2) &&
  slice s 2 3 = [' '] && isSeqnShape (slice s 3 6) &&
  slice s 6 7 = [' '] && isAddrShape (slice s 7 16) &&
  slice s 16 17 = [' '] && isAddrShape (slice s 17 26) &&
  slice s 26 27 = [' '] && isAddrShape (slice s 27 36) &&
  slice s 36 37 = [' '] && (slice s 37 41).length = 4 && allB isUpperHex (slice s 37 41) &&
  slice s 41 42 = [' '] && (slice s 42 45).length = 3 && allB uniDigit (slice s 42 45) &&
  slice s 45 46 = [' '] && isPayloadShape (s.drop 46)

/-- `COMMAND_REGEX.match(s)`: `$` also matches before one trailing newline -/
def isFrameShape (s : List Char) : Bool :=
  isFrameShapeCore s ||
    (match s.reverse with
     | '\n' :: rest => isFrameShapeCore rest.reverse
     | _ => false)

/-- Python `int(s)` on a string of (Unicode) decimal digits -/
def uniDigitVal (c : Char) : Nat :=
  let n := c.toNat
  if 48 ≤ n ∧ n ≤ 57 then n - 48 else if 0x660 ≤ n ∧ n ≤ 0x669 then n - 0x660
  else if 0x6F0 ≤ n ∧ n ≤ 0x6F9 then n - 0x6F0 else if 0x966 ≤ n ∧ n ≤ 0x96F then n - 0x966
  else n - 0xFF10

def pyIntDigits (s : List Char) : Nat := s.foldl (fun acc c => acc * 10 + uniDigitVal c) 0

/-- `Address.is_valid`: `--:------` or ASCII `[0-9]{2}:[0-9]{6}` -/
def isValidAddr (a : List Char) : Bool :=
  a = nonId ||
  (a.length = 9 && allB isDigit (a.take 2) && (a.drop 2).take 1 = [':'] && allB isDigit (a.drop 3))

/-- the three legal address-set shapes of `pkt_addrs` -/
def addrSetOk (a0 a1 a2 : List Char) : Bool :=
  (a0 ≠ nonId && a0 ≠ allId && a1 = nonId && a2 ≠ nonId) ||
  (a0 ≠ nonId && a0 ≠ allId && a1 ≠ nonId && a1 ≠ a0 && a2 = nonId) ||
  (a2 ≠ nonId && a2 ≠ allId && a0 = nonId && a1 = nonId)

/-- `pkt_addrs`: (src, dst) or PacketAddrSetInvalid -/
def pktAddrs (a0 a1 a2 : List Char) : Py (List Char × List Char) :=
  if ¬ (isValidAddr a0 && isValidAddr a1 && isValidAddr a2) then .error .pktInvalid else
  if ¬ addrSetOk a0 a1 a2 then .error .pktInvalid else
  let devs := [a0, a1, a2].filter (fun a => a.take 2 ≠ "--".toList)
  match devs with
  | [] => .error .keyError     -- unreachable after addrSetOk
  | [s] => .ok (s, nonId)
  | s :: d :: _ => .ok (s, d)

/-- the fields of a shape-checked text, by position -/
def frameFields (s : List Char) : Frame :=
  { verb := s.take 2, seqn := slice s 3 6, a0 := slice s 7 16, a1 := slice s 17 26,
    a2 := slice s 27 36, code := slice s 37 41, len := slice s 42 45, payload := s.drop 46 }

/-- `Frame.__init__` -/
def parseFrame (s : List Char) : Py Frame :=
  if ¬ isFrameShape s then .error .pktInvalid else
  match pktAddrs (frameFields s).a0 (frameFields s).a1 (frameFields s).a2 with
  | .error _ => .error .pktInvalid
  | .ok _ =>
    if (frameFields s).payload.length ≠ pyIntDigits (frameFields s).len * 2 then .error .pktInvalid
    else .ok (frameFields s)

/-- `Frame.__repr__` / `str(cmd)` / `str(pkt)` -/
def printFrame (f : Frame) : List Char :=
  f.verb ++ ' ' :: f.seqn ++ ' ' :: f.a0 ++ ' ' :: f.a1 ++ ' ' :: f.a2 ++ ' ' :: f.code ++ ' ' :: f.len ++
    ' ' :: f.payload

/-- `Frame._validate(strict_checking=False)`: the fixed-column re-validation -/
def validateSlices (s : List Char) : Py Unit :=
  let pl := (splitOnChar ' ' (s.drop 46)).headD []
  if pl.length ≠ pyIntDigits (slice s 42 45) * 2 then .error .pktInvalid else
  let a := slice s 7 36
  match pktAddrs (slice a 0 9) (slice a 10 19) (slice a 20 29) with
  | .error _ => .error .pktInvalid
  | .ok _ => .ok ()

/-- `Command(frame)`: PacketInvalid becomes CommandInvalid -/
def parseCommand (s : List Char) : Py Frame :=
  match parseFrame s with
  | .error _ => .error .cmdInvalid
  | .ok f => match validateSlices s with
    | .error _ => .error .cmdInvalid
    | .ok _ => .ok f

/-- well-formed frame values: what the property quantifies over -/
def Frame.WF (f : Frame) : Bool :=
  verbs.contains f.verb &&
  (f.seqn = "---".toList || (f.seqn.length = 3 && allB isDigit f.seqn)) &&
  isValidAddr f.a0 && isValidAddr f.a1 && isValidAddr f.a2 && addrSetOk f.a0 f.a1 f.a2 &&
  f.code.length = 4 && allB isUpperHex f.code &&
  isPayloadShape f.payload &&
  f.len = toDecW 3 (f.payload.length / 2)

/-! ### Command._from_attrs / from_attrs / from_cli -/

def upperChar (c : Char) : Char := if 97 ≤ c.toNat ∧ c.toNat ≤ 122 then Char.ofNat (c.toNat - 32) else c

/-- `f"{n:03d}"` -/
def fmtDec3 (n : Nat) : List Char :=
  if n < 1000 then toDecW 3 n else toDecW (Nat.log2 n / 3 + 2) n |>.dropWhile (· = '0')

/-- `Command._from_attrs(verb, code, payload, addr0=, addr1=, addr2=, seqn=)` with string seqn -/
def fromAttrs (verb code payload a0 a1 a2 : List Char) (seqn : Option (List Char)) : Py Frame :=
  let verb := if verb = ['I'] then " I".toList else if verb = ['W'] then " W".toList else verb
  let a0 := if a0 = [] then nonId else a0
  let a1 := if a1 = [] then nonId else a1
  let a2 := if a2 = [] then nonId else a2
  -- pkt_addrs(" ".join(...)) slices the joined string at 0/10/20 (9 chars each)
  let joined := a0 ++ ' ' :: a1 ++ ' ' :: a2
  let b0 := slice joined 0 9
  let b1 := slice joined 10 19
  let b2 := slice joined 20 29
  match pktAddrs b0 b1 b2 with
  | .error e => .error e
  | .ok _ =>
    let seqn := match seqn with
      | none => "---".toList
      | some s => if s = [] ∨ s = "-".toList ∨ s = "--".toList ∨ s = "---".toList then "---".toList else s
    let frame := verb ++ ' ' :: seqn ++ ' ' :: b0 ++ ' ' :: b1 ++ ' ' :: b2 ++ ' ' :: code ++ ' ' ::
      fmtDec3 (payload.length / 2) ++ ' ' :: payload
    parseCommand frame

/-- Python `str.split()` (on runs of white space, no empty fields) -/
def splitWs (s : List Char) : List (List Char) :=
  let rec go : List Char → List Char → List (List Char) → List (List Char)
    | [], cur, acc => (if cur = [] then acc else cur.reverse :: acc).reverse
    | c :: cs, cur, acc =>
      if isSpacePy c then go cs [] (if cur = [] then acc else cur.reverse :: acc)
      else go cs (c :: cur) acc
  go s [] []

def isDevIdAscii (a : List Char) : Bool :=
  a.length = 9 && allB isDigit (a.take 2) && (a.drop 2).take 1 = [':'] && allB isDigit (a.drop 3)

/-- `Command.from_cli(cmd_str)` -/
def fromCli (s : List Char) : Py Frame :=
  let parts := splitWs (s.map upperChar)
  if parts.length < 4 then .error .cmdInvalid else
  match parts with
  | [] => .error .cmdInvalid
  | verb :: rest =>
    -- DEVICE_ID_REGEX.ANY.match(parts[0]) (`$` tolerates nothing here: split() removed newlines)
    let (seqn, rest) := match rest with
      | [] => ("---".toList, [])
      | p0 :: tl => if isDevIdAscii p0 then ("---".toList, rest) else (p0, tl)
    match rest.reverse with
    | [] => .error .keyError          -- pop from empty list
    | payload :: r1 =>
      match r1 with
      | [] => .error .keyError
      | code :: r2 =>
        let addrs := r2.reverse
        let payload := payload.take 96
        match addrs with
        | [] => .error .cmdInvalid
        | [x] => -- `verb == I_` can never hold after upper().split(): " I" has a leading space
          fromAttrs verb code payload hgiId x nonId (some seqn)
        | [x, y] => if x = y then fromAttrs verb code payload x nonId y (some seqn)
                    else fromAttrs verb code payload x y nonId (some seqn)
        | [x, y, z] => fromAttrs verb code payload x y z (some seqn)
        | _ => .error .cmdInvalid

end Ramses
