/-
  Ramses.Model.Dbl — IEEE-754 binary64 arithmetic on exact values, as CPython performs it
  for the handful of operations the codecs use:  int / int,  float * int,  float / int,
  int(float),  round(float).

  A finite non-negative double is a dyadic `m * 2^e` (`m < 2^53` after rounding).  Sign is
  carried separately by the callers (round-to-nearest-even is symmetric).  Subnormals,
  overflow and NaN are out of range for every use here (|values| < 2^40, > 2^-40) and are
  not modelled.  No Lean `Float` is involved anywhere.
-/
namespace Ramses

/-- a non-negative dyadic rational `m * 2^e` -/
structure Dy where
  m : Nat
  e : Int
  deriving DecidableEq, Repr, Inhabited

/-- round the positive rational `n / d` to 53 significant bits, ties to even -/
def rd53 (n d : Nat) : Dy :=
  if n = 0 ∨ d = 0 then ⟨0, 0⟩ else
  -- first guess for the exponent of the quotient
  let e0 : Int := (Nat.log2 n : Int) - (Nat.log2 d : Int)
  let scaled (s : Int) : Nat × Nat :=            -- (N, D) with N/D = n/d * 2^s
    if s ≥ 0 then (n * 2 ^ s.toNat, d) else (n, d * 2 ^ (-s).toNat)
  let s0 : Int := 52 - e0
  let (N0, D0) := scaled s0
  let q0 := N0 / D0
  let s : Int := if q0 ≥ 2 ^ 53 then s0 - 1 else if q0 < 2 ^ 52 then s0 + 1 else s0
  let (N, D) := scaled s
  let q := N / D
  let r := N % D
  let q' := if 2 * r > D ∨ (2 * r = D ∧ q % 2 = 1) then q + 1 else q
  ⟨q', -s⟩

/-- the dyadic as an exact fraction (num, den) -/
def Dy.frac (x : Dy) : Nat × Nat :=
  if x.e ≥ 0 then (x.m * 2 ^ x.e.toNat, 1) else (x.m, 2 ^ (-x.e).toNat)

/-- Python `a / b` for non-negative ints (CPython's int true division is correctly rounded) -/
def divInt (a b : Nat) : Dy := rd53 a b

/-- Python `x * k` for a float `x ≥ 0` and a small non-negative int `k` (exactly representable) -/
def Dy.mulInt (x : Dy) (k : Nat) : Dy :=
  let (n, d) := x.frac
  rd53 (n * k) d

/-- Python `x / k` for a float `x ≥ 0` and a small positive int `k` -/
def Dy.divInt (x : Dy) (k : Nat) : Dy :=
  let (n, d) := x.frac
  rd53 n (d * k)

/-- Python `int(x)` for `x ≥ 0` (truncation) -/
def Dy.trunc (x : Dy) : Nat :=
  let (n, d) := x.frac
  n / d

/-- Python `round(x)` for `x ≥ 0`: nearest integer, ties to even -/
def Dy.roundHalfEven (x : Dy) : Nat :=
  let (n, d) := x.frac
  let q := n / d
  let r := n % d
  if 2 * r > d ∨ (2 * r = d ∧ q % 2 = 1) then q + 1 else q

/-- exact comparison `x ≤ a/b` -/
def Dy.leFrac (x : Dy) (a b : Nat) : Bool :=
  let (n, d) := x.frac
  n * b ≤ a * d

def Dy.ltFrac (x : Dy) (a b : Nat) : Bool :=
  let (n, d) := x.frac
  n * b < a * d

/-- canonical form (odd mantissa or zero), for comparing two doubles for equality of value -/
def Dy.eqv (x y : Dy) : Bool :=
  let (a, b) := x.frac
  let (c, d) := y.frac
  a * d == c * b

/-! ### complete finite sweeps as proofs

`allIn d lo p` evaluates `p` on every `k` with `lo ≤ k < lo + 2^d`, by *structural* recursion on
`d`, so that the kernel can run it (`decide +kernel`).  `allIn_spec` turns the evaluation into
the universally quantified statement. -/

def allIn : Nat → Nat → (Nat → Bool) → Bool
  | 0, lo, p => p lo
  | d + 1, lo, p => allIn d lo p && allIn d (lo + 2 ^ d) p

theorem allIn_spec : ∀ (d lo : Nat) (p : Nat → Bool), allIn d lo p = true →
    ∀ k, lo ≤ k → k < lo + 2 ^ d → p k = true := by
  intro d
  induction d with
  | zero =>
    intro lo p h k h1 h2
    have : k = lo := by simp at h2; omega
    subst this; exact h
  | succ d ih =>
    intro lo p h k h1 h2
    simp only [allIn, Bool.and_eq_true] at h
    by_cases hk : k < lo + 2 ^ d
    · exact ih lo p h.1 k h1 hk
    · have h3 : lo + 2 ^ (d + 1) = lo + 2 ^ d + 2 ^ d := by rw [Nat.pow_succ]; omega
      exact ih (lo + 2 ^ d) p h.2 k (by omega) (by omega)

end Ramses
