/-
  Ramses.Model.Parsers — payload parsers (ramses_tx/parsers.py) for the array-capable codes
  (0009, 000A, 2309, 30C9, 2249, 22C9, 3150) and a heat core (0004, 0008, 1060, 10A0, 1260,
  12B0, 1F09, 2349), `parse_payload`, and the `Message._idx` merge of `Message._validate`.

  Decoded payloads are `Json` values: only JSON-able data can be expressed at all.
-/
import Ramses.Model.Codec
import Ramses.Model.Recv
import Ramses.Gen.Maps
namespace Ramses

inductive Json where
  | null
  | bool (b : Bool)
  | int (n : Int)
  | num (neg : Bool) (v : Dy)          -- a Python float
  | str (s : List Char)
  | arr (xs : List Json)
  | obj (kvs : List (String × Json))   -- insertion-ordered dict
  deriving Repr, Inhabited

abbrev Dict := List (String × Json)

/-- dict update `{**a, **b}` (later wins, position of the first occurrence kept) -/
def dictSet (d : Dict) (k : String) (v : Json) : Dict :=
  if d.any (·.1 = k) then d.map (fun kv => if kv.1 = k then (k, v) else kv) else d ++ [(k, v)]

def dictMerge (a b : Dict) : Dict := b.foldl (fun d kv => dictSet d kv.1 kv.2) a

def jsonOfTemp : TempV → Json
  | .none => .null
  | .false_ => .bool false
  | .num neg v => .num neg v

/-- `hex_to_temp(s)` as Json -/
def jTemp (s : List Char) : Py Json := (hexToTemp s).map jsonOfTemp

def jPercent (s : List Char) : Py Json :=
  (hexToPercent s true).map fun | none => .null | some v => .num false v

def s (x : String) : List Char := x.toList

/-- `parse_valve_demand(value)` -/
def parseValveDemand (v : List Char) : Py Dict :=
  if v.length ≠ 2 then .error .valueError else
  if v = s "EF" then .ok [("heat_demand", .null)] else
  match ofHex v with
  | none => .error .valueError
  | some n =>
    if n / 16 = 15 then
      -- _faulted_device: assert value[:1] in ("8", "F")
      let code := n % 16
      let fault := match Gen.deviceFaultCodes.find? (·.1 = code) with
        | some (_, name) => name.toList
        | none => s "invalid_" ++ v
      .ok [("heat_demand_fault", .str fault)]
    else
      let r := divInt n 200
      if n = 202 then .ok [("heat_demand", .num false ⟨1, 0⟩)]
      else if n > 200 then .error .valueError
      else .ok [("heat_demand", .num false r)]

/-- fixed-size chunks of a payload (`payload[i:i+k] for i in range(0, len, k)`) -/
def chunks (k : Nat) (p : List Char) : List (List Char) :=
  if k = 0 then [] else
  let rec go : Nat → List Char → List (List Char)
    | 0, _ => []
    | fuel + 1, q => if q = [] then [] else q.take k :: go fuel (q.drop k)
  go (p.length + 1) p

def mapM' {α β} (f : α → Py β) : List α → Py (List β)
  | [] => .ok []
  | x :: xs => match f x with
    | .error e => .error e
    | .ok y => match mapM' f xs with
      | .error e => .error e
      | .ok ys => .ok (y :: ys)

def zoneOrDomainKey (seqx : List Char) (zoneName : String) : String :=
  if seqx.take 1 = ['F'] then "domain_id" else zoneName

/-- `f"0b{bitmap:08b}"` -/
def bin8 (n : Nat) : List Char :=
  s "0b" ++ [n / 128 % 2, n / 64 % 2, n / 32 % 2, n / 16 % 2, n / 8 % 2, n / 4 % 2, n / 2 % 2, n % 2].map
    (fun b => if b = 1 then '1' else '0')

/-! ### per-element decoders of the array-capable codes

Every element decoder has the shape `{<idx key>: element[:2], **body(element)}`. -/

/-- `{key: e[:2], **body}` (the bodies never contain an index key) -/
def withIdx (key : String) (e : List Char) (body : Py Dict) : Py Dict :=
  match body with
  | .ok b => .ok ((key, .str (e.take 2)) :: b)
  | .error err => .error err

def body0009 (e : List Char) : Py Dict :=
  match ofHex (e.take 2) with
  | none => .error .valueError
  | some i =>
    if ¬ (e.take 2 = s "F9" || e.take 2 = s "FC" || i < 16) then .error .assertionError
    else .ok [("failsafe_enabled", if slice e 2 4 = s "00" then .bool false else if slice e 2 4 = s "01" then .bool true else .null),
              ("unknown_0", .str (e.drop 4))]

def body000A (e : List Char) : Py Dict :=
  match ofHex (slice e 2 4) with
  | none => .error .valueError
  | some bitmap =>
    match jTemp (slice e 4 8), jTemp (e.drop 8) with
    | .error err, _ => .error err
    | _, .error err => .error err
    | .ok lo, .ok hi =>
      .ok [("min_temp", lo), ("max_temp", hi), ("local_override", .bool (bitmap % 2 = 0)),
           ("openwindow_function", .bool (bitmap / 2 % 2 = 0)), ("multiroom_mode", .bool (bitmap / 16 % 2 = 0)),
           ("_unknown_bitmap", .str (bin8 bitmap))]

def bodyTemp (key : String) (e : List Char) : Py Dict :=
  match jTemp (slice e 2 6) with
  | .error err => .error err
  | .ok t => .ok [(key, t)]

/-- `_parser(seqx)` of 2249 on a 7-byte element (idx at [0:2]); the clock-dependent
    `_next_setpoint` text is a function of the packet's own timestamp and `minutes_remaining`
    (checked as such by the harness) -/
def body2249 (e : List Char) : Py Dict :=
  match ofHex (e.drop 10) with
  | none => .error .valueError
  | some minutes =>
    match jTemp (slice e 2 6), jTemp (slice e 6 10) with
    | .error err, _ => .error err
    | _, .error err => .error err
    | .ok a, .ok b => .ok [("setpoint_now", a), ("setpoint_next", b), ("minutes_remaining", .int minutes)]

def body22C9 (e : List Char) : Py Dict :=
  if ¬ (e.drop 10 = s "01" || e.drop 10 = s "02") then .error .assertionError
  else match jTemp (slice e 2 6), jTemp (slice e 6 10) with
    | .error err, _ => .error err
    | _, .error err => .error err
    | .ok a, .ok b =>
      .ok [("mode", .str (if e.drop 10 = s "01" then s "heat" else s "cool")), ("setpoint_bounds", .arr [a, b])]

/-- the element decoder of an array-capable code -/
def decodeElem (code : List Char) (srcIsUfc : Bool) (e : List Char) : Py Dict :=
  if code = s "0009" then withIdx (zoneOrDomainKey e "zone_idx") e (body0009 e)
  else if code = s "000A" then withIdx "zone_idx" e (body000A e)
  else if code = s "2309" then withIdx "zone_idx" e (bodyTemp "setpoint" e)
  else if code = s "30C9" then withIdx "zone_idx" e (bodyTemp "temperature" e)
  else if code = s "2249" then withIdx "zone_idx" e (body2249 e)
  else if code = s "22C9" then withIdx "ufh_idx" e (body22C9 e)
  else if code = s "3150" then
    withIdx (zoneOrDomainKey e (if srcIsUfc then "ufx_idx" else "zone_idx")) e (parseValveDemand (slice e 2 4))
  else .error .notImplemented

/-- the payload parser proper: `Right dict` / `Left list`;  `arr` = `msg._has_array` -/
inductive Parsed where
  | dict (d : Dict)
  | list (xs : List Dict)
  deriving Repr

def modelledCodes : List String :=
  ["0004", "0008", "0009", "000A", "1060", "10A0", "1260", "12B0", "1F09", "2309", "2349", "30C9", "2249", "22C9", "3150"]

def modelledCodesB' : List String :=
  ["0002", "0005", "0006", "000C", "0016", "0100", "1030", "1081", "1090", "1100", "12F0", "1300", "1F41", "1FC9", "2E04", "313F", "3B00", "0418", "0404"]

def isModelled (code : List Char) : Bool := inS (modelledCodes ++ modelledCodesB') code

def zonMode (k : List Char) : Option (List Char) := (lookupS Gen.zonModeMap k).map (·.toList)

/-- `hex_to_dtm(v)`: isoformat(timespec="seconds") text or None -/
def jDtm (v : List Char) : Py Json :=
  (hexToDtm v).map fun
    | none => .null
    | some d => .str (toDecW 4 d.year ++ '-' :: toDecW 2 d.month ++ '-' :: toDecW 2 d.day ++ 'T' :: toDecW 2 d.hour ++
        ':' :: toDecW 2 d.minute ++ ':' :: toDecW 2 d.second)


/-! ### a second batch of codes: discovery (0005, 000C), schedules' change counter (0006), binding
(1FC9), system mode and time (2E04, 313F), DHW mode (1F41), TPI parameters (1100), mixing-valve
parameters (1030), actuator sync (3B00) and a few one-liners -/

def jNat (n : Nat) : Json := .int (Int.ofNat n)

def showDevId : DevId → List Char
  | .non => nonId
  | .dev t n => toDecW 2 t ++ ':' :: toDecW 6 n

def pyInt16 (v : List Char) : Py Nat :=
  match ofHex v with | some n => .ok n | none => .error .valueError

/-- `MAP[k]` on one of the library's attribute maps, for a 2-character key -/
def mapGet (m : List (String × String)) (k : List Char) : Py (List Char) :=
  match lookupS m k with | some v => .ok v.toList | none => .error .keyError

def optTemp (key : String) (v : List Char) : Py Dict := (jTemp v).map fun t => [(key, t)]

def p0005Elem (f : Frame) (seqx : List Char) : Py Dict := do
  let mask ← if f.srcType = Gen.devTypeUFC.toList then hexToFlag8 (slice seqx 6 8) true
    else if f.blen = 3 then hexToFlag8 (slice seqx 4 6) true
    else do
      let a ← hexToFlag8 (slice seqx 4 6) true
      let b ← hexToFlag8 (slice seqx 6 8) true
      pure (a ++ b)
  let k := slice seqx 2 4
  -- `ZON_ROLE_MAP.get(k, DEV_ROLE_MAP[k])`: the default is evaluated first
  let dn ← mapGet Gen.devRoleFwd k
  let cls := match lookupS Gen.zonRoleFwd k with | some v => v.toList | none => dn
  pure [("zone_type", .str k), ("zone_mask", .arr (mask.map jNat)), ("zone_class", .str cls)]

def p0005 (f : Frame) (arr : Bool) : Py Parsed :=
  let p := f.payload
  if f.verb = vRQ then do
    let dn ← mapGet Gen.devRoleFwd (slice p 2 4)
    pure (.dict [("zone_type", .str (slice p 2 4)), ("zone_class", .str dn)])
  else if arr then do
    pyAssert (f.verb = vI && f.srcType = Gen.devTypeRND'.toList)
    let xs ← mapM' (p0005Elem f) (chunks 8 p)
    pure (.list xs)
  else (p0005Elem f p).map .dict

def p0006 (f : Frame) : Py Parsed :=
  let p := f.payload
  if p.drop 2 = s "FFFFFF" then .ok (.dict []) else do
    pyAssert (slice p 2 4 = s "05")
    if p.drop 4 = s "FFFF" then pure (.dict [("change_counter", .null)]) else do
      let n ← pyInt16 (p.drop 4)
      pure (.dict [("change_counter", jNat n)])

/-- `is_short_000C(payload)` -/
def isShort000C (p : List Char) : Py Bool :=
  if p.length ≠ 72 then .ok (p.length % 12 ≠ 0)
  else if [12, 24, 36, 48, 60].all (fun i => slice p i (i + 4) = p.take 4) then .ok false
  else if [12, 22, 32, 42, 52, 62].all (fun i => slice p i (i + 2) = slice p 2 4) then .ok true
  else .error .pktInvalid

def p000CIdx (f : Frame) : Py Dict :=
  let p := f.payload
  let seqx := p.take 2
  let role := slice p 2 4
  if f.srcType = Gen.devTypeUFC.toList then do
    let n ← pyInt16 seqx
    pyAssert (n < 8)
    pure [("ufh_idx", .str seqx), ("zone_idx", if slice p 4 6 = s "7F" then .null else .str (slice p 4 6))]
  else if role = Gen.devRoleDHW.toList || role = Gen.devRoleHTG.toList then do
    -- `assert int(seqx, 16) < 1 if role == DHW else 2`
    if role = Gen.devRoleDHW.toList then do
      let n ← pyInt16 seqx
      pyAssert (n < 1)
    pure [("domain_id", .str (if seqx = s "00" then Gen.domFA.toList else Gen.domF9.toList))]
  else if role = Gen.devRoleAPP.toList then do
    let n ← pyInt16 seqx
    pyAssert (n < 1)
    pure [("domain_id", .str Gen.domFC.toList)]
  else do
    let n ← pyInt16 seqx
    pyAssert (n < 16)
    pure [("zone_idx", .str seqx)]

/-- `_parser(seqx)` of 000C: (device id, the element's third byte) -/
def p000CElem (p seqx : List Char) : Py (List Char × List Char) := do
  pyAssert (seqx.take 2 = p.take 2)
  let n ← pyInt16 (seqx.take 2)
  pyAssert (n < 16)
  pyAssert (slice seqx 4 6 = s "7F" || seqx.drop 6 ≠ s "FFFFFF")
  let d ← hexIdToDevId (slice seqx 6 12)
  pure (showDevId d, slice seqx 4 6)

def p000C (f : Frame) : Py Parsed := do
  let p := f.payload
  let role := slice p 2 4
  let devRole ← if role = Gen.devRoleHTG.toList && p.take 2 = s "01" then pure Gen.devRoleHT1Name.toList
    else mapGet Gen.devRoleFwd role
  let idx ← p000CIdx f
  let result : Dict := dictMerge [("zone_type", .str role)] (idx ++ [("device_role", .str devRole)])
  if f.verb = vRQ then pure (.dict result) else do
    let short ← isShort000C p
    let elems := if short then (chunks 10 (p.drop 2)).map (fun e => p.take 2 ++ e) else chunks 12 p
    let devs ← mapM' (p000CElem p) elems
    pure (.dict (dictSet result "devices" (.arr ((devs.filter (fun d => d.2 ≠ s "7F")).map fun d => .str d.1))))

def p1030Elem (seqx : List Char) : Py (String × Json) := do
  pyAssert (slice seqx 2 4 = s "01")
  let name ← match lookupS [("20", "unknown_20"), ("21", "unknown_21"), ("C8", "max_flow_setpoint"), ("C9", "min_flow_setpoint"),
      ("CA", "valve_run_time"), ("CB", "pump_run_time"), ("CC", "boolean_cc")] (seqx.take 2) with
    | some n => pure n
    | none => throw .keyError
  let v ← pyInt16 (seqx.drop 4)
  pure (name, jNat v)

def p1030 (f : Frame) : Py Parsed := do
  pyAssert (f.blen = 7 || f.blen = 16)
  let ps ← mapM' p1030Elem (chunks 6 (f.payload.drop 2))
  pure (.dict (ps.foldl (fun d kv => dictSet d kv.1 kv.2) []))

def inRange4 (n lo hi : Nat) : Bool := n % 4 = 0 && lo ≤ n / 4 && n / 4 < hi

def p1100 (f : Frame) : Py Parsed :=
  let p := f.payload
  let cidx : Dict := if p.take 1 = ['F'] then [("domain_id", .str (p.take 2))] else []
  if f.srcType = Gen.devTypeJIM.toList then do
    pyAssert (f.blen = 19)
    pure (.dict [("ordinal", .str (s "0x" ++ slice p 2 8)), ("blob", .str (p.drop 8))])
  else if f.verb = vRQ && f.blen = 1 then .ok (.dict cidx)
  else do
    let a ← pyInt16 (slice p 2 4)
    pyAssert (inRange4 a 1 13)
    let b ← pyInt16 (slice p 4 6)
    pyAssert (inRange4 b 1 31)
    let c ← pyInt16 (slice p 6 8)
    pyAssert (inRange4 c 0 16)
    let r0 : Dict := [("cycle_rate", jNat (a / 4)), ("min_on_time", .num false (divInt b 4)), ("min_off_time", .num false (divInt c 4)),
      ("_unknown_0", .str (slice p 8 10))]
    let r1 : Dict ← if f.blen > 5 then do
        let w := slice p 10 14
        let t ← hexToTemp w
        -- `pbw is None or 1.5 <= pbw <= 3.0` (a temperature is k/100: 150 ≤ k ≤ 300)
        let okRange := match t, ofHex w with
          | .none, _ => true
          | .num _ _, some n => 150 ≤ n && n ≤ 300
          | _, _ => false
        pyAssert okRange
        pure (r0 ++ [("proportional_band_width", jsonOfTemp t), ("_unknown_1", .str (p.drop 14))])
      else pure r0
    pure (.dict (dictMerge cidx r1))

def p1F41 (f : Frame) : Py Parsed := do
  let p := f.payload
  let m := slice p 4 6
  let tmp := Gen.zonModeTEMPORARY.toList
  pyAssert (inS (Gen.zonModeMap.map (·.1)) m)
  pyAssert (m = tmp || f.blen = 6)
  pyAssert (m ≠ tmp || f.blen = 12)
  pyAssert (slice p 6 12 = s "FFFFFF")
  let r0 : Dict := [("mode", match zonMode m with | some x => .str x | none => .null)]
  let r1 : Dict ← if slice p 2 4 ≠ s "FF" then
      (if slice p 2 4 = s "00" then pure (r0 ++ [("active", Json.bool false)])
       else if slice p 2 4 = s "01" then pure (r0 ++ [("active", Json.bool true)])
       else throw .keyError)
    else pure r0
  if m = tmp then do
    let u ← jDtm (slice p 12 24)
    pure (.dict (r1 ++ [("until", u)]))
  else pure (.dict r1)

def p1FC9Elem (p seqx : List Char) : Py Json := do
  let k := seqx.take 2
  if k ≠ s "90" then pyAssert (seqx.drop 6 = slice p 6 12)
  if ¬ (inS ["21", "63", "66", "67", "6C", "90"] k || inS [Gen.domF6, Gen.domF9, Gen.domFA, Gen.domFB, Gen.domFC, Gen.domFF] k) then do
    let n ← pyInt16 k
    pyAssert (n < 16)
  let d ← hexIdToDevId (seqx.drop 6)
  pure (.arr [.str k, .str (slice seqx 2 6), .str (showDevId d)])

def p1FC9 (f : Frame) : Py Parsed := do
  let p := f.payload
  let phase : Json ←
    if f.verb = vI && (f.dst = f.src || f.dst = allId) then pure (Json.str (s "offer"))
    else if f.verb = vW && f.src ≠ f.dst then pure (Json.str (s "accept"))
    else if f.verb = vI then pure (Json.str (s "confirm"))
    else if f.verb = vRP then pure Json.null
    else throw .pktInvalid
  let isConfirm := match phase with | .str x => x = s "confirm" | _ => false
  if p.length = 2 && isConfirm then pure (.dict [("phase", phase), ("bindings", .arr [.arr [.str p]])]) else do
    pyAssert (f.blen ≥ 6 && f.blen % 6 = 0)
    let bs ← mapM' (p1FC9Elem p) (chunks 12 p)
    pure (.dict [("phase", phase), ("bindings", .arr bs)])

def p2E04 (f : Frame) : Py Parsed := do
  let p := f.payload
  let m := p.take 2
  if f.blen = 8 then pyAssert (inS (Gen.sysModeMap.map (·.1)) m)
  else if f.blen = 16 then do
    let n ← pyInt16 m
    pyAssert (n ≤ 15 || m = Gen.domFF.toList)
    pyAssert (slice p 16 18 = Gen.sysModeAuto.toList || slice p 16 18 = Gen.sysModeCustom.toList)
    pyAssert (slice p 30 32 = Gen.sysModeDayOff.toList)
  else throw .assertionError
  let name ← mapGet Gen.sysModeMap m
  if m = Gen.sysModeAuto.toList || m = Gen.sysModeHeatOff.toList || m = Gen.sysModeAutoWithReset.toList then
    pure (.dict [("system_mode", .str name)])
  else do
    let u ← if slice p 14 16 ≠ s "00" then jDtm (slice p 2 14) else pure Json.null
    pure (.dict [("system_mode", .str name), ("until", u)])

def p313F (f : Frame) : Py Parsed := do
  let p := f.payload
  let u := slice p 2 4
  pyAssert (f.srcType ≠ Gen.devTypeCTL.toList || u = s "F0" || u = s "F9" || u = s "FC")
  pyAssert (¬ (f.srcType = Gen.devTypeDTS.toList || f.srcType = Gen.devTypeDT2.toList) || u = s "38")
  pyAssert (f.srcType ≠ Gen.devTypeRFG'.toList || u = s "60")
  let d ← jDtm (slice p 4 18)
  let n ← pyInt16 (slice p 4 6)
  pure (.dict [("datetime", d), ("is_dst", if n / 128 % 2 = 1 then .bool true else .null), ("_unknown_0", .str u)])

def p3B00 (f : Frame) : Py Parsed := do
  let p := f.payload
  pyAssert (f.blen = 2)
  let want := if f.srcType = Gen.devTypeCTL.toList || f.srcType = Gen.devTypePRG.toList then Gen.domFC.toList else s "00"
  pyAssert (p.take 2 = want)
  pyAssert (p.drop 2 = s "C8")
  let cidx : Dict ←
    if f.verb = vI && (f.srcType = Gen.devTypeCTL.toList || f.srcType = Gen.devTypePRG.toList) && f.src = f.dst then do
      pyAssert (p.take 2 = Gen.domFC.toList)
      pure [("domain_id", Json.str Gen.domFC.toList)]
    else do
      pyAssert (p.take 2 = s "00")
      pure []
  let b ← hexToBool (p.drop 2)
  pure (.dict (cidx ++ [("actuator_sync", match b with | none => .null | some x => .bool x)]))

/-- `hex_to_dts(v)`: the text "yy-mm-ddTHH:MM:SS" or None -/
def dtsText (v : List Char) : Py (Option (List Char)) :=
  (hexToDts v).map fun o => o.map fun d =>
    toDecW 2 (d.year % 100) ++ '-' :: toDecW 2 d.month ++ '-' :: toDecW 2 d.day ++ 'T' :: toDecW 2 d.hour ++
      ':' :: toDecW 2 d.minute ++ ':' :: toDecW 2 d.second

def getOr (m : List (String × String)) (k : List Char) (dflt : String) : List Char :=
  match lookupS m k with | some v => v.toList | none => dflt.toList

/-- `parser_0418` (a fault-log entry; the warnings of its try/except block have no effect on the result) -/
def p0418 (f : Frame) : Py Parsed := do
  let p := f.payload
  if f.verb = vRQ then pure (.dict [("log_idx", .str (slice p 4 6))]) else do
    let ts ← dtsText (slice p 18 30)
    match ts with
    | none =>
      pure (.dict ((if f.verb = vI then [("log_idx", Json.str (slice p 4 6))] else []) ++ [("log_entry", Json.null)]))
    | some stamp =>
      pyAssert (p.length = 44)
      let cls := getOr Gen.faultDeviceClass (slice p 12 14) Gen.faultClassUnknown
      let dom := slice p 10 12
      let dev ← hexIdToDevId (p.drop 38)
      let e0 : List (List Char) := [stamp, getOr Gen.faultState (slice p 2 4) Gen.faultStateUnknown,
        getOr Gen.faultType (slice p 8 10) Gen.faultTypeUnknown]
      let e1 := e0 ++ [if cls ≠ Gen.faultClassActuator.toList then cls
        else if dom = Gen.domFC.toList then Gen.devRoleAPPName.toList
        else if dom = Gen.domFA.toList then Gen.devRoleHTGName.toList
        else if dom = Gen.domF9.toList then Gen.devRoleHT1Name.toList
        else Gen.faultClassActuator.toList]
      let e2 := if cls ≠ Gen.faultClassController.toList then e1 ++ [dom] else e1
      let d := showDevId dev
      let e3 := if d = s "00:000000" || d = s "00:000001" || d = s "00:000002" then e2 else e2 ++ [d]
      let e4 := e3 ++ [slice p 6 8, slice p 14 18, slice p 30 38]
      pure (.dict [("log_idx", .str (slice p 4 6)), ("log_entry", .arr (e4.map Json.str))])

/-- `parser_0404` (a schedule fragment) -/
def p0404 (f : Frame) : Py Parsed := do
  let p := f.payload
  pyAssert (slice p 4 6 = s "00" || slice p 4 6 = p.take 2)
  let flen ← pyInt16 (slice p 8 10)
  let fragLen := (p.drop 14).length
  if flen * 2 ≠ fragLen && (f.verb ≠ vI || fragLen ≠ 0) then throw .pktInvalid
  let num ← pyInt16 (slice p 10 12)
  if f.verb = vRQ then
    if slice p 12 14 = s "00" then pure (.dict [("frag_number", jNat num), ("total_frags", .null)])
    else do
      let tot ← pyInt16 (slice p 12 14)
      pure (.dict [("frag_number", jNat num), ("total_frags", jNat tot)])
  else if f.verb = vI then do
    let tot ← pyInt16 (slice p 12 14)
    pure (.dict [("frag_number", jNat num), ("total_frags", jNat tot),
      ("frag_length", if slice p 8 10 = s "00" then .null else jNat flen)])
  else if slice p 12 14 = Gen.domFF.toList then pure (.dict [("frag_number", jNat num), ("total_frags", .null)])
  else do
    let tot ← pyInt16 (slice p 12 14)
    pure (.dict [("frag_number", jNat num), ("total_frags", jNat tot),
      ("frag_length", if slice p 8 10 = s "FF" then .null else jNat flen), ("fragment", .str (p.drop 14))])

def parserB (f : Frame) (arr : Bool) : Option (Py Parsed) :=
  let p := f.payload
  let code := f.code
  if code = s "0002" then some (
    if f.srcType = Gen.devTypeHCW.toList then do
      pyAssert (p = s "03020105")
      pure (.dict [("_unknown", .str p)])
    else do
      let t ← jTemp (slice p 2 6)
      pure (.dict [("temperature", t), ("_unknown", .str (p.drop 6))]))
  else if code = s "0005" then some (p0005 f arr)
  else if code = s "0006" then some (p0006 f)
  else if code = s "000C" then some (p000C f)
  else if code = s "0016" then some (
    if f.verb = vRQ then .ok (.dict []) else do
      let n ← pyInt16 (slice p 2 4)
      pure (.dict [("rf_strength", jNat (min (n / 5 + 1) 5)), ("rf_value", jNat n)]))
  else if code = s "0100" then some (
    if f.verb = vRQ && f.blen = 1 then .ok (.dict []) else do
      let l ← hexToStr (slice p 2 6)
      pure (.dict [("language", .str l), ("_unknown_0", .str (p.drop 6))]))
  else if code = s "1030" then some (p1030 f)
  else if code = s "1081" then some ((optTemp "setpoint" (p.drop 2)).map .dict)
  else if code = s "1090" then some (do
    pyAssert (f.blen = 5)
    let n ← pyInt16 (p.take 2)
    pyAssert (n < 2)
    let a ← jTemp (slice p 2 6)
    let b ← jTemp (slice p 6 10)
    pure (.dict [("temperature_0", a), ("temperature_1", b)]))
  else if code = s "1100" then some (p1100 f)
  else if code = s "12F0" then some ((optTemp "dhw_flow_rate" (p.drop 2)).map .dict)
  else if code = s "1300" then some (
    if p.drop 2 = s "09F6" then .ok (.dict [("pressure", .null)]) else (optTemp "pressure" (p.drop 2)).map .dict)
  else if code = s "1F41" then some (p1F41 f)
  else if code = s "1FC9" then some (p1FC9 f)
  else if code = s "2E04" then some (p2E04 f)
  else if code = s "313F" then some (p313F f)
  else if code = s "3B00" then some (p3B00 f)
  else if code = s "0418" then some (p0418 f)
  else if code = s "0404" then some (p0404 f)
  else none

def modelledCodesB : List String :=
  ["0002", "0005", "0006", "000C", "0016", "0100", "1030", "1081", "1090", "1100", "12F0", "1300", "1F41", "1FC9", "2E04", "313F", "3B00"]

def parser (f : Frame) (arr : Bool) : Py Parsed :=
  let p := f.payload
  let code := f.code
  let len := f.blen
  let srcIsUfc := f.srcType = Gen.devTypeUFC.toList
  if inS ["0009", "000A", "2309", "30C9", "2249", "22C9", "3150"] code && arr then
    match arrElemLen code with
    | none => .error .keyError
    | some el => (mapM' (decodeElem code srcIsUfc) (chunks (2 * el) p)).map .list
  else if code = s "0009" then
    .ok (.dict [("failsafe_enabled", if slice p 2 4 = s "00" then .bool false else if slice p 2 4 = s "01" then .bool true else .null),
                ("unknown_0", .str (p.drop 4))])
  else if code = s "000A" then
    if f.verb = vRQ && len ≤ 2 then .ok (.dict []) else do
      pyAssert (len = 6)
      let b ← body000A p
      pure (.dict b)
  else if code = s "2309" then
    if f.verb = vRQ && len = 1 then .ok (.dict []) else do
      let t ← jTemp (p.drop 2)
      pure (.dict [("setpoint", t)])
  else if code = s "30C9" then do
    let t ← jTemp (p.drop 2)
    pure (.dict [("temperature", t)])
  else if code = s "2249" then (body2249 p).map .dict
  else if code = s "22C9" then do
    pyAssert (len ≠ 8 || p.drop 10 = s "010103" || p.drop 10 = s "020203")
    let b ← body22C9 (p.take 12)
    pure (.dict b)
  else if code = s "3150" then (parseValveDemand (p.drop 2)).map .dict
  else if code = s "0004" then
    if p.drop 4 = (List.replicate 20 (s "7F")).flatten then .ok (.dict [])
    else (hexToStr (p.drop 4)).map fun n => .dict [("name", .str n)]
  else if code = s "0008" then
    if f.srcType = Gen.devTypeJST.toList && len = 13 then
      .ok (.dict [("ordinal", .str (s "0x" ++ slice p 2 8)), ("blob", .str (p.drop 8))])
    else (jPercent (slice p 2 4)).map fun v => .dict [("relay_demand", v)]
  else if code = s "1060" then do
    pyAssert (len = 3)
    pyAssert (slice p 4 6 = s "00" || slice p 4 6 = s "01")
    let lvl ← if slice p 2 4 = s "00" then pure Json.null else jPercent (slice p 2 4)
    pure (.dict [("battery_low", .bool (p.drop 4 = s "00")), ("battery_level", lvl)])
  else if code = s "10A0" then
    if f.verb = vRQ && len = 1 then .ok (.dict []) else do
      pyAssert (len = 1 || len = 3 || len = 6)
      pyAssert (p.take 2 = s "00" || p.take 2 = s "01")
      let r1 : Dict ← if len ≥ 2 then do
          let sp ← hexToTemp (slice p 2 6)
          -- `setpoint == 255`
          let is255 := match sp with | .num false v => v.eqv ⟨255, 0⟩ | _ => false
          pure [("setpoint", if is255 then Json.null else jsonOfTemp sp)]
        else pure []
      let r2 : Dict ← if len ≥ 4 then
          match ofHex (slice p 6 8) with
          | some n => pure (dictSet r1 "overrun" (.int n))
          | none => throw .valueError
        else pure r1
      let r3 : Dict ← if len ≥ 6 then do
          let d ← jTemp (slice p 8 12)
          pure (dictSet r2 "differential" d)
        else pure r2
      pure (.dict r3)
  else if code = s "1260" then (jTemp (p.drop 2)).map fun t => .dict [("temperature", t)]
  else if code = s "12B0" then do
    pyAssert (p.drop 2 = s "0000" || p.drop 2 = s "C800" || p.drop 2 = s "FFFF")
    let b ← hexToBool (slice p 2 4)
    pure (.dict [("window_open", match b with | none => .null | some x => .bool x)])
  else if code = s "1F09" then do
    pyAssert (len = 3)
    pyAssert (p.take 2 = s "00" || p.take 2 = s "01" || p.take 2 = s "F8" || p.take 2 = s "FF")
    match ofHex (slice p 2 6) with
    | some n => pure (.dict [("remaining_seconds", .num false (divInt n 10))])
    | none => throw .valueError
  else if code = s "2349" then
    if f.verb = vRQ && len ≤ 2 then .ok (.dict []) else do
      pyAssert (len = 7 || len = 13)
      let mode ← match zonMode (slice p 6 8) with | some m => pure m | none => throw .assertionError
      let sp ← jTemp (slice p 2 6)
      let r0 : Dict := [("mode", .str mode), ("setpoint", sp)]
      let r1 : Dict ← if len ≥ 7 then
          if slice p 8 14 = s "FFFFFF" then do
            pyAssert (slice p 6 8 ≠ s "03")
            pure r0
          else do
            pyAssert (slice p 6 8 = s "03")
            match ofHex (slice p 8 14) with
            | some n => pure (dictSet r0 "duration" (.int n))
            | none => throw .valueError
        else pure r0
      let r2 : Dict ← if len ≥ 13 then
          if p.drop 14 = s "FFFFFFFFFFFF" then do
            pyAssert (slice p 6 8 = s "00" || slice p 6 8 = s "02")
            pure (dictSet r1 "until" .null)
          else do
            pyAssert (slice p 6 8 ≠ s "02")
            let u ← jDtm (slice p 14 26)
            pure (dictSet r1 "until" u)
        else pure r1
      pure (.dict r2)
  else match parserB f arr with
    | some r => r
    | none => .error .notImplemented

/-- `str.isnumeric()` on the 3-char seqn -/
def seqnNumeric (q : List Char) : Bool := q ≠ [] && allB uniDigit q

/-- `parse_payload(msg)`: the parser + the `seqx_num` tag -/
def parsePayload (f : Frame) (arr : Bool) : Py Parsed :=
  match parser f arr with
  | .error e => .error e
  | .ok (.dict d) => .ok (.dict (if seqnNumeric f.seqn then dictSet d "seqx_num" (.str f.seqn) else d))
  | .ok r => .ok r

/-- `Message._idx`: the index a dict payload is merged with -/
def msgIdx (f : Frame) (idx : Py Idx) : Py Dict :=
  let c := f.core
  let T (x : String) := x.toList
  if isCode c "31D9" || isCode c "31DA" then
    match idx with
    | .ok (.str i) => .ok [("hvac_id", .str i)]
    | .ok _ => .error .assertionError
    | .error e => .error e
  else match idx with
  | .error e => .error e
  | .ok i =>
    if i = .true_ || i = .false_ || inS Gen.codeIdxAreComplex f.code then .ok []
    else if isCode c "3220" then .ok []
    else
      let types := [f.srcType, f.dstType]
      let istr : List Char := match i with | .str x => x | _ => []
      let inter (l : List String) : Bool := types.any (fun t => l.any (fun x => T x = t))
      if ¬ inter [Gen.devTypeCTL, Gen.devTypeUFC, Gen.devTypeHCW, Gen.devTypeDTS, Gen.devTypeHGI, Gen.devTypeDT2, Gen.devTypePRG] then
        if istr = T "00" then .ok [] else .error .assertionError
      else if f.srcType = f.dstType && ¬ ([Gen.devTypeCTL, Gen.devTypeUFC, Gen.devTypeHCW, Gen.devTypeHGI, Gen.devTypePRG].any (fun x => T x = f.srcType)) then
        if istr = T "00" then .ok [] else .error .assertionError
      else if (isCode c "000A" || isCode c "2309") && f.srcType = T Gen.devTypeUFC then
        .ok [("ufh_idx", .str istr)]
      else
        let idxNames : List (String × String) := [("0002", "other_idx"), ("10A0", "dhw_idx"), ("1260", "dhw_idx"), ("1F41", "dhw_idx"),
          ("22C9", "ufh_idx"), ("2389", "other_idx"), ("2D49", "other_idx"), ("31D9", "hvac_id"), ("31DA", "hvac_id"), ("3220", "msg_id")]
        let dflt := if istr.take 1 = ['F'] then "domain_id" else "zone_idx"
        .ok [((lookupS idxNames f.code).getD dflt, .str istr)]
where
  Frame.dstType (f : Frame) : List Char := f.dst.take 2

/-- `Message._validate` for modelled codes: the decoded payload.  `arr`/`idx` are what
    `pkt._has_array` / `pkt._idx` answer at this point (cached after `repr(pkt)`). -/
def decodeWith (f : Frame) (arr : Bool) (idx : Py Idx) : Py Json :=
  match parsePayload f arr with
  | .error e => .error (fence e)
  | .ok (.list xs) => .ok (.arr (xs.map .obj))
  | .ok (.dict d) =>
    match msgIdx f idx with
    | .error e => .error (fence e)
    | .ok i => .ok (.obj (dictMerge i d))

/-- does evaluating `_pkt_idx` (during `repr(pkt)`, where an AssertionError is swallowed) reach
    `pkt._has_array`?  If not, the parser's own `msg._has_array` is the first access. -/
def idxTouchesArray (c : HCore) : Bool :=
  if isCode c "0005" then false        -- `_ctx` of 0005 / 000C is payload[:4]: `repr(pkt)` never asks for `_idx`
  else if isCode c "0009" && c.srcType = Gen.devTypeOTB.toList then false
  else if isCode c "000C" || isCode c "0404" || isCode c "0418" || isCode c "1100" || isCode c "3220" then false
  else if inS Gen.codeIdxAreComplex c.code then false
  else if inS Gen.codeIdxAreNone c.code then false
  else true

/-- the full decode of a frame for the modelled codes (after the schema checks of `msgValidate`) -/
def decode (f : Frame) : Py Json :=
  let c := f.core
  let idx := (pktIdxWith c (.ok (hasArrayRaw c))).map idxOf
  if idxTouchesArray c then decodeWith f (hasArrayRaw c) idx
  else match hasArrayFirst c with
    | .error e => .error (fence e)
    | .ok a => decodeWith f a idx

end Ramses
