/-
  Ramses.Model.Parsers — payload parsers (ramses_tx/parsers.py) for the array-capable codes
  (0009, 000A, 2309, 30C9, 2249, 22C9, 3150) and a heat core (0004, 0008, 1060, 10A0, 1260,
  12B0, 1F09, 2349), `parse_payload`, and the `Message._idx` merge of `Message._validate`.

  Decoded payloads are `Json` values: only JSON-able data can be expressed at all.
-/
import Ramses.Model.Codec
import Ramses.Model.Recv
import Ramses.Gen.Maps
namespace Ramses

inductive Json where
  | null
  | bool (b : Bool)
  | int (n : Int)
  | num (neg : Bool) (v : Dy)          -- a Python float
  | str (s : List Char)
  | arr (xs : List Json)
  | obj (kvs : List (String × Json))   -- insertion-ordered dict
  deriving Repr, Inhabited

abbrev Dict := List (String × Json)

/-- dict update `{**a, **b}` (later wins, position of the first occurrence kept) -/
def dictSet (d : Dict) (k : String) (v : Json) : Dict :=
  if d.any (·.1 = k) then d.map (fun kv => if kv.1 = k then (k, v) else kv) else d ++ [(k, v)]

def dictMerge (a b : Dict) : Dict := b.foldl (fun d kv => dictSet d kv.1 kv.2) a

def jsonOfTemp : TempV → Json
  | .none => .null
  | .false_ => .bool false
  | .num neg v => .num neg v

/-- `hex_to_temp(s)` as Json -/
def jTemp (s : List Char) : Py Json := (hexToTemp s).map jsonOfTemp

def jPercent (s : List Char) : Py Json :=
  (hexToPercent s true).map fun | none => .null | some v => .num false v

def s (x : String) : List Char := x.toList

/-- `parse_valve_demand(value)` -/
def parseValveDemand (v : List Char) : Py Dict :=
  if v.length ≠ 2 then .error .valueError else
  if v = s "EF" then .ok [("heat_demand", .null)] else
  match ofHex v with
  | none => .error .valueError
  | some n =>
    if n / 16 = 15 then
      -- _faulted_device: assert value[:1] in ("8", "F")
      let code := n % 16
      let fault := match Gen.deviceFaultCodes.find? (·.1 = code) with
        | some (_, name) => name.toList
        | none => s "invalid_" ++ v
      .ok [("heat_demand_fault", .str fault)]
    else
      let r := divInt n 200
      if n = 202 then .ok [("heat_demand", .num false ⟨1, 0⟩)]
      else if n > 200 then .error .valueError
      else .ok [("heat_demand", .num false r)]

/-- fixed-size chunks of a payload (`payload[i:i+k] for i in range(0, len, k)`) -/
def chunks (k : Nat) (p : List Char) : List (List Char) :=
  if k = 0 then [] else
  let rec go : Nat → List Char → List (List Char)
    | 0, _ => []
    | fuel + 1, q => if q = [] then [] else q.take k :: go fuel (q.drop k)
  go (p.length + 1) p

def mapM' {α β} (f : α → Py β) : List α → Py (List β)
  | [] => .ok []
  | x :: xs => match f x with
    | .error e => .error e
    | .ok y => match mapM' f xs with
      | .error e => .error e
      | .ok ys => .ok (y :: ys)

def zoneOrDomainKey (seqx : List Char) (zoneName : String) : String :=
  if seqx.take 1 = ['F'] then "domain_id" else zoneName

/-- `f"0b{bitmap:08b}"` -/
def bin8 (n : Nat) : List Char :=
  s "0b" ++ [n / 128 % 2, n / 64 % 2, n / 32 % 2, n / 16 % 2, n / 8 % 2, n / 4 % 2, n / 2 % 2, n % 2].map
    (fun b => if b = 1 then '1' else '0')

/-! ### per-element decoders of the array-capable codes

Every element decoder has the shape `{<idx key>: element[:2], **body(element)}`. -/

/-- `{key: e[:2], **body}` (the bodies never contain an index key) -/
def withIdx (key : String) (e : List Char) (body : Py Dict) : Py Dict :=
  match body with
  | .ok b => .ok ((key, .str (e.take 2)) :: b)
  | .error err => .error err

def body0009 (e : List Char) : Py Dict :=
  match ofHex (e.take 2) with
  | none => .error .valueError
  | some i =>
    if ¬ (e.take 2 = s "F9" || e.take 2 = s "FC" || i < 16) then .error .assertionError
    else .ok [("failsafe_enabled", if slice e 2 4 = s "00" then .bool false else if slice e 2 4 = s "01" then .bool true else .null),
              ("unknown_0", .str (e.drop 4))]

def body000A (e : List Char) : Py Dict :=
  match ofHex (slice e 2 4) with
  | none => .error .valueError
  | some bitmap =>
    match jTemp (slice e 4 8), jTemp (e.drop 8) with
    | .error err, _ => .error err
    | _, .error err => .error err
    | .ok lo, .ok hi =>
      .ok [("min_temp", lo), ("max_temp", hi), ("local_override", .bool (bitmap % 2 = 0)),
           ("openwindow_function", .bool (bitmap / 2 % 2 = 0)), ("multiroom_mode", .bool (bitmap / 16 % 2 = 0)),
           ("_unknown_bitmap", .str (bin8 bitmap))]

def bodyTemp (key : String) (e : List Char) : Py Dict :=
  match jTemp (slice e 2 6) with
  | .error err => .error err
  | .ok t => .ok [(key, t)]

/-- `_parser(seqx)` of 2249 on a 7-byte element (idx at [0:2]); the clock-dependent
    `_next_setpoint` text is a function of the packet's own timestamp and `minutes_remaining`
    (checked as such by the harness) -/
def body2249 (e : List Char) : Py Dict :=
  match ofHex (e.drop 10) with
  | none => .error .valueError
  | some minutes =>
    match jTemp (slice e 2 6), jTemp (slice e 6 10) with
    | .error err, _ => .error err
    | _, .error err => .error err
    | .ok a, .ok b => .ok [("setpoint_now", a), ("setpoint_next", b), ("minutes_remaining", .int minutes)]

def body22C9 (e : List Char) : Py Dict :=
  if ¬ (e.drop 10 = s "01" || e.drop 10 = s "02") then .error .assertionError
  else match jTemp (slice e 2 6), jTemp (slice e 6 10) with
    | .error err, _ => .error err
    | _, .error err => .error err
    | .ok a, .ok b =>
      .ok [("mode", .str (if e.drop 10 = s "01" then s "heat" else s "cool")), ("setpoint_bounds", .arr [a, b])]

/-- the element decoder of an array-capable code -/
def decodeElem (code : List Char) (srcIsUfc : Bool) (e : List Char) : Py Dict :=
  if code = s "0009" then withIdx (zoneOrDomainKey e "zone_idx") e (body0009 e)
  else if code = s "000A" then withIdx "zone_idx" e (body000A e)
  else if code = s "2309" then withIdx "zone_idx" e (bodyTemp "setpoint" e)
  else if code = s "30C9" then withIdx "zone_idx" e (bodyTemp "temperature" e)
  else if code = s "2249" then withIdx "zone_idx" e (body2249 e)
  else if code = s "22C9" then withIdx "ufh_idx" e (body22C9 e)
  else if code = s "3150" then
    withIdx (zoneOrDomainKey e (if srcIsUfc then "ufx_idx" else "zone_idx")) e (parseValveDemand (slice e 2 4))
  else .error .notImplemented

/-- the payload parser proper: `Right dict` / `Left list`;  `arr` = `msg._has_array` -/
inductive Parsed where
  | dict (d : Dict)
  | list (xs : List Dict)
  deriving Repr

def modelledCodes : List String :=
  ["0004", "0008", "0009", "000A", "1060", "10A0", "1260", "12B0", "1F09", "2309", "2349", "30C9", "2249", "22C9", "3150"]

def modelledCodesB' : List String :=
  ["0002", "0005", "0006", "000C", "0016", "0100", "1030", "1081", "1090", "1100", "12F0", "1300", "1F41", "1FC9", "2E04", "313F", "3B00", "0418", "0404"]

def modelledCodesC : List String :=
  ["0001", "000E", "0150", "01D0", "01E9", "042F", "0B04", "1098", "10B0", "10D0", "10E1", "10E2", "11F0", "1280", "1290", "1298",
   "12A0", "12C0", "12C8", "1470", "1F70", "1FCA", "1FD0", "1FD4", "22B0", "22D0", "22D9", "22F1", "22F7", "22F8", "2389", "2400", "2401", "2420", "2D49", "2E10",
   "3110", "3120", "3200", "3210", "3EF0", "3EF1"]

def modelledCodesD' : List String :=
  ["22E0", "22E5", "22E9", "22F2", "3221", "3223", "4E01", "4E04", "4E0D", "4E16"]

def isModelled (code : List Char) : Bool := inS (modelledCodes ++ modelledCodesB' ++ modelledCodesC ++ modelledCodesD') code

def zonMode (k : List Char) : Option (List Char) := (lookupS Gen.zonModeMap k).map (·.toList)

/-- `hex_to_dtm(v)`: isoformat(timespec="seconds") text or None -/
def jDtm (v : List Char) : Py Json :=
  (hexToDtm v).map fun
    | none => .null
    | some d => .str (toDecW 4 d.year ++ '-' :: toDecW 2 d.month ++ '-' :: toDecW 2 d.day ++ 'T' :: toDecW 2 d.hour ++
        ':' :: toDecW 2 d.minute ++ ':' :: toDecW 2 d.second)


/-! ### a second batch of codes: discovery (0005, 000C), schedules' change counter (0006), binding
(1FC9), system mode and time (2E04, 313F), DHW mode (1F41), TPI parameters (1100), mixing-valve
parameters (1030), actuator sync (3B00) and a few one-liners -/

def jNat (n : Nat) : Json := .int (Int.ofNat n)

def showDevId : DevId → List Char
  | .non => nonId
  | .dev t n => toDecW 2 t ++ ':' :: toDecW 6 n

def pyInt16 (v : List Char) : Py Nat :=
  match ofHex v with | some n => .ok n | none => .error .valueError

/-- `MAP[k]` on one of the library's attribute maps, for a 2-character key -/
def mapGet (m : List (String × String)) (k : List Char) : Py (List Char) :=
  match lookupS m k with | some v => .ok v.toList | none => .error .keyError

def optTemp (key : String) (v : List Char) : Py Dict := (jTemp v).map fun t => [(key, t)]

def p0005Elem (f : Frame) (seqx : List Char) : Py Dict := do
  let mask ← if f.srcType = Gen.devTypeUFC.toList then hexToFlag8 (slice seqx 6 8) true
    else if f.blen = 3 then hexToFlag8 (slice seqx 4 6) true
    else do
      let a ← hexToFlag8 (slice seqx 4 6) true
      let b ← hexToFlag8 (slice seqx 6 8) true
      pure (a ++ b)
  let k := slice seqx 2 4
  -- `ZON_ROLE_MAP.get(k, DEV_ROLE_MAP[k])`: the default is evaluated first
  let dn ← mapGet Gen.devRoleFwd k
  let cls := match lookupS Gen.zonRoleFwd k with | some v => v.toList | none => dn
  pure [("zone_type", .str k), ("zone_mask", .arr (mask.map jNat)), ("zone_class", .str cls)]

def p0005 (f : Frame) (arr : Bool) : Py Parsed :=
  let p := f.payload
  if f.verb = vRQ then do
    let dn ← mapGet Gen.devRoleFwd (slice p 2 4)
    pure (.dict [("zone_type", .str (slice p 2 4)), ("zone_class", .str dn)])
  else if arr then do
    pyAssert (f.verb = vI && f.srcType = Gen.devTypeRND'.toList)
    let xs ← mapM' (p0005Elem f) (chunks 8 p)
    pure (.list xs)
  else (p0005Elem f p).map .dict

def p0006 (f : Frame) : Py Parsed :=
  let p := f.payload
  if p.drop 2 = s "FFFFFF" then .ok (.dict []) else do
    pyAssert (slice p 2 4 = s "05")
    if p.drop 4 = s "FFFF" then pure (.dict [("change_counter", .null)]) else do
      let n ← pyInt16 (p.drop 4)
      pure (.dict [("change_counter", jNat n)])

/-- `is_short_000C(payload)` -/
def isShort000C (p : List Char) : Py Bool :=
  if p.length ≠ 72 then .ok (p.length % 12 ≠ 0)
  else if [12, 24, 36, 48, 60].all (fun i => slice p i (i + 4) = p.take 4) then .ok false
  else if [12, 22, 32, 42, 52, 62].all (fun i => slice p i (i + 2) = slice p 2 4) then .ok true
  else .error .pktInvalid

def p000CIdx (f : Frame) : Py Dict :=
  let p := f.payload
  let seqx := p.take 2
  let role := slice p 2 4
  if f.srcType = Gen.devTypeUFC.toList then do
    let n ← pyInt16 seqx
    pyAssert (n < 8)
    pure [("ufh_idx", .str seqx), ("zone_idx", if slice p 4 6 = s "7F" then .null else .str (slice p 4 6))]
  else if role = Gen.devRoleDHW.toList || role = Gen.devRoleHTG.toList then do
    -- `assert int(seqx, 16) < 1 if role == DHW else 2`
    if role = Gen.devRoleDHW.toList then do
      let n ← pyInt16 seqx
      pyAssert (n < 1)
    pure [("domain_id", .str (if seqx = s "00" then Gen.domFA.toList else Gen.domF9.toList))]
  else if role = Gen.devRoleAPP.toList then do
    let n ← pyInt16 seqx
    pyAssert (n < 1)
    pure [("domain_id", .str Gen.domFC.toList)]
  else do
    let n ← pyInt16 seqx
    pyAssert (n < 16)
    pure [("zone_idx", .str seqx)]

/-- `_parser(seqx)` of 000C: (device id, the element's third byte) -/
def p000CElem (p seqx : List Char) : Py (List Char × List Char) := do
  pyAssert (seqx.take 2 = p.take 2)
  let n ← pyInt16 (seqx.take 2)
  pyAssert (n < 16)
  pyAssert (slice seqx 4 6 = s "7F" || seqx.drop 6 ≠ s "FFFFFF")
  let d ← hexIdToDevId (slice seqx 6 12)
  pure (showDevId d, slice seqx 4 6)

def p000C (f : Frame) : Py Parsed := do
  let p := f.payload
  let role := slice p 2 4
  let devRole ← if role = Gen.devRoleHTG.toList && p.take 2 = s "01" then pure Gen.devRoleHT1Name.toList
    else mapGet Gen.devRoleFwd role
  let idx ← p000CIdx f
  let result : Dict := dictMerge [("zone_type", .str role)] (idx ++ [("device_role", .str devRole)])
  if f.verb = vRQ then pure (.dict result) else do
    let short ← isShort000C p
    let elems := if short then (chunks 10 (p.drop 2)).map (fun e => p.take 2 ++ e) else chunks 12 p
    let devs ← mapM' (p000CElem p) elems
    pure (.dict (dictSet result "devices" (.arr ((devs.filter (fun d => d.2 ≠ s "7F")).map fun d => .str d.1))))

def p1030Elem (seqx : List Char) : Py (String × Json) := do
  pyAssert (slice seqx 2 4 = s "01")
  let name ← match lookupS [("20", "unknown_20"), ("21", "unknown_21"), ("C8", "max_flow_setpoint"), ("C9", "min_flow_setpoint"),
      ("CA", "valve_run_time"), ("CB", "pump_run_time"), ("CC", "boolean_cc")] (seqx.take 2) with
    | some n => pure n
    | none => throw .keyError
  let v ← pyInt16 (seqx.drop 4)
  pure (name, jNat v)

def p1030 (f : Frame) : Py Parsed := do
  pyAssert (f.blen = 7 || f.blen = 16)
  let ps ← mapM' p1030Elem (chunks 6 (f.payload.drop 2))
  pure (.dict (ps.foldl (fun d kv => dictSet d kv.1 kv.2) []))

def inRange4 (n lo hi : Nat) : Bool := n % 4 = 0 && lo ≤ n / 4 && n / 4 < hi

def p1100 (f : Frame) : Py Parsed :=
  let p := f.payload
  let cidx : Dict := if p.take 1 = ['F'] then [("domain_id", .str (p.take 2))] else []
  if f.srcType = Gen.devTypeJIM.toList then do
    pyAssert (f.blen = 19)
    pure (.dict [("ordinal", .str (s "0x" ++ slice p 2 8)), ("blob", .str (p.drop 8))])
  else if f.verb = vRQ && f.blen = 1 then .ok (.dict cidx)
  else do
    let a ← pyInt16 (slice p 2 4)
    pyAssert (inRange4 a 1 13)
    let b ← pyInt16 (slice p 4 6)
    pyAssert (inRange4 b 1 31)
    let c ← pyInt16 (slice p 6 8)
    pyAssert (inRange4 c 0 16)
    let r0 : Dict := [("cycle_rate", jNat (a / 4)), ("min_on_time", .num false (divInt b 4)), ("min_off_time", .num false (divInt c 4)),
      ("_unknown_0", .str (slice p 8 10))]
    let r1 : Dict ← if f.blen > 5 then do
        let w := slice p 10 14
        let t ← hexToTemp w
        -- `pbw is None or 1.5 <= pbw <= 3.0` (a temperature is k/100: 150 ≤ k ≤ 300)
        let okRange := match t, ofHex w with
          | .none, _ => true
          | .num _ _, some n => 150 ≤ n && n ≤ 300
          | _, _ => false
        pyAssert okRange
        pure (r0 ++ [("proportional_band_width", jsonOfTemp t), ("_unknown_1", .str (p.drop 14))])
      else pure r0
    pure (.dict (dictMerge cidx r1))

def p1F41 (f : Frame) : Py Parsed := do
  let p := f.payload
  let m := slice p 4 6
  let tmp := Gen.zonModeTEMPORARY.toList
  pyAssert (inS (Gen.zonModeMap.map (·.1)) m)
  pyAssert (m = tmp || f.blen = 6)
  pyAssert (m ≠ tmp || f.blen = 12)
  pyAssert (slice p 6 12 = s "FFFFFF")
  let r0 : Dict := [("mode", match zonMode m with | some x => .str x | none => .null)]
  let r1 : Dict ← if slice p 2 4 ≠ s "FF" then
      (if slice p 2 4 = s "00" then pure (r0 ++ [("active", Json.bool false)])
       else if slice p 2 4 = s "01" then pure (r0 ++ [("active", Json.bool true)])
       else throw .keyError)
    else pure r0
  if m = tmp then do
    let u ← jDtm (slice p 12 24)
    pure (.dict (r1 ++ [("until", u)]))
  else pure (.dict r1)

def p1FC9Elem (p seqx : List Char) : Py Json := do
  let k := seqx.take 2
  if k ≠ s "90" then pyAssert (seqx.drop 6 = slice p 6 12)
  if ¬ (inS ["21", "63", "66", "67", "6C", "90"] k || inS [Gen.domF6, Gen.domF9, Gen.domFA, Gen.domFB, Gen.domFC, Gen.domFF] k) then do
    let n ← pyInt16 k
    pyAssert (n < 16)
  let d ← hexIdToDevId (seqx.drop 6)
  pure (.arr [.str k, .str (slice seqx 2 6), .str (showDevId d)])

def p1FC9 (f : Frame) : Py Parsed := do
  let p := f.payload
  let phase : Json ←
    if f.verb = vI && (f.dst = f.src || f.dst = allId) then pure (Json.str (s "offer"))
    else if f.verb = vW && f.src ≠ f.dst then pure (Json.str (s "accept"))
    else if f.verb = vI then pure (Json.str (s "confirm"))
    else if f.verb = vRP then pure Json.null
    else throw .pktInvalid
  let isConfirm := match phase with | .str x => x = s "confirm" | _ => false
  if p.length = 2 && isConfirm then pure (.dict [("phase", phase), ("bindings", .arr [.arr [.str p]])]) else do
    pyAssert (f.blen ≥ 6 && f.blen % 6 = 0)
    let bs ← mapM' (p1FC9Elem p) (chunks 12 p)
    pure (.dict [("phase", phase), ("bindings", .arr bs)])

def p2E04 (f : Frame) : Py Parsed := do
  let p := f.payload
  let m := p.take 2
  if f.blen = 8 then pyAssert (inS (Gen.sysModeMap.map (·.1)) m)
  else if f.blen = 16 then do
    let n ← pyInt16 m
    pyAssert (n ≤ 15 || m = Gen.domFF.toList)
    pyAssert (slice p 16 18 = Gen.sysModeAuto.toList || slice p 16 18 = Gen.sysModeCustom.toList)
    pyAssert (slice p 30 32 = Gen.sysModeDayOff.toList)
  else throw .assertionError
  let name ← mapGet Gen.sysModeMap m
  if m = Gen.sysModeAuto.toList || m = Gen.sysModeHeatOff.toList || m = Gen.sysModeAutoWithReset.toList then
    pure (.dict [("system_mode", .str name)])
  else do
    let u ← if slice p 14 16 ≠ s "00" then jDtm (slice p 2 14) else pure Json.null
    pure (.dict [("system_mode", .str name), ("until", u)])

def p313F (f : Frame) : Py Parsed := do
  let p := f.payload
  let u := slice p 2 4
  pyAssert (f.srcType ≠ Gen.devTypeCTL.toList || u = s "F0" || u = s "F9" || u = s "FC")
  pyAssert (¬ (f.srcType = Gen.devTypeDTS.toList || f.srcType = Gen.devTypeDT2.toList) || u = s "38")
  pyAssert (f.srcType ≠ Gen.devTypeRFG'.toList || u = s "60")
  let d ← jDtm (slice p 4 18)
  let n ← pyInt16 (slice p 4 6)
  pure (.dict [("datetime", d), ("is_dst", if n / 128 % 2 = 1 then .bool true else .null), ("_unknown_0", .str u)])

def p3B00 (f : Frame) : Py Parsed := do
  let p := f.payload
  pyAssert (f.blen = 2)
  let want := if f.srcType = Gen.devTypeCTL.toList || f.srcType = Gen.devTypePRG.toList then Gen.domFC.toList else s "00"
  pyAssert (p.take 2 = want)
  pyAssert (p.drop 2 = s "C8")
  let cidx : Dict ←
    if f.verb = vI && (f.srcType = Gen.devTypeCTL.toList || f.srcType = Gen.devTypePRG.toList) && f.src = f.dst then do
      pyAssert (p.take 2 = Gen.domFC.toList)
      pure [("domain_id", Json.str Gen.domFC.toList)]
    else do
      pyAssert (p.take 2 = s "00")
      pure []
  let b ← hexToBool (p.drop 2)
  pure (.dict (cidx ++ [("actuator_sync", match b with | none => .null | some x => .bool x)]))

/-- `hex_to_dts(v)`: the text "yy-mm-ddTHH:MM:SS" or None -/
def dtsText (v : List Char) : Py (Option (List Char)) :=
  (hexToDts v).map fun o => o.map fun d =>
    toDecW 2 (d.year % 100) ++ '-' :: toDecW 2 d.month ++ '-' :: toDecW 2 d.day ++ 'T' :: toDecW 2 d.hour ++
      ':' :: toDecW 2 d.minute ++ ':' :: toDecW 2 d.second

def getOr (m : List (String × String)) (k : List Char) (dflt : String) : List Char :=
  match lookupS m k with | some v => v.toList | none => dflt.toList

/-- `parser_0418` (a fault-log entry; the warnings of its try/except block have no effect on the result) -/
def p0418 (f : Frame) : Py Parsed := do
  let p := f.payload
  if f.verb = vRQ then pure (.dict [("log_idx", .str (slice p 4 6))]) else do
    let ts ← dtsText (slice p 18 30)
    match ts with
    | none =>
      pure (.dict ((if f.verb = vI then [("log_idx", Json.str (slice p 4 6))] else []) ++ [("log_entry", Json.null)]))
    | some stamp =>
      pyAssert (p.length = 44)
      let cls := getOr Gen.faultDeviceClass (slice p 12 14) Gen.faultClassUnknown
      let dom := slice p 10 12
      let dev ← hexIdToDevId (p.drop 38)
      let e0 : List (List Char) := [stamp, getOr Gen.faultState (slice p 2 4) Gen.faultStateUnknown,
        getOr Gen.faultType (slice p 8 10) Gen.faultTypeUnknown]
      let e1 := e0 ++ [if cls ≠ Gen.faultClassActuator.toList then cls
        else if dom = Gen.domFC.toList then Gen.devRoleAPPName.toList
        else if dom = Gen.domFA.toList then Gen.devRoleHTGName.toList
        else if dom = Gen.domF9.toList then Gen.devRoleHT1Name.toList
        else Gen.faultClassActuator.toList]
      let e2 := if cls ≠ Gen.faultClassController.toList then e1 ++ [dom] else e1
      let d := showDevId dev
      let e3 := if d = s "00:000000" || d = s "00:000001" || d = s "00:000002" then e2 else e2 ++ [d]
      let e4 := e3 ++ [slice p 6 8, slice p 14 18, slice p 30 38]
      pure (.dict [("log_idx", .str (slice p 4 6)), ("log_entry", .arr (e4.map Json.str))])

/-- `parser_0404` (a schedule fragment) -/
def p0404 (f : Frame) : Py Parsed := do
  let p := f.payload
  pyAssert (slice p 4 6 = s "00" || slice p 4 6 = p.take 2)
  let flen ← pyInt16 (slice p 8 10)
  let fragLen := (p.drop 14).length
  if flen * 2 ≠ fragLen && (f.verb ≠ vI || fragLen ≠ 0) then throw .pktInvalid
  let num ← pyInt16 (slice p 10 12)
  if f.verb = vRQ then
    if slice p 12 14 = s "00" then pure (.dict [("frag_number", jNat num), ("total_frags", .null)])
    else do
      let tot ← pyInt16 (slice p 12 14)
      pure (.dict [("frag_number", jNat num), ("total_frags", jNat tot)])
  else if f.verb = vI then do
    let tot ← pyInt16 (slice p 12 14)
    pure (.dict [("frag_number", jNat num), ("total_frags", jNat tot),
      ("frag_length", if slice p 8 10 = s "00" then .null else jNat flen)])
  else if slice p 12 14 = Gen.domFF.toList then pure (.dict [("frag_number", jNat num), ("total_frags", .null)])
  else do
    let tot ← pyInt16 (slice p 12 14)
    pure (.dict [("frag_number", jNat num), ("total_frags", jNat tot),
      ("frag_length", if slice p 8 10 = s "FF" then .null else jNat flen), ("fragment", .str (p.drop 14))])

def parserB (f : Frame) (arr : Bool) : Option (Py Parsed) :=
  let p := f.payload
  let code := f.code
  if code = s "0002" then some (
    if f.srcType = Gen.devTypeHCW.toList then do
      pyAssert (p = s "03020105")
      pure (.dict [("_unknown", .str p)])
    else do
      let t ← jTemp (slice p 2 6)
      pure (.dict [("temperature", t), ("_unknown", .str (p.drop 6))]))
  else if code = s "0005" then some (p0005 f arr)
  else if code = s "0006" then some (p0006 f)
  else if code = s "000C" then some (p000C f)
  else if code = s "0016" then some (
    if f.verb = vRQ then .ok (.dict []) else do
      let n ← pyInt16 (slice p 2 4)
      pure (.dict [("rf_strength", jNat (min (n / 5 + 1) 5)), ("rf_value", jNat n)]))
  else if code = s "0100" then some (
    if f.verb = vRQ && f.blen = 1 then .ok (.dict []) else do
      let l ← hexToStr (slice p 2 6)
      pure (.dict [("language", .str l), ("_unknown_0", .str (p.drop 6))]))
  else if code = s "1030" then some (p1030 f)
  else if code = s "1081" then some ((optTemp "setpoint" (p.drop 2)).map .dict)
  else if code = s "1090" then some (do
    pyAssert (f.blen = 5)
    let n ← pyInt16 (p.take 2)
    pyAssert (n < 2)
    let a ← jTemp (slice p 2 6)
    let b ← jTemp (slice p 6 10)
    pure (.dict [("temperature_0", a), ("temperature_1", b)]))
  else if code = s "1100" then some (p1100 f)
  else if code = s "12F0" then some ((optTemp "dhw_flow_rate" (p.drop 2)).map .dict)
  else if code = s "1300" then some (
    if p.drop 2 = s "09F6" then .ok (.dict [("pressure", .null)]) else (optTemp "pressure" (p.drop 2)).map .dict)
  else if code = s "1F41" then some (p1F41 f)
  else if code = s "1FC9" then some (p1FC9 f)
  else if code = s "2E04" then some (p2E04 f)
  else if code = s "313F" then some (p313F f)
  else if code = s "3B00" then some (p3B00 f)
  else if code = s "0418" then some (p0418 f)
  else if code = s "0404" then some (p0404 f)
  else none

/-! ### a third batch: HVAC sensor values (1280 1290 1298 12A0 12C0 12C8), boiler / relay state (3EF0 3EF1 3110
3200 3210 22D9 2401 10D0 2D49), device ids (10E1 1FCA), HVAC schedules (1470 1F70 22D0) and the fixed-payload
codes whose parser is an assertion on the whole payload -/

def jInt (n : Int) : Json := .int n

/-- `f"{n:02d}"` -/
def dec02 (n : Nat) : List Char := if n < 100 then toDecW 2 n else (toString n).toList

def bitOf (n k : Nat) : Bool := n / 2 ^ k % 2 = 1

/-- `_faulted_sensor(param_name, value)` -/
def faultedSensor (name : String) (value : List Char) : Py Dict := do
  let n ← pyInt16 (value.take 2)
  let fault := match Gen.sensorFaultCodes.find? (·.1 = n % 16) with
    | some (_, nm) => nm.toList
    | none => s "invalid_" ++ value
  pure [(name ++ "_fault", .str fault)]

/-- `_parse_hvac_temp(param_name, value)` -/
def hvacTemp (name : String) (v : List Char) : Py Dict :=
  if v.length ≠ 4 then .error .valueError else
  if v = s "7FFF" || v = s "31FF" then .ok [(name, .null)] else do
    let hi ← pyInt16 (v.take 2)
    if hi / 16 = 8 then faultedSensor name v else do
      let n ← pyInt16 v
      let k : Int := if n < 2 ^ 15 then n else (n : Int) - 2 ^ 16
      -- `temp <= -273` on the floats is `k <= -27300` on the integers
      if k ≤ -27300 then faultedSensor name v else pure [(name, jsonOfTemp (tempOfCenti k))]

/-- `_parse_hvac_humidity(param_name, value, temp, dewpoint)` -/
def hvacHumidity (name : String) (value temp dew : List Char) : Py Dict :=
  if value.length ≠ 2 then .error .valueError else
  if temp.length ≠ 0 && temp.length ≠ 4 then .error .valueError else
  if dew.length ≠ 0 && dew.length ≠ 4 then .error .valueError else
  if value = s "EF" then .ok [(name, .null)] else do
    let n ← pyInt16 value
    if n / 16 = 15 then faultedSensor name value else do
      pyAssert (n ≤ 100)
      let r0 : Dict := [(name, .num false (divInt n 100))]
      let r1 ← if temp ≠ [] then do
          let t ← jTemp temp
          pure (dictSet r0 "temperature" t)
        else pure r0
      if dew ≠ [] then do
        let t ← jTemp dew
        pure (dictSet r1 "dewpoint_temp" t)
      else pure r1

/-- `parse_co2_level(value)` -/
def co2Level (v : List Char) : Py Dict :=
  if v.length ≠ 4 then .error .valueError else
  if v = s "7FFF" then .ok [("co2_level", .null)] else do
    let n ← pyInt16 v
    let hi ← pyInt16 (v.take 2)
    if hi / 128 % 2 = 1 || n ≥ 0x8000 then faultedSensor "co2_level" v else pure [("co2_level", jNat n)]

/-- `parse_air_quality(value)` -/
def airQuality (v : List Char) : Py Dict :=
  if v.length ≠ 4 then .error .valueError else do
    pyAssert (v.take 2 ≠ s "EF" || v.drop 2 = s "00")
    if v = s "EF00" then pure [("air_quality", .null)] else do
      let n ← pyInt16 (v.take 2)
      if n / 16 = 15 then faultedSensor "air_quality" v else do
        pyAssert (n ≤ 200)
        let b := v.drop 2
        pyAssert (b = s "10" || b = s "20" || b = s "40")
        let basis := if b = s "10" then "voc" else if b = s "20" then "co2" else "rel_humidity"
        pure [("air_quality", .num false (divInt n 200)), ("air_quality_basis", .str basis.toList)]

def jBoolOpt : Option Bool → Json
  | none => .null
  | some b => .bool b

def wholePayload (f : Frame) (want : List String) : Py Parsed := do
  pyAssert (inS want f.payload)
  pure (.dict [("payload", .str f.payload)])

def p0001 (f : Frame) : Py Parsed := do
  let p := f.payload
  let w := slice p 2 6
  if w = s "2000" || w = s "8000" || w = s "A000" then do
    pyAssert (p.take 2 = s "00")
    pyAssert (inS ["00", "04", "10", "20", "FF"] (slice p 8 10))
    let r0 : Dict := [("payload", .str p), ("slot_num", .str (slice p 6 8))]
    let r1 : Dict := if f.blen ≥ 6 then r0 ++ [("param_num", .str (slice p 10 12))] else r0
    let r2 : Dict := if f.blen ≥ 7 then r1 ++ [("next_slot_num", .str (slice p 12 14))] else r1
    if f.blen ≥ 8 then
      if slice p 14 16 = s "FF" then pure (.dict (r2 ++ [("boolean_14", .null)]))
      else match ofDec (slice p 14 16) with        -- `bool(int(payload[14:16]))`: a *decimal* int
        | some n => pure (.dict (r2 ++ [("boolean_14", .bool (n ≠ 0))]))
        | none => throw .valueError
    else pure (.dict r2)
  else do
    pyAssert (w = s "0000" || w = s "FFFF")
    pyAssert (inS ["00", "02", "05"] (slice p 8 10))
    pure (.dict [("payload", .str (p.take 2 ++ '-' :: slice p 2 6 ++ '-' :: slice p 6 8 ++ '-' :: p.drop 8))])

def p10D0 (f : Frame) : Py Parsed := do
  let p := f.payload
  let r0 : Dict ← if f.verb = vW then pure [("reset_counter", Json.bool (slice p 2 4 = s "FF"))]
    else do
      let n ← pyInt16 (slice p 2 4)
      pure [("days_remaining", jNat n)]
  let r1 : Dict ← if f.blen ≥ 3 then do
      let n ← pyInt16 (slice p 4 6)
      pure (r0 ++ [("days_lifetime", jNat n)])
    else pure r0
  if f.blen ≥ 4 then do
    let v ← jPercent (slice p 6 8)
    pure (.dict (r1 ++ [("percent_remaining", v)]))
  else pure (.dict r1)

def p12C0 (f : Frame) : Py Parsed := do
  let p := f.payload
  let temp : Json ←
    if slice p 2 4 = s "80" then pure Json.null
    else do
      let n ← pyInt16 (slice p 2 4)
      if slice p 4 6 = s "00" then pure (jNat n) else pure (Json.num false (divInt n 2))
  let units ← if slice p 4 6 = s "00" then pure "Fahrenheit" else if slice p 4 6 = s "01" then pure "Celsius" else throw .keyError
  let r : Dict := [("temperature", temp), ("units", .str units.toList)]
  pure (.dict (if p.length > 6 then r ++ [("_unknown_6", .str (p.drop 6))] else r))

def p1470 (f : Frame) : Py Parsed := do
  let p := f.payload
  pyAssert (slice p 8 10 = s "80")
  pyAssert (f.verb = vW || slice p 4 8 = s "0E60")
  pyAssert (f.verb = vW || p.drop 10 = s "2A0108")
  pyAssert (f.verb ≠ vW || p.drop 4 = s "000080000000")
  let sc := slice p 2 3
  pyAssert ((sc = s "9" || sc = s "A" || sc = s "B") && inS ["2", "3", "4", "5", "6"] (slice p 3 4))
  let scheme := if sc = s "9" then "one_per_week" else if sc = s "A" then "two_per_week" else "one_each_day"
  pure (.dict [("scheme", .str scheme.toList), ("daily_setpoints", .str (slice p 3 4)), ("_value_4", .str (slice p 4 8)),
    ("_value_8", .str (slice p 8 10)), ("_value_10", .str (p.drop 10))])

def p1F70 (f : Frame) : Py Parsed := do
  let p := f.payload
  let hh ← pyInt16 (slice p 18 20)
  let mm ← pyInt16 (slice p 20 22)
  pure (.dict [("day_idx", .str (slice p 16 18)), ("setpoint_idx", .str (slice p 8 10)),
    ("start_time", .str (dec02 hh ++ ':' :: dec02 mm)), ("fan_speed_wip", .str (slice p 24 26)),
    ("_value_02", .str (slice p 2 4)), ("_value_04", .str (slice p 4 8)), ("_value_10", .str (slice p 10 14)),
    ("_value_14", .str (slice p 14 16)), ("_value_22", .str (slice p 22 24)), ("_value_26", .str (p.drop 26))])

def p22D0 (f : Frame) : Py Parsed := do
  let p := f.payload
  if p.length = 8 then pyAssert (inS ["00", "02", "0A"] (p.drop 6)) else pyAssert (p.drop 4 = s "001E14030020")
  pyAssert (slice p 4 6 = s "00")
  let fl ← hexToFlag8 (slice p 2 4) false
  let n ← pyInt16 (slice p 2 4)
  pure (.dict [("idx", .str (p.take 2)), ("_flags", .arr (fl.map jNat)), ("cool_mode", .bool (bitOf n 1)),
    ("heat_mode", .bool (bitOf n 2)), ("is_active", .bool (bitOf n 4)), ("_unknown", .str (p.drop 4))])

def p2401 (f : Frame) : Py Parsed := do
  let p := f.payload
  -- (the try-block only warns; its `int()` calls are on the same hex fields as below)
  let n2 ← pyInt16 (slice p 4 6)
  let _ ← pyInt16 (p.drop 6)
  let fl ← hexToFlag8 (slice p 4 6) false
  let vd ← parseValveDemand (slice p 6 8)
  pure (.dict (dictSet (dictMerge [("_flags_2", .arr (fl.map jNat))] vd) "_value_2" (jNat n2)))

def p3110 (f : Frame) : Py Parsed := do
  let p := f.payload
  let _ ← pyInt16 (slice p 4 6)
  let n ← pyInt16 (slice p 6 8)
  let m := n / 16 % 4
  let mode := if m = 0 then "disabled" else if m = 1 then "heating" else if m = 2 then "cooling" else "unknown"
  if m = 1 || m = 2 then do
    let d ← jPercent (slice p 4 6)
    pure (.dict [("mode", .str mode.toList), ("demand", d)])
  else pure (.dict [("mode", .str mode.toList)])

def jPercentLo (v : List Char) : Py Json :=
  (hexToPercent v false).map fun | none => .null | some x => .num false x

def p3EF0 (f : Frame) : Py Parsed := do
  let p := f.payload
  if f.srcType = Gen.devTypeJIM.toList then do
    pyAssert (f.blen = 20)
    pure (.dict [("ordinal", .str (s "0x" ++ slice p 2 8)), ("blob", .str (p.drop 8))])
  else do
    pyAssert (f.blen = 3 || f.blen = 6 || f.blen = 9)
    let lvl ← if f.blen = 3 then do
        pyAssert (slice p 2 4 = s "00" || slice p 2 4 = s "C8")
        pyAssert (slice p 4 6 = s "FF")
        jPercent (slice p 2 4)
      else do
        pyAssert (inS ["00", "10", "11"] (slice p 4 6))
        jPercentLo (slice p 2 4)
    let r0 : Dict := [("modulation_level", lvl), ("_flags_2", .str (slice p 4 6))]
    let r1 : Dict ← if f.blen ≥ 6 then do
        let fl ← hexToFlag8 (slice p 6 8) false
        let n ← pyInt16 (slice p 6 8)
        pure (r0 ++ [("_flags_3", .arr (fl.map jNat)), ("ch_active", .bool (bitOf n 1)), ("dhw_active", .bool (bitOf n 2)),
          ("cool_active", .bool (bitOf n 4)), ("flame_on", .bool (bitOf n 3)), ("_unknown_4", .str (slice p 8 10)),
          ("_unknown_5", .str (slice p 10 12))])
      else pure r0
    if f.blen ≥ 9 then do
      let b6 ← pyInt16 (slice p 12 14)
      pyAssert (b6 / 4 = 0)
      pyAssert (b6 / 2 % 2 = 1)
      let b7 ← pyInt16 (slice p 14 16)
      pyAssert (10 ≤ b7 && b7 ≤ 90)
      let b8 ← pyInt16 (slice p 16 18)
      pyAssert (b8 = 0 || b8 = 100)
      let fl ← hexToFlag8 (slice p 12 14) false
      let mx ← jPercentLo (slice p 16 18)
      pure (.dict (r1 ++ [("_flags_6", .arr (fl.map jNat)), ("ch_enabled", .bool (bitOf b6 0)), ("ch_setpoint", jNat b7),
        ("max_rel_modulation", mx)]))
    else pure (.dict r1)

def p3EF1 (f : Frame) : Py Parsed := do
  let p := f.payload
  if f.srcType = Gen.devTypeJIM.toList then do
    pyAssert (f.blen = 18)
    pure (.dict [("ordinal", .str (s "0x" ++ slice p 2 8)), ("blob", .str (p.drop 8))])
  else if f.srcType = Gen.devTypeJST.toList then do
    pyAssert (f.blen = 12)
    pure (.dict [("ordinal", .str (s "0x" ++ slice p 2 8)), ("blob", .str (p.drop 8))])
  else do
    let pc ← hexToPercent (slice p 10 12) true
    let isZeroOrOne := match pc with | none => true | some v => v.eqv ⟨0, 0⟩ || v.eqv ⟨1, 0⟩
    if p.drop 12 = s "FF" then pyAssert isZeroOrOne
    else do
      pyAssert (slice p 2 6 = s "7FFF")
      pyAssert (slice p 6 10 = s "003C")
      -- `percent <= 1` always holds for what hex_to_percent returns
    let cyc : Option Int ← if slice p 2 6 = s "7FFF" then pure none else do
        let n ← pyInt16 (slice p 2 6)
        let k : Int := if n > 0x7FFF then (n : Int) - 0x10000 else n
        pyAssert (k < 7200)
        pure (some k)
    let act : Option Int ← if slice p 6 10 = s "7FFF" then pure none else do
        let n ← pyInt16 (slice p 6 10)
        pure (if n > 0x7FFF then cyc else some (n : Int))
    let jo : Option Int → Json := fun | none => .null | some k => .int k
    pure (.dict [("modulation_level", match pc with | none => .null | some v => .num false v), ("actuator_countdown", jo act),
      ("cycle_countdown", jo cyc), ("_unknown_0", .str (p.drop 12))])

/-- `parser_22f1` (fan mode; the scheme is guessed from the address shape / the mode-set byte; its asserts only warn) -/
def p22F1 (f : Frame) : Py Parsed := do
  let p := f.payload
  -- the first try-block compares `int(payload[2:4], 16) <= int(payload[4:], 16)` when there is a third byte
  if p.drop 4 ≠ [] && inS ["00", "63"] (p.take 2) then do
    let _ ← pyInt16 (slice p 2 4)
    let _ ← pyInt16 (p.drop 4)
  let (tbl, scheme) :=
    if f.a0 = nonId then (Gen.fanModeItho, "itho")
    else if slice p 4 6 = s "0A" then (Gen.fanModeNuaire, "nuaire")
    else (Gen.fanModeOrcon, "orcon")
  let n ← pyInt16 (slice p 2 4)
  let mode := match lookupS tbl (slice p 2 4) with | some m => m.toList | none => s "unknown_" ++ slice p 2 4
  pure (.dict [("fan_mode", .str mode), ("_scheme", .str scheme.toList), ("_mode_idx", .str (fmtHex 2 (n % 16))),
    ("_mode_max", if slice p 4 6 = [] then .null else .str (slice p 4 6))])

def parserC (f : Frame) : Option (Py Parsed) :=
  let p := f.payload
  let code := f.code
  if code = s "0001" then some (p0001 f)
  else if code = s "000E" then some (wholePayload f ["000014", "000028"])
  else if code = s "0150" then some (wholePayload f ["000000"])
  else if code = s "01D0" || code = s "01E9" then some (do
    pyAssert (p.drop 2 = s "00" || p.drop 2 = s "03")
    pure (.dict [("unknown_0", .str (p.drop 2))]))
  else if code = s "042F" then some (.ok (.dict [("counter_1", .str (s "0x" ++ slice p 2 6)), ("counter_3", .str (s "0x" ++ slice p 6 10)),
    ("counter_5", .str (s "0x" ++ slice p 10 14)), ("unknown_7", .str (s "0x" ++ p.drop 14))]))
  else if code = s "0B04" then some (.ok (.dict [("unknown_1", .str (p.drop 2))]))
  else if code = s "1098" then some (do
    pyAssert (p = s "00C8")
    pure (.dict [("_payload", .str p), ("_value", .bool true)]))
  else if code = s "10B0" then some (do
    pyAssert (p = s "0000")
    pure (.dict [("_payload", .str p), ("_value", .bool false)]))
  else if code = s "10D0" then some (p10D0 f)
  else if code = s "10E1" then some (do
    let d ← hexIdToDevId (p.drop 2)
    pure (.dict [("device_id", .str (showDevId d))]))
  else if code = s "10E2" then some (do
    pyAssert (p.take 2 = s "00")
    pyAssert (p.length = 6)
    let n ← pyInt16 (p.drop 2)
    pure (.dict [("counter", jNat n)]))
  else if code = s "11F0" then some (wholePayload f ["000009000000000000"])
  else if code = s "1280" then some ((hvacHumidity "outdoor_humidity" (slice p 2 4) (slice p 4 8) (slice p 8 12)).map .dict)
  else if code = s "1290" then some ((hvacTemp "outdoor_temp" (p.drop 2)).map .dict)
  else if code = s "1298" then some ((co2Level (slice p 2 6)).map .dict)
  else if code = s "12A0" then some ((hvacHumidity "indoor_humidity" (slice p 2 4) (slice p 4 8) (slice p 8 12)).map .dict)
  else if code = s "12C0" then some (p12C0 f)
  else if code = s "12C8" then some ((airQuality (slice p 2 6)).map .dict)
  else if code = s "1470" then some (p1470 f)
  else if code = s "1F70" then some (p1F70 f)
  else if code = s "1FCA" then some (do
    let a ← hexIdToDevId (slice p 6 12)
    let b ← hexIdToDevId (p.drop 12)
    pure (.dict [("_unknown_0", .str (p.take 2)), ("_unknown_1", .str (slice p 2 6)), ("device_id_0", .str (showDevId a)),
      ("device_id_1", .str (showDevId b))]))
  else if code = s "1FD0" then some (wholePayload f ["0000000000000000"])
  else if code = s "1FD4" then some (do
    let n ← pyInt16 (p.drop 2)
    pure (.dict [("ticker", jNat n)]))
  else if code = s "22D0" then some (p22D0 f)
  else if code = s "22B0" then some (.ok (.dict [("enabled", if slice p 2 4 = s "06" then .bool false else if slice p 2 4 = s "05" then .bool true else .null)]))
  else if code = s "22F1" then some (p22F1 f)
  else if code = s "22F7" then some (
    let bm : Json := if slice p 2 4 = s "00" then .str (s "off") else if slice p 2 4 = s "C8" then .str (s "on") else if slice p 2 4 = s "FF" then .str (s "auto") else .null
    let r : Dict := [("bypass_mode", bm)]
    if f.verb ≠ vW || ¬ (p.drop 4 = [] || p.drop 4 = s "EF") then
      .ok (.dict (r ++ [("bypass_state", if p.drop 4 = s "00" then .str (s "off") else if p.drop 4 = s "C8" then .str (s "on") else .null)]))
    else .ok (.dict r))
  else if code = s "22F8" then some (.ok (.dict [("value_02", .str (slice p 2 4)), ("value_04", .str (slice p 4 6))]))
  else if code = s "22D9" then some ((optTemp "setpoint" (slice p 2 6)).map .dict)
  else if code = s "2389" then some ((optTemp "_unknown" (slice p 2 6)).map .dict)
  else if code = s "2400" then some (.ok (.dict [("payload", .str p)]))
  else if code = s "2401" then some (p2401 f)
  else if code = s "2420" then some (wholePayload f ["00000010" ++ String.join (List.replicate 34 "00")])
  else if code = s "2D49" then some (do
    pyAssert (inS ["0000", "00FF", "C800", "C8FF"] (p.drop 2))
    let b ← hexToBool (slice p 2 4)
    pure (.dict [("state", jBoolOpt b)]))
  else if code = s "2E10" then some (do
    pyAssert (p = s "0001" || p = s "000100")
    pure (.dict [("presence_detected", .bool true), ("_unknown_4", .str (p.drop 4))]))
  else if code = s "3110" then some (p3110 f)
  else if code = s "3120" then some (.ok (.dict [("unknown_0", .str (slice p 2 10)), ("unknown_5", .str (slice p 10 12)), ("unknown_2", .str (p.drop 12))]))
  else if code = s "3200" || code = s "3210" then some ((optTemp "temperature" (p.drop 2)).map .dict)
  else if code = s "3EF0" then some (p3EF0 f)
  else if code = s "3EF1" then some (p3EF1 f)
  else none

/-! ### batch D: Itho / Orcon HVAC odds and ends (22E0 22E5 22E9 22F2 3221 3223) and the Autotemp 4Exx codes -/

/-- `parser_22e0` (also 22E5, 22E9): a percentage per byte; when one of them is out of range
    (`ValueError`) the three-byte reading with the raw middle value -/
def p22E0 (f : Frame) : Py Parsed :=
  let p := f.payload
  let idxs := (List.range ((p.length + 1) / 2)).filter (· ≥ 1) |>.map (· * 2)      -- range(2, len, 2)
  let first : Py Dict := mapM' (fun i => (jPercent (slice p i (i + 2))).map fun v => ("percent_" ++ toString i, v)) idxs
  match first with
  | .error .valueError => do
    let a ← jPercent (slice p 2 4)
    let n ← pyInt16 (slice p 4 6)
    pyAssert (n ≤ 200 || slice p 4 6 = s "E6")
    let c ← jPercent (slice p 6 8)
    pure (.dict [("percent_2", a), ("percent_4", .num false (divInt n 200)), ("percent_6", c)])
  | .error e => .error e
  | .ok d => .ok (.dict d)

def p22F2 (f : Frame) : Py Parsed :=
  (mapM' (fun (q : List Char) => do
    pyAssert (q.take 2 = s "00" || q.take 2 = s "01")
    let t ← jTemp (q.drop 2)
    pure ([("hvac_idx", Json.str (q.take 2)), ("measure", t)] : Dict)) (chunks 6 f.payload)).map .list

def p4E01 (f : Frame) : Py Parsed := do
  let p := f.payload
  pyAssert (f.blen ≥ 2 && f.blen % 2 = 0)
  let ng := (f.blen - 2) / 2
  let y := 2 + ng * 4
  pyAssert (p.take 2 = s "00")
  pyAssert (slice p y (y + 2) = s "00")
  let ts ← mapM' (fun k => jTemp (slice p (2 + 4 * k) (6 + 4 * k))) (List.range ng)
  pure (.dict [("temperatures", .arr ts)])

def parserD (f : Frame) : Option (Py Parsed) :=
  let p := f.payload
  let code := f.code
  if code = s "22E0" || code = s "22E5" || code = s "22E9" then some (p22E0 f)
  else if code = s "22F2" then some (p22F2 f)
  else if code = s "3221" || code = s "3223" then some (do
    let n ← pyInt16 (p.drop 2)
    pyAssert (n ≤ 0xC8)
    pure (.dict [("_payload", .str p), ("value", jNat n)]))
  else if code = s "4E01" then some (p4E01 f)
  else if code = s "4E04" then some (do
    let mode ← match slice p 2 4 with
      | ['0', '0'] => pure (s "off")
      | ['0', '1'] => pure (s "heat")
      | ['0', '2'] => pure (s "cool")
      | _ => throw .assertionError
    let n ← pyInt16 (p.drop 4)
    pyAssert (n < 0x40 || inS ["FB", "FC", "FD", "FE", "FF"] (p.drop 4))
    pure (.dict [("mode", .str mode), ("_unknown_2", .str (p.drop 4))]))
  else if code = s "4E0D" then some (.ok (.dict [("_payload", .str p)]))
  else if code = s "4E14" || code = s "4E20" || code = s "4E21" then some (.ok (.dict []))   -- (no verb of these is in the schema: never decoded)
  else if code = s "4E16" then some (do
    pyAssert (p = s "00000000000000")
    pure (.dict [("_payload", .str p)]))
  else none

def modelledCodesD : List String :=
  ["22E0", "22E5", "22E9", "22F2", "3221", "3223", "4E01", "4E04", "4E0D", "4E16"]

def modelledCodesB : List String :=
  ["0002", "0005", "0006", "000C", "0016", "0100", "1030", "1081", "1090", "1100", "12F0", "1300", "1F41", "1FC9", "2E04", "313F", "3B00"]

def parser (f : Frame) (arr : Bool) : Py Parsed :=
  let p := f.payload
  let code := f.code
  let len := f.blen
  let srcIsUfc := f.srcType = Gen.devTypeUFC.toList
  if inS ["0009", "000A", "2309", "30C9", "2249", "22C9", "3150"] code && arr then
    match arrElemLen code with
    | none => .error .keyError
    | some el => (mapM' (decodeElem code srcIsUfc) (chunks (2 * el) p)).map .list
  else if code = s "0009" then
    .ok (.dict [("failsafe_enabled", if slice p 2 4 = s "00" then .bool false else if slice p 2 4 = s "01" then .bool true else .null),
                ("unknown_0", .str (p.drop 4))])
  else if code = s "000A" then
    if f.verb = vRQ && len ≤ 2 then .ok (.dict []) else do
      pyAssert (len = 6)
      let b ← body000A p
      pure (.dict b)
  else if code = s "2309" then
    if f.verb = vRQ && len = 1 then .ok (.dict []) else do
      let t ← jTemp (p.drop 2)
      pure (.dict [("setpoint", t)])
  else if code = s "30C9" then do
    let t ← jTemp (p.drop 2)
    pure (.dict [("temperature", t)])
  else if code = s "2249" then (body2249 p).map .dict
  else if code = s "22C9" then do
    pyAssert (len ≠ 8 || p.drop 10 = s "010103" || p.drop 10 = s "020203")
    let b ← body22C9 (p.take 12)
    pure (.dict b)
  else if code = s "3150" then (parseValveDemand (p.drop 2)).map .dict
  else if code = s "0004" then
    if p.drop 4 = (List.replicate 20 (s "7F")).flatten then .ok (.dict [])
    else (hexToStr (p.drop 4)).map fun n => .dict [("name", .str n)]
  else if code = s "0008" then
    if f.srcType = Gen.devTypeJST.toList && len = 13 then
      .ok (.dict [("ordinal", .str (s "0x" ++ slice p 2 8)), ("blob", .str (p.drop 8))])
    else (jPercent (slice p 2 4)).map fun v => .dict [("relay_demand", v)]
  else if code = s "1060" then do
    pyAssert (len = 3)
    pyAssert (slice p 4 6 = s "00" || slice p 4 6 = s "01")
    let lvl ← if slice p 2 4 = s "00" then pure Json.null else jPercent (slice p 2 4)
    pure (.dict [("battery_low", .bool (p.drop 4 = s "00")), ("battery_level", lvl)])
  else if code = s "10A0" then
    if f.verb = vRQ && len = 1 then .ok (.dict []) else do
      pyAssert (len = 1 || len = 3 || len = 6)
      pyAssert (p.take 2 = s "00" || p.take 2 = s "01")
      let r1 : Dict ← if len ≥ 2 then do
          let sp ← hexToTemp (slice p 2 6)
          -- `setpoint == 255`
          let is255 := match sp with | .num false v => v.eqv ⟨255, 0⟩ | _ => false
          pure [("setpoint", if is255 then Json.null else jsonOfTemp sp)]
        else pure []
      let r2 : Dict ← if len ≥ 4 then
          match ofHex (slice p 6 8) with
          | some n => pure (dictSet r1 "overrun" (.int n))
          | none => throw .valueError
        else pure r1
      let r3 : Dict ← if len ≥ 6 then do
          let d ← jTemp (slice p 8 12)
          pure (dictSet r2 "differential" d)
        else pure r2
      pure (.dict r3)
  else if code = s "1260" then (jTemp (p.drop 2)).map fun t => .dict [("temperature", t)]
  else if code = s "12B0" then do
    pyAssert (p.drop 2 = s "0000" || p.drop 2 = s "C800" || p.drop 2 = s "FFFF")
    let b ← hexToBool (slice p 2 4)
    pure (.dict [("window_open", match b with | none => .null | some x => .bool x)])
  else if code = s "1F09" then do
    pyAssert (len = 3)
    pyAssert (p.take 2 = s "00" || p.take 2 = s "01" || p.take 2 = s "F8" || p.take 2 = s "FF")
    match ofHex (slice p 2 6) with
    | some n => pure (.dict [("remaining_seconds", .num false (divInt n 10))])
    | none => throw .valueError
  else if code = s "2349" then
    if f.verb = vRQ && len ≤ 2 then .ok (.dict []) else do
      pyAssert (len = 7 || len = 13)
      let mode ← match zonMode (slice p 6 8) with | some m => pure m | none => throw .assertionError
      let sp ← jTemp (slice p 2 6)
      let r0 : Dict := [("mode", .str mode), ("setpoint", sp)]
      let r1 : Dict ← if len ≥ 7 then
          if slice p 8 14 = s "FFFFFF" then do
            pyAssert (slice p 6 8 ≠ s "03")
            pure r0
          else do
            pyAssert (slice p 6 8 = s "03")
            match ofHex (slice p 8 14) with
            | some n => pure (dictSet r0 "duration" (.int n))
            | none => throw .valueError
        else pure r0
      let r2 : Dict ← if len ≥ 13 then
          if p.drop 14 = s "FFFFFFFFFFFF" then do
            pyAssert (slice p 6 8 = s "00" || slice p 6 8 = s "02")
            pure (dictSet r1 "until" .null)
          else do
            pyAssert (slice p 6 8 ≠ s "02")
            let u ← jDtm (slice p 14 26)
            pure (dictSet r1 "until" u)
        else pure r1
      pure (.dict r2)
  else match parserB f arr with
    | some r => r
    | none => match parserC f with
      | some r => r
      | none => match parserD f with
        | some r => r
        | none => .error .notImplemented

/-- `str.isnumeric()` on the 3-char seqn -/
def seqnNumeric (q : List Char) : Bool := q ≠ [] && allB uniDigit q

/-- `parse_payload(msg)`: the parser + the `seqx_num` tag -/
def parsePayload (f : Frame) (arr : Bool) : Py Parsed :=
  match parser f arr with
  | .error e => .error e
  | .ok (.dict d) => .ok (.dict (if seqnNumeric f.seqn then dictSet d "seqx_num" (.str f.seqn) else d))
  | .ok r => .ok r

/-- `Message._idx`: the index a dict payload is merged with -/
def msgIdx (f : Frame) (idx : Py Idx) : Py Dict :=
  let c := f.core
  let T (x : String) := x.toList
  if isCode c "31D9" || isCode c "31DA" then
    match idx with
    | .ok (.str i) => .ok [("hvac_id", .str i)]
    | .ok _ => .error .assertionError
    | .error e => .error e
  else match idx with
  | .error e => .error e
  | .ok i =>
    if i = .true_ || i = .false_ || inS Gen.codeIdxAreComplex f.code then .ok []
    else if isCode c "3220" then .ok []
    else
      let types := [f.srcType, f.dstType]
      let istr : List Char := match i with | .str x => x | _ => []
      let inter (l : List String) : Bool := types.any (fun t => l.any (fun x => T x = t))
      if ¬ inter [Gen.devTypeCTL, Gen.devTypeUFC, Gen.devTypeHCW, Gen.devTypeDTS, Gen.devTypeHGI, Gen.devTypeDT2, Gen.devTypePRG] then
        if istr = T "00" then .ok [] else .error .assertionError
      else if f.srcType = f.dstType && ¬ ([Gen.devTypeCTL, Gen.devTypeUFC, Gen.devTypeHCW, Gen.devTypeHGI, Gen.devTypePRG].any (fun x => T x = f.srcType)) then
        if istr = T "00" then .ok [] else .error .assertionError
      else if (isCode c "000A" || isCode c "2309") && f.srcType = T Gen.devTypeUFC then
        .ok [("ufh_idx", .str istr)]
      else
        let idxNames : List (String × String) := [("0002", "other_idx"), ("10A0", "dhw_idx"), ("1260", "dhw_idx"), ("1F41", "dhw_idx"),
          ("22C9", "ufh_idx"), ("2389", "other_idx"), ("2D49", "other_idx"), ("31D9", "hvac_id"), ("31DA", "hvac_id"), ("3220", "msg_id")]
        let dflt := if istr.take 1 = ['F'] then "domain_id" else "zone_idx"
        .ok [((lookupS idxNames f.code).getD dflt, .str istr)]
where
  Frame.dstType (f : Frame) : List Char := f.dst.take 2

/-- `Message._validate` for modelled codes: the decoded payload.  `arr`/`idx` are what
    `pkt._has_array` / `pkt._idx` answer at this point (cached after `repr(pkt)`). -/
def decodeWith (f : Frame) (arr : Bool) (idx : Py Idx) : Py Json :=
  match parsePayload f arr with
  | .error e => .error (fence e)
  | .ok (.list xs) => .ok (.arr (xs.map .obj))
  | .ok (.dict d) =>
    match msgIdx f idx with
    | .error e => .error (fence e)
    | .ok i => .ok (.obj (dictMerge i d))

/-- does evaluating `_pkt_idx` (during `repr(pkt)`, where an AssertionError is swallowed) reach
    `pkt._has_array`?  If not, the parser's own `msg._has_array` is the first access. -/
def idxTouchesArray (c : HCore) : Bool :=
  if isCode c "0005" then false        -- `_ctx` of 0005 / 000C is payload[:4]: `repr(pkt)` never asks for `_idx`
  else if isCode c "0009" && c.srcType = Gen.devTypeOTB.toList then false
  else if isCode c "000C" || isCode c "0404" || isCode c "0418" || isCode c "1100" || isCode c "3220" then false
  else if inS Gen.codeIdxAreComplex c.code then false
  else if inS Gen.codeIdxAreNone c.code then false
  else true

/-- the full decode of a frame for the modelled codes (after the schema checks of `msgValidate`) -/
def decode (f : Frame) : Py Json :=
  let c := f.core
  let idx := (pktIdxWith c (.ok (hasArrayRaw c))).map idxOf
  if idxTouchesArray c then decodeWith f (hasArrayRaw c) idx
  else match hasArrayFirst c with
    | .error e => .error (fence e)
    | .ok a => decodeWith f a idx

end Ramses
