/-
  Ramses.Model.OpenTherm — the parity arithmetic of ramses_tx/opentherm.py (`parity`, the check at the
  head of `decode_frame`) and the request `Command.get_opentherm_data` builds (RQ|3220).
-/
import Ramses.Model.Builders
namespace Ramses.OT
open Ramses

/-- `parity(x)`: `shift = 1; while x >> shift: x ^= x >> shift; shift <<= 1; return x & 1` -/
def parityLoop : Nat → Nat → Nat → Nat
  | 0, x, _ => x % 2
  | fuel + 1, x, sh => if x >>> sh = 0 then x % 2 else parityLoop fuel (x ^^^ (x >>> sh)) (sh * 2)

def parity (x : Nat) : Nat := parityLoop 64 x 1

/-- number of one bits -/
def popcount : Nat → Nat → Nat
  | 0, _ => 0
  | fuel + 1, x => if x = 0 then 0 else x % 2 + popcount fuel (x / 2)

/-- the check at the head of `decode_frame(frame)` (8 hex characters): parity bit, then spare bits -/
def frameCheck (frame : List Char) : Py Unit :=
  if frame.length ≠ 8 then .error .typeError else
  match ofHex (frame.take 2), ofHex frame with
  | some b0, some v =>
    if b0 / 128 ≠ parity (v % 2 ^ 31) then .error .valueError
    else if b0 % 16 ≠ 0 then .error .valueError
    else .ok ()
  | _, _ => .error .valueError

/-- the payload of `get_opentherm_data(otb_id, msg_id)` for an int msg_id -/
def rqPayload (msgId : Nat) : List Char :=
  (if parity msgId = 1 then "0080".toList else "0000".toList) ++ fmtHex 2 msgId ++ "0000".toList

/-- RQ|3220 -/
def getOpenthermData (otb : List Char) (msgId : IdxArg) : Py Frame :=
  match msgId with
  | .int n => if n < 0 then .error .other else fromAttrsDest vRQ otb "3220".toList (rqPayload n.toNat)
  | .str t => match ofHex t with
    | some n => fromAttrsDest vRQ otb "3220".toList (rqPayload n)
    | none => .error .valueError

/-- RQ|0418 -/
def getSystemLogEntry (ctl : List Char) (logIdx : IdxArg) : Py Frame :=
  let n : Py Int := match logIdx with
    | .int n => .ok n
    | .str t => match ofHex t with | some n => .ok (Int.ofNat n) | none => .error .valueError
  match n with
  | .error e => .error e
  | .ok n => if ¬ (0 ≤ n ∧ n ≤ 0x3F) then .error .cmdInvalid else fromAttrsDest vRQ ctl "0418".toList (fmtHex 6 n.toNat)

def schedHeader (zonIdx : List Char) : List Char :=
  if zonIdx = Gen.domFA.toList then "00230008".toList else zonIdx ++ "200008".toList

/-- RQ|0404 (`total_frags`: None is 0) -/
def getScheduleFragment (ctl : List Char) (idx : IdxArg) (fragNumber : Int) (totalFrags : Option Int) : Py Frame := do
  let i ← checkIdx idx
  let tot := totalFrags.getD 0
  if fragNumber = 0 then throw .cmdInvalid
  if fragNumber = 1 && tot ≠ 0 then throw .cmdInvalid
  if fragNumber > tot && tot ≠ 0 then throw .cmdInvalid
  fromAttrsDest vRQ ctl "0404".toList (schedHeader i ++ "00".toList ++ fmtX 2 fragNumber ++ fmtX 2 tot)

/-- W|0404 (`fragment`: hex text) -/
def setScheduleFragment (ctl : List Char) (idx : IdxArg) (fragNum fragCnt : Int) (fragment : List Char) : Py Frame := do
  let i ← checkIdx idx
  if fragNum = 0 then throw .cmdInvalid
  if fragNum > fragCnt then throw .cmdInvalid
  fromAttrsDest vW ctl "0404".toList (schedHeader i ++ fmtHex 2 (fragment.length / 2) ++ fmtX 2 fragNum ++ fmtX 2 fragCnt ++ fragment)

end Ramses.OT
