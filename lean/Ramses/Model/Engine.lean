/-
  Ramses.Model.Engine — Engine._pause / _resume (ramses_tx/gateway.py), Gateway._pause / _resume,
  Gateway.get_state and Gateway._restore_cached_packets (ramses_rf/gateway.py), as far as the
  *running state* of the engine goes: is a message handler installed, is sending enabled, is the
  transport reading, is discovery enabled, is the engine marked paused.

  What the snapshot filter / the restore reader compute is abstracted to one bit: did it raise?
-/
namespace Ramses.Eng

structure Saved where
  handler : Bool
  readOnly : Bool
  discFlag : Bool
  deriving DecidableEq, Repr

structure Eng where
  saved : Option Saved        -- `_engine_state` (none = not paused)
  handler : Bool              -- `_protocol._msg_handler is not None`
  disableSending : Bool       -- `_disable_sending`
  disableDiscovery : Bool     -- `config.disable_discovery`
  reading : Bool              -- `_transport.is_reading()`
  writePaused : Bool          -- `_protocol._pause_writing`
  locked : Bool := false      -- `_engine_lock.locked()` (a non-reentrant threading.Lock; free at rest)
  deriving DecidableEq, Repr

inductive Res where
  | ok
  | runtimeError              -- "already paused" / "was not paused"
  | raised                    -- the exception of the operation itself
  deriving DecidableEq, Repr

/-- `Gateway._pause()` (which wraps `Engine._pause(disc_flag)`) -/
def pause (e : Eng) : Eng × Res :=
  if e.locked then (e, .runtimeError) else   -- `acquire(blocking=False)` fails: "failed to acquire lock"
  match e.saved with
  | some _ => (e, .runtimeError)         -- the lock is released again before raising "already paused";
                                         -- the discovery flag is put back by the `except RuntimeError`
  | none =>
    ({ saved := some ⟨e.handler, e.disableSending, e.disableDiscovery⟩,
       handler := false, disableSending := true, disableDiscovery := true,
       reading := false, writePaused := true, locked := false }, .ok)

/-- `Gateway._resume()` -/
def resume (e : Eng) : Eng × Res :=
  if e.locked then (e, .runtimeError) else   -- `acquire(timeout=0.1)` fails: "failed to acquire lock"
  match e.saved with
  | none => (e, .runtimeError)
  | some s =>
    ({ saved := none, handler := s.handler, disableSending := s.readOnly, disableDiscovery := s.discFlag,
       reading := true, writePaused := if s.readOnly then e.writePaused else false, locked := false }, .ok)

/-- `get_state()` / `_restore_cached_packets()`: pause; the body (which may raise); resume **in a
    `finally`** -/
def guarded (bodyRaises : Bool) (e : Eng) : Eng × Res :=
  match pause e with
  | (e', .ok) =>
    let (e'', _) := resume e'
    (e'', if bodyRaises then .raised else .ok)
  | (e', r) => (e', r)

/-- the same operation as the code stood before the repair: no `finally` -/
def unguarded (bodyRaises : Bool) (e : Eng) : Eng × Res :=
  match pause e with
  | (e', .ok) => if bodyRaises then (e', .raised) else ((resume e').1, .ok)
  | (e', r) => (e', r)

/-- a running engine with sending enabled -/
def Running (e : Eng) : Prop :=
  e.saved = none ∧ e.handler = true ∧ e.reading = true ∧ (e.disableSending = false → e.writePaused = false) ∧
  e.locked = false

def runOps (e : Eng) : List Bool → Eng
  | [] => e
  | b :: bs => runOps (guarded b e).1 bs

/-- an operation during which other snapshot / restore attempts are made (a state-saver task
    running while `_restore_cached_packets` awaits its reader): pause; the nested attempts, each
    refused; the body; resume -/
def guardedWithNested (bodyRaises : Bool) (nested : List Bool) (e : Eng) : Eng × Res × List Res :=
  match pause e with
  | (e', .ok) =>
    let (e2, rs) := nested.foldl (fun (acc : Eng × List Res) b =>
        let (x, r) := guarded b acc.1
        (x, acc.2 ++ [r])) (e', [])
    let (e3, r3) := resume e2
    (e3, (if r3 = .ok then (if bodyRaises then .raised else .ok) else r3), rs)
  | (e', r) => (e', r, [])

end Ramses.Eng
