/-
  Ramses.Model.Engine — Engine._pause / _resume (ramses_tx/gateway.py), Gateway._pause / _resume,
  Gateway.get_state and Gateway._restore_cached_packets (ramses_rf/gateway.py), as far as the
  *running state* of the engine goes: is a message handler installed, is sending enabled, is the
  transport reading, is discovery enabled, is the engine marked paused.

  What the snapshot filter / the restore reader compute is abstracted to one bit: did it raise?
-/
namespace Ramses.Eng

structure Saved where
  handler : Bool
  readOnly : Bool
  discFlag : Bool
  deriving DecidableEq, Repr

structure Eng where
  saved : Option Saved        -- `_engine_state` (none = not paused)
  handler : Bool              -- `_protocol._msg_handler is not None`
  disableSending : Bool       -- `_disable_sending`
  disableDiscovery : Bool     -- `config.disable_discovery`
  reading : Bool              -- `_transport.is_reading()`
  writePaused : Bool          -- `_protocol._pause_writing`
  deriving DecidableEq, Repr

inductive Res where
  | ok
  | runtimeError              -- "already paused" / "was not paused"
  | raised                    -- the exception of the operation itself
  deriving DecidableEq, Repr

/-- `Gateway._pause()` (which wraps `Engine._pause(disc_flag)`) -/
def pause (e : Eng) : Eng × Res :=
  match e.saved with
  | some _ => (e, .runtimeError)         -- discovery flag is put back by the `except RuntimeError`
  | none =>
    ({ saved := some ⟨e.handler, e.disableSending, e.disableDiscovery⟩,
       handler := false, disableSending := true, disableDiscovery := true,
       reading := false, writePaused := true }, .ok)

/-- `Gateway._resume()` -/
def resume (e : Eng) : Eng × Res :=
  match e.saved with
  | none => (e, .runtimeError)
  | some s =>
    ({ saved := none, handler := s.handler, disableSending := s.readOnly, disableDiscovery := s.discFlag,
       reading := true, writePaused := if s.readOnly then e.writePaused else false }, .ok)

/-- `get_state()` / `_restore_cached_packets()`: pause; the body (which may raise); resume **in a
    `finally`** -/
def guarded (bodyRaises : Bool) (e : Eng) : Eng × Res :=
  match pause e with
  | (e', .ok) =>
    let (e'', _) := resume e'
    (e'', if bodyRaises then .raised else .ok)
  | (e', r) => (e', r)

/-- the same operation as the code stood before the repair: no `finally` -/
def unguarded (bodyRaises : Bool) (e : Eng) : Eng × Res :=
  match pause e with
  | (e', .ok) => if bodyRaises then (e', .raised) else ((resume e').1, .ok)
  | (e', r) => (e', r)

/-- a running engine with sending enabled -/
def Running (e : Eng) : Prop :=
  e.saved = none ∧ e.handler = true ∧ e.reading = true ∧ (e.disableSending = false → e.writePaused = false)

def runOps (e : Eng) : List Bool → Eng
  | [] => e
  | b :: bs => runOps (guarded b e).1 bs

end Ramses.Eng
