/-
  Ramses.Model.Bind — the binding state machine of one device (ramses_rf/binding_fsm.py): the ten
  state classes with their MRO-resolved `rcvd_msg` / `send_cmd`, the per-state future, the wait
  (`_wait_for_fut_result`), the wait-timeout / state-timer handler and the failure clean-up.

  A packet is abstracted to its phase (`is_phase`) and to whether it is the echo of the state's own
  command; time is abstracted to *which* timer fires — the theorems hold for every order of events.
-/
namespace Ramses.Bind

inductive Phase where
  | offer | accept | confirm | addenda | other
  deriving DecidableEq, Repr

inductive S where
  | notBinding | failed | respBound | suppBound
  | respWaitOffer | respSendAcceptWaitConfirm | respWaitAddenda
  | suppSendOfferWaitAccept | suppReadyConfirm | suppReadyAddenda
  deriving DecidableEq, Repr

inductive Fut where
  | pending | result | failed
  deriving DecidableEq, Repr

/-- what a raising call raised -/
inductive Exn where
  | invalidState         -- asyncio.InvalidStateError
  | notImplemented
  | bindingFsmError
  | bindingFlowFailed
  deriving DecidableEq, Repr

structure Ctx where
  st : S
  fut : Fut
  hasCmd : Bool          -- `_cmd` recorded (first matching command sent)
  sent : Nat             -- `_cmds_sent`
  timer : Bool           -- the state's own 5.1 s timer is pending
  deriving DecidableEq, Repr

def S.isBinding : S → Bool
  | .notBinding | .failed | .respBound | .suppBound => false
  | _ => true

/-- the packet phase a state waits for (`_expected_pkt_phase`) -/
def S.pktPhase : S → Option Phase
  | .respWaitOffer => some .offer
  | .respWaitAddenda => some .addenda
  | .respSendAcceptWaitConfirm => some .confirm
  | .suppSendOfferWaitAccept => some .accept
  | _ => none

/-- the command phase a state sends (`_expected_cmd_phase`) -/
def S.cmdPhase : S → Option Phase
  | .respSendAcceptWaitConfirm => some .accept
  | .suppSendOfferWaitAccept => some .offer
  | .suppReadyConfirm => some .confirm
  | .suppReadyAddenda => some .addenda
  | _ => none

/-- `_next_ctx_state` -/
def S.next : S → S
  | .respWaitOffer => .respSendAcceptWaitConfirm
  | .respSendAcceptWaitConfirm => .respBound
  | .respWaitAddenda => .respBound
  | .suppSendOfferWaitAccept => .suppReadyConfirm
  | .suppReadyConfirm => .suppBound
  | .suppReadyAddenda => .suppBound
  | s => s

/-- states built on `_DevIsWaitingForMsg` own a 5.1 s timer -/
def S.hasTimer : S → Bool
  | .respWaitOffer | .respWaitAddenda | .respSendAcceptWaitConfirm | .suppSendOfferWaitAccept => true
  | _ => false

/-- `context.set_state(cls)`: a fresh state object -/
def enter (s : S) : Ctx := ⟨s, .pending, false, 0, s.hasTimer⟩

/-- `state.rcvd_msg(msg)` (only called while binding) -/
def rcvd (c : Ctx) (ph : Phase) (isEcho : Bool) : Ctx :=
  match c.st.pktPhase with
  | some want => if ph = want ∧ c.fut = .pending then { c with fut := .result } else c
  | none =>
    match c.st.cmdPhase with
    | some _ => if c.hasCmd ∧ isEcho ∧ c.fut = .pending then { c with fut := .result } else c
    | none => c

/-- `_handle_wait_timer_expired` / `_retries_exceeded`: fail the future, go to DevHasFailedBinding -/
def failNow (c : Ctx) : Ctx × Option Exn :=
  if c.fut = .pending then (⟨.failed, .failed, false, 0, false⟩, none) else (c, none)

/-- `state.send_cmd(cmd)` (only called while binding) -/
def sentCmd (c : Ctx) (ph : Phase) : Ctx × Option Exn :=
  match c.st.cmdPhase with
  | none => (c, some .notImplemented)            -- BindStateBase.send_cmd
  | some want =>
    if ph ≠ want then (c, none)
    else if c.sent > 0 then
      -- `_retries_exceeded`: set_exception on the state's future (raises if it is already done)
      if c.fut = .pending then (⟨.failed, .failed, false, 0, false⟩, none) else (c, some .invalidState)
    else ({ c with sent := c.sent + 1, hasCmd := true }, none)

/-- the end of `_wait_for_fut_result(timeout)`: `timedOut` = wait_for raised TimeoutError.
    Result: new context, and what the caller gets (`none` = the message). -/
def waitEnd (c : Ctx) (timedOut : Bool) : Ctx × Option Exn :=
  let c1 := if timedOut then (failNow c).1 else c
  match c1.fut with
  | .result => (enter c.st.next, none)            -- the state's timer is cancelled by `_set_context_state`
  | .failed => (c1, some .bindingFlowFailed)
  | .pending => (c1, some .invalidState)          -- cannot happen: wait_for only returns when the future is done

/-- the state's own timer fires (`_handle_wait_timer_expired(5.1)`) on the current state object -/
def stateTimer (c : Ctx) : Ctx := if c.timer then (failNow { c with timer := false }).1 else c

/-- `_binding_has_failed`: an attempt ended with an exception -/
def abandon (c : Ctx) : Ctx := if c.st.isBinding then enter .failed else c

/-- the code as it stood before the repair: `wait_for` had cancelled the future, so failing it raised -/
def waitEndUnfixed (c : Ctx) (timedOut : Bool) : Ctx × Option Exn :=
  if timedOut then (c, some .invalidState)        -- state unchanged: still binding
  else waitEnd c false

/-! ## events, for trace validation and for the theorems -/

inductive Ev where
  | enter (s : S)
  | rcvd (ph : Phase) (isEcho : Bool)
  | sent (ph : Phase)
  | waitEnd (timedOut : Bool)
  | stateTimer
  | abandon
  deriving DecidableEq, Repr

def step (c : Ctx) : Ev → Ctx
  | .enter s => enter s
  | .rcvd ph e => if c.st.isBinding then rcvd c ph e else c
  | .sent ph => if c.st.isBinding then (sentCmd c ph).1 else c
  | .waitEnd t => (waitEnd c t).1
  | .stateTimer => stateTimer c
  | .abandon => abandon c

def run (c : Ctx) (evs : List Ev) : Ctx := evs.foldl step c

end Ramses.Bind
