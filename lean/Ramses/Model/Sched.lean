/-
  Ramses.Model.Sched — ramses_rf/system/schedule.py: `_struct_pack` / `_struct_unpack`,
  `full_sched_to_fragz` / `fragz_to_full_sched`, and the fragment re-assembly of
  `Schedule._update_payload_set`.

  zlib is abstract: a pair (compress, decompress) of which only
  `decompress (compress b) = some b` is assumed (a hypothesis of the theorems, never an axiom).
-/
import Ramses.Model.Codec
namespace Ramses

/-- a switchpoint: minutes since midnight + the packed 16-bit value (hundredths of a degree, or
    0/1 for a hot-water on/off state) -/
structure SwitchPoint where
  tod : Nat
  val : Nat
  deriving DecidableEq, Repr

structure Day where
  dow : Nat
  sps : List SwitchPoint
  deriving DecidableEq, Repr

structure Sched where
  idx : Nat
  days : List Day
  deriving DecidableEq, Repr

/-- `int(round(setpoint * 100))` for a (non-negative) float setpoint -/
def packSetpoint (x : Dy) : Nat := (x.mulInt 100).roundHalfEven

/-- `struct.pack("<xxxxBxxxBxxxHxxHxx", idx, dow, tod, val)` — 20 bytes, little-endian -/
def structPack (idx dow tod val : Nat) : List Nat :=
  [0, 0, 0, 0, idx % 256, 0, 0, 0, dow % 256, 0, 0, 0, tod % 256, tod / 256 % 256, 0, 0,
   val % 256, val / 256 % 256, 0, 0]

/-- `struct.unpack("<xxxxBxxxBxxxHxxHH", raw)`; `none` for a record that is not 20 bytes -/
def structUnpack (r : List Nat) : Option (Nat × Nat × Nat × Nat) :=
  match r with
  | [_, _, _, _, idx, _, _, _, dow, _, _, _, t0, t1, _, _, v0, v1, _, _] =>
    some (idx, dow, t0 + 256 * t1, v0 + 256 * v1)
  | _ => none

/-- all records of a schedule, in order -/
def records (s : Sched) : List (List Nat) :=
  s.days.flatMap (fun d => d.sps.map (fun sp => structPack s.idx d.dow sp.tod sp.val))

/-- cut a list into pieces of `k` (the last may be shorter) -/
def cutEvery (k : Nat) (l : List α) : List (List α) :=
  if k = 0 then [] else
  let rec go : Nat → List α → List (List α)
    | 0, _ => []
    | fuel + 1, q => if q = [] then [] else q.take k :: go fuel (q.drop k)
  go (l.length + 1) l

def hexOfBytes (bs : List Nat) : List Char := bs.flatMap (fun b => toHexW 2 b)

structure Zlib where
  compress : List Nat → List Nat
  decompress : List Nat → Option (List Nat)

/-- `full_sched_to_fragz` -/
def toFragz (z : Zlib) (s : Sched) : List (List Char) :=
  cutEvery 82 (hexOfBytes (z.compress (records s).flatten))

/-- the regrouping loop of `fragz_to_full_sched` over unpacked records:
    state = (finished days, current day number, current switchpoints (reversed)) -/
def regroupStep (st : List Day × Nat × List SwitchPoint) (r : Nat × Nat × Nat × Nat) :
    List Day × Nat × List SwitchPoint :=
  let (_, dow, tod, val) := r
  if dow > st.2.1 then (st.1 ++ [⟨st.2.1, st.2.2.reverse⟩], dow, [⟨tod, val⟩])
  else (st.1, st.2.1, ⟨tod, val⟩ :: st.2.2)

def regroup (rs : List (Nat × Nat × Nat × Nat)) : List Day :=
  let st := rs.foldl regroupStep ([], 0, [])
  st.1 ++ [⟨st.2.1, st.2.2.reverse⟩]

def unpackAll (raw : List Nat) : Option (List (Nat × Nat × Nat × Nat)) :=
  (cutEvery 20 raw).mapM structUnpack

/-- `fragz_to_full_sched` on the decompressed bytes -/
def schedOfRaw (raw : List Nat) : Option Sched :=
  match unpackAll raw with
  | none => none
  | some [] => none            -- `idx` would be unbound (UnboundLocalError)
  | some rs => some ⟨(rs.getLast?.map (·.1)).getD 0, regroup rs⟩

def bytesOfHexChars (s : List Char) : Option (List Nat) := bytesOfHex s

/-- `fragz_to_full_sched(fragments)` -/
def fromFragz (z : Zlib) (frags : List (List Char)) : Option Sched :=
  match bytesOfHexChars frags.flatten with
  | none => none
  | some bs => match z.decompress bs with
    | none => none
    | some raw => schedOfRaw raw

/-- the schedules the property quantifies over: days 0..6 in order, each with ≥ 1 switchpoint,
    all fields within their wire width -/
def Sched.WF (s : Sched) : Bool :=
  s.idx < 256 && s.days.map (·.dow) = [0, 1, 2, 3, 4, 5, 6] &&
  s.days.all (fun d => !d.sps.isEmpty && d.sps.all (fun sp => sp.tod < 65536 && sp.val < 65536))

/-! ### fragment re-assembly (`Schedule._update_payload_set`) -/

/-- a received 0404 payload: fragment number (1-based), total, fragment text -/
structure FragMsg where
  num : Nat
  total : Nat
  frag : List Char
  deriving DecidableEq, Repr

abbrev PayloadSet := List (Option FragMsg)

def initSet (p : FragMsg) : PayloadSet :=
  (List.replicate p.total none).set (p.num - 1) (some p)

/-- one `_update_payload_set` step; the second component is the schedule set by
    `_proc_payload_set`, if this step produced one -/
def updateSet (z : Zlib) (set : PayloadSet) (p : FragMsg) : PayloadSet × Option Sched :=
  if p.total ≠ set.length then (initSet p, none)
  else
    let set' := set.set (p.num - 1) (some p)
    if set'.any (·.isNone) then (set', none)
    else match fromFragz z (set'.filterMap (fun x => x.map (·.frag))) with
      | some s => (set', some s)
      | none => (initSet p, none)

/-- `Schedule._handle_msg` for an RP|0404 that carries a fragment (the passive path): the set held is
    updated, and the schedule held (`_full_schedule`) is replaced when - and only when - this step
    decoded one -/
def feedMsg (z : Zlib) (st : PayloadSet × Option Sched) (p : FragMsg) : PayloadSet × Option Sched :=
  let r := updateSet z st.1 p
  (r.1, match r.2 with
        | some s => some s
        | none => st.2)

end Ramses
