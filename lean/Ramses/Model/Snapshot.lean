/-
  Ramses.Model.Snapshot — Gateway.get_state's packet filter and the store it reads, as far as the
  snapshot -> restore -> snapshot cycle goes (ramses_rf/gateway.py get_state / _restore_cached_packets,
  ramses_rf/entity_base.py `_MessageDB._handle_msg`).

  The entity stores are *last-write-wins per slot*: `_msgs_[code]`, `_msgz_[code][verb][ctx]` of the
  source device, of the destination device, of the system, of each zone the packet is routed to.
  Which slots a packet lands in is the parameter `route`; a restore into a gateway built from the
  reported schema replays the saved packets in timestamp order through the same handler.
-/
namespace Ramses.Snap

/-- a packet as far as the snapshot logic goes -/
structure P where
  stamp : Nat          -- dtm (µs): the key of the snapshot dict
  verb : String
  code : String
  len : Nat            -- payload length in bytes
  expired : Bool       -- `msg._expired` at the time of the snapshot
  deriving DecidableEq, Repr

/-- `wanted_msg(msg, include_expired)` of `Gateway.get_state`, clause by clause -/
def wanted (includeExpired : Bool) (p : P) : Bool :=
  if p.code = "313F" then p.verb = " I" || p.verb = "RP"
  else if p.expired && !includeExpired then false
  else if p.code = "0404" then (p.verb = " I" || p.verb = " W") && decide (p.len > 7)
  else if p.verb = " W" || p.verb = "RQ" then false
  else includeExpired || !p.expired

variable {K : Type} [DecidableEq K]

/-- the packet left in slot `k` after the history `h`: the last one routed there -/
def final (route : P → List K) (h : List P) (k : K) : Option P :=
  (h.filter (fun p => decide (k ∈ route p))).getLast?

/-- is `p` still held somewhere after `h`? -/
def heldIn (route : P → List K) (h : List P) (p : P) : Bool :=
  (route p).any (fun k => decide (final route h k = some p))

/-- the snapshot of a gateway that has processed `h` (chronological): the held packets that pass
    the filter, in timestamp order (`dict(sorted(pkts.items()))`) -/
def snapOf (route : P → List K) (inc : Bool) (h : List P) : List P :=
  h.filter (fun p => wanted inc p && heldIn route h p)

/-! an executable slot store, to tie `final` to the assignment the code performs -/

abbrev Store (K : Type) := List (K × P)

def assign (s : Store K) (k : K) (p : P) : Store K := (k, p) :: s.filter (fun e => e.1 != k)

def handle (route : P → List K) (s : Store K) (p : P) : Store K := (route p).foldl (fun s k => assign s k p) s

def slot (s : Store K) (k : K) : Option P := (s.find? (fun e => e.1 = k)).map (·.2)

end Ramses.Snap
