/-
  Ramses.Model.SchedXfer — fetching a zone's schedule (ramses_rf/system/schedule.py
  `Schedule._get_schedule`, `_update_payload_set`; ramses_rf/system/heat.py `_obtain_lock`,
  `_release_lock`): the per-system lock, the fragment loop and its re-assembly, under faults.

  One exchange with the controller either yields a reply, fails (the send raised: no reply after the
  retries) or is where the caller's overall timeout cancels the transfer.  A reply carries the
  fragment `num` of `total` of whatever version `ver` the controller holds at that moment.

  The one assumption about zlib is explicit in `decodes`: a complete fragment set yields a schedule
  iff all its fragments belong to one version (adler-32 protected stream; C17 treats the same
  assumption; monitored on every run).
-/
namespace Ramses.Xfer

structure Frag where
  ver : Nat
  num : Nat          -- 1-based
  total : Nat
  deriving DecidableEq, Repr

abbrev PSet := List (Option Frag)

def initSet (f : Frag) : PSet := (List.replicate f.total none).set (f.num - 1) (some f)

/-- `_proc_payload_set` on a complete set: the version it decodes to, if it does -/
def decodes (fs : List Frag) : Option Nat :=
  match fs with
  | [] => none
  | f :: _ => if fs.all (fun g => g.ver = f.ver) then some f.ver else none

/-- one `_update_payload_set(set, payload)`: new set and the schedule (version) it produced, if any -/
def updateSet (set : PSet) (f : Frag) : PSet × Option Nat :=
  if f.total ≠ set.length then (initSet f, none)
  else
    let set' := set.set (f.num - 1) (some f)
    if set'.any (·.isNone) then (set', none)
    else match decodes (set'.filterMap id) with
      | some v => (set', some v)
      | none => (initSet f, none)

inductive Exch where
  | reply (f : Frag)
  | fail               -- async_send_cmd raised (e.g. ProtocolSendFailed: no reply after the retries)
  | cancel             -- the caller's wait_for(timeout) cancelled the coroutine at this await
  deriving DecidableEq, Repr

inductive Result where
  | sched (ver : Nat)
  | error
  | cancelled
  | lockTimeout
  deriving DecidableEq, Repr

/-- the fragment loop: consume exchanges until a schedule is produced, one fails, the caller gives up,
    or (end of the list) the caller's timeout strikes -/
def fragLoop (set : PSet) : List Exch → PSet × Result
  | [] => (set, .cancelled)
  | .fail :: _ => (set, .error)
  | .cancel :: _ => (set, .cancelled)
  | .reply f :: rest =>
    match updateSet set f with
    | (set', some v) => (set', .sched v)
    | (set', none) => fragLoop set' rest

structure Tcs where
  lockIdx : Option String      -- `zone_lock_idx`
  deriving DecidableEq, Repr

/-- `_obtain_lock(idx)`: granted at once when free (or already ours); otherwise the holder decides
    (`otherReleases`): granted later, or TimeoutError after 3 minutes -/
def obtain (t : Tcs) (z : String) (otherReleases : Bool) : Tcs × Bool :=
  match t.lockIdx with
  | none => (⟨some z⟩, true)
  | some o => if o = z ∨ otherReleases then (⟨some z⟩, true) else (t, false)

/-- `_get_schedule` once a fetch is needed.  `finallyRelease` = the lock is released in a `finally`
    (the repaired code); without it only the normal end of the loop releases it. -/
def getSchedule (finallyRelease : Bool) (t : Tcs) (z : String) (otherReleases : Bool)
    (verExch : Exch) (set : PSet) (frags : List Exch) : Tcs × PSet × Result :=
  match obtain t z otherReleases with
  | (t1, false) => (t1, set, .lockTimeout)
  | (t1, true) =>
    let after (r : Result) (set' : PSet) : Tcs × PSet × Result :=
      match r with
      | .sched v => (⟨none⟩, set', .sched v)
      | r => (if finallyRelease then ⟨none⟩ else t1, set', r)
    match verExch with
    | .fail => after .error set
    | .cancel => after .cancelled set
    | .reply _ =>
      let set0 := set.set 0 none            -- `self._payload_set[0] = None`
      let (set', r) := fragLoop set0 frags
      after r set'

/-! ### writing a schedule (`Schedule.set_schedule`) -/

/-- what the zone object holds: the schedule it believes (a tag) and the change counter it is labelled with -/
structure Cache where
  sched : Option Nat
  ver : Nat
  deriving DecidableEq, Repr

/-- one `W|0404` fragment exchange: acknowledged, failed (no ack after the retries), or cancelled by the caller -/
inductive WExch where
  | ack | fail | cancel
  deriving DecidableEq, Repr

/-- the fragment writes, in order: `none` when all were acknowledged -/
def writeLoop : List WExch → Option Result
  | [] => none
  | .ack :: rest => writeLoop rest
  | .fail :: _ => some .error
  | .cancel :: _ => some .cancelled

/-- `set_schedule(new)`: obtain the lock; write every fragment; then read the change counter; release the lock in a
    `finally`; only then does the zone take the new schedule as its own, labelled with the counter just read.
    `cacheEarly` = the (seeded) variant that stores the new schedule before anything is written. -/
def setSchedule (cacheEarly : Bool) (t : Tcs) (z : String) (otherReleases : Bool) (cache : Cache) (new : Nat)
    (frags : List WExch) (verExch : Exch) : Tcs × Cache × Result :=
  let cache0 : Cache := if cacheEarly then { cache with sched := some new } else cache
  match obtain t z otherReleases with
  | (t1, false) => (t1, cache0, .lockTimeout)
  | (_, true) =>
    match writeLoop frags with
    | some r => (⟨none⟩, cache0, r)
    | none =>
      match verExch with
      | .fail => (⟨none⟩, cache0, .error)
      | .cancel => (⟨none⟩, cache0, .cancelled)
      | .reply f => (⟨none⟩, ⟨some new, f.ver⟩, .sched f.ver)

end Ramses.Xfer
