/-
  Ramses.Model.Limiter — transmit regulation (ramses_tx/transport.py):

  * `limit_duty_cycle` — the bit bucket in front of `PortTransport.write_frame`
      refill  `min(bits + elapsed * FILL_RATE, BUCKET_CAPACITY)`; debit the frame *at admission*;
      `sleep(-bits / FILL_RATE)` when in debt; then the write.
  * `_leak_sem` / `_leaker_sem` — a bounded semaphore (1) released every MIN_INTER_WRITE_GAP,
      acquired (FIFO) before every write.
  * `MqttTransport.write_frame` — token bucket with drop-if-would-sleep-a-second, a one-off double
      allowance (`_max_tokens`) and a debt sleep.

  Units (all integers, so the model is exact and `omega` can reason about it):
    time  : nanoseconds (Nat)
    level : nano-bits, i.e. bits * 10^9 (Int; negative = debt).  With `R` in bits/s, a refill over
            `d` ns adds `d * R` nano-bits, and a debt of `x` nano-bits is repaid after `x / R` ns.
    MQTT  : 1 token = `W * 10^9` units where the allowance is `M` tokens per `W` seconds; a refill
            over `d` ns adds `d * M` units and a debt of `x` units is repaid after `x / M` ns.
-/
namespace Ramses.Lim

/-! ## the duty-cycle bit bucket -/

structure Bucket where
  lvl : Int          -- bits_in_bucket (nano-bits)
  last : Nat         -- last_time_bit_added (ns)
  deriving Repr, DecidableEq

/-- `rf_frame_size = 330 + len(frame[46:]) * 10` (bits); `n` = number of payload characters -/
def frameBits (payloadChars : Nat) : Nat := 330 + payloadChars * 10

def nano : Nat := 1000000000

/-- top-up at time `t` -/
def refill (R C : Nat) (b : Bucket) (t : Nat) : Int :=
  min (b.lvl + (((t - b.last : Nat) : Int)) * (R : Int)) (C : Int)

/-- one call of the wrapper at time `t` for a frame of `z` nano-bits: top-up, debit -/
def debit (R C : Nat) (b : Bucket) (t z : Nat) : Bucket :=
  ⟨refill R C b t - (z : Int), t⟩

/-- debt right after an admission (nano-bits, ≥ 0) -/
def debt (b : Bucket) : Nat := (-b.lvl).toNat

/-- earliest time of the write, multiplied by `R` (so it stays an integer):
    `t + debt / R`  <->  `t * R + debt` -/
def dueR (R : Nat) (b : Bucket) : Nat := b.last * R + debt b

/-- the wait in whole ns, rounded down (what the driver prints; compared with 1 µs tolerance) -/
def waitNs (R : Nat) (b : Bucket) : Nat := debt b / R

/-- one request as observed: admission time, size, time of the write -/
structure Req where
  t : Nat
  z : Nat
  w : Nat
  deriving Repr, DecidableEq

def admitAll (R C : Nat) (b : Bucket) (rs : List Req) : Bucket :=
  rs.foldl (fun b r => debit R C b r.t r.z) b

/-- a history is *timely* for the bucket when admissions are in time order and no write happens
    before its bucket wait is over (`w ≥ t + debt/R`).  Writes may be arbitrarily later. -/
def Timely (R C : Nat) (b : Bucket) : List Req → Prop
  | [] => True
  | r :: rs => b.last ≤ r.t ∧ dueR R (debit R C b r.t r.z) ≤ r.w * R ∧ Timely R C (debit R C b r.t r.z) rs

def sumZ (rs : List Req) : Nat := (rs.map (·.z)).sum

/-- the requests written in the window `(s, e]` -/
def inWindow (s e : Nat) (r : Req) : Bool := decide (s < r.w) && decide (r.w ≤ e)

/-- requests admitted at or before `s` but not written until after `s` -/
def pendingAt (s : Nat) (r : Req) : Bool := decide (r.t ≤ s) && decide (s < r.w)

/-- due times (×R) of a whole history, in admission order -/
def dues (R C : Nat) (b : Bucket) : List Req → List Nat
  | [] => []
  | r :: rs => dueR R (debit R C b r.t r.z) :: dues R C (debit R C b r.t r.z) rs

/-! ## the leaker semaphore (`asyncio.BoundedSemaphore()` + `_leak_sem`) -/

inductive SemEv where
  | tick                 -- `_leaker_sem.release()` (ValueError at the bound is suppressed)
  | arrive (id : Nat)    -- a writer reaches `await self._leaker_sem.acquire()`
  deriving Repr, DecidableEq

structure Sem where
  tok : Bool             -- `_value == 1`
  q : List Nat           -- waiters, FIFO
  out : List Nat         -- writers that acquired, in order (each then writes at once)
  deriving Repr, DecidableEq

def Sem.init : Sem := ⟨true, [], []⟩

/-- CPython 3.12 `Semaphore`: `acquire` takes the value only when it is free **and nobody is
    waiting**; `release` hands the value straight to the first waiter (`_wake_up_next`). -/
def semStep (s : Sem) : SemEv → Sem
  | .tick => match s.q with
    | [] => { s with tok := true }
    | id :: q' => { s with q := q', out := s.out ++ [id] }
  | .arrive id =>
    if s.tok && s.q.isEmpty then { s with tok := false, out := s.out ++ [id] }
    else { s with q := s.q ++ [id] }

def semRun (s : Sem) (evs : List SemEv) : Sem := evs.foldl semStep s

def arrivals : List SemEv → List Nat
  | [] => []
  | .tick :: es => arrivals es
  | .arrive id :: es => id :: arrivals es

def ticks : List SemEv → Nat
  | [] => 0
  | .tick :: es => ticks es + 1
  | .arrive _ :: es => ticks es

/-! ## the MQTT token bucket -/

structure Tok where
  n : Int            -- _num_tokens   (units: token * W * 10^9)
  mx : Int           -- _max_tokens
  stamp : Nat        -- _timestamp (ns)
  deriving Repr, DecidableEq

def tokUnit (W : Nat) : Int := (W : Int) * (nano : Int)

def Tok.init (M W : Nat) (t0 : Nat) : Tok := ⟨2 * (M : Int) * tokUnit W, 2 * (M : Int) * tokUnit W, t0⟩

inductive MqOut where
  | dropped
  | written (waitU : Nat)     -- the debt in units; the sleep is `waitU / M` ns (0 = no sleep)
  deriving Repr, DecidableEq

/-- `MqttTransport.write_frame(frame, disable_tx_limits=force)` at time `t` -/
def mqOffer (M W : Nat) (k : Tok) (t : Nat) (force : Bool) : Tok × MqOut :=
  let n1 := min (k.n + (((t - k.stamp : Nat) : Int)) * (M : Int)) k.mx
  if n1 < tokUnit W - (M : Int) * (nano : Int) ∧ force = false then (⟨n1, k.mx, t⟩, .dropped)
  else
    let n2 := n1 - tokUnit W
    let mx' := if k.mx > (M : Int) * tokUnit W then max (min k.mx n2) ((M : Int) * tokUnit W) else k.mx
    (⟨n2, mx', t⟩, .written (if n2 < 0 ∧ force = false then (-n2).toNat else 0))

/-- an observed MQTT request: offered at `t`, forced or not, written at `w` (ignored when dropped) -/
structure MReq where
  t : Nat
  force : Bool
  w : Nat
  deriving Repr, DecidableEq

/-- fold a history; `MTimely` says: time-ordered, and a written non-forced request is not written
    before its debt sleep is over -/
def mqAll (M W : Nat) (k : Tok) : List MReq → Tok
  | [] => k
  | r :: rs => mqAll M W (mqOffer M W k r.t r.force).1 rs

def MTimely (M W : Nat) (k : Tok) : List MReq → Prop
  | [] => True
  | r :: rs => k.stamp ≤ r.t ∧
      (match (mqOffer M W k r.t r.force).2 with
        | .dropped => True
        | .written u => r.t * M + u ≤ r.w * M) ∧
      MTimely M W (mqOffer M W k r.t r.force).1 rs

/-- the non-forced requests that were written in `(s, e]` -/
def mqWritten (M W : Nat) (k : Tok) (s e : Nat) : List MReq → Nat
  | [] => 0
  | r :: rs =>
    (match (mqOffer M W k r.t r.force).2 with
      | .dropped => 0
      | .written _ => if r.force = false ∧ s < r.t ∧ r.w ≤ e then 1 else 0)
    + mqWritten M W (mqOffer M W k r.t r.force).1 s e rs

end Ramses.Lim
