/-
  Ramses.Model.Qos — the QoS send machine of ramses_tx/protocol_fsm.py (ProtocolContext +
  its four states) as a timed transition system over *macro-steps*: every callback the real
  code defers with call_soon (effect_state, _check_buffer_for_cmd, the write task) is taken
  atomically with the transition that scheduled it.  Interleavings *between* a transition and
  its deferred effect are explored on the implementation only (harness/qos.py).

  Times are natural numbers of microseconds.  Commands are identified by the number of the
  call that queued them (each call is a fresh command object).
-/
import Ramses.Gen.Tables
namespace Ramses.Qos

inductive St where
  | inactive | idle | wantEcho | wantRply
  deriving DecidableEq, Repr

/-- a queued / in-flight command with the QoS of its call -/
structure QCmd where
  id : Nat
  prio : Int
  seq : Nat               -- enqueue order (the `dt.now()` stamp)
  maxRetries : Nat
  needReply : Bool        -- rx_header exists ∧ wait_for_reply (after the gateway-mode rewrite)
  hasRx : Bool            -- rx_header exists (an early reply is accepted while awaiting the echo)
  deadline : Nat          -- call time + min(timeout, 20 s)
  deriving DecidableEq, Repr

inductive Out where
  | echo | reply          -- returned this command's echo / reply
  | failed                -- ProtocolSendFailed / TransportError (the protocol-error family)
  deriving DecidableEq, Repr

structure S where
  now : Nat
  st : St
  cur : Option QCmd
  txCount : Nat
  txLimit : Nat
  mult : Nat               -- self._multiplier
  oldMult : Nat            -- `old_val` of the running expiry task
  timerAt : Option Nat     -- deadline of the running expiry task
  que : List QCmd          -- queued, not yet started (incl. entries whose caller gave up)
  dead : List Nat          -- ids whose caller's future is already done (timed out while queued)
  writes : List (Nat × Nat)          -- log: (id, time) of every transmission
  outcomes : List (Nat × Out × Nat)  -- log: (id, outcome, time)
  failWrites : List (Nat × Nat)      -- script: (id, n) = the n-th transmission of id raises TransportError
  called : List QCmd                 -- log: every command ever offered (history variable)
  deriving Repr

def echoTimeout : Nat := 500000
def rplyTimeout : Nat := 500000
def maxBuffer : Nat := Gen.maxBufferSize
def retryCap : Nat := Gen.maxRetryLimit

def init (fails : List (Nat × Nat)) : S :=
  { now := 0, st := .idle, cur := none, txCount := 0, txLimit := 0, mult := 0, oldMult := 0, timerAt := none,
    que := [], dead := [], writes := [], outcomes := [], failWrites := fails, called := [] }

def limOf (c : QCmd) : Nat := min c.maxRetries retryCap + 1

def countWrites (s : S) (id : Nat) : Nat := (s.writes.filter (·.1 = id)).length

/-- the queue entry `PriorityQueue.get_nowait()` returns: least (priority, stamp) -/
def leKey (a b : QCmd) : Bool := a.prio < b.prio || (a.prio = b.prio && a.seq ≤ b.seq)

def best : List QCmd → Option QCmd
  | [] => none
  | c :: cs => match best cs with
    | none => some c
    | some b => if leKey c b then some c else some b

def answer (s : S) (id : Nat) (o : Out) : S := { s with outcomes := s.outcomes ++ [(id, o, s.now)] }

/-- start the expiry timer for the state just entered (`expire_state_on_timeout` up to its sleep) -/
def startTimer (s : S) (base : Nat) : S :=
  { s with timerAt := some (s.now + base * 2 ^ s.mult), oldMult := s.mult, mult := s.mult - 1 }

/-- does the next transmission of `id` fail (scripted TransportError)? -/
def writeFails (s : S) (id : Nat) : Bool := s.failWrites.contains (id, countWrites s id + 1)

def logWrite (s : S) (id : Nat) : S := { s with writes := s.writes ++ [(id, s.now)] }

/-- enter IsInIdle and run `_check_buffer_for_cmd`: start the best queued command whose caller is
    still waiting; a first write that fails answers that caller (TransportError) and the loop
    goes on (the expiry task created just before is cancelled before its first step, so the
    multiplier is untouched) -/
def goIdle (fuel : Nat) (s : S) : S :=
  let s0 := { s with st := .idle, cur := none, timerAt := none, txCount := 0 }
  match fuel with
  | 0 => s0
  | fuel + 1 =>
    match best s0.que with
    | none => s0
    | some c =>
      let s1 := { s0 with que := s0.que.filter (·.id ≠ c.id) }
      if s1.dead.contains c.id then goIdle fuel s1        -- its future is done: skip it
      else if writeFails s1 c.id then goIdle fuel (answer (logWrite s1 c.id) c.id .failed)
      else startTimer (logWrite { s1 with st := .wantEcho, cur := some c, txCount := 1, txLimit := limOf c } c.id) echoTimeout

def fuelOf (s : S) : Nat := s.que.length + 2

/-- the expiry timer fires: retry, or give up -/
def fireTimer (s : S) : S :=
  match s.cur with
  | none => { s with timerAt := none }
  | some c =>
    let s1 := { s with mult := min 3 (s.oldMult + 1), timerAt := none }
    if s1.txCount < s1.txLimit then
      if writeFails s1 c.id then goIdle (fuelOf s1) (answer (logWrite s1 c.id) c.id .failed)
      else startTimer (logWrite { s1 with st := .wantEcho, txCount := s1.txCount + 1 } c.id) echoTimeout
    else goIdle (fuelOf s1) (answer s1 c.id .failed)

/-- the caller of `id` stops waiting (its `wait_for` timed out) -/
def callerGivesUp (s : S) (id : Nat) : S :=
  if s.outcomes.any (·.1 = id) then s
  else match s.cur with
    | some c => if c.id = id then goIdle (fuelOf s) (answer s id .failed)
                else answer { s with dead := id :: s.dead } id .failed
    | none => answer { s with dead := id :: s.dead } id .failed

/-- callers still waiting whose own timeout falls at or before `t` -/
def dueCallers (s : S) (t : Nat) : List QCmd :=
  (s.que ++ s.cur.toList).filter (fun c => !(s.outcomes.any (·.1 = c.id)) && c.deadline ≤ t)

def pickCaller (acc : Option (Nat × Option Nat)) (c : QCmd) : Option (Nat × Option Nat) :=
  match acc with
  | none => some (c.deadline, some c.id)
  | some (w, i) => if c.deadline < w then some (c.deadline, some c.id) else some (w, i)

def firstCaller (s : S) (t : Nat) : Option (Nat × Option Nat) := (dueCallers s t).foldl pickCaller none

/-- earliest pending internal deadline ≤ t: the expiry timer or a caller's own timeout -/
def nextDue (s : S) (t : Nat) : Option (Nat × Option Nat) :=     -- (when, some id = caller / none = expiry timer)
  match s.timerAt with
  | some w => if w ≤ t then (match firstCaller s t with
                | some (cw, ci) => if cw < w then some (cw, ci) else some (w, none)
                | none => some (w, none)) else firstCaller s t
  | none => firstCaller s t

/-- let time pass up to `t`, firing what falls due in order -/
def advance : Nat → S → Nat → S
  | 0, s, t => { s with now := max s.now t }
  | fuel + 1, s, t =>
    match nextDue s t with
    | none => { s with now := max s.now t }
    | some (w, none) => advance fuel (fireTimer { s with now := max s.now w }) t
    | some (w, some id) => advance fuel (callerGivesUp { s with now := max s.now w } id) t

inductive Ev where
  | call (c : QCmd)
  | echo (id : Nat)            -- a packet that is the echo of command `id`
  | reply (id : Nat)           -- a packet that is the reply to command `id`
  | connLost
  | connMade
  deriving Repr

def apply (s : S) : Ev → S
  | .call c =>
    if s.st = .inactive then answer { s with called := s.called ++ [c] } c.id .failed
    else if s.que.length ≥ maxBuffer then answer { s with called := s.called ++ [c] } c.id .failed
    else
      let s1 := { s with que := s.que ++ [c], called := s.called ++ [c] }
      if s1.st = .idle then goIdle (fuelOf s1) s1 else s1
  | .echo id =>
    match s.cur with
    | some c =>
      if c.id = id ∧ s.st = .wantEcho then
        if c.needReply then startTimer { s with st := .wantRply } rplyTimeout
        else goIdle (fuelOf s) (answer s id .echo)
      else s
    | none => s
  | .reply id =>
    match s.cur with
    | some c =>
      if c.id = id ∧ (s.st = .wantRply ∨ (s.st = .wantEcho ∧ c.hasRx)) then goIdle (fuelOf s) (answer s id .reply)
      else s
    | none => s
  | .connLost =>
    match s.st, s.cur with
    | .inactive, _ => s
    | _, some c => answer { s with st := .inactive, cur := none, timerAt := none, txCount := 0 } c.id .failed
    | _, none => { s with st := .inactive, timerAt := none }
  | .connMade => if s.st = .inactive then goIdle (fuelOf s) s else s

/-- one external event at time `t` -/
def step (s : S) (t : Nat) (e : Ev) : S := apply (advance 256 s t) e

def run (s : S) (evs : List (Nat × Ev)) : S := evs.foldl (fun s te => step s te.1 te.2) s

end Ramses.Qos
