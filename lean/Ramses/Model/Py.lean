/-
  Ramses.Model.Py — the little bit of Python the models need.

  Import-free (core Lean only) so that the line-protocol driver links as an executable.
  Strings are `List Char`; exceptions are values.
-/
namespace Ramses

/-- The Python exception classes the modelled code distinguishes.  `pktInvalid` stands for the
library's own `PacketInvalid` family (PacketInvalid / PacketAddrSetInvalid / PacketPayloadInvalid). -/
inductive PyExn where
  | pktInvalid      -- ramses_tx.exceptions.PacketInvalid and subclasses
  | cmdInvalid      -- ramses_tx.exceptions.CommandInvalid
  | valueError
  | typeError
  | assertionError
  | keyError        -- LookupError family (KeyError / IndexError)
  | attributeError
  | notImplemented
  | zeroDivision
  | overflowError
  | other           -- anything else
  deriving DecidableEq, Repr, Inhabited

def PyExn.tag : PyExn → String
  | .pktInvalid => "PacketInvalid"
  | .cmdInvalid => "CommandInvalid"
  | .valueError => "ValueError"
  | .typeError => "TypeError"
  | .assertionError => "AssertionError"
  | .keyError => "LookupError"
  | .attributeError => "AttributeError"
  | .notImplemented => "NotImplementedError"
  | .zeroDivision => "ZeroDivisionError"
  | .overflowError => "OverflowError"
  | .other => "Other"

abbrev Py (α : Type) := Except PyExn α

instance {ε α} [DecidableEq ε] [DecidableEq α] : DecidableEq (Except ε α) := fun a b =>
  match a, b with
  | .ok x, .ok y => if h : x = y then isTrue (by rw [h]) else isFalse (by intro e; cases e; exact h rfl)
  | .error x, .error y => if h : x = y then isTrue (by rw [h]) else isFalse (by intro e; cases e; exact h rfl)
  | .ok _, .error _ => isFalse (by intro e; cases e)
  | .error _, .ok _ => isFalse (by intro e; cases e)

def Except.isOk {ε α} : Except ε α → Bool
  | .ok _ => true
  | .error _ => false

/-- Python `s[a:b]` for `0 ≤ a ≤ b` (both clipped to the length). -/
def slice (s : List α) (a b : Nat) : List α := (s.take b).drop a

/-- Python `s[a:]`. -/
def sliceFrom (s : List α) (a : Nat) : List α := s.drop a

theorem slice_length_le (s : List α) (a b : Nat) : (slice s a b).length ≤ b - a := by
  unfold slice; simp; omega

theorem slice_append_left (s t : List α) (a b : Nat) (h : b ≤ s.length) :
    slice (s ++ t) a b = slice s a b := by
  unfold slice; rw [List.take_append_of_le_length h]

/-- `assert cond` -/
def pyAssert (c : Bool) : Py Unit := if c then .ok () else .error .assertionError

/-- join with a separator -/
def joinSep (sep : List Char) : List (List Char) → List Char
  | [] => []
  | [x] => x
  | x :: xs => x ++ sep ++ joinSep sep xs

/-- Python `str.split(sep)` for a single-character separator: always returns ≥ 1 field. -/
def splitOnChar (c : Char) : List Char → List (List Char)
  | [] => [[]]
  | x :: xs =>
    match splitOnChar c xs with
    | [] => [[x]]  -- unreachable
    | f :: fs => if x = c then [] :: f :: fs else (x :: f) :: fs

def isSpacePy (c : Char) : Bool :=
  c = ' ' || c = '\t' || c = '\n' || c = '\r' || c = '\x0b' || c = '\x0c'
  || c = '\x1c' || c = '\x1d' || c = '\x1e' || c = '\x1f' || c = '\u0085' || c = ' '

def lstrip (s : List Char) : List Char := s.dropWhile isSpacePy
def rstrip (s : List Char) : List Char := (s.reverse.dropWhile isSpacePy).reverse
def strip (s : List Char) : List Char := rstrip (lstrip s)

end Ramses
