/-
  Ramses.Model.Match — the three packet-matching predicates of the QoS state machine
  (WantEcho.pkt_rcvd / WantRply.pkt_rcvd in ramses_tx/protocol_fsm.py).
-/
import Ramses.Model.Header
namespace Ramses

/-- replace every occurrence of the 9-char gateway placeholder (structural recursion on fuel) -/
def replaceHgi (g : List Char) : Nat → List Char → List Char
  | 0, s => s
  | _ + 1, [] => []
  | n + 1, s@(c :: cs) =>
    if s.take 9 = hgiId then g ++ replaceHgi g n (s.drop 9) else c :: replaceHgi g n cs

def subst18 (g : List Char) (s : List Char) : List Char := replaceHgi g (s.length + 1) s

def containsHgi (s : List Char) : Bool := subst18 ['#'] s ≠ s

def null0418 : List Char := "000000B0000000000000000000007FFFFF7000000000".toList

/-- the header a sent command is compared with: `cmd._hdr_` after `IsInIdle.cmd_sent` patched it -/
def sentTxHeader (g : List Char) (cmd : Frame) : Py (List Char) := (txHeader cmd).map (subst18 g)

/-- WantEcho: "a reply arrived before the echo" -/
def isEarlyReply (g : List Char) (cmd pkt : Frame) : Py Bool :=
  match rxHeader cmd with
  | .error e => .error e
  | .ok none => .ok false
  | .ok (some rx) =>
    match txHeader pkt with
    | .error e => .error e
    | .ok ph => .ok (ph = rx && (pkt.dst = cmd.src || (cmd.src = hgiId && pkt.dst = g)))

/-- WantEcho: is `pkt` the echo of `cmd`? (evaluated after `isEarlyReply` said no) -/
def isEchoOf (g : List Char) (cmd pkt : Frame) : Py Bool :=
  match txHeader pkt, sentTxHeader g cmd with
  | .error e, _ => .error e
  | _, .error e => .error e
  | .ok ph, .ok ch => .ok (subst18 g ph = ch)

/-- WantRply: is `pkt` the awaited reply to `cmd` (whose echo was `echo`)?
    `none` = ignored as a repeated echo -/
def isReplyOf (g : List Char) (cmd echo pkt : Frame) : Py Bool :=
  match txHeader pkt, sentTxHeader g cmd, rxHeader cmd with
  | .error e, _, _ => .error e
  | _, .error e, _ => .error e
  | _, _, .error e => .error e
  | .ok _, .ok _, .ok none => .ok false   -- unreachable: WantRply needs an rx_header
  | .ok ph, .ok ch, .ok (some rx) =>
    if ph = ch && pkt.src = echo.src then .ok false
    else if rx.take 8 = "0418|RP|".toList && rx.take (rx.length - 2) = ph.take (ph.length - 2)
            && pkt.payload = null0418 then .ok true
    else .ok (ph = rx)

/-- `binding_fsm._own_pkt(cmd, pkt)`: the packet a binding context reports for its own Offer / Accept -
    the echo the send layer returned, or (when that was the peer's early reply) the command itself -/
def ownPkt (cmd pkt : Frame) : Py Frame :=
  match txHeader pkt, txHeader cmd with
  | .error e, _ => .error e
  | _, .error e => .error e
  | .ok ph, .ok ch => .ok (if ph = ch then pkt else cmd)

end Ramses
