/-
  Ramses.Model.Hex — hexadecimal text <-> numbers, as Python's f"{n:0wX}" and int(s, 16)
  behave on the strings the library handles (ASCII hex digits, either case on input).
-/
import Ramses.Model.Py
namespace Ramses

def hexDigit (n : Nat) : Char :=
  if n < 10 then Char.ofNat (48 + n) else Char.ofNat (55 + n)   -- '0'.. / 'A'..

def hexVal (c : Char) : Option Nat :=
  let n := c.toNat
  if 48 ≤ n ∧ n ≤ 57 then some (n - 48)
  else if 65 ≤ n ∧ n ≤ 70 then some (n - 55)
  else if 97 ≤ n ∧ n ≤ 102 then some (n - 87)
  else none

def isUpperHex (c : Char) : Bool :=
  let n := c.toNat
  (48 ≤ n && n ≤ 57) || (65 ≤ n && n ≤ 70)

def isDigit (c : Char) : Bool := 48 ≤ c.toNat && c.toNat ≤ 57

/-- exactly `w` upper-case hex digits of `n % 16^w`, most significant first -/
def toHexW : Nat → Nat → List Char
  | 0, _ => []
  | w + 1, n => toHexW w (n / 16) ++ [hexDigit (n % 16)]

/-- number of hex digits Python prints for `n` (at least 1) -/
def hexLen (n : Nat) : Nat := if n = 0 then 1 else Nat.log2 n / 4 + 1

/-- Python `f"{n:0{w}X}"` for `n ≥ 0`: at least `w` digits, more when `n` does not fit -/
def fmtHex (w n : Nat) : List Char := toHexW (max w (hexLen n)) n

def ofHexAux : List Char → Nat → Option Nat
  | [], acc => some acc
  | c :: cs, acc => match hexVal c with
    | some v => ofHexAux cs (acc * 16 + v)
    | none => none

/-- Python `int(s, 16)` on a non-empty string of hex digits (anything else: `none`,
    standing for `ValueError`; the library only calls it on regex-checked text) -/
def ofHex (s : List Char) : Option Nat := if s = [] then none else ofHexAux s 0

/-- zero-padded decimal of exactly `w` digits (`f"{n:0{w}d}"` for n < 10^w) -/
def toDecW : Nat → Nat → List Char
  | 0, _ => []
  | w + 1, n => toDecW w (n / 10) ++ [Char.ofNat (48 + n % 10)]

def ofDecAux : List Char → Nat → Option Nat
  | [], acc => some acc
  | c :: cs, acc => if isDigit c then ofDecAux cs (acc * 10 + (c.toNat - 48)) else none

def ofDec (s : List Char) : Option Nat := if s = [] then none else ofDecAux s 0

/-! ### inverse lemmas -/

theorem hexVal_hexDigit (n : Nat) (h : n < 16) : hexVal (hexDigit n) = some n := by
  have : n = 0 ∨ n = 1 ∨ n = 2 ∨ n = 3 ∨ n = 4 ∨ n = 5 ∨ n = 6 ∨ n = 7 ∨ n = 8 ∨ n = 9 ∨
      n = 10 ∨ n = 11 ∨ n = 12 ∨ n = 13 ∨ n = 14 ∨ n = 15 := by omega
  rcases this with h|h|h|h|h|h|h|h|h|h|h|h|h|h|h|h <;> subst h <;> decide

theorem isUpperHex_hexDigit (n : Nat) (h : n < 16) : isUpperHex (hexDigit n) = true := by
  have : n = 0 ∨ n = 1 ∨ n = 2 ∨ n = 3 ∨ n = 4 ∨ n = 5 ∨ n = 6 ∨ n = 7 ∨ n = 8 ∨ n = 9 ∨
      n = 10 ∨ n = 11 ∨ n = 12 ∨ n = 13 ∨ n = 14 ∨ n = 15 := by omega
  rcases this with h|h|h|h|h|h|h|h|h|h|h|h|h|h|h|h <;> subst h <;> decide

theorem toHexW_length (w n : Nat) : (toHexW w n).length = w := by
  induction w generalizing n with
  | zero => rfl
  | succ w ih => simp [toHexW, ih]

theorem ofHexAux_append (s t : List Char) (acc : Nat) :
    ofHexAux (s ++ t) acc = (ofHexAux s acc).bind (ofHexAux t) := by
  induction s generalizing acc with
  | nil => simp [ofHexAux]
  | cons c cs ih =>
    simp only [List.cons_append, ofHexAux]
    cases hexVal c with
    | none => simp
    | some v => simpa using ih _

theorem ofHexAux_toHexW (w n acc : Nat) :
    ofHexAux (toHexW w n) acc = some (acc * 16 ^ w + n % 16 ^ w) := by
  induction w generalizing n acc with
  | zero => simp [toHexW, ofHexAux, Nat.mod_one]
  | succ w ih =>
    simp only [toHexW, ofHexAux_append, ih, Option.bind_some, ofHexAux]
    rw [hexVal_hexDigit _ (Nat.mod_lt _ (by decide))]
    simp only [Option.some.injEq]
    have h1 : n % 16 ^ (w + 1) = 16 * (n / 16 % 16 ^ w) + n % 16 := by
      rw [Nat.pow_succ, Nat.mul_comm, Nat.mod_mul]; omega
    rw [h1, Nat.pow_succ]
    generalize n / 16 % 16 ^ w = a
    generalize 16 ^ w = b
    rw [Nat.add_mul, Nat.mul_assoc]
    omega

theorem ofHex_toHexW (w n : Nat) (hw : 0 < w) (h : n < 16 ^ w) :
    ofHex (toHexW w n) = some n := by
  unfold ofHex
  have : toHexW w n ≠ [] := by
    intro h0
    have := toHexW_length w n
    rw [h0] at this; simp at this; omega
  simp [this, ofHexAux_toHexW, Nat.mod_eq_of_lt h]

end Ramses
