/-
  Ramses.Model.Recv — the receive path (ramses_tx/transport.py, protocol.py, message.py):

  * serial bytes -> CRLF-terminated lines with a carry buffer (`PortTransport._read_ready`)
  * `_str`, `_normalise`
  * `_frame_read` (blank check, Packet.from_file, its two `except` clauses)
  * `Message.__init__` / `_validate`: schema lookup, payload regex (generated), `_has_payload`,
    the parser (a parameter for unmodelled parsers), the exception fence
  * the reader loops as folds that stop at the first escaped exception
-/
import Ramses.Model.Packet
namespace Ramses

/-! ## serial line splitting -/

/-- one step of the left-to-right, non-overlapping scan that `bytes.split(b"\r\n")` performs:
    state = (complete lines so far, current partial line) -/
def splitStep (st : List (List Nat) × List Nat) (b : Nat) : List (List Nat) × List Nat :=
  if b = 10 ∧ st.2.getLast? = some 13 then (st.1 ++ [st.2.dropLast], []) else (st.1, st.2 ++ [b])

/-- split a byte string on CR LF: (complete lines, unterminated tail); what
    `buf.split(b"\r\n")` gives as `(lines[:-1], lines[-1])` -/
def splitCRLF (s : List Nat) : List (List Nat) × List Nat := s.foldl splitStep ([], [])

/-- one `_read_ready` with `data`: new buffer and the lines yielded (without their CRLF) -/
def feed (buf data : List Nat) : List Nat × List (List Nat) :=
  let (ls, t) := splitCRLF (buf ++ data)
  (t, ls)

/-- a whole sequence of reads -/
def feedAll (buf : List Nat) : List (List Nat) → List Nat × List (List Nat)
  | [] => (buf, [])
  | d :: ds =>
    let (b1, l1) := feed buf d
    let (b2, l2) := feedAll b1 ds
    (b2, l1 ++ l2)

/-! ## `_str` and `_normalise` -/

/-- `string.printable` -/
def isPrintable (n : Nat) : Bool := (32 ≤ n && n ≤ 126) || (9 ≤ n && n ≤ 13)

/-- `_str(raw_line)`: strict ASCII decode (else ""), keep printable characters -/
def strOfBytes (bs : List Nat) : List Char :=
  if bs.any (· ≥ 128) then [] else (bs.filter isPrintable).map Char.ofNat

/-- `re.sub("\r\r", "\r", s)` (left to right, non-overlapping) -/
def subCRCR : List Char → List Char
  | '\r' :: '\r' :: rest => '\r' :: subCRCR rest
  | c :: rest => c :: subCRCR rest
  | [] => []

def endsWith (s t : List Char) : Bool := t.length ≤ s.length && s.drop (s.length - t.length) = t

def normalise (line : List Char) : List Char :=
  let l := subCRCR line
  let l := if l.take 4 = " 000".toList then l.drop 1
           else if verbs.contains (l.take 2) then [] else l
  let l := if (slice l 10 14 = " 08:".toList || slice l 10 14 = " 31:".toList) &&
              endsWith l "* Checksum error".toList
           then l.take (l.length - 17) ++ " # Checksum error (ignored)".toList else l
  strip l

/-! ## one line -> outcome -/

inductive Outcome where
  | skipped                 -- blank / comment / chatter: not a frame line
  | valueError              -- empty or undatable (Packet.from_* raised ValueError)
  | invalid                 -- the library's own PacketInvalid
  | packet (p : Pkt)        -- a Packet was made (decoding to a Message is the next stage)
  | escaped (e : PyExn)     -- any other exception left the receive path
  deriving DecidableEq, Repr

def Outcome.isEscaped : Outcome → Bool
  | .escaped _ => true
  | _ => false

/-- `_frame_read(dtm_str, frame)` -/
def frameRead (stampOk : Bool) (line : List Char) : Outcome :=
  if strip line = [] then .skipped else
  match pktFromFile stampOk line with
  | .ok p => .packet p
  | .error .valueError => .valueError
  | .error .pktInvalid => .invalid
  | .error e => .escaped e

/-- a line of a packet-log *file*: strip, skip blank and `#` lines, stamp = [:26], rest = [27:] -/
def fileLine (stampOk : Bool) (raw : List Char) : Outcome :=
  let l := strip raw
  if l = [] || l.take 1 = ['#'] then .skipped
  else frameRead stampOk (l.drop 27)

/-- one complete serial line (bytes without CRLF): the stamp is the library's own clock -/
def portLine (bs : List Nat) : Outcome :=
  frameRead true (normalise (strOfBytes (bs ++ [13, 10])))

/-! ## packet -> message: schema check, parser, fence -/

def schemaLookup (code verb : List Char) : Option Pattern :=
  (Gen.schemaRegexes.find? (fun r => r.1.toList = code && r.2.1.toList = verb)).map (·.2.2)

/-- `Message._validate`'s exception fence: what the caller of `Message(pkt)` sees -/
def fence : PyExn → PyExn
  | .pktInvalid => .pktInvalid
  | .assertionError => .pktInvalid
  | .attributeError => .pktInvalid
  | .keyError => .pktInvalid
  | .typeError => .pktInvalid
  | .valueError => .pktInvalid
  | .notImplemented => .pktInvalid
  | e => e                      -- anything else escapes

def fenced (e : PyExn) : Bool := fence e = .pktInvalid

/-- does `Message(pkt)` succeed?  `parser` stands for `parse_payload` + the `_idx` merge
    (modelled parsers are plugged in by the caller; for the others it is the outcome the real
    parser produced, recorded by the harness) -/
def msgValidate (f : Frame) (parser : Frame → Py Unit) : Py Unit :=
  if ¬ inS Gen.knownCodes f.code then .error .pktInvalid else
  match schemaLookup f.code f.verb with
  | none => .error .pktInvalid
  | some pat =>
    if ¬ pat.matches f.payload then .error .pktInvalid
    else if ¬ hasPayload f.core && (f.verb = vRQ && ¬ inS Gen.rqIdxComplex f.code) then .ok ()
    else match parser f with
      | .ok () => .ok ()
      | .error e => .error (fence e)

inductive Delivery where
  | none                    -- nothing delivered, nothing escaped
  | delivered (p : Pkt)
  | escaped (e : PyExn)
  deriving DecidableEq, Repr

/-- the whole path for one line outcome -/
def deliver (parser : Frame → Py Unit) : Outcome → Delivery
  | .packet p => match msgValidate p.frame parser with
    | .ok () => .delivered p
    | .error .pktInvalid => .none
    | .error e => .escaped e
  | .escaped e => .escaped e
  | _ => .none

/-! ## streams: the reader loops stop at the first escaped exception -/

def recvStream (parser : Frame → Py Unit) : List Outcome → List Pkt × Option PyExn
  | [] => ([], none)
  | o :: os => match deliver parser o with
    | .escaped e => ([], some e)
    | .none => recvStream parser os
    | .delivered p => let (ps, e) := recvStream parser os; (p :: ps, e)

end Ramses
