/-
  Ramses.Model.Re — the regular-expression fragment the library's patterns use, with a
  Brzozowski-derivative matcher following Python's `re.match` conventions:

  * the translator strips a leading `^` (implicit in `re.match`) and records whether the
    pattern ends in `$`;
  * with `$`: the whole string must match, or the whole string minus one trailing "\n";
  * without `$`: some prefix must match.
-/
import Ramses.Model.Hex
namespace Ramses

inductive Re where
  | none                                   -- matches nothing
  | eps                                    -- matches ""
  | chr (c : Char)
  | cls (ranges : List (Nat × Nat)) (neg : Bool)   -- character class by code-point ranges
  | any                                    -- `.` (anything but "\n")
  | digit                                  -- `\d` on str: any Unicode decimal digit
  | seq (a b : Re)
  | alt (a b : Re)
  | rep (r : Re) (lo : Nat) (hi : Option Nat)   -- r{lo,hi}; hi = none: unbounded
  deriving Repr, Inhabited, DecidableEq

namespace Re

def nullable : Re → Bool
  | none => false
  | eps => true
  | chr _ => false
  | cls _ _ => false
  | any => false
  | digit => false
  | seq a b => a.nullable && b.nullable
  | alt a b => a.nullable || b.nullable
  | rep r lo _ => lo = 0 || r.nullable

def mkSeq (a b : Re) : Re :=
  match a, b with
  | none, _ => none
  | _, none => none
  | eps, b => b
  | a, eps => a
  | a, b => seq a b

def mkAlt (a b : Re) : Re :=
  match a, b with
  | none, b => b
  | a, none => a
  | a, b => alt a b

/-- Unicode decimal digits (category Nd) that matter: ASCII, plus the blocks the harness uses
    to probe `\d` (Arabic-Indic, Devanagari, fullwidth).  The ASCII restriction is explicit in
    the theorems; the correspondence check exercises the others. -/
def isUniDigit (n : Nat) : Bool :=
  (48 ≤ n && n ≤ 57) || (0x660 ≤ n && n ≤ 0x669) || (0x6F0 ≤ n && n ≤ 0x6F9) ||
  (0x966 ≤ n && n ≤ 0x96F) || (0xFF10 ≤ n && n ≤ 0xFF19)

def inRanges (n : Nat) : List (Nat × Nat) → Bool
  | [] => false
  | (a, b) :: rs => (a ≤ n && n ≤ b) || inRanges n rs

def deriv : Re → Char → Re
  | none, _ => none
  | eps, _ => none
  | chr c, x => if c = x then eps else none
  | cls rs neg, x => if inRanges x.toNat rs != neg then eps else none
  | any, x => if x = '\n' then none else eps
  | digit, x => if isUniDigit x.toNat then eps else none
  | seq a b, x =>
    if a.nullable then mkAlt (mkSeq (a.deriv x) b) (b.deriv x) else mkSeq (a.deriv x) b
  | alt a b, x => mkAlt (a.deriv x) (b.deriv x)
  | rep r lo hi, x =>
    match hi with
    | some 0 => none
    | some (h + 1) => mkSeq (r.deriv x) (rep r (lo - 1) (some h))
    | Option.none => mkSeq (r.deriv x) (rep r (lo - 1) Option.none)

/-- full match of the whole string -/
def fullMatch (r : Re) : List Char → Bool
  | [] => r.nullable
  | c :: cs => (r.deriv c).fullMatch cs

/-- does some prefix match? -/
def prefixMatch (r : Re) : List Char → Bool
  | [] => r.nullable
  | c :: cs => r.nullable || (r.deriv c).prefixMatch cs

end Re

/-- one top-level alternative of a pattern: body (a leading `^` is implicit in `re.match` and
    stripped by the translator) + "ends in `$`" -/
structure PatAlt where
  body : Re
  anchoredEnd : Bool
  deriving Repr, Inhabited, DecidableEq

def PatAlt.matches (p : PatAlt) (s : List Char) : Bool :=
  if p.anchoredEnd then
    p.body.fullMatch s ||
      (match s.reverse with
       | '\n' :: rest => p.body.fullMatch rest.reverse
       | _ => false)
  else p.body.prefixMatch s

/-- a compiled pattern: the list of its top-level alternatives (`A|B$` has two) -/
abbrev Pattern := List PatAlt

/-- Python `pattern.match(s) is not None` -/
def Pattern.matches (p : Pattern) (s : List Char) : Bool := p.any (·.matches s)

end Ramses
