/-
  Ramses.Model.Topo — who belongs to whom (ramses_rf/entity_base.py `Child._get_parent`,
  `Child.set_parent`, `Parent._add_child`): every validation, in the order the code performs them,
  with every raise point (SystemSchemaInconsistent, TypeError, ValueError from `int(child_id, 16)`,
  the bare asserts) as an explicit result.
-/
namespace Ramses.Topo

/-- device classes as far as the parent rules distinguish them -/
inductive Kind where
  | ctl | ufc | trv | dhwSensor | otb | thm | bdr | outSensor | other
  deriving DecidableEq, Repr

/-- a parent object: a system, one of its heating zones, its DHW zone, or a UFH controller -/
inductive Par where
  | tcs (ctl : String)
  | zone (ctl : String) (idx : String)
  | dhw (ctl : String)
  | ufc (id : String)
  deriving DecidableEq, Repr

/-- what a caller may pass as `parent`: a controller device, one of the above, or some other object -/
inductive Req where
  | ctlDev (ctl : String)
  | par (p : Par)
  | otherObj
  deriving DecidableEq, Repr

inductive Res where
  | ok
  | inconsistent        -- exc.SystemSchemaInconsistent
  | typeError
  | valueError
  | assertionError
  deriving DecidableEq, Repr

structure Dev where
  kind : Kind
  parent : Option Par
  childId : Option String
  ctl : Option String
  tcs : Option String := none     -- `.tcs` (a controller's own system, until `set_parent` points it at its parent's)
  deriving DecidableEq, Repr

/-- the role slots of the parents -/
structure Roles where
  sensor : List (Par × String)             -- zone sensor / DHW sensor
  actuators : List (Par × String)          -- zone actuators (no duplicates)
  appCntrl : List (String × String)
  htgValve : List (String × String)
  dhwValve : List (String × String)
  childs : List (Par × String)             -- `parent.childs` (appended on every success)
  deriving Repr

structure Topo where
  maxZones : Nat
  devs : List (String × Dev)
  zones : List (String × String)          -- (ctl, idx) of the heating zones that exist
  dhws : List String                       -- controllers whose DHW zone exists
  roles : Roles
  deriving Repr

def Par.isZone : Par → Bool
  | .zone _ _ => true | _ => false
def Par.isDhw : Par → Bool
  | .dhw _ => true | _ => false
def Par.isTcs : Par → Bool
  | .tcs _ => true | _ => false

def Par.ctlOf : Par → String
  | .tcs c => c | .zone c _ => c | .dhw c => c | .ufc u => u

def hexDigit (c : Char) : Option Nat :=
  if '0' ≤ c ∧ c ≤ '9' then some (c.toNat - 48)
  else if 'A' ≤ c ∧ c ≤ 'F' then some (c.toNat - 55)
  else if 'a' ≤ c ∧ c ≤ 'f' then some (c.toNat - 87)
  else none

/-- `int(child_id, 16)` for the two-character ids in use -/
def hexVal (s : String) : Option Nat :=
  match s.toList with
  | [a, b] => (hexDigit a).bind fun x => (hexDigit b).map fun y => 16 * x + y
  | _ => none

def lookupDev (t : Topo) (d : String) : Option Dev := (t.devs.find? (fun e => e.1 = d)).map (·.2)

def assoc {α : Type} [DecidableEq α] (l : List (α × String)) (k : α) : Option String :=
  (l.find? (fun e => e.1 = k)).map (·.2)

def setAssoc {α : Type} [DecidableEq α] (l : List (α × String)) (k : α) (v : String) : List (α × String) :=
  (k, v) :: l.filter (fun e => e.1 ≠ k)

def truthy : Option String → Bool
  | some s => s ≠ ""
  | none => false

inductive RErr where
  | valueError | typeError
  deriving DecidableEq, Repr

def RErr.res : RErr → Res
  | .valueError => .valueError
  | .typeError => .typeError

/-- what steps 1-3 of `_get_parent` produce: the parent object, the effective child id, and the
    zone / DHW-zone sets (a zone or the DHW zone is created on demand, even if the call then fails) -/
structure Resolved where
  zones : List (String × String)
  dhws : List String
  par : Option Par
  cid : Option String
  deriving Repr

def addIfAbsent {α : Type} [BEq α] (l : List α) (x : α) : List α := if l.contains x then l else x :: l

/-- `parent` is (the system of) a controller -/
def resolveTcs (t : Topo) (c : String) (childId : Option String) : Except RErr Resolved :=
  if truthy childId then
    let cid := childId.getD ""
    if cid = "F9" ∨ cid = "FA" then .ok ⟨t.zones, addIfAbsent t.dhws c, some (.dhw c), childId⟩
    else match hexVal cid with
      | none => .error .valueError
      | some n =>
        if n < t.maxZones then .ok ⟨addIfAbsent t.zones (c, cid), t.dhws, some (.zone c cid), childId⟩
        else .ok ⟨t.zones, t.dhws, some (.tcs c), childId⟩
  else .ok ⟨t.zones, t.dhws, some (.tcs c), childId⟩

/-- `controller.tcs`: a controller's own system - unless the controller was itself given a parent
    (it can be another controller's zone sensor), in which case `set_parent` re-pointed it -/
def tcsPtr (t : Topo) (c : String) : String :=
  match lookupDev t c with
  | some dev => dev.tcs.getD c
  | none => c

/-- step 1-3 of `_get_parent`: resolve the parent object -/
def resolve (t : Topo) (kind : Kind) (req : Req) (childId : Option String) : Except RErr Resolved :=
  let childId := if kind = .ufc then some "FF" else childId
  match req with
  | .ctlDev c => resolveTcs t (tcsPtr t c) childId
  | .par (.tcs c) => resolveTcs t c childId
  | .par (.zone c i) => .ok ⟨t.zones, t.dhws, some (.zone c i), if truthy childId then childId else some i⟩
  | .par (.ufc u) => if truthy childId then .ok ⟨t.zones, t.dhws, some (.ufc u), childId⟩ else .error .typeError
  | .par (.dhw c) => .ok ⟨t.zones, t.dhws, some (.dhw c), childId⟩
  | .otherObj => .ok ⟨t.zones, t.dhws, none, childId⟩

def withResolved (t : Topo) (r : Resolved) : Topo := { t with zones := r.zones, dhws := r.dhws }

def sensorRule (p : Par) (k : Kind) : Bool :=
  match p with
  | .dhw _ => k = .dhwSensor
  | .tcs _ => k = .outSensor
  | .ufc _ => false
  | .zone _ _ => k = .ctl ∨ k = .thm ∨ k = .trv

def actuatorRule (p : Par) (k : Kind) : Bool :=
  match p with
  | .dhw _ => k = .bdr
  | .tcs _ => k = .bdr ∨ k = .otb ∨ k = .ufc
  | .ufc _ => false
  | .zone _ _ => k = .bdr ∨ k = .trv

/-- `Parent._add_child(child, child_id=…, is_sensor=…)` -/
def addChildR (t : Roles) (p : Par) (d : String) (kind : Kind) (cid : String) (isSensor : Bool) : Roles × Res :=
  let done (t : Roles) : Roles × Res := ({ t with childs := t.childs ++ [(p, d)] }, .ok)
  let isZone := p.isZone
  let isDhw := p.isDhw
  let isTcs := p.isTcs
  if isSensor && cid == "FA" then
    if !isDhw then (t, .assertionError)
    else if kind ≠ .dhwSensor then (t, .assertionError)
    else match assoc t.sensor p with
      | some s => if s ≠ d then (t, .inconsistent) else done { t with sensor := setAssoc t.sensor p d }
      | none => done { t with sensor := setAssoc t.sensor p d }
  else if isSensor && (isZone || isDhw) then
    if !isZone then (t, .assertionError)
    else match assoc t.sensor p with
      | some s => if s ≠ d then (t, .inconsistent) else done { t with sensor := setAssoc t.sensor p d }
      | none => done { t with sensor := setAssoc t.sensor p d }
  else if isSensor then (t, .typeError)
  else if isZone then
    if ¬ (kind = .bdr ∨ kind = .trv) then (t, .assertionError)
    else done { t with actuators := if t.actuators.contains (p, d) then t.actuators else t.actuators ++ [(p, d)] }
  else if cid = "F9" then
    if !isDhw then (t, .assertionError)
    else if kind ≠ .bdr then (t, .assertionError)
    else match assoc t.htgValve p.ctlOf with
      | some s => if s ≠ d then (t, .inconsistent) else done t
      | none => done { t with htgValve := setAssoc t.htgValve p.ctlOf d }
  else if cid = "FA" then
    if !isDhw then (t, .assertionError)
    else if kind ≠ .bdr then (t, .assertionError)
    else match assoc t.dhwValve p.ctlOf with
      | some s => if s ≠ d then (t, .inconsistent) else done t
      | none => done { t with dhwValve := setAssoc t.dhwValve p.ctlOf d }
  else if cid = "FC" then
    if !isTcs then (t, .assertionError)
    else if ¬ (kind = .bdr ∨ kind = .otb) then (t, .assertionError)
    else match assoc t.appCntrl p.ctlOf with
      | some s => if s ≠ d then (t, .inconsistent) else done t
      | none => done { t with appCntrl := setAssoc t.appCntrl p.ctlOf d }
  else if cid = "FF" then
    if !isTcs then (t, .assertionError)
    else if ¬ (kind = .ufc ∨ kind = .outSensor) then (t, .assertionError)
    else done t
  else (t, .typeError)

def addChild (t : Topo) (p : Par) (d : String) (kind : Kind) (cid : String) (isSensor : Bool) : Topo × Res :=
  ({ t with roles := (addChildR t.roles p d kind cid isSensor).1 }, (addChildR t.roles p d kind cid isSensor).2)

def setDev (t : Topo) (d : String) (dev : Dev) : Topo :=
  { t with devs := t.devs.map (fun e => if e.1 = d then (e.1, dev) else e) }

def cidOk (p : Par) (cid : Option String) : Bool :=
  match p with
  | .zone _ i => cid == some i
  | .dhw _ => cid == some "F9" || cid == some "FA"
  | .tcs _ => cid == some "FC" || cid == some "FF"
  | .ufc _ => true

/-- the remaining checks of `_get_parent` / `set_parent`, in order: the first one that fails -/
def checks (dev : Dev) (p : Par) (cid : Option String) (isSensor : Bool) : Option Res :=
  if isSensor && !sensorRule p dev.kind then some .typeError
  else if !isSensor && !actuatorRule p dev.kind then some .typeError
  else if !cidOk p cid then some .typeError
  else if dev.ctl.isSome && dev.ctl != some p.ctlOf then some .inconsistent      -- "cant change controller"
  else none

/-- `child.set_parent(parent, child_id=…, is_sensor=…)` -/
def setParent (t : Topo) (d : String) (req : Req) (childId : Option String) (isSensor : Bool) : Topo × Res :=
  match lookupDev t d with
  | none => (t, .typeError)
  | some dev =>
    match resolve t dev.kind req childId with
    | .error r => (t, r.res)
    | .ok rs =>
      let t1 := withResolved t rs
      -- "cant change parent"
      if dev.parent.isSome ∧ dev.parent ≠ rs.par then (t1, .inconsistent) else
      match rs.par with
      | none => (t1, .typeError)                                  -- not a valid parent
      | some p =>
        match checks dev p rs.cid isSensor with
        | some r => (t1, r)
        | none =>
          match addChild t1 p d dev.kind (rs.cid.getD "") isSensor with
          | (t2, .ok) => (setDev t2 d { dev with parent := some p, childId := rs.cid, ctl := some p.ctlOf, tcs := some (tcsPtr t2 p.ctlOf) }, .ok)
          | (t2, r) => (t2, r)

def parentOf (t : Topo) (d : String) : Option Par := (lookupDev t d).bind (·.parent)

def ctlOfDev (t : Topo) (d : String) : Option String := (lookupDev t d).bind (·.ctl)

/-- a sequence of calls -/
structure Call where
  d : String
  req : Req
  childId : Option String
  isSensor : Bool
  deriving Repr

def runCalls (t : Topo) : List Call → Topo × List Res
  | [] => (t, [])
  | c :: cs =>
    let (t1, r) := setParent t c.d c.req c.childId c.isSensor
    let (t2, rs) := runCalls t1 cs
    (t2, r :: rs)

end Ramses.Topo
