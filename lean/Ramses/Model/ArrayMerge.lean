/-
  Ramses.Model.ArrayMerge — `Gateway._msg_handler`'s merging of a two-packet array
  (ramses_rf/gateway.py + dispatcher.detect_array_fragment).

  A controller (I|000A) or a UFC (I|22C9) sends an array that does not fit one frame as two
  packets, a second or two apart; the second part is merged with the first:
  `msg._payload = prev.payload + msg.payload`.  `prev` is the gateway's previous message if that
  is the first part, else the latest array of that code from the same device (`_array_heads`).

  Messages are abstract: source device, code, verb is I, `_has_array`, time stamp (µs), the
  element indexes carried.  `mergeable` = code ∈ (000A, 22C9).
-/
namespace Ramses.AM

structure AMsg where
  src : Nat
  code : Nat
  verbI : Bool
  hasArray : Bool
  t : Nat
  elems : List Nat
  mergeable : Bool
  deriving DecidableEq, Repr, Inhabited

/-- 3 s in µs (`_TD_SECONDS_003`) -/
def window : Nat := 3000000

/-- `detect_array_fragment(this, prev)` -/
def detect (this prev : AMsg) : Bool :=
  prev.hasArray && this.mergeable && this.code == prev.code && this.verbI && prev.verbI &&
    this.src == prev.src && decide (this.t < prev.t + window)

abbrev Key := Nat × Nat

structure St where
  prev : Option AMsg                 -- `_prev_msg` (the message object, as left by the merge)
  heads : List (Key × AMsg)          -- `_array_heads`
  deriving Repr

def St.init : St := ⟨none, []⟩

def lookup (h : List (Key × AMsg)) (k : Key) : Option AMsg :=
  match h with
  | [] => none
  | (k', m) :: r => if k' = k then some m else lookup r k

def putHead (h : List (Key × AMsg)) (k : Key) (m : AMsg) : List (Key × AMsg) := (k, m) :: h

/-- the first part this message is merged with, if any -/
def firstPart (s : St) (m : AMsg) : Option AMsg :=
  let cand := match s.prev with
    | some p => if detect m p then some p else lookup s.heads (m.src, m.code)
    | none => lookup s.heads (m.src, m.code)
  match cand with
  | some p => if detect m p then some p else none
  | none => none

/-- the message as the entities see it (payload merged, `_has_array` forced) -/
def merged (s : St) (m : AMsg) : AMsg :=
  match firstPart s m with
  | some p => { m with hasArray := true, elems := p.elems ++ m.elems }
  | none => m

def step (s : St) (m : AMsg) : St :=
  let m' := merged s m
  ⟨some m', if m'.verbI && m'.hasArray then putHead s.heads (m.src, m.code) m' else s.heads⟩

/-- the messages as delivered to the entities, in order -/
def run : St → List AMsg → List AMsg
  | _, [] => []
  | s, m :: r => merged s m :: run (step s m) r

end Ramses.AM
