/-
  Ramses.Model.Filter — device-id filtering (ramses_tx/protocol.py `_DeviceIdFilterMixin`,
  ramses_tx/schemas.py `select_device_filter_mode`, ramses_rf/gateway.py `check_filter_lists`).
-/
import Ramses.Model.Frame
namespace Ramses

abbrev DevIdT := List Char

structure FCfg where
  exclude : List DevIdT          -- block_list keys
  known : List DevIdT            -- known_list keys (the mixin appends 63:262142 and --:------)
  enforce : Bool                 -- enforce_known_list (after select_device_filter_mode)
  active : Option DevIdT         -- the active gateway id, once set
  deriving Repr

/-- `select_device_filter_mode(enforce_known_list, known_list, block_list)` -/
def selectFilterMode (enforce : Bool) (known : List DevIdT) : Bool := enforce && !known.isEmpty

/-- `self._include` -/
def FCfg.include (c : FCfg) : List DevIdT := c.known ++ [allId, nonId]

/-- `_set_active_hgi(dev_id)`: ignored when the id is block-listed -/
def setActiveHgi (c : FCfg) (id : DevIdT) : FCfg :=
  if c.exclude.contains id then c else { c with active := some id }

/-- `PortProtocol.connection_made`: the active gateway is whatever the transport identified
    (`get_extra_info(SZ_ACTIVE_HGI)`; `None` when the stick never echoed the signature) - nothing else -/
def connectionMade (c : FCfg) (reported : Option DevIdT) : FCfg :=
  match reported with
  | none => c
  | some id => setActiveHgi c id

/-- verdict of the loop body of `_is_wanted_addrs` for one id: `some false` = return False,
    `none` = continue -/
def wantedOne (c : FCfg) (sending : Bool) (id : DevIdT) : Option Bool :=
  if c.exclude.contains id then some false
  else if c.active = some id then none
  else if c.include.contains id then none
  else if sending && id = hgiId then none
  else if c.enforce then some false
  else none

/-- `_is_wanted_addrs(src_id, dst_id, sending)` (`dict.fromkeys` removes the duplicate) -/
def isWanted (c : FCfg) (src dst : DevIdT) (sending : Bool) : Bool :=
  let ids := if src = dst then [src] else [src, dst]
  ids.all (fun id => wantedOne c sending id ≠ some false)

/-- rf-gateway `check_filter_lists` + the gateway exemption of `get_device`:
    may a device object be created for `id`?  (`hgi` = `protocol.hgi_id`, `gwyDev` = `gwy.hgi.id`) -/
def canCreateDevice (c : FCfg) (unwanted : List DevIdT) (hgi : DevIdT) (gwyDev : Option DevIdT) (id : DevIdT) : Bool :=
  let blockedByLists :=
    unwanted.contains id ||
    (c.enforce && !(c.known.contains id) && gwyDev ≠ some id) ||
    c.exclude.contains id
  !blockedByLists || id = hgi

end Ramses
