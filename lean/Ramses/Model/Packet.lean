/-
  Ramses.Model.Packet — Packet._partition / Packet.__init__ / pkt_lifespan / from_file,
  from_port, from_dict (ramses_tx/packet.py) and the packet-log line format (logger.py).
-/
import Ramses.Model.Header
namespace Ramses

/-- Python `s.partition(c)`: (before, after) — after = "" when `c` is absent -/
def partitionChar (c : Char) : List Char → List Char × List Char
  | [] => ([], [])
  | x :: xs => if x = c then ([], xs) else
      let (a, b) := partitionChar c xs
      (x :: a, b)

/-- `Packet._partition(pkt_line)` -> (pkt_str, err_msg, comment), each stripped -/
def pktPartition (line : List Char) : List Char × List Char × List Char :=
  let (frag, comment) := partitionChar '#' line
  let (frag, err) := partitionChar '*' frag
  let (pkt, _) := partitionChar '<' frag
  (strip pkt, strip err, strip comment)

/-- a received packet: RSSI + frame + lifespan (µs; `none` = does not expire) -/
structure Pkt where
  rssi : List Char
  frame : Frame
  lifespan : Option Nat
  comment : List Char
  deriving DecidableEq, Repr

def mulFrac (x n d : Nat) : Nat := x * n / d

/-- `pkt_lifespan(pkt)` in µs (0 = td(0)) -/
def pktLifespan (f : Frame) : Py Nat :=
  let c := f.core
  if f.verb = vRQ || f.verb = vW then .ok Gen.td_TD_SECS_000
  else if isCode c "0005" || isCode c "000C" then .ok Gen.td_TD_DAYS_001
  else if isCode c "0006" then .ok Gen.td_TD_MINS_060
  else if isCode c "0404" then .ok Gen.td_TD_DAYS_001
  else match (if isCode c "000A" then hasArrayFirst c else .ok false) with
  | .error e => .error e
  | .ok true => .ok Gen.td_TD_MINS_060
  | .ok false =>
    if isCode c "10E0" then .ok Gen.td_TD_DAYS_001
    else if isCode c "1F09" then .ok (if f.verb = vI then Gen.td_TD_SECS_360 else Gen.td_TD_SECS_000)
    else if isCode c "1FC9" && f.verb = vRP then .ok Gen.td_TD_DAYS_001
    else match (if isCode c "2309" || isCode c "30C9" then hasArrayFirst c else .ok false) with
    | .error e => .error e
    | .ok true => .ok Gen.td_TD_SECS_360
    | .ok false =>
      if isCode c "3220" then
        match ofHex (slice f.payload 4 6) with
        | none => .error .valueError          -- int('', 16)
        | some id =>
          if Gen.otSchemaIds.contains id then .ok (mulFrac Gen.td_TD_MINS_360 21 10)
          else if Gen.otParamsIds.contains id then .ok (mulFrac Gen.td_TD_MINS_060 21 10)
          else .ok (mulFrac Gen.td_TD_MINS_005 21 10)
      else match lookupS Gen.schemaLifespan f.code with
        | some (some us) => .ok us
        | some none => .ok Gen.td_TD_MINS_060
        | none => .ok Gen.td_TD_MINS_060

/-- `Packet.__init__(dtm, frame, err_msg=, comment=)`; `frame` = "RSS " ++ frame text -/
def mkPacket (text errMsg comment : List Char) : Py Pkt :=
  match parseFrame (text.drop 4) with
  | .error e => .error e
  | .ok f =>
    match pktLifespan f with
    | .error .assertionError => .error .pktInvalid     -- (fix) was: escaped as AssertionError
    | .error .valueError => .error .pktInvalid         -- (fix) was: escaped as ValueError
    | .error e => .error e
    | .ok us =>
      if errMsg ≠ [] then .error .pktInvalid
      else match validateSlices (text.drop 4) with
        | .error _ => .error .pktInvalid
        | .ok _ => .ok { rssi := text.take 3, frame := f, lifespan := if us = 0 then none else some us,
                         comment := comment }

/-- `Packet.from_file(dtm, line)` / `from_port`: `stampOk` = does `dt.fromisoformat(dtm)` succeed -/
def pktFromFile (stampOk : Bool) (line : List Char) : Py Pkt :=
  let (frame, err, comment) := pktPartition line
  if frame = [] then .error .valueError
  else if ¬ stampOk then .error .valueError
  else mkPacket frame err comment

/-- `Packet.from_dict(dtm, line)`: no empty-frame test, err_msg dropped -/
def pktFromDict (stampOk : Bool) (line : List Char) : Py Pkt :=
  let (frame, _, comment) := pktPartition line
  if ¬ stampOk then .error .valueError
  else mkPacket frame [] comment

/-- one packet-log line as the logger writes it (stamp = 26 chars) -/
def writeLogLine (stamp rssi : List Char) (f : Frame) (comment : List Char) : List Char :=
  stamp ++ ' ' :: rssi ++ ' ' :: printFrame f ++ (if comment = [] then [] else " # ".toList ++ comment)

end Ramses
