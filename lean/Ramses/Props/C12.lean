/-
  C12 — active discovery reconstructs the controller's configuration, whatever it is.

  `cfg` is an arbitrary configuration (any zones, classes, sensors, actuator lists, DHW parts,
  appliance control); losses are arbitrary per round.  The learner is the abstract one of
  Model/Discovery.lean; that the real gateway learns the same, day by day, is the per-run comparison.
-/
import Ramses.Model.Discovery
namespace Ramses.C12
open Ramses.Disc

/-! ### orders and invariants -/

def optOk (a b : Option String) : Prop := a = none ∨ a = b

/-- what is known about a zone is true of the controller's zone -/
def ZoneOk (zc : ZoneCfg) (z : ZoneSch) : Prop :=
  (z.cls = none ∨ z.cls = some zc.cls) ∧ (z.sensor = none ∨ z.sensor = zc.sensor) ∧ (∀ d ∈ z.actuators, d ∈ zc.actuators)

/-- **nothing the gateway believes is something the controller did not say** -/
def Consistent (cfg : Cfg) (s : Sch) : Prop :=
  (∀ i z, s.zone i = some z → ∃ zc, cfg.zone i = some zc ∧ ZoneOk zc z) ∧
  optOk s.dhwSensor cfg.dhwSensor ∧ optOk s.hwValve cfg.hwValve ∧ optOk s.htgValve cfg.htgValve ∧ optOk s.app cfg.app

def ZoneLe (z z' : ZoneSch) : Prop :=
  (z.cls ≠ none → z'.cls = z.cls) ∧ (z.sensor ≠ none → z'.sensor = z.sensor) ∧ (∀ d ∈ z.actuators, d ∈ z'.actuators)

def optLe (a b : Option String) : Prop := a ≠ none → b = a

/-- the information order: `s'` knows everything `s` knows -/
def Le (s s' : Sch) : Prop :=
  (∀ i z, s.zone i = some z → ∃ z', s'.zone i = some z' ∧ ZoneLe z z') ∧
  optLe s.dhwSensor s'.dhwSensor ∧ optLe s.hwValve s'.hwValve ∧ optLe s.htgValve s'.htgValve ∧ optLe s.app s'.app

theorem ZoneLe.refl (z : ZoneSch) : ZoneLe z z := ⟨fun _ => rfl, fun _ => rfl, fun _ h => h⟩

theorem Le.refl (s : Sch) : Le s s :=
  ⟨fun _ z h => ⟨z, h, ZoneLe.refl z⟩, fun _ => rfl, fun _ => rfl, fun _ => rfl, fun _ => rfl⟩

theorem ZoneLe.trans {a b c : ZoneSch} (h1 : ZoneLe a b) (h2 : ZoneLe b c) : ZoneLe a c := by
  obtain ⟨a1, a2, a3⟩ := h1
  obtain ⟨b1, b2, b3⟩ := h2
  refine ⟨fun h => ?_, fun h => ?_, fun d hd => b3 d (a3 d hd)⟩
  · have := a1 h; rw [← this]; exact b1 (by rw [this]; exact h)
  · have := a2 h; rw [← this]; exact b2 (by rw [this]; exact h)

theorem optLe.trans {a b c : Option String} (h1 : optLe a b) (h2 : optLe b c) : optLe a c := by
  intro h; have := h1 h; rw [← this]; exact h2 (by rw [this]; exact h)

theorem Le.trans {a b c : Sch} (h1 : Le a b) (h2 : Le b c) : Le a c := by
  obtain ⟨z1, d1, e1, f1, g1⟩ := h1
  obtain ⟨z2, d2, e2, f2, g2⟩ := h2
  refine ⟨fun i z h => ?_, d1.trans d2, e1.trans e2, f1.trans f2, g1.trans g2⟩
  obtain ⟨z', hz', l1⟩ := z1 i z h
  obtain ⟨z'', hz'', l2⟩ := z2 i z' hz'
  exact ⟨z'', hz'', l1.trans l2⟩

/-! ### `ensureZone` and folds of it -/

theorem keepC_some (a b : Option ZClass) (h : a ≠ none) : keepC a b = a := by
  cases a with
  | none => exact absurd rfl h
  | some x => rfl

theorem keepS_some (a b : Option String) (h : a ≠ none) : keepS a b = a := by
  cases a with
  | none => exact absurd rfl h
  | some x => rfl

theorem ensureZone_zone (s : Sch) (i j : String) (c : Option ZClass) :
    (ensureZone s i c).zone j = if j = i then some (ensured (s.zone i) c) else s.zone j := rfl

theorem ensureZone_rest (s : Sch) (i : String) (c : Option ZClass) :
    (ensureZone s i c).dhwSensor = s.dhwSensor ∧ (ensureZone s i c).hwValve = s.hwValve ∧
    (ensureZone s i c).htgValve = s.htgValve ∧ (ensureZone s i c).app = s.app := by
  exact ⟨rfl, rfl, rfl, rfl⟩

theorem ensured_idem (o : Option ZoneSch) (c : Option ZClass) : ensured (some (ensured o c)) c = ensured o c := by
  unfold ensured
  cases o with
  | none => cases c <;> rfl
  | some z => cases hz : z.cls <;> cases c <;> simp [hz, keepC]

def ensureAll (s : Sch) (idxs : List String) (c : Option ZClass) : Sch := idxs.foldl (fun s i => ensureZone s i c) s

theorem ensureAll_zone (c : Option ZClass) : ∀ (idxs : List String) (s : Sch) (j : String),
    (ensureAll s idxs c).zone j = if j ∈ idxs then some (ensured (s.zone j) c) else s.zone j := by
  intro idxs
  induction idxs with
  | nil => intro s j; simp [ensureAll]
  | cons i rest ih =>
    intro s j
    simp only [ensureAll, List.foldl_cons] at ih ⊢
    rw [ih (ensureZone s i c) j, ensureZone_zone]
    by_cases hji : j = i
    · subst hji
      by_cases hr : j ∈ rest
      · simp [hr, ensured_idem]
      · simp [hr]
    · simp [hji]

theorem ensureAll_rest (c : Option ZClass) : ∀ (idxs : List String) (s : Sch),
    (ensureAll s idxs c).dhwSensor = s.dhwSensor ∧ (ensureAll s idxs c).hwValve = s.hwValve ∧
    (ensureAll s idxs c).htgValve = s.htgValve ∧ (ensureAll s idxs c).app = s.app := by
  intro idxs
  induction idxs with
  | nil => intro s; simp [ensureAll]
  | cons i rest ih =>
    intro s
    simp only [ensureAll, List.foldl_cons] at ih ⊢
    obtain ⟨a, b, c', d⟩ := ih (ensureZone s i c)
    obtain ⟨a', b', c'', d'⟩ := ensureZone_rest s i c
    exact ⟨a.trans a', b.trans b', c'.trans c'', d.trans d'⟩

theorem ensured_le (z : ZoneSch) (c : Option ZClass) : ZoneLe z (ensured (some z) c) := by
  unfold ensured ZoneLe
  simp only
  exact ⟨fun h => keepC_some _ _ h, fun _ => trivial, fun _ h => h⟩

theorem addAll_mem (ds : List String) : ∀ (l : List String) (d : String), d ∈ addAll l ds ↔ d ∈ l ∨ d ∈ ds := by
  induction ds with
  | nil => intro l d; simp [addAll]
  | cons x xs ih =>
    intro l d
    simp only [addAll, List.foldl_cons] at ih ⊢
    rw [ih]
    by_cases hx : l.contains x = true
    · simp only [hx, if_true, List.mem_cons]
      have : x ∈ l := by simpa using hx
      constructor
      · rintro (h | h)
        · exact Or.inl h
        · exact Or.inr (Or.inr h)
      · rintro (h | h | h)
        · exact Or.inl h
        · subst h; exact Or.inl this
        · exact Or.inr h
    · simp only [hx, Bool.false_eq_true, if_false, List.mem_append, List.mem_cons, List.not_mem_nil, or_false]
      constructor
      · rintro ((h | h) | h)
        · exact Or.inl h
        · exact Or.inr (Or.inl h)
        · exact Or.inr (Or.inr h)
      · rintro (h | h | h)
        · exact Or.inl (Or.inl h)
        · exact Or.inl (Or.inr h)
        · exact Or.inr h

/-! ### learning is monotone: nothing learned is ever lost -/

theorem optKeep_le (a b : Option String) : optLe a (keepS a b) := by
  intro h; cases a with
  | none => exact absurd rfl h
  | some x => rfl

theorem ensureAll_le (s : Sch) (idxs : List String) (c : Option ZClass) : Le s (ensureAll s idxs c) := by
  obtain ⟨a, b, c', d⟩ := ensureAll_rest c idxs s
  refine ⟨fun i z h => ?_, fun _ => a, fun _ => b, fun _ => c', fun _ => d⟩
  rw [ensureAll_zone, h]
  by_cases hi : i ∈ idxs
  · exact ⟨_, by simp [hi], ensured_le z c⟩
  · exact ⟨z, by simp [hi], ZoneLe.refl z⟩

theorem setZone_le (s : Sch) (i : String) (z z' : ZoneSch) (h : s.zone i = some z) (hl : ZoneLe z z') :
    Le s (setZone s i z') := by
  refine ⟨fun j w hw => ?_, fun _ => rfl, fun _ => rfl, fun _ => rfl, fun _ => rfl⟩
  unfold setZone
  simp only
  by_cases hji : j = i
  · subst hji
    rw [h] at hw; cases hw
    exact ⟨z', by simp, hl⟩
  · exact ⟨w, by simp [hji, hw], ZoneLe.refl w⟩

theorem learn_zoneAct_none (s : Sch) (i : String) (role : Option ZClass) (devs : List String) (h : s.zone i = none) :
    learn s (.zoneAct i role devs) = s := by simp only [learn, h]

theorem learn_zoneAct_some (s : Sch) (i : String) (role : Option ZClass) (devs : List String) (z : ZoneSch)
    (h : s.zone i = some z) :
    learn s (.zoneAct i role devs) = if devs = [] then s else
      setZone s i { z with actuators := addAll z.actuators devs, cls := keepC z.cls role } := by
  simp only [learn, h]

theorem learn_zoneSen_some (s : Sch) (i d : String) (z : ZoneSch) (h : s.zone i = some z) :
    learn s (.zoneSen i (some d)) = setZone s i { z with sensor := keepS z.sensor (some d) } := by
  simp only [learn, h]

theorem learn_zoneSen_other (s : Sch) (i : String) (dev : Option String) (h : s.zone i = none ∨ dev = none) :
    learn s (.zoneSen i dev) = s := by
  rcases h with h | h
  · cases dev <;> simp only [learn, h]
  · subst h; cases hz : s.zone i <;> simp only [learn, hz]

/-- **whatever is learned is never lost or replaced**: every reply only adds -/
theorem learn_le (s : Sch) (r : R) : Le s (learn s r) := by
  cases r with
  | mask c idxs => exact ensureAll_le s idxs (some c)
  | maskSen idxs => exact ensureAll_le s idxs none
  | zoneAct i role devs =>
    cases hz : s.zone i with
    | none => rw [learn_zoneAct_none s i role devs hz]; exact Le.refl s
    | some z =>
      rw [learn_zoneAct_some s i role devs z hz]
      split
      · exact Le.refl s
      · apply setZone_le s i z _ hz
        exact ⟨fun h => keepC_some _ _ h, fun _ => rfl, fun d hd => (addAll_mem devs z.actuators d).mpr (Or.inl hd)⟩
  | zoneSen i dev =>
    cases hz : s.zone i with
    | none => rw [learn_zoneSen_other s i dev (Or.inl hz)]; exact Le.refl s
    | some z =>
      cases dev with
      | none => rw [learn_zoneSen_other s i none (Or.inr rfl)]; exact Le.refl s
      | some d =>
        rw [learn_zoneSen_some s i d z hz]
        apply setZone_le s i z _ hz
        exact ⟨fun _ => rfl, fun h => keepS_some _ _ h, fun _ hd => hd⟩
  | app dev => exact ⟨fun i z h => ⟨z, h, ZoneLe.refl z⟩, fun _ => rfl, fun _ => rfl, fun _ => rfl, optKeep_le _ _⟩
  | dhwSensor dev => exact ⟨fun i z h => ⟨z, h, ZoneLe.refl z⟩, optKeep_le _ _, fun _ => rfl, fun _ => rfl, fun _ => rfl⟩
  | hwValve dev => exact ⟨fun i z h => ⟨z, h, ZoneLe.refl z⟩, fun _ => rfl, optKeep_le _ _, fun _ => rfl, fun _ => rfl⟩
  | htgValve dev => exact ⟨fun i z h => ⟨z, h, ZoneLe.refl z⟩, fun _ => rfl, fun _ => rfl, optKeep_le _ _, fun _ => rfl⟩

theorem ask_le (cfg : Cfg) (lost : Q → Bool) : ∀ (qs : List Q) (s : Sch), Le s (ask cfg lost s qs) := by
  intro qs
  induction qs with
  | nil => intro s; exact Le.refl s
  | cons q rest ih =>
    intro s
    simp only [ask, List.foldl_cons] at ih ⊢
    by_cases hl : lost q = true
    · simp only [hl, if_true]; exact ih s
    · simp only [hl, Bool.false_eq_true, if_false]
      exact (learn_le s (reply cfg q)).trans (ih _)

theorem round_le (cfg : Cfg) (lost : Q → Bool) (s : Sch) : Le s (round cfg lost s) := by
  unfold round
  exact (ask_le cfg lost sysQs s).trans (ask_le cfg lost _ _)

/-- **losses never undo anything**: after any number of rounds with any losses, everything known
    before is still known -/
theorem rounds_le (cfg : Cfg) : ∀ (ls : List (Q → Bool)) (s : Sch), Le s (rounds cfg ls s) := by
  intro ls
  induction ls with
  | nil => intro s; exact Le.refl s
  | cons l rest ih => intro s; exact (round_le cfg l s).trans (ih _)


/-! ### learning is sound: nothing is learned that the controller did not say -/

theorem ensured_ok (zc : ZoneCfg) (o : Option ZoneSch) (c : Option ZClass) (hc : c = none ∨ c = some zc.cls)
    (ho : ∀ z, o = some z → ZoneOk zc z) : ZoneOk zc (ensured o c) := by
  unfold ensured
  cases o with
  | none => exact ⟨by simpa using hc, Or.inl rfl, by simp⟩
  | some z =>
    obtain ⟨h1, h2, h3⟩ := ho z rfl
    refine ⟨?_, h2, h3⟩
    simp only
    cases hz : z.cls with
    | none => simpa [keepC] using hc
    | some x => rw [hz] at h1; simpa [keepC] using h1

theorem ensureAll_sound (cfg : Cfg) (s : Sch) (idxs : List String) (c : Option ZClass) (hs : Consistent cfg s)
    (hidx : ∀ j ∈ idxs, ∃ zc, cfg.zone j = some zc ∧ (c = none ∨ c = some zc.cls)) :
    Consistent cfg (ensureAll s idxs c) := by
  obtain ⟨hz, h1, h2, h3, h4⟩ := hs
  obtain ⟨a, b, c', d⟩ := ensureAll_rest c idxs s
  refine ⟨fun i z h => ?_, by rw [a]; exact h1, by rw [b]; exact h2, by rw [c']; exact h3, by rw [d]; exact h4⟩
  rw [ensureAll_zone] at h
  by_cases hi : i ∈ idxs
  · simp only [hi, if_true, Option.some.injEq] at h
    obtain ⟨zc, hzc, hcc⟩ := hidx i hi
    refine ⟨zc, hzc, ?_⟩
    rw [← h]
    apply ensured_ok zc _ c hcc
    intro z0 hz0
    obtain ⟨zc', hzc', hok⟩ := hz i z0 hz0
    rw [hzc] at hzc'; cases hzc'; exact hok
  · simp only [hi, if_false] at h
    exact hz i z h

theorem setZone_sound (cfg : Cfg) (s : Sch) (i : String) (z' : ZoneSch) (zc : ZoneCfg) (hs : Consistent cfg s)
    (hzc : cfg.zone i = some zc) (hok : ZoneOk zc z') : Consistent cfg (setZone s i z') := by
  obtain ⟨hz, h1, h2, h3, h4⟩ := hs
  refine ⟨fun j w hw => ?_, h1, h2, h3, h4⟩
  unfold setZone at hw
  simp only at hw
  by_cases hji : j = i
  · subst hji
    simp only [if_true, Option.some.injEq] at hw
    subst hw
    exact ⟨zc, hzc, hok⟩
  · simp only [hji, if_false] at hw
    exact hz j w hw

theorem keepS_ok (a b c : Option String) (ha : optOk a c) (hb : b = c) : optOk (keepS a b) c := by
  unfold optOk keepS at *
  cases a with
  | none => right; exact hb
  | some x => simpa using ha

/-- **nothing is learned that the controller did not say**: every reply of the controller keeps the
    gateway's beliefs true of the controller's configuration -/
theorem learn_sound (cfg : Cfg) (s : Sch) (q : Q) (hs : Consistent cfg s) : Consistent cfg (learn s (reply cfg q)) := by
  cases q with
  | mask c =>
    apply ensureAll_sound cfg s _ (some c) hs
    intro j hj
    have := (List.mem_filter.mp hj).2
    unfold hasClass at this
    cases hz : cfg.zone j with
    | none => simp [hz] at this
    | some zc =>
      simp only [hz, decide_eq_true_eq] at this
      exact ⟨zc, rfl, Or.inr (by rw [this])⟩
  | maskSen =>
    apply ensureAll_sound cfg s _ none hs
    intro j hj
    have := (List.mem_filter.mp hj).2
    unfold hasSensor at this
    cases hz : cfg.zone j with
    | none => simp [hz] at this
    | some zc => exact ⟨zc, rfl, Or.inl rfl⟩
  | zoneAct i role =>
    cases hz : s.zone i with
    | none => simp only [reply]; rw [learn_zoneAct_none s i role _ hz]; exact hs
    | some z =>
      obtain ⟨zc, hzc, o1, o2, o3⟩ := hs.1 i z hz
      have hrep : reply cfg (.zoneAct i role)
          = .zoneAct i role (if role = none ∨ role = some zc.cls then zc.actuators else []) := by
        simp only [reply, hzc]
      rw [hrep, learn_zoneAct_some s i role _ z hz]
      by_cases hr : role = none ∨ role = some zc.cls
      · simp only [hr, if_true]
        by_cases he : zc.actuators = []
        · rw [if_pos he]; exact hs
        · rw [if_neg he]
          apply setZone_sound cfg s i _ zc hs hzc
          refine ⟨?_, o2, ?_⟩
          · simp only
            cases hc : z.cls with
            | none => rcases hr with hr | hr <;> simp [keepC, hr]
            | some x => rw [hc] at o1; simpa [keepC] using o1
          · intro d hd
            rcases (addAll_mem zc.actuators z.actuators d).mp hd with h | h
            · exact o3 d h
            · exact h
      · simp only [hr, if_false, if_true]; exact hs
  | zoneSen i =>
    simp only [reply]
    cases hz : s.zone i with
    | none => rw [learn_zoneSen_other s i _ (Or.inl hz)]; exact hs
    | some z =>
      obtain ⟨zc, hzc, o1, o2, o3⟩ := hs.1 i z hz
      simp only [hzc, Option.bind_some]
      cases hsn : zc.sensor with
      | none => rw [learn_zoneSen_other s i none (Or.inr rfl)]; exact hs
      | some d =>
        rw [learn_zoneSen_some s i d z hz]
        apply setZone_sound cfg s i _ zc hs hzc
        refine ⟨o1, ?_, o3⟩
        simp only
        cases hzs : z.sensor with
        | none => right; simp [keepS, hsn]
        | some x => rw [hzs] at o2; simpa [keepS] using o2
  | app => exact ⟨hs.1, hs.2.1, hs.2.2.1, hs.2.2.2.1, keepS_ok _ _ _ hs.2.2.2.2 rfl⟩
  | dhwSensor => exact ⟨hs.1, keepS_ok _ _ _ hs.2.1 rfl, hs.2.2.1, hs.2.2.2.1, hs.2.2.2.2⟩
  | hwValve => exact ⟨hs.1, hs.2.1, keepS_ok _ _ _ hs.2.2.1 rfl, hs.2.2.2.1, hs.2.2.2.2⟩
  | htgValve => exact ⟨hs.1, hs.2.1, hs.2.2.1, keepS_ok _ _ _ hs.2.2.2.1 rfl, hs.2.2.2.2⟩

theorem ask_sound (cfg : Cfg) (lost : Q → Bool) : ∀ (qs : List Q) (s : Sch), Consistent cfg s → Consistent cfg (ask cfg lost s qs) := by
  intro qs
  induction qs with
  | nil => intro s h; exact h
  | cons q rest ih =>
    intro s h
    simp only [ask, List.foldl_cons] at ih ⊢
    by_cases hl : lost q = true
    · simp only [hl, if_true]; exact ih s h
    · simp only [hl, Bool.false_eq_true, if_false]
      exact ih _ (learn_sound cfg s q h)

theorem round_sound (cfg : Cfg) (lost : Q → Bool) (s : Sch) (h : Consistent cfg s) : Consistent cfg (round cfg lost s) := by
  unfold round
  exact ask_sound cfg lost _ _ (ask_sound cfg lost _ _ h)

theorem empty_consistent (cfg : Cfg) : Consistent cfg Sch.empty :=
  ⟨fun _ _ h => by simp [Sch.empty] at h, Or.inl rfl, Or.inl rfl, Or.inl rfl, Or.inl rfl⟩

/-- after any number of rounds, with any losses, everything the gateway believes is true of the
    controller -/
theorem rounds_sound (cfg : Cfg) : ∀ (ls : List (Q → Bool)) (s : Sch), Consistent cfg s → Consistent cfg (rounds cfg ls s) := by
  intro ls
  induction ls with
  | nil => intro s h; exact h
  | cons l rest ih => intro s h; exact ih _ (round_sound cfg l s h)


/-! ### completeness: one loss-free round finishes the job, from any consistent state -/

def noLoss : Q → Bool := fun _ => false

/-- the controller's zones are among 00 … 0F -/
def InRange (cfg : Cfg) : Prop := ∀ i zc, cfg.zone i = some zc → i ∈ allIdx

def ZoneDone (zc : ZoneCfg) (z : ZoneSch) : Prop :=
  z.cls = some zc.cls ∧ z.sensor = zc.sensor ∧ (∀ d, d ∈ z.actuators ↔ d ∈ zc.actuators)

/-- the schema equals the controller's configuration: the same zones, each with its class, sensor and
    actuators, the DHW parts and the appliance control -/
def Complete (cfg : Cfg) (s : Sch) : Prop :=
  (∀ i, match cfg.zone i with
        | none => s.zone i = none
        | some zc => ∃ z, s.zone i = some z ∧ ZoneDone zc z) ∧
  s.dhwSensor = cfg.dhwSensor ∧ s.hwValve = cfg.hwValve ∧ s.htgValve = cfg.htgValve ∧ s.app = cfg.app

/-- a request that is asked (and not lost) is learned from, and what it taught is still known at the end -/
theorem ask_mem (cfg : Cfg) (q : Q) : ∀ (qs : List Q) (s : Sch), q ∈ qs → Consistent cfg s →
    ∃ sa, Consistent cfg sa ∧ Le s sa ∧ Le (learn sa (reply cfg q)) (ask cfg noLoss s qs) := by
  intro qs
  induction qs with
  | nil => intro s h; simp at h
  | cons x rest ih =>
    intro s hq hs
    simp only [ask, List.foldl_cons, noLoss, Bool.false_eq_true, if_false] at ih ⊢
    rcases List.mem_cons.mp hq with h | h
    · subst h
      exact ⟨s, hs, Le.refl s, by simpa [ask, noLoss] using ask_le cfg noLoss rest (learn s (reply cfg q))⟩
    · obtain ⟨sa, h1, h2, h3⟩ := ih (learn s (reply cfg x)) h (learn_sound cfg s x hs)
      exact ⟨sa, h1, (learn_le s (reply cfg x)).trans h2, h3⟩

theorem keepS_eq (a c : Option String) (h : optOk a c) : keepS a c = c := by
  unfold optOk keepS at *
  cases a with
  | none => rfl
  | some x => simpa using h

theorem opt_final (x fin c : Option String) (hx : x = c) (hle : optLe x fin) (hok : optOk fin c) : fin = c := by
  subst hx
  cases hc : x with
  | none => unfold optOk at hok; rw [hc] at hok; simpa using hok
  | some d => exact hle (by simp [hc]) ▸ hc ▸ rfl

/-- after the system's own requests: every zone of the controller exists and has its class; the DHW
    parts and the appliance control are known -/
theorem sys_phase (cfg : Cfg) (s : Sch) (hr : InRange cfg) (hs : Consistent cfg s) :
    let s1 := ask cfg noLoss s sysQs
    (∀ i zc, cfg.zone i = some zc → ∃ z, s1.zone i = some z ∧ z.cls = some zc.cls) ∧
    s1.dhwSensor = cfg.dhwSensor ∧ s1.hwValve = cfg.hwValve ∧ s1.htgValve = cfg.htgValve ∧ s1.app = cfg.app := by
  intro s1
  have hs1 : Consistent cfg s1 := ask_sound cfg noLoss sysQs s hs
  refine ⟨fun i zc hzc => ?_, ?_, ?_, ?_, ?_⟩
  · -- the mask request for the zone's class
    have hq : Q.mask zc.cls ∈ sysQs := by
      unfold sysQs allClasses
      cases zc.cls <;> simp
    obtain ⟨sa, hsa, _, hle⟩ := ask_mem cfg (.mask zc.cls) sysQs s hq hs
    have hi : i ∈ allIdx := hr i zc hzc
    have hz : (learn sa (reply cfg (.mask zc.cls))).zone i = some (ensured (sa.zone i) (some zc.cls)) := by
      show (ensureAll sa (allIdx.filter (hasClass cfg zc.cls)) (some zc.cls)).zone i = _
      rw [ensureAll_zone]
      have : i ∈ allIdx.filter (hasClass cfg zc.cls) := by
        rw [List.mem_filter]; exact ⟨hi, by simp [hasClass, hzc]⟩
      rw [if_pos this]
    obtain ⟨z1, hz1, hl1⟩ := hle.1 i _ hz
    refine ⟨z1, hz1, ?_⟩
    have hcls : (ensured (sa.zone i) (some zc.cls)).cls = some zc.cls := by
      unfold ensured
      cases hsz : sa.zone i with
      | none => rfl
      | some z0 =>
        obtain ⟨zc', hzc', o1, _, _⟩ := hsa.1 i z0 hsz
        rw [hzc] at hzc'; cases hzc'
        simp only
        rcases o1 with o1 | o1 <;> simp [keepC, o1]
    rw [hl1.1 (by rw [hcls]; simp), hcls]
  · obtain ⟨sa, hsa, _, hle⟩ := ask_mem cfg .dhwSensor sysQs s (by simp [sysQs]) hs
    exact opt_final _ _ _ (keepS_eq _ _ hsa.2.1) hle.2.1 hs1.2.1
  · obtain ⟨sa, hsa, _, hle⟩ := ask_mem cfg .hwValve sysQs s (by simp [sysQs]) hs
    exact opt_final _ _ _ (keepS_eq _ _ hsa.2.2.1) hle.2.2.1 hs1.2.2.1
  · obtain ⟨sa, hsa, _, hle⟩ := ask_mem cfg .htgValve sysQs s (by simp [sysQs]) hs
    exact opt_final _ _ _ (keepS_eq _ _ hsa.2.2.2.1) hle.2.2.2.1 hs1.2.2.2.1
  · obtain ⟨sa, hsa, _, hle⟩ := ask_mem cfg .app sysQs s (by simp [sysQs]) hs
    exact opt_final _ _ _ (keepS_eq _ _ hsa.2.2.2.2) hle.2.2.2.2 hs1.2.2.2.2

theorem setZone_self (s : Sch) (i : String) (z : ZoneSch) : (setZone s i z).zone i = some z := by simp [setZone]

theorem zoneQs_mem (s : Sch) (i : String) (z : ZoneSch) (hi : i ∈ allIdx) (hz : s.zone i = some z) :
    Q.zoneAct i z.cls ∈ zoneQs s ∧ Q.zoneSen i ∈ zoneQs s := by
  unfold zoneQs
  constructor <;> (rw [List.mem_flatMap]; exact ⟨i, hi, by simp [hz]⟩)

/-- **one loss-free polling round completes the schema from any consistent state** — in particular
    from the empty one, and from whatever earlier, lossy rounds have left -/
theorem round_complete (cfg : Cfg) (s : Sch) (hr : InRange cfg) (hs : Consistent cfg s) :
    Complete cfg (round cfg noLoss s) := by
  unfold round
  simp only
  obtain ⟨hA, hd, hw, hh, ha⟩ := sys_phase cfg s hr hs
  generalize hs1def : ask cfg noLoss s sysQs = s1 at *
  have hs1 : Consistent cfg s1 := by rw [← hs1def]; exact ask_sound cfg noLoss sysQs s hs
  have hs2 : Consistent cfg (ask cfg noLoss s1 (zoneQs s1)) := ask_sound cfg noLoss _ s1 hs1
  have hle12 : Le s1 (ask cfg noLoss s1 (zoneQs s1)) := ask_le cfg noLoss _ s1
  refine ⟨fun i => ?_, ?_, ?_, ?_, ?_⟩
  · cases hzc : cfg.zone i with
    | none =>
      simp only
      cases hz2 : (ask cfg noLoss s1 (zoneQs s1)).zone i with
      | none => rfl
      | some z2 =>
        obtain ⟨zc, hzc', _⟩ := hs2.1 i z2 hz2
        rw [hzc] at hzc'; cases hzc'
    | some zc =>
      simp only
      obtain ⟨z1, hz1, hc1⟩ := hA i zc hzc
      have hi : i ∈ allIdx := hr i zc hzc
      obtain ⟨hqa, hqs⟩ := zoneQs_mem s1 i z1 hi hz1
      rw [hc1] at hqa
      obtain ⟨z2, hz2, hl2⟩ := hle12.1 i z1 hz1
      obtain ⟨zc', hzc', o1, o2, o3⟩ := hs2.1 i z2 hz2
      rw [hzc] at hzc'; cases hzc'
      refine ⟨z2, hz2, ?_, ?_, fun d => ⟨o3 d, ?_⟩⟩
      · rw [hl2.1 (by rw [hc1]; simp), hc1]
      · -- the sensor request
        obtain ⟨sa, hsa, hlsa, hle⟩ := ask_mem cfg (.zoneSen i) (zoneQs s1) s1 hqs hs1
        obtain ⟨za, hza, _⟩ := hlsa.1 i z1 hz1
        obtain ⟨zc', hzc', p1, p2, p3⟩ := hsa.1 i za hza
        rw [hzc] at hzc'; cases hzc'
        cases hsn : zc.sensor with
        | none => rcases o2 with o2 | o2
                  · exact o2
                  · rw [o2, hsn]
        | some d =>
          have hrep : reply cfg (.zoneSen i) = .zoneSen i (some d) := by simp [reply, hzc, hsn]
          rw [hrep, learn_zoneSen_some sa i d za hza] at hle
          obtain ⟨zf, hzf, hlf⟩ := hle.1 i _ (setZone_self _ _ _)
          rw [hz2] at hzf; cases hzf
          have hk : keepS za.sensor (some d) = some d := by
            rcases p2 with p2 | p2
            · simp [keepS, p2]
            · rw [p2, hsn]; rfl
          have := hlf.2.1 (by simp only; rw [hk]; simp)
          simp only at this
          rw [this, hk]
      · -- the actuators request, by the zone's class
        intro hd
        obtain ⟨sa, hsa, hlsa, hle⟩ := ask_mem cfg (.zoneAct i (some zc.cls)) (zoneQs s1) s1 hqa hs1
        obtain ⟨za, hza, _⟩ := hlsa.1 i z1 hz1
        have hrep : reply cfg (.zoneAct i (some zc.cls)) = .zoneAct i (some zc.cls) zc.actuators := by
          simp [reply, hzc]
        rw [hrep, learn_zoneAct_some sa i _ _ za hza] at hle
        by_cases he : zc.actuators = []
        · rw [he] at hd; simp at hd
        · rw [if_neg he] at hle
          obtain ⟨zf, hzf, hlf⟩ := hle.1 i _ (setZone_self _ _ _)
          rw [hz2] at hzf; cases hzf
          exact hlf.2.2 d ((addAll_mem zc.actuators za.actuators d).mpr (Or.inr hd))
  · exact opt_final _ _ _ hd hle12.2.1 hs2.2.1
  · exact opt_final _ _ _ hw hle12.2.2.1 hs2.2.2.1
  · exact opt_final _ _ _ hh hle12.2.2.2.1 hs2.2.2.2.1
  · exact opt_final _ _ _ ha hle12.2.2.2.2 hs2.2.2.2.2

/-- **lost requests or replies only delay discovery**: whatever was lost during any number of
    earlier rounds, one later loss-free round arrives at exactly the controller's configuration -/
theorem loss_only_delays (cfg : Cfg) (hr : InRange cfg) (ls : List (Q → Bool)) :
    Complete cfg (rounds cfg (ls ++ [noLoss]) Sch.empty) := by
  have key : ∀ (ls : List (Q → Bool)) (s : Sch), Consistent cfg s → Complete cfg (rounds cfg (ls ++ [noLoss]) s) := by
    intro ls
    induction ls with
    | nil => intro s hs; simpa [rounds] using round_complete cfg s hr hs
    | cons l rest ih => intro s hs; simpa [rounds] using ih _ (round_sound cfg l s hs)
  exact key ls Sch.empty (empty_consistent cfg)

/-- non-vacuity: a two-zone controller with DHW and a relay; the class reply of day 1 is lost -/
example :
    let cfg : Cfg := ⟨fun i => if i = "00" then some ⟨.rad, some "34:092243", ["04:056053", "04:056057"]⟩
                              else if i = "01" then some ⟨.val, some "01:145038", ["13:106039"]⟩ else none,
                      some "07:046947", some "13:237335", none, some "13:049798"⟩
    let lost1 : Q → Bool := fun q => q == .mask .rad
    let s := rounds cfg [lost1, noLoss] Sch.empty
    (s.zone "00" = some ⟨some .rad, some "34:092243", ["04:056053", "04:056057"]⟩) ∧
    (s.zone "01" = some ⟨some .val, some "01:145038", ["13:106039"]⟩) ∧ s.app = some "13:049798" := by
  decide +kernel


end Ramses.C12
