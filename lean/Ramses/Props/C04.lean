/-
  C04 — wire value codecs are exact inverses on their grid.

  Property theorems only (helper lemmas live in Ramses/Proofs).  Floats are Python's binary64,
  modelled exactly (Model/Dbl.lean); the temperature / percentage statements rest on complete
  kernel-evaluated sweeps of the whole grid (Proofs/Sweep), everything else is symbolic.
-/
import Ramses.Proofs.HexLemmas
import Ramses.Proofs.Sweep.CentiAll
namespace Ramses.C04
open Ramses

/-- the 4-hex word of a signed hundredths value (two's complement) -/
def word (k : Int) : List Char := fmtHex 4 (if k ≥ 0 then k.toNat else (k + 2 ^ 16).toNat)

/-- the three hundredths values whose words are sentinels (31FF, 7EFF, 7FFF) -/
def sentinel (k : Int) : Prop := k = 12799 ∨ k = 32511 ∨ k = 32767

theorem centi_roundtrip (k : Int) (h1 : -32768 ≤ k) (h2 : k ≤ 32767) :
    centiOfTemp (decide (k < 0)) (divInt k.natAbs 100) = k := by
  have h := centi_all k.natAbs (by omega)
  simp only [centiOk, beq_iff_eq] at h
  unfold centiOfTemp
  simp only [h]
  by_cases hk : k < 0 <;> simp [hk] <;> omega

/-- **encode**: every temperature k/100 a word can carry is encoded as the word of k
    (so `int(x*100)`-style truncation cannot occur), for the whole grid -/
theorem temp_encode (k : Int) (h1 : -32768 ≤ k) (h2 : k ≤ 32767) :
    hexFromTemp (tempOfCenti k) = .ok (word k) := by
  unfold tempOfCenti hexFromTemp
  simp only [centi_roundtrip k h1 h2]
  have : ¬ (k < -(2 ^ 15) ∨ k ≥ 2 ^ 15) := by omega
  rw [if_neg this]; rfl

theorem word_ne (k : Int) (h1 : -32768 ≤ k) (h2 : k ≤ 32767) (n : Nat) (hn : n < 65536)
    (hne : (if k ≥ 0 then k.toNat else (k + 2 ^ 16).toNat) ≠ n) : word k ≠ fmtHex 4 n := by
  intro h
  apply hne
  exact fmtHex_inj 4 _ _ (by decide) (by split <;> omega) (by simpa using hn) h

/-- **decode ∘ encode = id** on every non-sentinel temperature of the wire grid,
    −273.15 … 327.66 -/
theorem temp_enc_dec (k : Int) (h1 : -27315 ≤ k) (h2 : k ≤ 32767) (hs : ¬ sentinel k) :
    (hexFromTemp (tempOfCenti k)).bind hexToTemp = .ok (tempOfCenti k) := by
  rw [temp_encode k (by omega) h2]
  simp only [Except.bind]
  unfold sentinel at hs
  have hlen : (word k).length = 4 := fmtHex_length 4 _ (by decide) (by split <;> omega)
  have e1 : word k ≠ "31FF".toList :=
    word_ne k (by omega) h2 0x31FF (by decide) (by split <;> omega)
  have e2 : word k ≠ "7EFF".toList :=
    word_ne k (by omega) h2 0x7EFF (by decide) (by split <;> omega)
  have e3 : word k ≠ "7FFF".toList :=
    word_ne k (by omega) h2 0x7FFF (by decide) (by split <;> omega)
  unfold hexToTemp
  simp only [hlen, ne_eq, not_true_eq_false, if_false, e1, e2, e3]
  have hv : ofHex (word k) = some (if k ≥ 0 then k.toNat else (k + 2 ^ 16).toNat) :=
    ofHex_fmtHex 4 _ (by decide) (by split <;> omega)
  rw [hv]
  simp only
  by_cases hk : k ≥ 0
  · simp only [hk, if_true]
    have : k.toNat < 2 ^ 15 := by omega
    simp only [this, if_true]
    have : ((k.toNat : Nat) : Int) = k := by omega
    rw [this]
    have : ¬ (k < -27315) := by omega
    simp [this]
  · simp only [hk, if_false]
    have : ¬ ((k + 2 ^ 16).toNat < 2 ^ 15) := by omega
    simp only [this, if_false]
    have : (((k + 2 ^ 16).toNat : Nat) : Int) - 2 ^ 16 = k := by omega
    rw [this]
    have : ¬ (k < -27315) := by omega
    simp [this]

/-- **encode ∘ decode = id**: every 4-hex word that decodes to a number re-encodes to itself
    (all 65 536 words) -/
theorem temp_dec_enc (w : Nat) (hw : w < 65536) (neg : Bool) (v : Dy)
    (h : hexToTemp (fmtHex 4 w) = .ok (.num neg v)) :
    hexFromTemp (.num neg v) = .ok (fmtHex 4 w) := by
  have hlen : (fmtHex 4 w).length = 4 := fmtHex_length 4 w (by decide) (by simpa using hw)
  have hv : ofHex (fmtHex 4 w) = some w := ofHex_fmtHex 4 w (by decide) (by simpa using hw)
  unfold hexToTemp at h
  simp only [hlen, ne_eq, not_true_eq_false, if_false, hv] at h
  split at h; · cases h
  split at h; · cases h
  split at h; · cases h
  by_cases hlt : w < 2 ^ 15
  · simp only [hlt, if_true] at h
    split at h; · cases h
    have he := temp_encode (w : Int) (by omega) (by omega)
    unfold tempOfCenti at h he
    injection h with h
    rw [← h, he]
    unfold word
    have : ((w : Int) ≥ 0) := by omega
    simp [this]
  · simp only [hlt, if_false] at h
    split at h; · cases h
    rename_i hk
    have he := temp_encode ((w : Int) - 2 ^ 16) (by omega) (by omega)
    unfold tempOfCenti at h he
    injection h with h
    rw [← h, he]
    unfold word
    have : ¬ (((w : Int) - 2 ^ 16) ≥ 0) := by omega
    simp only [this, if_false]
    have : ((w : Int) - 2 ^ 16 + 2 ^ 16).toNat = w := by omega
    rw [this]

/-- sentinels survive: `None` and `False` encode to words that decode to themselves -/
theorem temp_sentinels :
    hexFromTemp .none = .ok "7FFF".toList ∧ hexToTemp "7FFF".toList = .ok .none ∧
    hexToTemp "31FF".toList = .ok .none ∧
    hexFromTemp .false_ = .ok "7EFF".toList ∧ hexToTemp "7EFF".toList = .ok .false_ := by
  decide

/-- **no silent wrap**: whatever float is offered, the encoder either refuses it or emits the
    word of exactly `round(value*100)`, which lies in the signed 16-bit range -/
theorem temp_no_wrap (neg : Bool) (v : Dy) (s : List Char)
    (h : hexFromTemp (.num neg v) = .ok s) :
    -(2 ^ 15) ≤ centiOfTemp neg v ∧ centiOfTemp neg v < 2 ^ 15 ∧ s = word (centiOfTemp neg v) := by
  unfold hexFromTemp at h
  simp only at h
  split at h
  · cases h
  · rename_i hr
    injection h with h
    refine ⟨by omega, by omega, ?_⟩
    rw [← h]; rfl

/-- non-vacuity: 20.07 °C (a value the old `int(x*100)` got wrong) and −5.5 °C -/
example : hexFromTemp (tempOfCenti 2007) = .ok "07D7".toList ∧
          hexToTemp "07D7".toList = .ok (tempOfCenti 2007) ∧
          hexFromTemp (tempOfCenti (-550)) = .ok "FDDA".toList ∧
          hexToTemp "FDDA".toList = .ok (tempOfCenti (-550)) ∧
          hexFromTemp (.num false ⟨400, 0⟩) = .error .valueError := by decide +kernel


/-! ## percentages, counters, booleans, flag bytes — complete sweeps of all 256 bytes -/

/-- byte `b` at resolution `hr`: if it decodes to a number it re-encodes to the same byte, if it
    decodes to "not available" that re-encodes to `EF`, which decodes to "not available" -/
def pctByteOk (hr : Bool) (b : Nat) : Bool :=
  match hexToPercent (fmtHex 2 b) hr with
  | .ok (some v) => hexFromPercent (some v) hr == .ok (fmtHex 2 b)
  | .ok none => hexFromPercent none hr == .ok "EF".toList && hexToPercent "EF".toList hr == .ok none
  | .error _ => (if hr then 200 else 100) < b      -- rejected exactly when above 100 %

theorem percent_dec_enc (hr : Bool) (b : Nat) (hb : b < 256) : pctByteOk hr b = true := by
  have h1 : allIn 8 0 (pctByteOk true) = true := by decide +kernel
  have h2 : allIn 8 0 (pctByteOk false) = true := by decide +kernel
  cases hr
  · exact allIn_spec 8 0 _ h2 b (by omega) (by omega)
  · exact allIn_spec 8 0 _ h1 b (by omega) (by omega)

/-- every grid value k/200 (k/100) encodes to byte k and decodes back to the same float -/
def pctGridOk (hr : Bool) (k : Nat) : Bool :=
  let den := if hr then 200 else 100
  k > den ||
  (hexFromPercent (some (divInt k den)) hr == .ok (fmtHex 2 k) &&
   hexToPercent (fmtHex 2 k) hr == .ok (some (divInt k den)))

theorem percent_enc_dec (hr : Bool) (k : Nat) (hk : k ≤ (if hr then 200 else 100)) :
    hexFromPercent (some (divInt k (if hr then 200 else 100))) hr = .ok (fmtHex 2 k) ∧
    hexToPercent (fmtHex 2 k) hr = .ok (some (divInt k (if hr then 200 else 100))) := by
  have h1 : allIn 8 0 (pctGridOk true) = true := by decide +kernel
  have h2 : allIn 8 0 (pctGridOk false) = true := by decide +kernel
  have : pctGridOk hr k = true := by
    cases hr
    · exact allIn_spec 8 0 _ h2 k (by omega) (by simp at hk; omega)
    · exact allIn_spec 8 0 _ h1 k (by omega) (by simp at hk; omega)
  unfold pctGridOk at this
  simp only [Bool.or_eq_true, decide_eq_true_eq, Bool.and_eq_true, beq_iff_eq] at this
  rcases this with h | h
  · omega
  · exact h

/-- out-of-range percentages are refused, never wrapped -/
theorem percent_refuses (v : Dy) (hr : Bool) (h : v.leFrac 1 1 = false) :
    hexFromPercent (some v) hr = .error .valueError := by
  unfold hexFromPercent; simp [h]

/-- counters ("doubles", factor 1): all 65 536 words, symbolically -/
theorem double_enc_dec (n : Nat) (h : n < 65536) (hs : n ≠ 0x7FFF) :
    hexToDouble (fmtHex 4 n) 1 = .ok (some (divInt n 1)) := by
  have hlen : (fmtHex 4 n).length = 4 := fmtHex_length 4 n (by decide) (by simpa using h)
  have hv : ofHex (fmtHex 4 n) = some n := ofHex_fmtHex 4 n (by decide) (by simpa using h)
  have hne : fmtHex 4 n ≠ "7FFF".toList := by
    intro he
    exact hs (fmtHex_inj 4 n 0x7FFF (by decide) (by simpa using h) (by decide) he)
  unfold hexToDouble
  rw [if_neg (by simp [hlen]), if_neg hne, hv]
  simp

def boolOk (b : Option Bool) : Bool := hexToBool (hexFromBool b) == .ok b
theorem bool_roundtrip (b : Option Bool) : hexToBool (hexFromBool b) = .ok b := by
  cases b with
  | none => decide
  | some b => cases b <;> decide

def flagOk (lsb : Bool) (b : Nat) : Bool :=
  match hexToFlag8 (fmtHex 2 b) lsb with
  | .ok bits => hexFromFlag8 bits lsb == .ok (fmtHex 2 b)
  | .error _ => false

theorem flag8_roundtrip (lsb : Bool) (b : Nat) (hb : b < 256) : flagOk lsb b = true := by
  have h1 : allIn 8 0 (flagOk true) = true := by decide +kernel
  have h2 : allIn 8 0 (flagOk false) = true := by decide +kernel
  cases lsb
  · exact allIn_spec 8 0 _ h2 b (by omega) (by omega)
  · exact allIn_spec 8 0 _ h1 b (by omega) (by omega)


/-! ## date-times: symbolic, for every valid date (years 1–9999, leap days, DST bit) -/

/-- the six fields of a 14-char date-time word -/
def dtmFields (v : List Char) : Option (Nat × Nat × Nat × Nat × Nat × Nat) :=
  match takeHex 2 v with
  | none => none
  | some (sec, v) => match takeHex 2 v with
    | none => none
    | some (mi, v) => match takeHex 2 v with
      | none => none
      | some (hr, v) => match takeHex 2 v with
        | none => none
        | some (dd, v) => match takeHex 2 v with
          | none => none
          | some (mo, v) => match takeHex 4 v with
            | none => none
            | some (yy, _) => some (sec, mi, hr, dd, mo, yy)

theorem valid_bounds (d : DateTime) (h : d.valid = true) :
    1 ≤ d.year ∧ d.year ≤ 9999 ∧ 1 ≤ d.month ∧ d.month ≤ 12 ∧ 1 ≤ d.day ∧ d.day ≤ 31 ∧
    d.hour < 24 ∧ d.minute < 60 ∧ d.second < 60 := by
  unfold DateTime.valid at h
  simp only [decide_eq_true_eq] at h
  obtain ⟨h1, h2, h3, h4, h5, h6, h7, h8, h9⟩ := h
  refine ⟨h1, h2, h3, h4, h5, ?_, h7, h8, h9⟩
  unfold daysInMonth at h6
  split at h6
  · split at h6 <;> omega
  · split at h6 <;> omega

theorem dtm_roundtrip_secs (d : DateTime) (hv : d.valid = true) (dst : Bool) :
    hexToDtm (hexFromDtm (some d) dst true) = .ok (some d) := by
  obtain ⟨h1, h2, h3, h4, h5, h6, h7, h8, h9⟩ := valid_bounds d hv
  -- the encoded seconds byte (with or without the DST bit)
  obtain ⟨sec, hsec, hsec128, hfrom⟩ :
      ∃ sec, sec < 256 ∧ sec % 128 = d.second ∧
        hexFromDtm (some d) dst true = fmtHex 2 sec ++ (fmtHex 2 d.minute ++ (fmtHex 2 d.hour ++
          (fmtHex 2 d.day ++ (fmtHex 2 d.month ++ (fmtHex 4 d.year ++ []))))) := by
    cases dst
    · exact ⟨d.second, by omega, by omega, by simp [hexFromDtm]⟩
    · refine ⟨d.second + 128, by omega, by omega, ?_⟩
      have : ¬ (d.second / 128 % 2 = 1) := by omega
      simp [hexFromDtm, this]
  rw [hfrom]
  have l2 : ∀ n, n < 256 → (fmtHex 2 n).length = 2 := fun n hn =>
    fmtHex_length 2 n (by decide) (by simpa using hn)
  have l4 : (fmtHex 4 d.year).length = 4 := fmtHex_length 4 _ (by decide) (by simp; omega)
  have t2 : ∀ n rest, n < 256 → takeHex 2 (fmtHex 2 n ++ rest) = some (n, rest) := fun n rest hn =>
    takeHex_fmtHex 2 n rest (by decide) (by simpa using hn)
  have t4 : ∀ rest, takeHex 4 (fmtHex 4 d.year ++ rest) = some (d.year, rest) := fun rest =>
    takeHex_fmtHex 4 _ rest (by decide) (by simp; omega)
  -- it is not the all-FF sentinel: the month byte would be 255
  have hnf : ¬ (fmtHex 2 d.minute ++ (fmtHex 2 d.hour ++ (fmtHex 2 d.day ++ (fmtHex 2 d.month ++
      (fmtHex 4 d.year ++ [])))) = "FFFFFFFFFFFF".toList) := by
    intro he
    have := congrArg (fun v => dtmFields ('0' :: '0' :: v)) he
    have e0 : ('0' :: '0' :: (fmtHex 2 d.minute ++ (fmtHex 2 d.hour ++ (fmtHex 2 d.day ++
        (fmtHex 2 d.month ++ (fmtHex 4 d.year ++ [])))))) = fmtHex 2 0 ++ (fmtHex 2 d.minute ++
        (fmtHex 2 d.hour ++ (fmtHex 2 d.day ++ (fmtHex 2 d.month ++ (fmtHex 4 d.year ++ []))))) := by
      rfl
    rw [e0] at this
    unfold dtmFields at this
    simp only [t2 0 _ (by omega), t2 d.minute _ (by omega), t2 d.hour _ (by omega),
      t2 d.day _ (by omega), t2 d.month _ (by omega), t4] at this
    have r : dtmFields ('0' :: '0' :: "FFFFFFFFFFFF".toList) = some (0, 255, 255, 255, 255, 65535) := by
      decide
    unfold dtmFields at r
    rw [r] at this
    injection this with this
    simp only [Prod.mk.injEq] at this
    omega
  unfold hexToDtm
  have hlen : (fmtHex 2 sec ++ (fmtHex 2 d.minute ++ (fmtHex 2 d.hour ++ (fmtHex 2 d.day ++
      (fmtHex 2 d.month ++ (fmtHex 4 d.year ++ [])))))).length = 14 := by
    simp [l2 sec hsec, l2 d.minute (by omega), l2 d.hour (by omega), l2 d.day (by omega),
      l2 d.month (by omega), l4]
  have hdrop : (fmtHex 2 sec ++ (fmtHex 2 d.minute ++ (fmtHex 2 d.hour ++ (fmtHex 2 d.day ++
      (fmtHex 2 d.month ++ (fmtHex 4 d.year ++ [])))))).drop (14 - 12) =
      fmtHex 2 d.minute ++ (fmtHex 2 d.hour ++ (fmtHex 2 d.day ++ (fmtHex 2 d.month ++
      (fmtHex 4 d.year ++ [])))) := by
    exact List.drop_left' (l2 sec hsec)
  rw [hlen, hdrop]
  simp only [ne_eq, not_true_eq_false, and_false, if_false, hnf]
  have h14 : ¬ ((14 : Nat) = 12) := by decide
  simp only [h14, if_false, t2 sec _ hsec, t2 d.minute _ (by omega), t2 d.hour _ (by omega),
    t2 d.day _ (by omega), t2 d.month _ (by omega), t4]
  have hh : d.hour % 32 = d.hour := by omega
  rw [hh, hsec128]
  unfold mkDateTime
  simp [hv, Except.map]

/-- the 12-character form (no seconds byte: `until` of a mode command) reads back as the same minute, second 0 -/
theorem dtm_roundtrip_nosecs (d : DateTime) (hv : d.valid = true) :
    hexToDtm (hexFromDtm (some d) false false) = .ok (some { d with second := 0 }) := by
  obtain ⟨h1, h2, h3, h4, h5, h6, h7, h8, h9⟩ := valid_bounds d hv
  have hfrom : hexFromDtm (some d) false false = fmtHex 2 d.minute ++ (fmtHex 2 d.hour ++
      (fmtHex 2 d.day ++ (fmtHex 2 d.month ++ (fmtHex 4 d.year ++ [])))) := by simp [hexFromDtm]
  rw [hfrom]
  have l2 : ∀ n, n < 256 → (fmtHex 2 n).length = 2 := fun n hn =>
    fmtHex_length 2 n (by decide) (by simpa using hn)
  have l4 : (fmtHex 4 d.year).length = 4 := fmtHex_length 4 _ (by decide) (by simp; omega)
  have t2 : ∀ n rest, n < 256 → takeHex 2 (fmtHex 2 n ++ rest) = some (n, rest) := fun n rest hn =>
    takeHex_fmtHex 2 n rest (by decide) (by simpa using hn)
  have t4 : ∀ rest, takeHex 4 (fmtHex 4 d.year ++ rest) = some (d.year, rest) := fun rest =>
    takeHex_fmtHex 4 _ rest (by decide) (by simp; omega)
  have e0 : ∀ rest : List Char, ('0' :: '0' :: rest) = fmtHex 2 0 ++ rest := fun _ => rfl
  have hnf : ¬ (fmtHex 2 d.minute ++ (fmtHex 2 d.hour ++ (fmtHex 2 d.day ++ (fmtHex 2 d.month ++
      (fmtHex 4 d.year ++ [])))) = "FFFFFFFFFFFF".toList) := by
    intro he
    have r : dtmFields ('0' :: '0' :: "FFFFFFFFFFFF".toList) = some (0, 255, 255, 255, 255, 65535) := by
      decide
    have := congrArg (fun v => dtmFields ('0' :: '0' :: v)) he
    rw [r, e0] at this
    unfold dtmFields at this
    simp only [t2 0 _ (by omega), t2 d.minute _ (by omega), t2 d.hour _ (by omega),
      t2 d.day _ (by omega), t2 d.month _ (by omega), t4] at this
    injection this with this
    simp only [Prod.mk.injEq] at this
    omega
  unfold hexToDtm
  have hlen : (fmtHex 2 d.minute ++ (fmtHex 2 d.hour ++ (fmtHex 2 d.day ++
      (fmtHex 2 d.month ++ (fmtHex 4 d.year ++ []))))).length = 12 := by
    simp [l2 d.minute (by omega), l2 d.hour (by omega), l2 d.day (by omega), l2 d.month (by omega), l4]
  rw [hlen]
  simp only [ne_eq, not_true_eq_false, false_and, if_false, Nat.sub_self, List.drop_zero, hnf, if_true, e0]
  simp only [t2 0 _ (by omega), t2 d.minute _ (by omega), t2 d.hour _ (by omega),
    t2 d.day _ (by omega), t2 d.month _ (by omega), t4]
  have hh : d.hour % 32 = d.hour := by omega
  rw [hh]
  have hv0 : ({ d with second := 0 } : DateTime).valid = true := by
    unfold DateTime.valid at hv ⊢
    simp only [decide_eq_true_eq] at hv ⊢
    obtain ⟨a1, a2, a3, a4, a5, a6, a7, a8, _⟩ := hv
    exact ⟨a1, a2, a3, a4, a5, a6, a7, a8, by omega⟩
  unfold mkDateTime
  simp [hv0, Except.map]

/-- packed fault-log timestamps: every second of the century 2000–2099 (the window of the
    library's two-digit-year text form), symbolically -/
theorem dts_roundtrip (d : DateTime) (hv : d.valid = true) (hy0 : 2000 ≤ d.year) (hy : d.year ≤ 2099) :
    hexToDts (hexFromDts (some d)) = .ok (some d) := by
  obtain ⟨h1, h2, h3, h4, h5, h6, h7, h8, h9⟩ := valid_bounds d hv
  unfold hexFromDts
  simp only
  obtain ⟨y, hy1, hy2⟩ : ∃ y, d.year % 100 = y ∧ d.year = 2000 + y := ⟨d.year % 100, rfl, by omega⟩
  rw [hy1]
  have hy3 : y < 100 := by omega
  generalize hx : y * 2 ^ 24 + d.month * 2 ^ 36 + d.day * 2 ^ 31 + d.hour * 2 ^ 19 +
    d.minute * 2 ^ 13 + d.second * 2 ^ 7 = x
  have hxlt : x < 16 ^ 12 := by omega
  have hlen : (fmtHex 12 x).length = 12 := fmtHex_length 12 x (by decide) hxlt
  have hof : ofHex (fmtHex 12 x) = some x := ofHex_fmtHex 12 x (by decide) hxlt
  have hne : fmtHex 12 x ≠ "00000000007F".toList := by
    intro he
    have := fmtHex_inj 12 x 0x7F (by decide) hxlt (by decide) he
    omega
  unfold hexToDts
  rw [if_neg (by simp [hlen]), if_neg hne, hof]
  simp only
  have e1 : 2000 + x / 2 ^ 24 % 128 = d.year := by rw [hy2]; omega
  have e2 : x / 2 ^ 36 % 16 = d.month := by omega
  have e3 : x / 2 ^ 31 % 32 = d.day := by omega
  have e4 : x / 2 ^ 19 % 32 = d.hour := by omega
  have e5 : x / 2 ^ 13 % 64 = d.minute := by omega
  have e6 : x / 2 ^ 7 % 64 = d.second := by omega
  rw [e1, e2, e3, e4, e5, e6]
  unfold mkDateTime
  simp [hv, Except.map]

/-! ## device ids: a bijection over the whole 24-bit space, symbolically -/

theorem id_enc_dec (t n : Nat) (ht : t ≤ 63) (hn : n < 2 ^ 18) (hne : ¬ (t = 63 ∧ n = 262142)) :
    hexIdToDevId (devIdToHexId t n) = .ok (.dev t n) := by
  unfold devIdToHexId hexIdToDevId
  have hlt : t * 2 ^ 18 + n < 16 ^ 6 := by omega
  have hof := ofHex_fmtHex 6 _ (by decide) hlt
  have h1 : fmtHex 6 (t * 2 ^ 18 + n) ≠ "FFFFFE".toList := by
    intro he
    have := fmtHex_inj 6 _ 0xFFFFFE (by decide) hlt (by decide) he
    omega
  rw [if_neg h1]
  have h2 : strip (fmtHex 6 (t * 2 ^ 18 + n)) ≠ [] := by
    rw [fmtHex_eq 6 _ (by decide) hlt]
    intro he
    -- a string of six hex digits has no white space to strip
    have hall : ∀ c ∈ toHexW 6 (t * 2 ^ 18 + n), isSpacePy c = false := by
      intro c hc
      simp only [toHexW, List.nil_append, List.cons_append, List.mem_cons,
        List.not_mem_nil, or_false] at hc
      have hd : ∀ k, k < 16 → isSpacePy (hexDigit k) = false := by
        intro k hk
        have : k = 0 ∨ k = 1 ∨ k = 2 ∨ k = 3 ∨ k = 4 ∨ k = 5 ∨ k = 6 ∨ k = 7 ∨ k = 8 ∨ k = 9 ∨
          k = 10 ∨ k = 11 ∨ k = 12 ∨ k = 13 ∨ k = 14 ∨ k = 15 := by omega
        rcases this with h|h|h|h|h|h|h|h|h|h|h|h|h|h|h|h <;> subst h <;> decide
      rcases hc with h|h|h|h|h|h <;> subst h <;> exact hd _ (Nat.mod_lt _ (by decide))
    have hl := toHexW_length 6 (t * 2 ^ 18 + n)
    unfold strip rstrip lstrip at he
    have e1 : (toHexW 6 (t * 2 ^ 18 + n)).dropWhile isSpacePy = toHexW 6 (t * 2 ^ 18 + n) := by
      cases hh : toHexW 6 (t * 2 ^ 18 + n) with
      | nil => rw [hh] at hl; simp at hl
      | cons a as =>
        have := hall a (by rw [hh]; simp)
        simp [List.dropWhile, this]
    rw [e1] at he
    cases hh : (toHexW 6 (t * 2 ^ 18 + n)).reverse with
    | nil => simp at hh; rw [hh] at hl; simp at hl
    | cons a as =>
      have ha : a ∈ toHexW 6 (t * 2 ^ 18 + n) := by
        have : a ∈ (toHexW 6 (t * 2 ^ 18 + n)).reverse := by rw [hh]; simp
        simpa using this
      have := hall a ha
      rw [hh] at he
      simp [List.dropWhile, this] at he
  rw [if_neg h2, hof]
  simp only
  have e1 : (t * 2 ^ 18 + n) / 2 ^ 18 % 64 = t := by omega
  have e2 : (t * 2 ^ 18 + n) % 2 ^ 18 = n := by omega
  rw [e1, e2]

theorem id_dec_enc (h : Nat) (hh : h < 2 ^ 24) :
    ∃ t n, t ≤ 63 ∧ n < 2 ^ 18 ∧ hexIdToDevId (fmtHex 6 h) = .ok (.dev t n) ∧
      devIdToHexId t n = fmtHex 6 h := by
  refine ⟨h / 2 ^ 18 % 64, h % 2 ^ 18, by omega, by omega, ?_, ?_⟩
  · by_cases hs : h = 0xFFFFFE
    · subst hs; decide
    · have := id_enc_dec (h / 2 ^ 18 % 64) (h % 2 ^ 18) (by omega) (by omega) (by omega)
      unfold devIdToHexId at this
      have e : h / 2 ^ 18 % 64 * 2 ^ 18 + h % 2 ^ 18 = h := by omega
      rw [e] at this
      exact this
  · unfold devIdToHexId
    have e : h / 2 ^ 18 % 64 * 2 ^ 18 + h % 2 ^ 18 = h := by omega
    rw [e]

/-- the all-devices id and the null id -/
theorem id_specials :
    hexIdToDevId "FFFFFE".toList = .ok (.dev 63 262142) ∧ devIdToHexId 63 262142 = "FFFFFE".toList ∧
    hexIdToDevId "      ".toList = .ok .non := by decide

/-- non-vacuity: a real date, with and without DST; a real id -/
example : hexFromDtm (some ⟨2024, 2, 29, 23, 59, 58⟩) true true = "BA3B171D0207E8".toList ∧
    hexToDtm "BA3B171D0207E8".toList = .ok (some ⟨2024, 2, 29, 23, 59, 58⟩) ∧
    hexIdToDevId "06368E".toList = .ok (.dev 1 145038) ∧ devIdToHexId 1 145038 = "06368E".toList := by
  decide

end Ramses.C04
