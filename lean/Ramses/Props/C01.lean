/-
  C01 — reception is total: bad input is rejected cleanly and never stops the stream.

  Model: Model/Recv.lean + Model/Packet.lean (+ Frame/Header).  All statements are for
  unbounded lines / streams / partitions.
-/
import Ramses.Model.Recv
namespace Ramses.C01
open Ramses

/-! ## serial reads: the frames depend only on the bytes, not on how they are cut -/

theorem step_cut (L : List (List Nat)) (c : List Nat) (b : Nat) (h : b = 10 ∧ c.getLast? = some 13) :
    splitStep (L, c) b = (L ++ [c.dropLast], []) := by simp [splitStep, h]

theorem step_keep (L : List (List Nat)) (c : List Nat) (b : Nat) (h : ¬ (b = 10 ∧ c.getLast? = some 13)) :
    splitStep (L, c) b = (L, c ++ [b]) := by simp [splitStep, h]

theorem run_lines (L : List (List Nat)) (c : List Nat) (s : List Nat) :
    s.foldl splitStep (L, c) = (L ++ (s.foldl splitStep ([], c)).1, (s.foldl splitStep ([], c)).2) := by
  induction s generalizing L c with
  | nil => simp
  | cons b s ih =>
    simp only [List.foldl_cons]
    by_cases h : b = 10 ∧ c.getLast? = some 13
    · rw [step_cut L c b h, step_cut [] c b h, ih (L ++ [c.dropLast]) [], ih ([] ++ [c.dropLast]) []]
      simp
    · rw [step_keep L c b h, step_keep [] c b h]
      exact ih L (c ++ [b])

/-- a buffer the scanner has left over never contains a complete CR LF: re-scanning it
    yields no line and the same buffer -/
def NoLine (c : List Nat) : Prop := c.foldl splitStep ([], []) = ([], c)

theorem noLine_nil : NoLine [] := rfl

theorem noLine_step (c : List Nat) (b : Nat) (h : NoLine c) (hb : ¬ (b = 10 ∧ c.getLast? = some 13)) :
    NoLine (c ++ [b]) := by
  unfold NoLine at *
  rw [List.foldl_append, h]
  simp only [List.foldl_cons, List.foldl_nil]
  exact step_keep [] c b hb

theorem tail_noLine (s : List Nat) (c : List Nat) (h : NoLine c) :
    NoLine (s.foldl splitStep ([], c)).2 := by
  induction s generalizing c with
  | nil => simpa
  | cons b s ih =>
    simp only [List.foldl_cons]
    by_cases hb : b = 10 ∧ c.getLast? = some 13
    · rw [step_cut [] c b hb, run_lines]
      exact ih [] noLine_nil
    · rw [step_keep [] c b hb]
      exact ih _ (noLine_step c b h hb)

/-- resuming from a left-over buffer = re-scanning buffer ++ new data (what the code does) -/
theorem rescan (c d : List Nat) (h : NoLine c) :
    splitCRLF (c ++ d) = d.foldl splitStep ([], c) := by
  unfold splitCRLF
  rw [List.foldl_append, h]

/-- **chunking is irrelevant**: for every way of cutting the byte stream into reads (any
    number of cuts, anywhere — inside a CR LF, 1-byte reads, empty reads), the sequence of
    lines delivered and the final buffer are those of a single read of all the bytes -/
theorem chunking_irrelevant (chunks : List (List Nat)) (buf : List Nat) (h : NoLine buf) :
    feedAll buf chunks = ((splitCRLF (buf ++ chunks.flatten)).2, (splitCRLF (buf ++ chunks.flatten)).1) := by
  induction chunks generalizing buf with
  | nil =>
    simp only [feedAll, List.flatten_nil, List.append_nil]
    unfold splitCRLF
    unfold NoLine at h
    rw [h]
  | cons d ds ih =>
    simp only [feedAll, feed, List.flatten_cons]
    have h1 : NoLine (splitCRLF (buf ++ d)).2 := by
      rw [rescan buf d h]; exact tail_noLine d buf h
    rw [ih _ h1]
    have e1 : splitCRLF ((splitCRLF (buf ++ d)).2 ++ ds.flatten) =
        ds.flatten.foldl splitStep ([], (splitCRLF (buf ++ d)).2) := rescan _ _ h1
    have e2 : splitCRLF (buf ++ (d ++ ds.flatten)) =
        ds.flatten.foldl splitStep (splitCRLF (buf ++ d)) := by
      unfold splitCRLF
      rw [← List.append_assoc, List.foldl_append]
    rw [e1, e2]
    have e3 := run_lines (splitCRLF (buf ++ d)).1 (splitCRLF (buf ++ d)).2 ds.flatten
    rw [show ((splitCRLF (buf ++ d)).1, (splitCRLF (buf ++ d)).2) = splitCRLF (buf ++ d) from rfl] at e3
    rw [e3]


/-! ## one line: nothing but the two sanctioned rejections ever leaves the receive path -/

theorem hasArrayFirst_err (c : HCore) (e : PyExn) (h : hasArrayFirst c = .error e) :
    e = .assertionError := by
  unfold hasArrayFirst at h
  split at h
  · cases h
  · injection h with h; exact h.symm

theorem parseFrame_err (s : List Char) (e : PyExn) (h : parseFrame s = .error e) : e = .pktInvalid := by
  unfold parseFrame at h
  split at h
  · injection h with h; exact h.symm
  · split at h
    · injection h with h; exact h.symm
    · split at h
      · injection h with h; exact h.symm
      · cases h

theorem pktLifespan_err (f : Frame) (e : PyExn) (h : pktLifespan f = .error e) :
    e = .assertionError ∨ e = .valueError := by
  unfold pktLifespan at h
  simp only at h
  split at h; · cases h
  split at h; · cases h
  split at h; · cases h
  split at h; · cases h
  split at h
  · rename_i e' he
    injection h with h
    subst h
    split at he
    · exact Or.inl (hasArrayFirst_err _ _ he)
    · cases he
  · cases h
  · split at h; · cases h
    split at h; · cases h
    split at h; · cases h
    split at h
    · rename_i e' he
      injection h with h
      subst h
      split at he
      · exact Or.inl (hasArrayFirst_err _ _ he)
      · cases he
    · cases h
    · split at h
      · split at h
        · injection h with h; exact Or.inr h.symm
        · split at h; · cases h
          split at h <;> cases h
      · split at h <;> cases h

theorem mkPacket_err (t m c : List Char) (e : PyExn) (h : mkPacket t m c = .error e) : e = .pktInvalid := by
  unfold mkPacket at h
  split at h
  · rename_i e' he
    injection h with h
    rw [← h]; exact parseFrame_err _ _ he
  · split at h
    · injection h with h; exact h.symm
    · injection h with h; exact h.symm
    · rename_i e' hne1 hne2 he
      rcases pktLifespan_err _ _ he with h1 | h1
      · exact absurd h1 (by intro hh; exact hne1 hh)
      · exact absurd h1 (by intro hh; exact hne2 hh)
    · split at h
      · injection h with h; exact h.symm
      · split at h
        · injection h with h; exact h.symm
        · cases h

theorem pktFromFile_err (ok : Bool) (line : List Char) (e : PyExn) (h : pktFromFile ok line = .error e) :
    e = .pktInvalid ∨ (e = .valueError ∧ ((pktPartition line).1 = [] ∨ ok = false)) := by
  unfold pktFromFile at h
  simp only at h
  split at h
  · rename_i hf
    injection h with h; exact Or.inr ⟨h.symm, Or.inl hf⟩
  · split at h
    · rename_i hs
      injection h with h; exact Or.inr ⟨h.symm, Or.inr (by simpa using hs)⟩
    · exact Or.inl (mkPacket_err _ _ _ _ h)

/-- **reception of a line is total**: whatever text is offered as a frame line (any length, any
    characters), with a good or a bad time stamp, the outcome is a packet, a clean rejection
    (`PacketInvalid`, or `ValueError`), or "not a frame line" — never another exception -/
theorem recv_total (ok : Bool) (line : List Char) : (frameRead ok line).isEscaped = false := by
  unfold frameRead
  split
  · rfl
  · split
    · rfl
    · rfl
    · rfl
    · rename_i e hne1 hne2 he
      rcases pktFromFile_err _ _ _ he with h | h
      · exact absurd h hne2
      · exact absurd h.1 hne1

/-- `ValueError` is raised only for an empty frame or an undatable line -/
theorem recv_valueError_only_if (ok : Bool) (line : List Char)
    (h : pktFromFile ok line = .error .valueError) : (pktPartition line).1 = [] ∨ ok = false := by
  rcases pktFromFile_err _ _ _ h with h1 | h1
  · cases h1
  · exact h1.2

theorem fileLine_total (ok : Bool) (raw : List Char) : (fileLine ok raw).isEscaped = false := by
  unfold fileLine
  simp only
  split
  · rfl
  · exact recv_total _ _

/-- every sequence of bytes delivered as a serial line (undecodable bytes, chatter, anything) -/
theorem portLine_total (bs : List Nat) : (portLine bs).isEscaped = false := recv_total _ _

/-! ## packet -> message: what escapes is exactly what was never fenced -/

theorem fence_range (e : PyExn) : fence e = .pktInvalid ∨ (fence e = e ∧ fenced e = false) := by
  cases e <;> simp [fence, fenced]

/-- the only assumption about parsers that are not modelled: they raise nothing outside the
    fenced classes (monitored on every generated payload by the correspondence check) -/
def ParserClosed (parser : Frame → Py Unit) : Prop := ∀ f e, parser f = .error e → fenced e = true

theorem msg_total (parser : Frame → Py Unit) (hc : ParserClosed parser) (f : Frame) :
    msgValidate f parser = .ok () ∨ msgValidate f parser = .error .pktInvalid := by
  unfold msgValidate
  split; · exact Or.inr rfl
  split; · exact Or.inr rfl
  split; · exact Or.inr rfl
  split; · exact Or.inl rfl
  split
  · exact Or.inl rfl
  · rename_i e he
    have := hc _ _ he
    unfold fenced at this
    simp only [decide_eq_true_eq] at this
    rw [this]; exact Or.inr rfl

theorem deliver_total (parser : Frame → Py Unit) (hc : ParserClosed parser) (o : Outcome)
    (ho : o.isEscaped = false) : ∀ e, deliver parser o ≠ .escaped e := by
  intro e
  unfold deliver
  split
  · rename_i p
    rcases msg_total parser hc p.frame with h | h <;> rw [h] <;> simp
  · simp [Outcome.isEscaped] at ho
  · simp

/-- what one line contributes to the delivered sequence -/
def deliveredOf (parser : Frame → Py Unit) (o : Outcome) : Option Pkt :=
  match deliver parser o with
  | .delivered p => some p
  | _ => none

/-- **a rejected, blank, chatter or undecodable line never affects the lines that follow**:
    the delivered sequence is the line-by-line filter of the stream, and the reader never stops -/
theorem stream_independent (parser : Frame → Py Unit) (hc : ParserClosed parser)
    (os : List Outcome) (hos : ∀ o ∈ os, o.isEscaped = false) :
    recvStream parser os = (os.filterMap (deliveredOf parser), none) := by
  induction os with
  | nil => rfl
  | cons o os ih =>
    have ho := hos o (by simp)
    have ih' := ih (fun o' h' => hos o' (by simp [h']))
    unfold recvStream
    have hd := deliver_total parser hc o ho
    cases hdo : deliver parser o with
    | escaped e => exact absurd hdo (hd e)
    | none => simp [ih', List.filterMap_cons, deliveredOf, hdo]
    | delivered p => simp [ih', List.filterMap_cons, deliveredOf, hdo]

/-- a whole packet-log file, line by line -/
theorem file_stream_total (parser : Frame → Py Unit) (hc : ParserClosed parser)
    (lines : List (Bool × List Char)) :
    recvStream parser (lines.map fun l => fileLine l.1 l.2) =
      ((lines.map fun l => fileLine l.1 l.2).filterMap (deliveredOf parser), none) :=
  stream_independent parser hc _ (by
    intro o ho
    simp only [List.mem_map] at ho
    obtain ⟨l, _, rfl⟩ := ho
    exact fileLine_total _ _)

/-- a serial byte stream under any partition into reads: same delivered packets -/
theorem serial_stream (parser : Frame → Py Unit) (chunks : List (List Nat)) :
    recvStream parser ((feedAll [] chunks).2.map portLine) =
      recvStream parser ((splitCRLF chunks.flatten).1.map portLine) := by
  rw [chunking_irrelevant chunks [] noLine_nil]
  simp

/-- non-vacuity: an array-shaped 2309 from a non-controller (the line that used to abort a
    whole replay with a bare AssertionError) is now a clean rejection; a good line is a packet -/
example :
    frameRead true "045  I --- 04:000001 --:------ 01:000002 2309 006 0001F40101F4".toList = .invalid ∧
    frameRead true "045 RP --- 10:067219 18:006402 --:------ 3220 001 00".toList = .invalid ∧
    frameRead true "".toList = .skipped ∧ frameRead false "045  I".toList = .valueError ∧
    (frameRead true "045  I --- 01:145038 --:------ 01:145038 2309 006 0001F40101F4".toList).isEscaped = false ∧
    (match frameRead true "045  I --- 01:145038 --:------ 01:145038 2309 006 0001F40101F4".toList with
      | .packet p => decide (p.lifespan = some 360000000) | _ => false) = true := by
  refine ⟨by decide, by decide, by decide, by decide, by decide, by decide⟩

end Ramses.C01
