/-
  C16 (continuation) — the snapshot's own text format: an entry `{repr(pkt)[:26]: repr(pkt)[27:]}` restores
  to the same time stamp (to the microsecond, for every valid date-time, years 1-9999) and the same text.
-/
import Ramses.Props.C02Log
namespace Ramses.C16Key
open Ramses Ramses.LogLine

/-- a saved-state entry reads back as the packet it was made from -/
theorem entry_restores (t : Stamp) (rest : List Char) (hv : t.valid = true) :
    parseStamp (snapEntry t rest).1 = some t ∧ (snapEntry t rest).2 = rest :=
  C02Log.snapEntry_restores t rest hv

/-- two packets with different time stamps have different keys (keys are what makes the snapshot a set) -/
theorem key_injective (t u : Stamp) (r1 r2 : List Char) (ht : t.valid = true) (hu : u.valid = true)
    (h : (snapEntry t r1).1 = (snapEntry u r2).1) : t = u := by
  have a := (C02Log.snapEntry_restores t r1 ht).1
  have b := (C02Log.snapEntry_restores u r2 hu).1
  rw [h, b] at a
  injection a with a
  exact a.symm

end Ramses.C16Key
