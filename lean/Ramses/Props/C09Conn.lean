/-
  C09 (continuation) — "once traffic stops the sender is idle (or inactive if disconnected)": the
  *if* is an *iff*.  For every finite episode (any events, any times, any QoS settings) the sender
  is Inactive exactly when the last connection event was a loss - timers that fire late, callers
  that give up, echoes and replies never bring an Inactive sender back, and never make a connected
  one Inactive.  (Model: Model/Qos.lean; invariant package: Proofs/QosInv.lean.)
-/
import Ramses.Proofs.QosInv
namespace Ramses.C09C
open Ramses Ramses.Qos

/-- is the transport connected after these events (given whether it was before)? -/
def connAfter : Bool → List (Nat × Ev) → Bool
  | c, [] => c
  | _, (_, .connLost) :: r => connAfter false r
  | _, (_, .connMade) :: r => connAfter true r
  | c, (_, .call _) :: r => connAfter c r
  | c, (_, .echo _) :: r => connAfter c r
  | c, (_, .reply _) :: r => connAfter c r

theorem goIdle_active (fuel : Nat) (s : S) : (goIdle fuel s).st ≠ .inactive := by
  induction fuel generalizing s with
  | zero => simp [goIdle]
  | succ n ih =>
    unfold goIdle
    simp only
    split
    · simp
    · split
      · exact ih _
      · split
        · exact ih _
        · simp [startTimer, logWrite]

theorem inactive_cur_none (s : S) (h : Inv s) (hi : s.st = .inactive) : s.cur = none := by
  cases hc : s.cur with
  | none => rfl
  | some c =>
    have := (h.cur_ok c hc).2.2.2.2.2.1
    rw [hi] at this
    rcases this with h1 | h1 <;> cases h1

theorem fireTimer_st (s : S) (h : Inv s) : (fireTimer s).st = .inactive ↔ s.st = .inactive := by
  unfold fireTimer
  cases hc : s.cur with
  | none => simp
  | some c =>
    have hne : s.st ≠ .inactive := by
      intro hi
      have := inactive_cur_none s h hi
      rw [hc] at this; cases this
    simp only
    constructor
    · intro hh
      exfalso
      split at hh
      · split at hh
        · exact goIdle_active _ _ hh
        · simp [startTimer, logWrite] at hh
      · exact goIdle_active _ _ hh
    · intro hh; exact absurd hh hne

theorem callerGivesUp_st (s : S) (id : Nat) (h : Inv s) : (callerGivesUp s id).st = .inactive ↔ s.st = .inactive := by
  unfold callerGivesUp
  split
  · rfl
  · cases hc : s.cur with
    | none => simp [answer]
    | some c =>
      have hne : s.st ≠ .inactive := by
        intro hi
        have := inactive_cur_none s h hi
        rw [hc] at this; cases this
      simp only
      split
      · constructor
        · intro hh; exact absurd hh (goIdle_active _ _)
        · intro hh; exact absurd hh hne
      · simp [answer]

theorem advance_st (fuel : Nat) (s : S) (t : Nat) (h : Inv s) : (advance fuel s t).st = .inactive ↔ s.st = .inactive := by
  induction fuel generalizing s with
  | zero => simp [advance]
  | succ n ih =>
    unfold advance
    split
    · simp
    · rw [ih _ (fireTimer_inv _ (now_inv s _ h)), fireTimer_st _ (now_inv s _ h)]
    · rw [ih _ (callerGivesUp_inv _ _ (now_inv s _ h)), callerGivesUp_st _ _ (now_inv s _ h)]

/-- what one event does to "Inactive": a loss makes it so, a (re)connection ends it, nothing else touches it -/
theorem apply_st (s : S) (e : Ev) (h : Inv s) :
    ((apply s e).st = .inactive) ↔
      (match e with
       | .connLost => True
       | .connMade => False
       | _ => s.st = .inactive) := by
  cases e with
  | call c =>
    simp only [apply]
    split
    · rename_i hi; simp [answer, hi]
    · rename_i hi
      split
      · simp [answer]
      · show _
        split
        · constructor
          · intro hh; exact absurd hh (goIdle_active _ _)
          · intro hh; exact absurd hh hi
        · exact Iff.rfl
  | echo id =>
    simp only [apply]
    cases hc : s.cur with
    | none => simp
    | some c =>
      have hne : s.st ≠ .inactive := by
        intro hi
        have := inactive_cur_none s h hi
        rw [hc] at this; cases this
      simp only
      split
      · split
        · simp [startTimer, hne]
        · constructor
          · intro hh; exact absurd hh (goIdle_active _ _)
          · intro hh; exact absurd hh hne
      · rfl
  | reply id =>
    simp only [apply]
    cases hc : s.cur with
    | none => simp
    | some c =>
      have hne : s.st ≠ .inactive := by
        intro hi
        have := inactive_cur_none s h hi
        rw [hc] at this; cases this
      simp only
      split
      · constructor
        · intro hh; exact absurd hh (goIdle_active _ _)
        · intro hh; exact absurd hh hne
      · rfl
  | connLost =>
    simp only [apply]
    split <;> simp_all [answer]
  | connMade =>
    simp only [apply]
    split
    · simp only [iff_false]; exact goIdle_active _ _
    · rename_i hi; simp [hi]

theorem run_st (evs : List (Nat × Ev)) : ∀ (s : S) (c : Bool), Inv s → FreshEvs s evs →
    (s.st = .inactive ↔ c = false) → ((run s evs).st = .inactive ↔ connAfter c evs = false) := by
  induction evs with
  | nil => intro s c _ _ hc; simpa [run, connAfter] using hc
  | cons te rest ih =>
    intro s c h hf hc
    obtain ⟨t, e⟩ := te
    have hadv := advance_inv 256 s t h
    have hstep := step_inv s t e h hf.1
    have key := apply_st (advance 256 s t) e hadv
    have hs : (advance 256 s t).st = .inactive ↔ c = false := by rw [advance_st 256 s t h]; exact hc
    simp only [run, List.foldl_cons]
    cases e with
    | call q => exact ih (step s t (.call q)) c hstep hf.2 (by unfold step; rw [key]; exact hs)
    | echo i => exact ih (step s t (.echo i)) c hstep hf.2 (by unfold step; rw [key]; exact hs)
    | reply i => exact ih (step s t (.reply i)) c hstep hf.2 (by unfold step; rw [key]; exact hs)
    | connLost => exact ih (step s t .connLost) false hstep hf.2 (by unfold step; rw [key]; simp)
    | connMade => exact ih (step s t .connMade) true hstep hf.2 (by unfold step; rw [key]; simp)

/-- **Inactive exactly when disconnected**, after any finite episode -/
theorem inactive_iff_disconnected (fails : List (Nat × Nat)) (evs : List (Nat × Ev)) (hf : FreshEvs (init fails) evs) :
    (run (init fails) evs).st = .inactive ↔ connAfter true evs = false :=
  run_st evs (init fails) true (init_inv fails) hf (by simp [init])

/-- ... so at rest (nothing in flight) a connected sender is idle -/
theorem rests_idle_when_connected (fails : List (Nat × Nat)) (evs : List (Nat × Ev)) (hf : FreshEvs (init fails) evs)
    (hc : connAfter true evs = true) (h : (run (init fails) evs).cur = none) : (run (init fails) evs).st = .idle := by
  have hinv := run_inv _ evs (init_inv fails) hf
  rcases hinv.idle_ok h with h1 | h1
  · exact h1
  · have := (inactive_iff_disconnected fails evs hf).mp h1
    rw [hc] at this; cases this

/-- non-vacuity: a caller's timeout that falls after a disconnect does not revive the sender -/
example :
    let evs : List (Nat × Ev) := [(0, .call ⟨0, 0, 0, 3, false, true, 1000000⟩), (999999, .connLost), (5000000, .echo 0)]
    (run (init []) evs).st = .inactive ∧ connAfter true evs = false := by decide +kernel

end Ramses.C09C
