/-
  C02 — frame text round-trips: parse then print is the identity (the packet-log clause is in C02Log.lean).

  `parseFrame` / `printFrame` / `parseCommand` / `fromAttrs` are the executable models of
  Frame.__init__, Frame.__repr__, Command.__init__ and Command._from_attrs (Model/Frame.lean).
  All statements are for unbounded strings / all field values.
-/
import Ramses.Model.Frame
import Ramses.Props.C02Log
import Ramses.Proofs.ListLemmas
namespace Ramses.C02
open Ramses

/-- an accepted text is never newline-terminated (the `$` of COMMAND_REGEX tolerates one "\n",
    but the length check that follows cannot hold for it) and has the core shape -/
theorem accepted_core (s : List Char) (f : Frame) (h : parseFrame s = .ok f) :
    isFrameShapeCore s = true := by
  unfold parseFrame at h
  split at h; · cases h
  rename_i hs
  simp only [Bool.not_eq_true, Bool.not_eq_false] at hs
  split at h; · cases h
  split at h; · cases h
  rename_i hlen
  simp only [ne_eq, Decidable.not_not] at hlen
  unfold isFrameShape at hs
  rw [Bool.or_eq_true] at hs
  rcases hs with hs | hs
  · exact hs
  · exfalso
    split at hs
    · rename_i rest hrev
      have hs' : s = rest.reverse ++ ['\n'] := by
        have := congrArg List.reverse hrev
        simpa using this
      have hp : isPayloadShape (rest.reverse.drop 46) = true := by
        unfold isFrameShapeCore at hs
        simp only [Bool.and_eq_true] at hs
        exact hs.2
      unfold isPayloadShape at hp
      simp only [Bool.and_eq_true, decide_eq_true_eq] at hp
      obtain ⟨⟨⟨hp1, hp2⟩, hp3⟩, _⟩ := hp
      have hl : 46 ≤ rest.reverse.length := by
        have : (rest.reverse.drop 46).length = rest.reverse.length - 46 := List.length_drop
        omega
      have hd : s.drop 46 = rest.reverse.drop 46 ++ ['\n'] := by
        rw [hs', List.drop_append_of_le_length hl]
      simp only [frameFields] at hlen
      rw [hd] at hlen
      simp only [List.length_append, List.length_cons, List.length_nil] at hlen
      omega
    · cases hs

/-- **print ∘ parse = id**: whatever text is accepted prints back as exactly that text -/
theorem print_parse (s : List Char) (f : Frame) (h : parseFrame s = .ok f) : printFrame f = s := by
  have hc := accepted_core s f h
  unfold parseFrame at h
  split at h; · cases h
  split at h; · cases h
  split at h; · cases h
  injection h with h
  unfold isFrameShapeCore at hc
  simp only [Bool.and_eq_true, decide_eq_true_eq] at hc
  obtain ⟨⟨⟨⟨⟨⟨⟨⟨⟨⟨⟨⟨⟨⟨⟨⟨_, h23⟩, _⟩, h67⟩, _⟩, h1617⟩, _⟩, h2627⟩, _⟩, h3637⟩, _⟩, _⟩, h4142⟩, _⟩, _⟩, h4546⟩, _⟩ := hc
  rw [← h]
  unfold printFrame frameFields
  simp only
  simp only [List.append_assoc, List.cons_append]
  have sp : ∀ (a : Nat), slice s a (a + 1) = [' '] → ' ' :: s.drop (a + 1) = s.drop a := by
    intro a hh
    have := slice_append_drop s a (a + 1) (by omega)
    rw [hh] at this
    exact this
  rw [sp 45 h4546, slice_append_drop s 42 45 (by omega), sp 41 h4142,
    slice_append_drop s 37 41 (by omega), sp 36 h3637, slice_append_drop s 27 36 (by omega),
    sp 26 h2627, slice_append_drop s 17 26 (by omega), sp 16 h1617,
    slice_append_drop s 7 16 (by omega), sp 6 h67, slice_append_drop s 3 6 (by omega), sp 2 h23]
  exact List.take_append_drop 2 s

/-- the length field of an accepted frame is the payload's byte count, and the fixed-column
    slices of `_validate` are the parsed fields -/
theorem len_is_byte_count (s : List Char) (f : Frame) (h : parseFrame s = .ok f) :
    f.payload.length = pyIntDigits f.len * 2 ∧ f.len = slice s 42 45 ∧ f.payload = s.drop 46 ∧
    f.a0 ++ ' ' :: f.a1 ++ ' ' :: f.a2 = slice s 7 16 ++ ' ' :: slice s 17 26 ++ ' ' :: slice s 27 36 := by
  unfold parseFrame at h
  split at h; · cases h
  split at h; · cases h
  split at h; · cases h
  rename_i hlen
  simp only [ne_eq, Decidable.not_not] at hlen
  injection h with h
  subst h
  exact ⟨hlen, rfl, rfl, rfl⟩


/-! ### parse ∘ print = id on well-formed frames -/

/-- field lengths of a well-formed frame -/
theorem wf_lengths (f : Frame) (h : f.WF = true) :
    f.verb.length = 2 ∧ f.seqn.length = 3 ∧ f.a0.length = 9 ∧ f.a1.length = 9 ∧ f.a2.length = 9 ∧
    f.code.length = 4 ∧ f.len.length = 3 := by
  unfold Frame.WF at h
  simp only [Bool.and_eq_true, Bool.or_eq_true, decide_eq_true_eq] at h
  obtain ⟨⟨⟨⟨⟨⟨⟨⟨⟨hv, hs⟩, h0⟩, h1⟩, h2⟩, _⟩, hc⟩, _⟩, _⟩, hl⟩ := h
  have addr : ∀ a, isValidAddr a = true → a.length = 9 := by
    intro a ha
    unfold isValidAddr at ha
    simp only [Bool.or_eq_true, Bool.and_eq_true, decide_eq_true_eq] at ha
    rcases ha with ha | ha
    · rw [ha]; rfl
    · exact ha.1.1.1
  refine ⟨?_, ?_, addr _ h0, addr _ h1, addr _ h2, hc, ?_⟩
  · simp only [verbs, List.contains_cons, List.contains_nil, Bool.or_false, Bool.or_eq_true,
      beq_iff_eq] at hv
    rcases hv with hv | hv | hv | hv <;> rw [hv] <;> rfl
  · rcases hs with hs | hs
    · rw [hs]; rfl
    · exact hs.1
  · rw [hl]; exact (by simp [toDecW] : (toDecW 3 _).length = 3)

/-- the positional fields of the printed text are the frame's fields, and the separators
    are single spaces -/
theorem fields_of_print (f : Frame) (h2 : f.verb.length = 2) (h3 : f.seqn.length = 3)
    (h4 : f.a0.length = 9) (h5 : f.a1.length = 9) (h6 : f.a2.length = 9)
    (h7 : f.code.length = 4) (h8 : f.len.length = 3) :
    frameFields (printFrame f) = f ∧
    slice (printFrame f) 2 3 = [' '] ∧ slice (printFrame f) 6 7 = [' '] ∧
    slice (printFrame f) 16 17 = [' '] ∧ slice (printFrame f) 26 27 = [' '] ∧
    slice (printFrame f) 36 37 = [' '] ∧ slice (printFrame f) 41 42 = [' '] ∧
    slice (printFrame f) 45 46 = [' '] := by
  obtain ⟨verb, seqn, a0, a1, a2, code, len, payload⟩ := f
  simp only at h2 h3 h4 h5 h6 h7 h8
  obtain ⟨v0, v1, rfl⟩ := len2 verb h2
  obtain ⟨s0, s1, s2, rfl⟩ := len3 seqn h3
  obtain ⟨x0, x1, x2, x3, x4, x5, x6, x7, x8, rfl⟩ := len9 a0 h4
  obtain ⟨y0, y1, y2, y3, y4, y5, y6, y7, y8, rfl⟩ := len9 a1 h5
  obtain ⟨z0, z1, z2, z3, z4, z5, z6, z7, z8, rfl⟩ := len9 a2 h6
  obtain ⟨c0, c1, c2, c3, rfl⟩ := len4 code h7
  obtain ⟨l0, l1, l2, rfl⟩ := len3 len h8
  simp [printFrame, frameFields, slice]

theorem digit_uni (s : List Char) (h : allB isDigit s = true) : allB uniDigit s = true := by
  unfold allB at *
  simp only [List.all_eq_true] at *
  intro c hc
  have := h c hc
  unfold isDigit at this
  unfold uniDigit Re.isUniDigit
  simp only [Bool.and_eq_true, decide_eq_true_eq] at this
  simp [this.1, this.2]

theorem validAddr_shape (a : List Char) (h : isValidAddr a = true) : isAddrShape a = true := by
  unfold isValidAddr at h
  unfold isAddrShape
  simp only [Bool.or_eq_true, Bool.and_eq_true, decide_eq_true_eq] at *
  rcases h with h | h
  · exact Or.inl h
  · exact Or.inr ⟨⟨⟨h.1.1.1, digit_uni _ h.1.1.2⟩, h.1.2⟩, digit_uni _ h.2⟩

theorem pyInt_toDecW3 (n : Nat) (h : n < 1000) :
    pyIntDigits (toDecW 3 n) = n ∧ allB uniDigit (toDecW 3 n) = true := by
  have hd : ∀ k, k < 10 → uniDigitVal (Char.ofNat (48 + k)) = k ∧ uniDigit (Char.ofNat (48 + k)) = true := by
    intro k hk
    have : k = 0 ∨ k = 1 ∨ k = 2 ∨ k = 3 ∨ k = 4 ∨ k = 5 ∨ k = 6 ∨ k = 7 ∨ k = 8 ∨ k = 9 := by omega
    rcases this with h|h|h|h|h|h|h|h|h|h <;> subst h <;> decide
  have a := hd (n / 10 / 10 % 10) (Nat.mod_lt _ (by decide))
  have b := hd (n / 10 % 10) (Nat.mod_lt _ (by decide))
  have c := hd (n % 10) (Nat.mod_lt _ (by decide))
  simp only [toDecW, List.nil_append, List.cons_append, pyIntDigits, List.foldl, a.1, b.1, c.1,
    allB, List.all_cons, List.all_nil, a.2, b.2, c.2, Bool.and_self, and_true]
  omega

/-- **parse ∘ print = id** for every well-formed frame (all verbs, seqn, the three address
    shapes over all ids, any code, payloads of 1–48 bytes) -/
theorem parse_print (f : Frame) (h : f.WF = true) : parseFrame (printFrame f) = .ok f := by
  obtain ⟨l2, l3, l4, l5, l6, l7, l8⟩ := wf_lengths f h
  obtain ⟨hf, s1, s2, s3, s4, s5, s6, s7⟩ := fields_of_print f l2 l3 l4 l5 l6 l7 l8
  have hf' := hf
  unfold frameFields at hf'
  have e1 : (printFrame f).take 2 = f.verb := congrArg Frame.verb hf'
  have e2 : slice (printFrame f) 3 6 = f.seqn := congrArg Frame.seqn hf'
  have e3 : slice (printFrame f) 7 16 = f.a0 := congrArg Frame.a0 hf'
  have e4 : slice (printFrame f) 17 26 = f.a1 := congrArg Frame.a1 hf'
  have e5 : slice (printFrame f) 27 36 = f.a2 := congrArg Frame.a2 hf'
  have e6 : slice (printFrame f) 37 41 = f.code := congrArg Frame.code hf'
  have e7 : slice (printFrame f) 42 45 = f.len := congrArg Frame.len hf'
  have e8 : (printFrame f).drop 46 = f.payload := congrArg Frame.payload hf'
  unfold Frame.WF at h
  simp only [Bool.and_eq_true, Bool.or_eq_true, decide_eq_true_eq] at h
  obtain ⟨⟨⟨⟨⟨⟨⟨⟨⟨hv, hs⟩, h0⟩, h1⟩, h2⟩, hset⟩, hc⟩, hch⟩, hp⟩, hl⟩ := h
  have hpl : f.payload.length / 2 < 1000 := by
    unfold isPayloadShape at hp
    simp only [Bool.and_eq_true, decide_eq_true_eq] at hp
    omega
  obtain ⟨hint, hdig⟩ := pyInt_toDecW3 _ hpl
  have hshape : isFrameShape (printFrame f) = true := by
    unfold isFrameShape isFrameShapeCore
    rw [e1, e2, e3, e4, e5, e6, e7, e8, s1, s2, s3, s4, s5, s6, s7]
    simp only [hv, validAddr_shape _ h0, validAddr_shape _ h1, validAddr_shape _ h2, hc, hch, hp,
      l8, Bool.and_true, Bool.true_and, decide_true, Bool.or_eq_true, Bool.and_eq_true]
    left
    refine ⟨?_, by rw [hl]; exact hdig⟩
    unfold isSeqnShape
    rcases hs with hs | hs
    · simp [hs]
    · simp [hs.1, digit_uni _ hs.2]
  unfold parseFrame
  rw [if_neg (by simp [hshape]), hf]
  have hpa : ∃ r, pktAddrs f.a0 f.a1 f.a2 = .ok r := by
    unfold pktAddrs
    simp only [h0, h1, h2, hset, Bool.and_self, not_true_eq_false, if_false]
    split
    · -- no device address at all contradicts every legal shape
      rename_i hnil
      exfalso
      unfold addrSetOk at hset
      have hn : (nonId.take 2 ≠ "--".toList) = False := by decide
      simp only [List.filter_cons, List.filter_nil] at hnil
      simp only [Bool.or_eq_true, Bool.and_eq_true, decide_eq_true_eq] at hset
      have pick : ∀ a, isValidAddr a = true → a ≠ nonId → ¬ (a.take 2 = ['-', '-']) := by
        intro a ha hne
        unfold isValidAddr at ha
        simp only [Bool.or_eq_true, Bool.and_eq_true, decide_eq_true_eq] at ha
        rcases ha with ha | ha
        · exact absurd ha hne
        · intro hh
          have hd := ha.1.1.2
          rw [hh] at hd
          revert hd; decide
      rcases hset with (hset | hset) | hset
      · have := pick f.a0 h0 hset.1.1.1
        simp [this] at hnil
      · have := pick f.a0 h0 hset.1.1.1.1
        simp [this] at hnil
      · have := pick f.a2 h2 hset.1.1.1
        by_cases c0 : List.take 2 f.a0 = ['-', '-'] <;> by_cases c1 : List.take 2 f.a1 = ['-', '-'] <;>
          simp [c0, c1, this] at hnil
    · exact ⟨_, rfl⟩
    · exact ⟨_, rfl⟩
  obtain ⟨r, hr⟩ := hpa
  rw [hr]
  simp only
  rw [if_neg]
  rw [hl, hint]
  unfold isPayloadShape at hp
  simp only [Bool.and_eq_true, decide_eq_true_eq] at hp
  omega

/-- `Command(frame)` accepts exactly what `Frame(frame)` accepts: the second, fixed-column
    validation can never disagree with the first -/
theorem slices_agree (s : List Char) (f : Frame) (h : parseFrame s = .ok f) :
    parseCommand s = .ok f := by
  have hc := accepted_core s f h
  unfold parseCommand
  rw [h]
  simp only
  have h' := h
  unfold parseFrame at h'
  split at h'; · cases h'
  split at h'; · cases h'
  rename_i r hr
  split at h'; · cases h'
  rename_i hlen
  simp only [ne_eq, Decidable.not_not] at hlen
  unfold isFrameShapeCore at hc
  simp only [Bool.and_eq_true, decide_eq_true_eq] at hc
  obtain ⟨⟨⟨⟨⟨⟨⟨⟨⟨⟨⟨⟨⟨⟨⟨⟨_, _⟩, _⟩, _⟩, _⟩, _⟩, _⟩, _⟩, _⟩, _⟩, _⟩, _⟩, _⟩, _⟩, _⟩, _⟩, hp⟩ := hc
  -- the payload has no space in it, so `[46:].split(" ")[0]` is the payload
  have hnosp : ∀ (p : List Char), allB isUpperHex p = true → (splitOnChar ' ' p).headD [] = p := by
    intro p hp
    induction p with
    | nil => rfl
    | cons c cs ih =>
      unfold allB at hp ih
      simp only [List.all_cons, Bool.and_eq_true] at hp
      have hne : c ≠ ' ' := by
        intro hh; rw [hh] at hp; exact absurd hp.1 (by decide)
      have ih' := ih hp.2
      simp only [splitOnChar]
      split
      · rename_i hh; rw [hh] at ih'; simp at ih'; rw [← ih']; simp [hne]
      · rename_i g gs hh; rw [hh] at ih'; simp at ih'; rw [ih']; simp [hne]
  unfold validateSlices
  unfold isPayloadShape at hp
  simp only [Bool.and_eq_true] at hp
  simp only [hnosp _ hp.2]
  simp only [frameFields] at hlen hr
  rw [if_neg (by simpa using hlen)]
  have ea : ∀ (a b : Nat), slice (slice s 7 36) a b = slice s (7 + a) (7 + (min b 29)) := by
    intro a b
    unfold slice
    rw [List.take_drop, List.take_take, List.drop_drop]
    congr 2
    omega
  have e0 : slice (slice s 7 36) 0 9 = slice s 7 16 := by rw [ea]; rfl
  have e1 : slice (slice s 7 36) 10 19 = slice s 17 26 := by rw [ea]; rfl
  have e2 : slice (slice s 7 36) 20 29 = slice s 27 36 := by rw [ea]; rfl
  simp only [e0, e1, e2, hr]


/-- `Command(frame)` round-trips every well-formed frame -/
theorem command_roundtrip (f : Frame) (h : f.WF = true) : parseCommand (printFrame f) = .ok f :=
  slices_agree _ _ (parse_print f h)

/-- the generic constructor `Command._from_attrs(verb, code, payload, addr0.., seqn)` rebuilds
    exactly the frame whose attributes it is given (the length field is recomputed) -/
theorem attrs_roundtrip (f : Frame) (h : f.WF = true) :
    fromAttrs f.verb f.code f.payload f.a0 f.a1 f.a2 (some f.seqn) = .ok f := by
  obtain ⟨l2, l3, l4, l5, l6, l7, l8⟩ := wf_lengths f h
  have hcmd := command_roundtrip f h
  have h' := h
  unfold Frame.WF at h'
  simp only [Bool.and_eq_true, Bool.or_eq_true, decide_eq_true_eq] at h'
  obtain ⟨⟨⟨⟨⟨⟨⟨⟨⟨hv, hs⟩, h0⟩, h1⟩, h2⟩, hset⟩, hc⟩, hch⟩, hp⟩, hl⟩ := h'
  obtain ⟨x0, x1, x2, x3, x4, x5, x6, x7, x8, e0⟩ := len9 f.a0 l4
  obtain ⟨y0, y1, y2, y3, y4, y5, y6, y7, y8, e1⟩ := len9 f.a1 l5
  obtain ⟨z0, z1, z2, z3, z4, z5, z6, z7, z8, e2⟩ := len9 f.a2 l6
  obtain ⟨v0, v1, ev⟩ := len2 f.verb l2
  have hpa : ∃ r, pktAddrs f.a0 f.a1 f.a2 = .ok r := by
    have hpp := parse_print f h
    unfold parseFrame at hpp
    split at hpp; · cases hpp
    split at hpp; · cases hpp
    rename_i r hr
    obtain ⟨hf, _⟩ := fields_of_print f l2 l3 l4 l5 l6 l7 l8
    rw [hf] at hr
    exact ⟨r, hr⟩
  obtain ⟨r, hr⟩ := hpa
  have hpl : f.payload.length / 2 < 1000 := by
    unfold isPayloadShape at hp
    simp only [Bool.and_eq_true, decide_eq_true_eq] at hp
    omega
  have hseq : (if f.seqn = [] ∨ f.seqn = "-".toList ∨ f.seqn = "--".toList ∨ f.seqn = "---".toList
      then "---".toList else f.seqn) = f.seqn := by
    split
    · rename_i hh
      rcases hh with hh | hh | hh | hh
      · rw [hh] at l3; simp at l3
      · rw [hh] at l3; simp at l3
      · rw [hh] at l3; simp at l3
      · exact hh.symm
    · rfl
  unfold fromAttrs
  have nv1 : ¬ (f.verb = ['I']) := by rw [ev]; simp
  have nv2 : ¬ (f.verb = ['W']) := by rw [ev]; simp
  have n0 : ¬ (f.a0 = []) := by rw [e0]; simp
  have n1 : ¬ (f.a1 = []) := by rw [e1]; simp
  have n2 : ¬ (f.a2 = []) := by rw [e2]; simp
  simp only [nv1, nv2, n0, n1, n2, if_false]
  have j0 : slice (f.a0 ++ ' ' :: f.a1 ++ ' ' :: f.a2) 0 9 = f.a0 := by rw [e0, e1, e2]; rfl
  have j1 : slice (f.a0 ++ ' ' :: f.a1 ++ ' ' :: f.a2) 10 19 = f.a1 := by rw [e0, e1, e2]; rfl
  have j2 : slice (f.a0 ++ ' ' :: f.a1 ++ ' ' :: f.a2) 20 29 = f.a2 := by rw [e0, e1, e2]; rfl
  rw [j0, j1, j2, hr]
  simp only [hseq]
  have hfd : fmtDec3 (f.payload.length / 2) = f.len := by
    unfold fmtDec3; rw [if_pos hpl, hl]
  rw [hfd]
  exact hcmd

/-- non-vacuity: a real frame is well-formed, prints, and parses back -/
example :
    let f : Frame := ⟨"RQ".toList, "---".toList, "01:078710".toList, "10:067219".toList, nonId,
      "3220".toList, "005".toList, "0000050000".toList⟩
    f.WF = true ∧ printFrame f = "RQ --- 01:078710 10:067219 --:------ 3220 005 0000050000".toList ∧
    parseFrame (printFrame f) = .ok f := by decide

end Ramses.C02
