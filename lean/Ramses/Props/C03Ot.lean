/-
  C03 (continuation) — OpenTherm: the parity bit `get_opentherm_data` sets is the one `decode_frame`
  demands, for all 256 msg-ids; `parity` is the parity of the number of one bits.
-/
import Ramses.Model.OpenTherm
namespace Ramses.C03Ot
open Ramses Ramses.OT

/-- **all 256 msg-ids**: the request frame passes the decoder's parity and spare-bit checks -/
theorem rq_parity_ok : ∀ id : Fin 256, frameCheck ((rqPayload id.val).drop 2) = .ok () := by decide +kernel

/-- ... and it is a Read-Data request for that very id with a zero data value -/
theorem rq_fields : ∀ id : Fin 256,
    ofHex (((rqPayload id.val).drop 4).take 2) = some id.val ∧ (rqPayload id.val).drop 6 = "0000".toList ∧
    (ofHex (((rqPayload id.val).drop 2).take 2)).map (fun b => b % 128 / 16) = some 0 := by decide +kernel

/-- `parity` is the parity of the number of one bits - a finite sweep over every 12-bit value (a test of the
    model's `parity`, labelled as such; the claims the property needs are the 256-id theorems above and below) -/
theorem parity_is_popcount_12 (x : Nat) (h : x < 4096) : parity x = popcount 13 x % 2 := by
  have hall : allIn 12 0 (fun k => parity k == popcount 13 k % 2) = true := by decide +kernel
  exact eq_of_beq (allIn_spec 12 0 _ hall x (by omega) (by omega))

/-- flipping the parity bit of a well-formed request makes the decoder refuse it -/
theorem wrong_parity_refused : ∀ id : Fin 256,
    frameCheck ((if parity id.val = 1 then "00".toList else "80".toList) ++ fmtHex 2 id.val ++ "0000".toList) = .error .valueError := by
  decide +kernel

end Ramses.C03Ot
