/-
  C10 — device filters are sound and complete: blocked never passes, allowed never drops.
  Ids are arbitrary strings, lists arbitrary: pure decision logic.
-/
import Ramses.Model.Filter
namespace Ramses.C10
open Ramses

/-- is `id` allowed by the known-list rule (when it is enforced)? -/
def allowed (c : FCfg) (sending : Bool) (id : DevIdT) : Bool :=
  c.active = some id || c.include.contains id || (sending && id = hgiId)

theorem wantedOne_false_iff (c : FCfg) (sending : Bool) (id : DevIdT) :
    wantedOne c sending id = some false ↔
      (c.exclude.contains id = true ∨ (c.enforce = true ∧ allowed c sending id = false)) := by
  unfold wantedOne allowed
  by_cases h1 : c.exclude.contains id = true
  · simp_all
  · by_cases h2 : c.active = some id
    · simp_all
    · by_cases h3 : c.include.contains id = true
      · simp_all
      · by_cases h4 : (sending && id = hgiId) = true
        · simp_all
        · by_cases h5 : c.enforce = true
          · simp_all
          · simp_all

/-- **complete characterisation** of the filter decision, for receive and for send -/
theorem isWanted_iff (c : FCfg) (src dst : DevIdT) (sending : Bool) :
    isWanted c src dst sending = true ↔
      (c.exclude.contains src = false ∧ c.exclude.contains dst = false ∧
       (c.enforce = true → allowed c sending src = true ∧ allowed c sending dst = true)) := by
  unfold isWanted
  by_cases hsd : src = dst
  · subst hsd
    simp only [if_true, List.all_cons, List.all_nil, Bool.and_true, ne_eq, decide_not,
      Bool.not_eq_eq_eq_not, Bool.not_true, decide_eq_false_iff_not]
    rw [wantedOne_false_iff]
    constructor
    · intro h
      have h1 : ¬ (c.exclude.contains src = true) := fun x => h (Or.inl x)
      refine ⟨by simpa using h1, by simpa using h1, fun he => ?_⟩
      have : ¬ (allowed c sending src = false) := fun x => h (Or.inr ⟨he, x⟩)
      simp at this; exact ⟨this, this⟩
    · rintro ⟨h1, _, h3⟩ (h | ⟨he, ha⟩)
      · rw [h1] at h; cases h
      · rw [(h3 he).1] at ha; cases ha
  · simp only [hsd, if_false, List.all_cons, List.all_nil, Bool.and_true, ne_eq, decide_not,
      Bool.and_eq_true, Bool.not_eq_eq_eq_not, Bool.not_true, decide_eq_false_iff_not]
    rw [wantedOne_false_iff, wantedOne_false_iff]
    constructor
    · rintro ⟨hs, hd⟩
      have h1 : ¬ (c.exclude.contains src = true) := fun x => hs (Or.inl x)
      have h2 : ¬ (c.exclude.contains dst = true) := fun x => hd (Or.inl x)
      refine ⟨by simpa using h1, by simpa using h2, fun he => ?_⟩
      have a1 : ¬ (allowed c sending src = false) := fun x => hs (Or.inr ⟨he, x⟩)
      have a2 : ¬ (allowed c sending dst = false) := fun x => hd (Or.inr ⟨he, x⟩)
      simp at a1 a2; exact ⟨a1, a2⟩
    · rintro ⟨h1, h2, h3⟩
      refine ⟨?_, ?_⟩
      · rintro (h | ⟨he, ha⟩)
        · rw [h1] at h; cases h
        · rw [(h3 he).1] at ha; cases ha
      · rintro (h | ⟨he, ha⟩)
        · rw [h2] at h; cases h
        · rw [(h3 he).2] at ha; cases ha

/-- **blocked never passes**: a block-listed source or destination is always filtered out,
    on receive and on send, whatever the other lists say -/
theorem block_sound (c : FCfg) (src dst : DevIdT) (sending : Bool)
    (h : c.exclude.contains src = true ∨ c.exclude.contains dst = true) :
    isWanted c src dst sending = false := by
  cases hw : isWanted c src dst sending
  · rfl
  · have := (isWanted_iff c src dst sending).1 hw
    rcases h with h | h
    · rw [this.1] at h; cases h
    · rw [this.2.1] at h; cases h

/-- **an enforced known list is sound**: an id that is neither listed, nor the active gateway,
    nor a broadcast/null address (nor, when sending, the 18:000730 placeholder) is filtered out -/
theorem known_sound (c : FCfg) (src dst id : DevIdT) (sending : Bool) (he : c.enforce = true)
    (hid : id = src ∨ id = dst) (hn : allowed c sending id = false) :
    isWanted c src dst sending = false := by
  cases hw : isWanted c src dst sending
  · rfl
  · have := ((isWanted_iff c src dst sending).1 hw).2.2 he
    rcases hid with h | h <;> subst h
    · rw [this.1] at hn; cases hn
    · rw [this.2] at hn; cases hn

/-- **allowed never drops**: if neither address is block-listed and (when the known list is
    enforced) both are allowed, the packet/command passes -/
theorem complete (c : FCfg) (src dst : DevIdT) (sending : Bool)
    (h1 : c.exclude.contains src = false) (h2 : c.exclude.contains dst = false)
    (h3 : c.enforce = true → allowed c sending src = true ∧ allowed c sending dst = true) :
    isWanted c src dst sending = true :=
  (isWanted_iff c src dst sending).2 ⟨h1, h2, h3⟩

/-- a block-listed gateway id is never adopted as the active gateway -/
theorem blocked_gateway_not_active (c : FCfg) (id : DevIdT) (h : c.exclude.contains id = true) :
    (setActiveHgi c id).active = c.active := by
  unfold setActiveHgi; simp_all

/-- the active gateway after the connection is made is what the transport identified - unless that
    id is block-listed - and nothing else -/
theorem connectionMade_active (c : FCfg) (r : Option DevIdT) :
    (connectionMade c r).active =
      (match r with
       | none => c.active
       | some id => if c.exclude.contains id then c.active else some id) := by
  cases r with
  | none => rfl
  | some id => simp only [connectionMade, setActiveHgi]; split <;> rfl

/-- ... so a stick that was never identified earns no exemption: with the known list enforced, a
    packet from the 18:000730 placeholder (or from any other unlisted id) is still filtered out on
    receipt -/
theorem unidentified_gateway_not_exempt (excl known : List DevIdT) (src dst : DevIdT)
    (hk : (known ++ [allId, nonId]).contains src = false) :
    isWanted (connectionMade ⟨excl, known, true, none⟩ none) src dst false = false := by
  cases h : isWanted (connectionMade ⟨excl, known, true, none⟩ none) src dst false with
  | false => rfl
  | true =>
    exfalso
    have := ((isWanted_iff _ src dst false).1 h).2.2 rfl
    have h1 := this.1
    simp only [allowed, connectionMade, FCfg.include, Bool.false_and, Bool.or_false] at h1
    rw [hk] at h1
    simp at h1

/-- no device object for a block-listed id (other than the gateway's own id) -/
theorem no_device_for_blocked (c : FCfg) (unwanted : List DevIdT) (hgi : DevIdT) (gd : Option DevIdT)
    (id : DevIdT) (hb : c.exclude.contains id = true) (hne : id ≠ hgi) :
    canCreateDevice c unwanted hgi gd id = false := by
  unfold canCreateDevice; simp_all

/-- with the known list enforced, no device object for an unlisted id (other than the gateway) -/
theorem no_device_for_unlisted (c : FCfg) (unwanted : List DevIdT) (hgi : DevIdT) (gd : Option DevIdT)
    (id : DevIdT) (he : c.enforce = true) (hk : c.known.contains id = false) (hg : gd ≠ some id)
    (hne : id ≠ hgi) : canCreateDevice c unwanted hgi gd id = false := by
  unfold canCreateDevice; simp_all

/-- non-vacuity -/
example :
    let c : FCfg := ⟨["13:444444".toList], ["01:111111".toList], true, some "18:006402".toList⟩
    isWanted c "01:111111".toList "18:006402".toList false = true ∧
    isWanted c "01:111111".toList "13:444444".toList false = false ∧
    isWanted c "01:333333".toList "01:111111".toList false = false ∧
    isWanted c "18:000730".toList "01:111111".toList true = true ∧
    isWanted c "18:000730".toList "01:111111".toList false = false := by decide

end Ramses.C10
